#!/usr/bin/env python3
"""Regenerates MANIFEST.json from props.json (the per-property registry used by ./check)."""
import json, os
here = os.path.dirname(os.path.abspath(__file__))
props = {fn[:-5]: json.load(open(os.path.join(here, "props.d", fn))) for fn in sorted(os.listdir(os.path.join(here, "props.d"))) if fn.endswith(".json")}
all_ids = [json.loads(l)["id"] for l in open(os.path.join(here, "properties.jsonl")) if l.strip()]
checks = []
for pid in all_ids:
    if pid not in props or props[pid].get("not_applicable"):
        continue
    c = props[pid]
    checks.append({
        "property_id": pid,
        "quick_cmd": "./check %s --tier quick" % pid,
        "thorough_cmd": "./check %s --tier thorough" % pid,
        "evidence_file": "/verif/evidence/%s.json" % pid,
        "replay_cmd_template": "./check %s --replay {path}" % pid,
        "engine": "lean4-proof+correspondence",
        "level_claimed": {"category": c.get("level", "proof"), "text": c["level_text"], "design_ref": c.get("design_ref", "DESIGN.md section 6, " + pid)},
        "level_note": c["level_note"],
        "technique": c.get("technique", "Lean 4 theorems over a hand-written twin + differential correspondence with the Go code"),
    })
na = [{"property_id": pid, "reason": (props.get(pid, {}).get("not_applicable") or "no check built yet in this round (work in progress, see DESIGN.md section 10)")} for pid in all_ids if pid not in props or props[pid].get("not_applicable")]
hooks_commits = [l.strip() for l in open(os.path.join(here, "HOOK_COMMITS.txt"))] if os.path.exists(os.path.join(here, "HOOK_COMMITS.txt")) else []
m = {
 "version": 1,
 "setup_cmd": "./check --setup",
 "hooks": {"guard": "verif", "enable": "go build -tags verif (the harness module replaces github.com/onosproject/onos-config with /repo)",
           "baseline_off_cmd": "cd /repo && GOFLAGS=-mod=mod GOPROXY=off GOSUMDB=off go test -vet=off -count=1 ./... && cd test && GOFLAGS=-mod=mod GOPROXY=off GOSUMDB=off go test -vet=off -count=1 ./...",
           "source_commits": hooks_commits, "add_only": True},
 "engines": [{"name": "lean4-proof+correspondence", "path": "/verif/check", "serves_properties": [c["property_id"] for c in checks],
              "kind_free_text": "Lean 4 theorems over a hand-written twin (lean/), facts regenerated from /repo by a go/ast translator (harness/cmd/extract), differential correspondence + property monitors in Go (harness/cmd/corr)"}],
 "checks": checks,
 "not_applicable": na,
 "notes": "See DESIGN.md. KNOWN_FINDINGS.txt lists genuine defects of the unchanged tree; checks print KNOWN-FINDING lines for them and exit 0.",
}
json.dump(m, open(os.path.join(here, "MANIFEST.json"), "w"), indent=1)
print("MANIFEST.json:", len(checks), "checks,", len(na), "not claimed")
