// corr runs one property's correspondence check (see internal/fw).
package main

import (
	"flag"
	"fmt"
	"os"
	"path/filepath"

	"github.com/onosproject/onos-config/verifharness/internal/fw"
	"github.com/onosproject/onos-config/verifharness/props"
)

func main() {
	prop := flag.String("prop", "", "property id")
	tier := flag.String("tier", "quick", "quick|thorough")
	seed := flag.Uint64("seed", 1, "PRNG seed")
	orc := flag.String("oracle", "", "path of the Lean driver binary")
	dir := flag.String("verif", "/verif", "verif directory")
	out := flag.String("out", "", "result file")
	replay := flag.String("replay", "", "replay one script/replay file")
	noTwin := flag.Bool("no-twin", false, "monitors only (the twin does not build)")
	scale := flag.Float64("scale", 0, "multiply the number of generated cases")
	worker := flag.Bool("worker", false, "serve generation/execution requests on stdin (child of a corr run)")
	flag.Parse()
	p, ok := props.All[*prop]
	if !ok {
		fmt.Fprintf(os.Stderr, "corr: no correspondence registered for %s\n", *prop)
		os.Exit(2)
	}
	if *worker {
		fw.WorkerMain(p)
		return
	}
	res, err := fw.Run(p, fw.Opts{Tier: *tier, Seed: *seed, OraclePath: *orc, VerifDir: *dir, ReplayFile: *replay, NoTwin: *noTwin, Scale: *scale})
	if err != nil {
		fmt.Fprintf(os.Stderr, "corr: %v\n", err)
		os.Exit(2)
	}
	known := fw.LoadKnown(filepath.Join(*dir, "KNOWN_FINDINGS.txt"), p.ID)
	os.Exit(fw.Emit(res, known, *out))
}
