package main

// C03G fact: the guard in the PROTO branch of createUpdate (pkg/northbound/gnmi/v2/get_utils.go)
// that skips a selected value — translated to (shape, left operand, right operand).

import (
	"fmt"
	"go/ast"
	"go/token"
)

// operand renders `len(x)` with its argument (exprString drops call arguments).
func operand(e ast.Expr) string {
	if c, ok := e.(*ast.CallExpr); ok && len(c.Args) == 1 {
		return exprString(c.Fun) + "(" + exprString(c.Args[0]) + ")"
	}
	return exprString(e)
}

func init() {
	sections = append(sections, func() {
		rel := "pkg/northbound/gnmi/v2/get_utils.go"
		f := parseFile(rel)
		fd := findFunc(f, "createUpdate")
		if fd == nil {
			fail("%s: createUpdate not found", rel)
			return
		}
		shape, a, b := "", "", ""
		found := 0
		ast.Inspect(fd.Body, func(n ast.Node) bool {
			is, ok := n.(*ast.IfStmt)
			if !ok || len(is.Body.List) == 0 {
				return true
			}
			bs, ok := is.Body.List[len(is.Body.List)-1].(*ast.BranchStmt)
			if !ok || bs.Tok != token.CONTINUE {
				return true
			}
			found++
			switch c := is.Cond.(type) {
			case *ast.BinaryExpr:
				shape, a, b = "cmp"+c.Op.String(), operand(c.X), operand(c.Y)
			case *ast.UnaryExpr:
				if call, ok := c.X.(*ast.CallExpr); ok && c.Op == token.NOT && len(call.Args) == 2 {
					shape, a, b = "not:"+exprString(call.Fun), exprString(call.Args[0]), exprString(call.Args[1])
				} else {
					shape = "other:" + exprString(c)
				}
			default:
				shape = "other:" + exprString(is.Cond)
			}
			return true
		})
		if found != 1 {
			fail("%s: createUpdate: expected exactly one `if … { continue }`, found %d", rel, found)
			return
		}
		fmt.Fprintf(&out, "/-- the guard of the PROTO branch of `createUpdate` in %s that skips a selected value: (shape, left, right) -/\ndef protoSkipGuard : String × String × String := (%s, %s, %s)\n\n",
			rel, leanStr(shape), leanStr(a), leanStr(b))
	})
}
