package main

func init() {
	sections = append(sections, func() {
		reg := parseFile("pkg/pluginregistry/registry.go")
		emitIntConst(reg, "pkg/pluginregistry/registry.go", "chunkSize", "chunkSize")
		pth := parseFile("pkg/utils/path/path.go")
		emitStringConst(pth, "pkg/utils/path/path.go", "MatchOnIndex", "matchOnIndex")
		emitStringConst(pth, "pkg/utils/path/path.go", "validPathRegexp", "validPathRegexp")
		emitStringConst(pth, "pkg/utils/path/path.go", "IndexAllowedChars", "indexAllowedChars")
	})
}
