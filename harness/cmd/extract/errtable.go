package main

// C11 facts (tables): the gRPC-code switches of the apply paths (v2 proposal reconcileApply, v3
// transaction applyChange / applyRollback) — which codes are retried, which are waited out, which
// failure type every other code is recorded with —, how the switched-on code is computed from the
// southbound error (`errorCode`), whether the southbound client converts errors with
// errors.FromGRPC, and the Failure.Type -> errors.NewX switches of gnmi Set and admin
// RollbackTransaction.  switch -> association list; nothing compares source text.

import (
	"fmt"
	"go/ast"
	"go/token"
	"strings"
)

func caseLabels(cc *ast.CaseClause, strip string) []string {
	var out []string
	for _, e := range cc.List {
		out = append(out, strings.TrimPrefix(exprString(e), strip))
	}
	return out
}

// findCodeSwitches returns every `switch code { … }` whose clauses hold a nested `switch code`
// (the outer classification switches), in source order.
func findCodeSwitches(fn *ast.FuncDecl) []*ast.SwitchStmt {
	var out []*ast.SwitchStmt
	if fn == nil {
		return nil
	}
	ast.Inspect(fn.Body, func(n ast.Node) bool {
		sw, ok := n.(*ast.SwitchStmt)
		if !ok || sw.Tag == nil || exprString(sw.Tag) != "code" {
			return true
		}
		nested := false
		for _, st := range sw.Body.List {
			ast.Inspect(st, func(m ast.Node) bool {
				if in, ok := m.(*ast.SwitchStmt); ok && in != sw && in.Tag != nil && exprString(in.Tag) == "code" {
					nested = true
				}
				return true
			})
		}
		if nested {
			out = append(out, sw)
		}
		return true
	})
	return out
}

// classifyClause: what a clause of the outer switch does with the change.
//   retry = returns the error (the controller re-queues with back-off)
//   wait  = returns nil without recording anything
//   fail  = records a failure (holds the nested failure-type switch)
func classifyClause(cc *ast.CaseClause) (string, *ast.SwitchStmt) {
	var inner *ast.SwitchStmt
	for _, st := range cc.Body {
		ast.Inspect(st, func(m ast.Node) bool {
			if in, ok := m.(*ast.SwitchStmt); ok && inner == nil && in.Tag != nil && exprString(in.Tag) == "code" {
				inner = in
			}
			return true
		})
	}
	if inner != nil {
		return "fail", inner
	}
	if len(cc.Body) > 0 {
		if ret, ok := cc.Body[len(cc.Body)-1].(*ast.ReturnStmt); ok && len(ret.Results) > 0 {
			last := exprString(ret.Results[len(ret.Results)-1])
			switch last {
			case "err":
				return "retry", nil
			case "nil":
				return "wait", nil
			}
		}
	}
	return "other", nil
}

func emitCodeSwitch(name string, sw *ast.SwitchStmt) {
	var outer []string
	var failure []string
	failDefault := "UNKNOWN" // `var failureType configapi.Failure_Type` starts as the zero value
	for _, st := range sw.Body.List {
		cc := st.(*ast.CaseClause)
		kind, inner := classifyClause(cc)
		outer = append(outer, fmt.Sprintf("(%s, %s)", leanStrList(caseLabels(cc, "codes.")), leanStr(kind)))
		if inner != nil {
			for _, ist := range inner.Body.List {
				icc := ist.(*ast.CaseClause)
				ft := "other"
				if len(icc.Body) == 1 {
					if as, ok := icc.Body[0].(*ast.AssignStmt); ok && len(as.Rhs) == 1 && exprString(as.Lhs[0]) == "failureType" {
						ft = strings.TrimPrefix(exprString(as.Rhs[0]), "configapi.Failure_")
					}
				}
				if icc.List == nil {
					failDefault = ft
					continue
				}
				for _, l := range caseLabels(icc, "codes.") {
					failure = append(failure, fmt.Sprintf("(%s, %s)", leanStr(l), leanStr(ft)))
				}
			}
		}
	}
	fmt.Fprintf(&out, "/-- outer `switch code` of %s: (case labels — empty = default, what the clause does) in source order -/\ndef %sOuter : List (List String × String) := [%s]\n", name, name, strings.Join(outer, ", "))
	fmt.Fprintf(&out, "/-- nested `switch code` of %s: code ↦ failure type; codes without a case keep the zero value -/\ndef %sFailure : List (String × String) := [%s]\ndef %sFailureDefault : String := %s\n\n", name, name, strings.Join(failure, ", "), name, leanStr(failDefault))
}

// codeSource: how the switched-on `code` is computed from the southbound error, as a list of
// (guard, function): guard "typed" = the error is an onos-lib-go *errors.TypedError, "else".
func codeSource(file *ast.File, fn *ast.FuncDecl) [][2]string {
	var src ast.Expr
	ast.Inspect(fn.Body, func(n ast.Node) bool {
		if as, ok := n.(*ast.AssignStmt); ok && src == nil && len(as.Lhs) == 1 && len(as.Rhs) == 1 && exprString(as.Lhs[0]) == "code" {
			src = as.Rhs[0]
		}
		return true
	})
	call, ok := src.(*ast.CallExpr)
	if !ok {
		return [][2]string{{"else", "other"}}
	}
	name := exprString(call.Fun)
	if name == "status.Code" {
		return [][2]string{{"else", "status.Code"}}
	}
	helper := findFunc(file, name)
	if helper == nil {
		return [][2]string{{"else", "other:" + name}}
	}
	var res [][2]string
	for _, st := range helper.Body.List {
		switch x := st.(type) {
		case *ast.IfStmt:
			guard := "other"
			if as, ok := x.Init.(*ast.AssignStmt); ok && len(as.Rhs) == 1 {
				if ta, ok := as.Rhs[0].(*ast.TypeAssertExpr); ok && exprString(ta.Type) == "*errors.TypedError" {
					if id, ok := x.Cond.(*ast.Ident); ok && id.Name == "ok" {
						guard = "typed"
					}
				}
			}
			res = append(res, [2]string{guard, returnedCodeFn(x.Body)})
		case *ast.ReturnStmt:
			res = append(res, [2]string{"else", returnedCodeFn(&ast.BlockStmt{List: []ast.Stmt{x}})})
		}
	}
	return res
}

func returnedCodeFn(b *ast.BlockStmt) string {
	if len(b.List) != 1 {
		return "other"
	}
	ret, ok := b.List[0].(*ast.ReturnStmt)
	if !ok || len(ret.Results) != 1 {
		return "other"
	}
	switch exprString(ret.Results[0]) {
	case "status.Code()":
		return "status.Code"
	case "errors.Status().Code()":
		return "errors.Status.Code"
	}
	return "other"
}

// failureSwitch finds `switch ….Failure.Type { case configapi.Failure_X: err = errors.NewY(…) }`.
func failureSwitch(fn *ast.FuncDecl) ([][2]string, string) {
	var pairs [][2]string
	def := ""
	if fn == nil {
		return nil, ""
	}
	ast.Inspect(fn.Body, func(n ast.Node) bool {
		sw, ok := n.(*ast.SwitchStmt)
		if !ok || sw.Tag == nil || !strings.HasSuffix(exprString(sw.Tag), "Failure.Type") || pairs != nil {
			return true
		}
		for _, st := range sw.Body.List {
			cc := st.(*ast.CaseClause)
			ctor := "other"
			if len(cc.Body) == 1 {
				if as, ok := cc.Body[0].(*ast.AssignStmt); ok && len(as.Rhs) == 1 {
					if c, ok := as.Rhs[0].(*ast.CallExpr); ok {
						ctor = strings.TrimPrefix(exprString(c.Fun), "errors.New")
					}
				}
			}
			if cc.List == nil {
				def = ctor
				continue
			}
			for _, l := range caseLabels(cc, "configapi.Failure_") {
				pairs = append(pairs, [2]string{l, ctor})
			}
		}
		return true
	})
	return pairs, def
}

// nilFailureCtor: the constructor used when the transaction carries no Failure at all
// (`else { err = errors.NewX("unknown failure occurred") }` next to the switch).
func nilFailureCtor(fn *ast.FuncDecl) string {
	res := ""
	if fn == nil {
		return res
	}
	ast.Inspect(fn.Body, func(n ast.Node) bool {
		ifs, ok := n.(*ast.IfStmt)
		if !ok || res != "" {
			return true
		}
		be, ok := ifs.Cond.(*ast.BinaryExpr)
		if !ok || be.Op != token.NEQ || !strings.HasSuffix(exprString(be.X), "Status.Failure") || exprString(be.Y) != "nil" {
			return true
		}
		if eb, ok := ifs.Else.(*ast.BlockStmt); ok && len(eb.List) == 1 {
			if as, ok := eb.List[0].(*ast.AssignStmt); ok && len(as.Rhs) == 1 {
				if c, ok := as.Rhs[0].(*ast.CallExpr); ok {
					res = strings.TrimPrefix(exprString(c.Fun), "errors.New")
				}
			}
		}
		return true
	})
	return res
}

func leanPairs2(ps [][2]string) string {
	parts := make([]string, len(ps))
	for i, p := range ps {
		parts[i] = fmt.Sprintf("(%s, %s)", leanStr(p[0]), leanStr(p[1]))
	}
	return "[" + strings.Join(parts, ", ") + "]"
}

func init() {
	sections = append(sections, func() {
		fmt.Fprintf(&out, "/-! ### C11: error tables -/\n\n")
		const v2rel = "pkg/controller/v2/proposal/controller.go"
		v2 := parseFile(v2rel)
		v2fn := findFunc(v2, "reconcileApply")
		sws := findCodeSwitches(v2fn)
		if len(sws) != 1 {
			fail("%s: expected one code switch in reconcileApply, found %d", v2rel, len(sws))
			return
		}
		emitCodeSwitch("v2Apply", sws[0])
		fmt.Fprintf(&out, "/-- how reconcileApply computes `code` from the southbound error: (guard, function) in order -/\ndef v2CodeSource : List (String × String) := %s\n\n", leanPairs2(codeSource(v2, v2fn)))

		const v3rel = "pkg/controller/v3/transaction/controller.go"
		v3 := parseFile(v3rel)
		for _, f := range []struct{ goName, leanName string }{{"applyChange", "v3Change"}, {"applyRollback", "v3Rollback"}} {
			fn := findFunc(v3, f.goName)
			sws := findCodeSwitches(fn)
			if len(sws) != 1 {
				fail("%s: expected one code switch in %s, found %d", v3rel, f.goName, len(sws))
				return
			}
			emitCodeSwitch(f.leanName, sws[0])
			fmt.Fprintf(&out, "def %sCodeSource : List (String × String) := %s\n\n", f.leanName, leanPairs2(codeSource(v3, fn)))
		}

		// southbound client: does Set hand back errors.FromGRPC(err)?
		const sbrel = "pkg/southbound/gnmi/client.go"
		sbf := parseFile(sbrel)
		wraps := false
		if sbf != nil {
			for _, d := range sbf.Decls {
				fd, ok := d.(*ast.FuncDecl)
				if !ok || fd.Name.Name != "Set" || fd.Recv == nil {
					continue
				}
				if n := len(fd.Body.List); n > 0 {
					if ret, ok := fd.Body.List[n-1].(*ast.ReturnStmt); ok && len(ret.Results) == 2 {
						if c, ok := ret.Results[1].(*ast.CallExpr); ok && exprString(c.Fun) == "errors.FromGRPC" {
							wraps = true
						}
					}
				}
			}
		}
		fmt.Fprintf(&out, "/-- `client.Set` in %s returns `errors.FromGRPC(err)` -/\ndef clientSetWrapsFromGRPC : Bool := %v\n\n", sbrel, wraps)

		for _, f := range []struct{ rel, goName, leanName string }{
			{"pkg/northbound/gnmi/v2/set.go", "Set", "reportedSet"},
			{"pkg/northbound/admin/admin.go", "RollbackTransaction", "reportedAdmin"},
		} {
			file := parseFile(f.rel)
			fn := findFunc(file, f.goName)
			pairs, def := failureSwitch(fn)
			if pairs == nil {
				fail("%s: Failure.Type switch not found in %s", f.rel, f.goName)
				return
			}
			fmt.Fprintf(&out, "/-- `switch …Failure.Type` of %s in %s: failure type ↦ errors.New… constructor; default; the constructor used when there is no Failure -/\ndef %s : List (String × String) := %s\ndef %sDefault : String := %s\ndef %sNil : String := %s\n\n",
				f.goName, f.rel, f.leanName, leanPairs2(pairs), f.leanName, leanStr(def), f.leanName, leanStr(nilFailureCtor(fn)))
		}
	})
}
