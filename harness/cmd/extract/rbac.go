package main

// C14 facts: the decision structure of utils.TemporaryEvaluate (which strings are compared, how,
// over which ranges; the "no identity" guard; the refusal), the position of the RBAC check inside
// gnmi Set, and the listing filter of reportAllTargets.  Everything is translated to a small IR of
// core Lean values (strings / lists / tuples) that the twin OnosVerif/Rbac/Model.lean *interprets*,
// so a change of the comparison (== -> strings.Contains), of a separator, of the guard or of the
// call order changes the Lean term the C14 theorems are about.

import (
	"fmt"
	"go/ast"
	"go/token"
	"strconv"
	"strings"
)

// atom is one comparison: op in {"==","!=","contains","hasPrefix","hasSuffix","equalFold","other"},
// operands are roles (see classify functions) — never source text of arbitrary expressions.
type atom struct{ op, lhs, rhs string }

func leanAtoms(as []atom) string {
	parts := make([]string, len(as))
	for i, a := range as {
		parts[i] = fmt.Sprintf("(%s, %s, %s)", leanStr(a.op), leanStr(a.lhs), leanStr(a.rhs))
	}
	return "[" + strings.Join(parts, ", ") + "]"
}

// flattenOr splits a condition into its `||` disjuncts; ok=false when it contains `&&`.
func flattenOr(e ast.Expr) ([]ast.Expr, bool) {
	switch x := e.(type) {
	case *ast.ParenExpr:
		return flattenOr(x.X)
	case *ast.BinaryExpr:
		if x.Op == token.LOR {
			l, ok1 := flattenOr(x.X)
			r, ok2 := flattenOr(x.Y)
			return append(l, r...), ok1 && ok2
		}
		if x.Op == token.LAND {
			return []ast.Expr{e}, false
		}
	}
	return []ast.Expr{e}, true
}

func flattenAnd(e ast.Expr) []ast.Expr {
	switch x := e.(type) {
	case *ast.ParenExpr:
		return flattenAnd(x.X)
	case *ast.BinaryExpr:
		if x.Op == token.LAND {
			return append(flattenAnd(x.X), flattenAnd(x.Y)...)
		}
	}
	return []ast.Expr{e}
}

// mkAtom translates one comparison using the operand classifier.
func mkAtom(e ast.Expr, role func(ast.Expr) string) atom {
	switch x := e.(type) {
	case *ast.ParenExpr:
		return mkAtom(x.X, role)
	case *ast.BinaryExpr:
		switch x.Op {
		case token.EQL:
			return atom{"==", role(x.X), role(x.Y)}
		case token.NEQ:
			return atom{"!=", role(x.X), role(x.Y)}
		}
	case *ast.CallExpr:
		if len(x.Args) == 2 {
			op := map[string]string{"strings.Contains": "contains", "strings.HasPrefix": "hasPrefix",
				"strings.HasSuffix": "hasSuffix", "strings.EqualFold": "equalFold"}[exprString(x.Fun)]
			if op != "" {
				return atom{op, role(x.Args[0]), role(x.Args[1])}
			}
		}
	}
	return atom{"other", "other", "other"}
}

// mdGetKey recognises md.Get("<key>") and returns the key.
func mdGetKey(e ast.Expr) (string, bool) {
	c, ok := e.(*ast.CallExpr)
	if !ok || len(c.Args) != 1 {
		return "", false
	}
	sel, ok := c.Fun.(*ast.SelectorExpr)
	if !ok || sel.Sel.Name != "Get" {
		return "", false
	}
	if id, ok := sel.X.(*ast.Ident); !ok || id.Name != "md" {
		return "", false
	}
	bl, ok := c.Args[0].(*ast.BasicLit)
	if !ok || bl.Kind != token.STRING {
		return "", false
	}
	s, err := strconv.Unquote(bl.Value)
	return s, err == nil
}

// stringValue resolves a string literal or a package-level string constant.
func stringValue(file *ast.File, e ast.Expr) (string, bool) {
	switch x := e.(type) {
	case *ast.BasicLit:
		if x.Kind == token.STRING {
			s, err := strconv.Unquote(x.Value)
			return s, err == nil
		}
	case *ast.Ident:
		if v, kind, ok := constValue(file, x.Name); ok && kind == token.STRING {
			s, err := strconv.Unquote(v)
			return s, err == nil
		}
	}
	return "", false
}

// localDef finds `name := <expr>` / `name = <expr>` (single assignment, first one) in a function body.
func localDef(body *ast.BlockStmt, name string) ast.Expr {
	var found ast.Expr
	ast.Inspect(body, func(n ast.Node) bool {
		if found != nil {
			return false
		}
		if as, ok := n.(*ast.AssignStmt); ok && len(as.Lhs) == 1 && len(as.Rhs) == 1 {
			if id, ok := as.Lhs[0].(*ast.Ident); ok && id.Name == name {
				found = as.Rhs[0]
			}
		}
		return true
	})
	return found
}

// getenvName recognises os.Getenv(<string or const>) and returns the variable's name.
func getenvName(file *ast.File, e ast.Expr) (string, bool) {
	c, ok := e.(*ast.CallExpr)
	if !ok || exprString(c.Fun) != "os.Getenv" || len(c.Args) != 1 {
		return "", false
	}
	return stringValue(file, c.Args[0])
}

// runeSeps recognises func(r rune) bool { return r == 'a' || r == 'b' ... } and returns the runes.
func runeSeps(e ast.Expr) (string, bool) {
	fl, ok := e.(*ast.FuncLit)
	if !ok || len(fl.Body.List) != 1 {
		return "", false
	}
	ret, ok := fl.Body.List[0].(*ast.ReturnStmt)
	if !ok || len(ret.Results) != 1 {
		return "", false
	}
	ds, ok := flattenOr(ret.Results[0])
	if !ok {
		return "", false
	}
	var b strings.Builder
	for _, d := range ds {
		be, ok := d.(*ast.BinaryExpr)
		if !ok || be.Op != token.EQL {
			return "", false
		}
		lit, ok := be.Y.(*ast.BasicLit)
		if !ok || lit.Kind != token.CHAR {
			return "", false
		}
		if _, ok := be.X.(*ast.Ident); !ok {
			return "", false
		}
		r, _, _, err := strconv.UnquoteChar(lit.Value[1:len(lit.Value)-1], '\'')
		if err != nil {
			return "", false
		}
		b.WriteRune(r)
	}
	return b.String(), true
}

// pathTo returns the chain of nodes from root down to target (inclusive), nil if not inside.
func pathTo(root ast.Node, target ast.Node) []ast.Node {
	var stack, res []ast.Node
	ast.Inspect(root, func(n ast.Node) bool {
		if n == nil {
			stack = stack[:len(stack)-1]
			return true
		}
		stack = append(stack, n)
		if n == target && res == nil {
			res = append([]ast.Node{}, stack...)
		}
		return true
	})
	return res
}

func endsWithReturn(b *ast.BlockStmt) bool {
	if b == nil || len(b.List) == 0 {
		return false
	}
	_, ok := b.List[len(b.List)-1].(*ast.ReturnStmt)
	return ok
}

func init() {
	sections = append(sections, rbacSection)
}

func rbacSection() {
	const rel = "pkg/utils/rbacevaluate.go"
	file := parseFile(rel)
	fn := findFunc(file, "TemporaryEvaluate")
	if fn == nil {
		fail("%s: TemporaryEvaluate not found", rel)
		return
	}
	// --- the assignment(s) `match = true`
	var sets []*ast.AssignStmt
	ast.Inspect(fn.Body, func(n ast.Node) bool {
		if as, ok := n.(*ast.AssignStmt); ok && len(as.Lhs) == 1 && len(as.Rhs) == 1 {
			l, ok1 := as.Lhs[0].(*ast.Ident)
			r, ok2 := as.Rhs[0].(*ast.Ident)
			if ok1 && ok2 && l.Name == "match" && r.Name == "true" {
				sets = append(sets, as)
			}
		}
		return true
	})
	type loop struct{ role, kind, key, sep string }
	var loops []loop
	var atoms []atom
	settingEnv := ""
	if len(sets) != 1 {
		loops = []loop{{"other", "other", "", fmt.Sprintf("%d assignments match = true", len(sets))}}
		atoms = []atom{{"other", "other", "other"}}
	} else {
		chain := pathTo(fn.Body, sets[0])
		roles := map[string]string{} // identifier -> role
		var innerIf *ast.IfStmt
		for _, n := range chain {
			switch x := n.(type) {
			case *ast.RangeStmt:
				l := loop{"other", "other", "", exprString(x.X)}
				v, _ := x.Value.(*ast.Ident)
				src := x.X
				if id, ok := src.(*ast.Ident); ok {
					if d := localDef(fn.Body, id.Name); d != nil {
						src = d
					}
				}
				if c, ok := src.(*ast.CallExpr); ok && len(c.Args) == 2 {
					switch exprString(c.Fun) {
					case "strings.Split":
						sep, okSep := stringValue(file, c.Args[1])
						if key, ok := mdGetKey(c.Args[0]); ok && okSep {
							l = loop{"g", "splitmd", key, sep}
						} else if id, ok := c.Args[0].(*ast.Ident); ok && okSep {
							if env, ok := getenvName(file, localDef(fn.Body, id.Name)); ok {
								l = loop{"admin", "splitenv", "", sep}
								settingEnv = env
							}
						}
					case "strings.FieldsFunc":
						if id, ok := c.Args[0].(*ast.Ident); ok {
							if env, ok := getenvName(file, localDef(fn.Body, id.Name)); ok {
								if seps, ok := runeSeps(c.Args[1]); ok {
									l = loop{"admin", "fieldsenv", "", seps}
									settingEnv = env
								}
							}
						}
					}
				}
				if v != nil {
					roles[v.Name] = l.role
				}
				loops = append(loops, l)
			case *ast.IfStmt:
				innerIf = x
			case *ast.ForStmt:
				loops = append(loops, loop{"other", "other", "", "for"})
			}
		}
		role := func(e ast.Expr) string {
			switch x := e.(type) {
			case *ast.Ident:
				if r, ok := roles[x.Name]; ok {
					return r
				}
				if env, ok := getenvName(file, localDef(fn.Body, x.Name)); ok {
					settingEnv = env
					return "setting"
				}
			case *ast.BasicLit:
				if s, ok := stringValue(file, x); ok {
					return "lit:" + s
				}
			}
			return "other"
		}
		if innerIf == nil {
			atoms = []atom{{"always", "", ""}}
		} else {
			ds, ok := flattenOr(innerIf.Cond)
			if !ok {
				atoms = []atom{{"other", "other", "other"}}
			} else {
				for _, d := range ds {
					atoms = append(atoms, mkAtom(d, role))
				}
			}
		}
	}
	if settingEnv == "" {
		if env, ok := getenvName(file, localDef(fn.Body, "adminGroups")); ok {
			settingEnv = env
		}
	}
	// --- the guard `if md.Get(k1) == "" && ... { return nil }` among the top-level statements
	var skipKeys []string
	skipShape := "none"
	refuseWhen, refuseCode := "other", "other"
	for _, st := range fn.Body.List {
		ifs, ok := st.(*ast.IfStmt)
		if !ok || ifs.Init != nil || ifs.Else != nil || len(ifs.Body.List) != 1 {
			continue
		}
		ret, ok := ifs.Body.List[0].(*ast.ReturnStmt)
		if !ok || len(ret.Results) != 1 {
			continue
		}
		if id, ok := ret.Results[0].(*ast.Ident); ok && id.Name == "nil" {
			// permit early
			skipShape = "allEmpty"
			for _, cj := range flattenAnd(ifs.Cond) {
				be, ok := cj.(*ast.BinaryExpr)
				if !ok || be.Op != token.EQL {
					skipShape = "other"
					break
				}
				key, ok1 := mdGetKey(be.X)
				lit, ok2 := stringValue(file, be.Y)
				if !ok1 || !ok2 || lit != "" {
					skipShape = "other"
					break
				}
				skipKeys = append(skipKeys, key)
			}
			continue
		}
		if c, ok := ret.Results[0].(*ast.CallExpr); ok && exprString(c.Fun) == "status.Errorf" && len(c.Args) > 0 {
			refuseCode = strings.TrimPrefix(exprString(c.Args[0]), "codes.")
			switch cond := ifs.Cond.(type) {
			case *ast.UnaryExpr:
				if id, ok := cond.X.(*ast.Ident); ok && cond.Op == token.NOT && id.Name == "match" {
					refuseWhen = "notMatch"
				}
			case *ast.Ident:
				if cond.Name == "match" {
					refuseWhen = "match"
				}
			}
		}
	}
	lp := make([]string, len(loops))
	for i, l := range loops {
		lp[i] = fmt.Sprintf("(%s, %s, %s, %s)", leanStr(l.role), leanStr(l.kind), leanStr(l.key), leanStr(l.sep))
	}
	fmt.Fprintf(&out, "/-! ### C14: `TemporaryEvaluate` in %s -/\n\n", rel)
	fmt.Fprintf(&out, "/-- environment variable holding the administrator groups setting -/\ndef rbacSettingEnv : String := %s\n\n", leanStr(settingEnv))
	fmt.Fprintf(&out, "/-- range statements enclosing `match = true`, outermost first: (role of the loop variable, kind of the ranged expression, metadata key, separator(s)) -/\ndef rbacLoops : List (String × String × String × String) := [%s]\n\n", strings.Join(lp, ", "))
	fmt.Fprintf(&out, "/-- the condition guarding `match = true` as a disjunction of comparisons (operator, left role, right role) -/\ndef rbacAtoms : List (String × String × String) := %s\n\n", leanAtoms(atoms))
	fmt.Fprintf(&out, "/-- shape of the early `return nil` guard and the metadata keys it tests for emptiness -/\ndef rbacSkipShape : String := %s\ndef rbacSkipKeys : List String := %s\n\n", leanStr(skipShape), leanStrList(skipKeys))
	fmt.Fprintf(&out, "/-- when the refusal is returned, and with which gRPC code -/\ndef rbacRefuseWhen : String := %s\ndef rbacRefuseCode : String := %s\n\n", leanStr(refuseWhen), leanStr(refuseCode))

	rbacSetSection()
	rbacListSection()
}

// rbacSetSection: where the RBAC check sits in gnmi Set.
func rbacSetSection() {
	const rel = "pkg/northbound/gnmi/v2/set.go"
	file := parseFile(rel)
	fn := findFunc(file, "Set")
	if fn == nil {
		fail("%s: Set not found", rel)
		return
	}
	var call *ast.CallExpr
	ast.Inspect(fn.Body, func(n ast.Node) bool {
		if c, ok := n.(*ast.CallExpr); ok && call == nil && exprString(c.Fun) == "utils.TemporaryEvaluate" {
			call = c
		}
		return true
	})
	fmt.Fprintf(&out, "/-! ### C14: position of the RBAC check in `Set` (%s) -/\n\n", rel)
	if call == nil {
		fmt.Fprintf(&out, "def setRbacPresent : Bool := false\ndef setCallsBeforeRbac : List String := []\ndef setRbacEnclosing : List String := []\ndef setRbacGuard : String := \"\"\ndef setMdKeysBeforeRbac : List String := []\ndef setRbacRefusalReturns : Bool := false\ndef setRbacRefusalCalls : List String := []\ndef setRbacRefusalError : String := \"\"\ndef setUserNameKeys : List String := []\n\n")
		return
	}
	chain := pathTo(fn.Body, call)
	var enclosing []string
	var refusalIf *ast.IfStmt
	guard := ""
	for _, n := range chain[1:] { // skip the function body block itself
		switch x := n.(type) {
		case *ast.IfStmt:
			enclosing = append(enclosing, "if")
			// the if whose Init holds the call is the refusal if; an outer one is the guard
			inInit := false
			if x.Init != nil {
				ast.Inspect(x.Init, func(m ast.Node) bool {
					if m == ast.Node(call) {
						inInit = true
					}
					return true
				})
			}
			if inInit {
				refusalIf = x
			} else {
				guard = "other"
				// `if md := metautils.ExtractIncoming(ctx); md != nil` — ExtractIncoming never returns nil
				if be, ok := x.Cond.(*ast.BinaryExpr); ok && be.Op == token.NEQ && exprString(be.Y) == "nil" {
					if as, ok := x.Init.(*ast.AssignStmt); ok && len(as.Lhs) == 1 && len(as.Rhs) == 1 &&
						exprString(as.Lhs[0]) == exprString(be.X) && exprString(as.Rhs[0]) == "metautils.ExtractIncoming()" {
						guard = "extractIncomingNonNil"
					}
				}
			}
		case *ast.ForStmt, *ast.RangeStmt:
			enclosing = append(enclosing, "loop")
		case *ast.FuncLit:
			enclosing = append(enclosing, "funclit")
		case *ast.GoStmt:
			enclosing = append(enclosing, "go")
		case *ast.DeferStmt:
			enclosing = append(enclosing, "defer")
		case *ast.SwitchStmt, *ast.TypeSwitchStmt, *ast.SelectStmt:
			enclosing = append(enclosing, "switch")
		}
	}
	// calls that textually precede the check
	var before []string
	for _, c := range callsWithPos(fn.Body) {
		if c.pos < call.Pos() {
			before = append(before, c.name)
		}
	}
	var keysBefore []string
	ast.Inspect(fn.Body, func(n ast.Node) bool {
		if c, ok := n.(*ast.CallExpr); ok && c.Pos() < call.Pos() {
			if k, ok := mdGetKey(c); ok {
				keysBefore = append(keysBefore, k)
			}
		}
		return true
	})
	returns := false
	var refusalCalls []string
	refusalErr := ""
	if refusalIf != nil {
		returns = endsWithReturn(refusalIf.Body)
		refusalCalls = calls(refusalIf.Body)
		for _, c := range refusalCalls {
			if strings.HasPrefix(c, "errors.New") {
				refusalErr = strings.TrimPrefix(c, "errors.New")
			}
		}
	}
	// userName := md.Get(k1); if userName == "" { userName = md.Get(k2) }
	var userKeys []string
	ast.Inspect(fn.Body, func(n ast.Node) bool {
		if as, ok := n.(*ast.AssignStmt); ok && len(as.Lhs) == 1 && len(as.Rhs) == 1 {
			if id, ok := as.Lhs[0].(*ast.Ident); ok && id.Name == "userName" {
				if k, ok := mdGetKey(as.Rhs[0]); ok {
					userKeys = append(userKeys, k)
				}
			}
		}
		return true
	})
	fmt.Fprintf(&out, "def setRbacPresent : Bool := true\n\n")
	fmt.Fprintf(&out, "/-- every call that textually precedes `utils.TemporaryEvaluate` in `Set`, in source order -/\ndef setCallsBeforeRbac : List String := %s\n\n", leanStrList(before))
	fmt.Fprintf(&out, "/-- kinds of the statements enclosing the check (outermost first) and the kind of the outer guard -/\ndef setRbacEnclosing : List String := %s\ndef setRbacGuard : String := %s\n\n", leanStrList(enclosing), leanStr(guard))
	fmt.Fprintf(&out, "/-- keys of the `md.Get` calls that textually precede the check -/\ndef setMdKeysBeforeRbac : List String := %s\n\n", leanStrList(keysBefore))
	fmt.Fprintf(&out, "/-- the body of `if err := utils.TemporaryEvaluate(md); err != nil` ends with `return`; the calls it makes; the typed error it returns -/\ndef setRbacRefusalReturns : Bool := %v\ndef setRbacRefusalCalls : List String := %s\ndef setRbacRefusalError : String := %s\n\n", returns, leanStrList(refusalCalls), leanStr(refusalErr))
	fmt.Fprintf(&out, "/-- metadata keys assigned to `userName`, in order (the later ones are fallbacks when the earlier is empty) -/\ndef setUserNameKeys : List String := %s\n\n", leanStrList(userKeys))
}

type posCall struct {
	pos  token.Pos
	name string
}

func callsWithPos(n ast.Node) []posCall {
	var cs []posCall
	ast.Inspect(n, func(m ast.Node) bool {
		if c, ok := m.(*ast.CallExpr); ok {
			cs = append(cs, posCall{c.Pos(), exprString(c.Fun)})
		}
		return true
	})
	return cs
}

// rbacListSection: the filter of reportAllTargets and the derivation of `groups` in Get.
func rbacListSection() {
	const rel = "pkg/northbound/gnmi/v2/get.go"
	file := parseFile(rel)
	fmt.Fprintf(&out, "/-! ### C14: listing filter of `reportAllTargets` (%s) -/\n\n", rel)
	emitStringConst(file, rel, "aetherROCAdmin", "aetherROCAdmin")
	emitStringConst(file, rel, "OIDCServerURL", "oidcServerURLEnv")
	fn := findFunc(file, "reportAllTargets")
	if fn == nil {
		fail("%s: reportAllTargets not found", rel)
		return
	}
	// the range over targetEntities
	var entLoop *ast.RangeStmt
	ast.Inspect(fn.Body, func(n ast.Node) bool {
		if r, ok := n.(*ast.RangeStmt); ok && entLoop == nil && exprString(r.X) == "targetEntities" {
			entLoop = r
		}
		return true
	})
	guardEnv, elseAppends := "", false
	var atoms []atom
	shape := "other"
	if entLoop != nil && len(entLoop.Body.List) == 1 {
		if ifs, ok := entLoop.Body.List[0].(*ast.IfStmt); ok {
			// len(os.Getenv(X)) > 0
			if be, ok := ifs.Cond.(*ast.BinaryExpr); ok && be.Op == token.GTR {
				if c, ok := be.X.(*ast.CallExpr); ok && exprString(c.Fun) == "len" && len(c.Args) == 1 {
					if env, ok := getenvName(file, c.Args[0]); ok {
						guardEnv = env
					}
				}
			}
			if eb, ok := ifs.Else.(*ast.BlockStmt); ok && len(eb.List) == 1 {
				elseAppends = appendsEntity(eb.List[0])
			}
			if len(ifs.Body.List) == 1 {
				if gl, ok := ifs.Body.List[0].(*ast.RangeStmt); ok && exprString(gl.X) == "groups" && len(gl.Body.List) == 1 {
					gv, _ := gl.Value.(*ast.Ident)
					if inner, ok := gl.Body.List[0].(*ast.IfStmt); ok && len(inner.Body.List) == 2 && appendsEntity(inner.Body.List[0]) {
						if br, ok := inner.Body.List[1].(*ast.BranchStmt); ok && br.Tok == token.CONTINUE && br.Label != nil {
							shape = "anyGroup"
						}
						role := func(e ast.Expr) string {
							switch s := exprString(e); {
							case gv != nil && s == gv.Name:
								return "g"
							case s == "targetEntity.ID":
								return "id"
							case s == "rocAdminUser":
								return "roc"
							}
							if c, ok := e.(*ast.CallExpr); ok && exprString(c.Fun) == "string" && len(c.Args) == 1 && exprString(c.Args[0]) == "targetEntity.ID" {
								return "id"
							}
							return "other"
						}
						ds, ok := flattenOr(inner.Cond)
						if !ok {
							atoms = []atom{{"other", "other", "other"}}
						} else {
							for _, d := range ds {
								atoms = append(atoms, mkAtom(d, role))
							}
						}
					}
				}
			}
		}
	}
	// how the ROC-admin group name is overridden:
	//   rocAdminUser := aetherROCAdmin
	//   if override := os.Getenv(X); override != "" { rocAdminUser = override }      -> "getenvNonEmpty"
	//   if override, ok := os.LookupEnv(X); ok { rocAdminUser = override }             -> "lookupPresent"
	rocMode, rocEnv, rocDefault := "none", "", "other"
	if d := localDef(fn.Body, "rocAdminUser"); d != nil {
		if v, ok := stringValue(file, d); ok {
			rocDefault = v
		}
	}
	for _, st := range fn.Body.List {
		ifs, ok := st.(*ast.IfStmt)
		if !ok || ifs.Init == nil || len(ifs.Body.List) != 1 {
			continue
		}
		as, ok := ifs.Body.List[0].(*ast.AssignStmt)
		if !ok || len(as.Lhs) != 1 || exprString(as.Lhs[0]) != "rocAdminUser" {
			continue
		}
		rocMode = "other"
		init, ok := ifs.Init.(*ast.AssignStmt)
		if !ok || len(init.Rhs) != 1 || len(as.Rhs) != 1 {
			continue
		}
		call, ok := init.Rhs[0].(*ast.CallExpr)
		if !ok || len(call.Args) != 1 || len(init.Lhs) == 0 || exprString(as.Rhs[0]) != exprString(init.Lhs[0]) {
			continue
		}
		name, okName := stringValue(file, call.Args[0])
		if !okName {
			continue
		}
		rocEnv = name
		switch exprString(call.Fun) {
		case "os.Getenv":
			if be, ok := ifs.Cond.(*ast.BinaryExpr); ok && be.Op == token.NEQ && len(init.Lhs) == 1 && exprString(be.X) == exprString(init.Lhs[0]) {
				if lit, ok := stringValue(file, be.Y); ok && lit == "" {
					rocMode = "getenvNonEmpty"
				}
			}
		case "os.LookupEnv":
			if id, ok := ifs.Cond.(*ast.Ident); ok && len(init.Lhs) == 2 && id.Name == exprString(init.Lhs[1]) {
				rocMode = "lookupPresent"
			}
		}
	}
	fmt.Fprintf(&out, "/-- the ROC-admin group name: its default, the environment variable that overrides it and when the override applies (`getenvNonEmpty` = only a non-empty value; `lookupPresent` = whenever the variable is defined, even empty; `none` = never) -/\ndef listRocDefault : String := %s\ndef listRocEnv : String := %s\ndef listRocOverride : String := %s\n\n", leanStr(rocDefault), leanStr(rocEnv), leanStr(rocMode))
	fmt.Fprintf(&out, "/-- the entity loop: filter applied when this environment variable is non-empty; `anyGroup` = a target is appended once if some group satisfies the condition; else-branch appends unconditionally -/\ndef listGuardEnv : String := %s\ndef listShape : String := %s\ndef listElseAppends : Bool := %v\ndef listAtoms : List (String × String × String) := %s\n\n", leanStr(guardEnv), leanStr(shape), elseAppends, leanAtoms(atoms))

	// groups in Get: guard key and separator
	get := findFunc(file, "Get")
	gKey, gSep, gSrc := "", "", ""
	var gBodyKeys []string
	if get != nil {
		for _, st := range get.Body.List {
			ifs, ok := st.(*ast.IfStmt)
			if !ok || ifs.Init == nil {
				continue
			}
			for _, cj := range flattenAnd(ifs.Cond) {
				if be, ok := cj.(*ast.BinaryExpr); ok && be.Op == token.NEQ {
					if k, ok := mdGetKey(be.X); ok {
						if lit, ok := stringValue(file, be.Y); ok && lit == "" {
							gKey = k
						}
					}
				}
			}
			ast.Inspect(ifs.Body, func(n ast.Node) bool {
				if c, ok := n.(*ast.CallExpr); ok {
					if k, ok := mdGetKey(c); ok {
						gBodyKeys = append(gBodyKeys, k)
					}
				}
				if c, ok := n.(*ast.CallExpr); ok && exprString(c.Fun) == "strings.Split" && len(c.Args) == 2 {
					if k, ok := mdGetKey(c.Args[0]); ok {
						gSrc = k
						gSep, _ = stringValue(file, c.Args[1])
					}
				}
				return true
			})
			break
		}
	}
	fmt.Fprintf(&out, "/-- `Get`: groups are taken from metadata key `getGroupsKey` split on `getGroupsSep` only when key `getGroupsGuardKey` is non-empty -/\ndef getGroupsGuardKey : String := %s\ndef getGroupsKey : String := %s\ndef getGroupsSep : String := %s\n/-- keys of every `md.Get` evaluated inside that guard's body, in source order -/\ndef getGuardBodyKeys : List String := %s\n\n", leanStr(gKey), leanStr(gSrc), leanStr(gSep), leanStrList(gBodyKeys))
}

// appendsEntity recognises `targets = append(targets, string(targetEntity.ID))`.
func appendsEntity(st ast.Stmt) bool {
	as, ok := st.(*ast.AssignStmt)
	if !ok || len(as.Lhs) != 1 || len(as.Rhs) != 1 {
		return false
	}
	c, ok := as.Rhs[0].(*ast.CallExpr)
	if !ok || exprString(c.Fun) != "append" || len(c.Args) != 2 {
		return false
	}
	a, ok := c.Args[1].(*ast.CallExpr)
	return ok && exprString(a.Fun) == "string" && len(a.Args) == 1 && exprString(a.Args[0]) == "targetEntity.ID"
}
