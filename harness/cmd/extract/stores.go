package main

// Store facts (C15): for each of the five stores
//   pkg/store/v2/{transaction,proposal,configuration}, pkg/store/v3/{transaction,configuration}
// the translator reads Create / Update / UpdateStatus / Watch and emits
//   * the ordered list of argument guards (`if <cond> { return errors.NewInvalid(..) }`) as
//     normalised condition texts built from the AST (receiver name removed),
//   * whether the caller's Revision is incremented before the primitive call,
//   * which field is passed as IfVersion(primitive.Version(<obj>.<Field>)) to the primitive Update,
//   * the order of the callee names inside the function (values half before entry CAS),
//   * for Watch: whether the listener registration precedes every replay read; whether every send
//     on the consumer channel inside the per-watch goroutine sits in a select that also waits on
//     ctx.Done(); how many return paths of that goroutine leave without starting the drain of the
//     internal channel; whether close(ch) is both deferred and called explicitly before a return.
// The Lean twin (OnosVerif/Store/Model.lean, Watch.lean) is parameterised by these definitions.

import (
	"fmt"
	"go/ast"
	"go/token"
	"strings"
)

type storeSrc struct {
	prefix string // Lean name prefix
	rel    string
}

var storeSrcs = []storeSrc{
	{"v2Tx", "pkg/store/v2/transaction/store.go"},
	{"v2Prop", "pkg/store/v2/proposal/store.go"},
	{"v2Cfg", "pkg/store/v2/configuration/configuration.go"},
	{"v3Tx", "pkg/store/v3/transaction/store.go"},
	{"v3Cfg", "pkg/store/v3/configuration/store.go"},
}

// methodDecl finds a method by name (any receiver).
func methodDecl(f *ast.File, name string) *ast.FuncDecl {
	if f == nil {
		return nil
	}
	for _, d := range f.Decls {
		if fd, ok := d.(*ast.FuncDecl); ok && fd.Name.Name == name && fd.Recv != nil {
			return fd
		}
	}
	return nil
}

// objParam is the name of the second parameter (the record).
func objParam(fd *ast.FuncDecl) string {
	n := 0
	for _, fl := range fd.Type.Params.List {
		for _, nm := range fl.Names {
			n++
			if n == 2 {
				return nm.Name
			}
		}
	}
	return ""
}

// normCond prints a condition with the record's variable name removed: `tx.ID.Target.ID == ""` -> `ID.Target.ID == ""`.
func normCond(e ast.Expr, obj string) string {
	s := exprString(e)
	return strings.ReplaceAll(s, obj+".", "")
}

func isReturnInvalid(b *ast.BlockStmt) bool {
	if len(b.List) != 1 {
		return false
	}
	rs, ok := b.List[0].(*ast.ReturnStmt)
	if !ok || len(rs.Results) == 0 {
		return false
	}
	ce, ok := rs.Results[len(rs.Results)-1].(*ast.CallExpr)
	return ok && exprString(ce.Fun) == "errors.NewInvalid"
}

func isSingleAssign(b *ast.BlockStmt) bool {
	if len(b.List) != 1 {
		return false
	}
	_, ok := b.List[0].(*ast.AssignStmt)
	return ok
}

// guardsOf returns the leading guards and defaulting ifs of a store method.
func guardsOf(fd *ast.FuncDecl) (guards, defaults []string) {
	obj := objParam(fd)
	for _, st := range fd.Body.List {
		is, ok := st.(*ast.IfStmt)
		if !ok || is.Init != nil || is.Else != nil {
			break
		}
		if isReturnInvalid(is.Body) {
			guards = append(guards, normCond(is.Cond, obj))
			continue
		}
		if isSingleAssign(is.Body) {
			defaults = append(defaults, normCond(is.Cond, obj))
			continue
		}
		break
	}
	return
}

// primCall finds the call `s.<prim>.<method>(...)` / `<local>.<method>(...)` with the given method name
// whose arguments include the record variable (the entry write).
func primCall(fd *ast.FuncDecl, method string) *ast.CallExpr {
	obj := objParam(fd)
	var found *ast.CallExpr
	ast.Inspect(fd.Body, func(n ast.Node) bool {
		ce, ok := n.(*ast.CallExpr)
		if !ok || found != nil {
			return true
		}
		se, ok := ce.Fun.(*ast.SelectorExpr)
		if !ok || se.Sel.Name != method {
			return true
		}
		for _, a := range ce.Args {
			if id, ok := a.(*ast.Ident); ok && id.Name == obj {
				found = ce
			}
		}
		return true
	})
	return found
}

// ifVersionField: the field F in `IfVersion(primitive.Version(obj.F))` among the call's arguments, "" if absent.
func ifVersionField(ce *ast.CallExpr, obj string) string {
	if ce == nil {
		return ""
	}
	for _, a := range ce.Args {
		c, ok := a.(*ast.CallExpr)
		if !ok {
			continue
		}
		if se, ok := c.Fun.(*ast.SelectorExpr); !ok || se.Sel.Name != "IfVersion" {
			continue
		}
		if len(c.Args) != 1 {
			continue
		}
		inner, ok := c.Args[0].(*ast.CallExpr)
		if !ok || exprString(inner.Fun) != "primitive.Version" || len(inner.Args) != 1 {
			continue
		}
		return strings.TrimPrefix(exprString(inner.Args[0]), obj+".")
	}
	return ""
}

// revisionIncBefore: `obj.Revision++` occurs before pos.
func revisionIncBefore(fd *ast.FuncDecl, pos token.Pos) bool {
	obj := objParam(fd)
	found := false
	ast.Inspect(fd.Body, func(n ast.Node) bool {
		if ids, ok := n.(*ast.IncDecStmt); ok && ids.Tok == token.INC && exprString(ids.X) == obj+".Revision" && ids.Pos() < pos {
			found = true
		}
		return true
	})
	return found
}

// assignsBefore: `obj.<field> = <lit>` before pos; returns the literal text ("" if none).
func assignsBefore(fd *ast.FuncDecl, field string, pos token.Pos) string {
	obj := objParam(fd)
	val := ""
	ast.Inspect(fd.Body, func(n ast.Node) bool {
		if as, ok := n.(*ast.AssignStmt); ok && len(as.Lhs) == 1 && len(as.Rhs) == 1 && as.Pos() < pos &&
			exprString(as.Lhs[0]) == obj+"."+field {
			val = exprString(as.Rhs[0])
		}
		return true
	})
	return val
}

// sprintfFormat: the format literal of the fmt.Sprintf call inside a function; when the function only forwards to a
// helper without a format (the shape before the side maps were separated) the format found in that helper.
func sprintfFormat(fd *ast.FuncDecl) string {
	format := ""
	ast.Inspect(fd.Body, func(n ast.Node) bool {
		if ce, ok := n.(*ast.CallExpr); ok && exprString(ce.Fun) == "fmt.Sprintf" && len(ce.Args) > 0 && format == "" {
			if bl, ok := ce.Args[0].(*ast.BasicLit); ok {
				format = bl.Value
			}
		}
		return true
	})
	if format == "" {
		format = "\"<helper>\""
	}
	return strings.Trim(format, "\"")
}

func suffixOf(fa, fc string) string {
	if strings.HasPrefix(fa, fc) && fa != fc {
		return strings.TrimPrefix(fa, fc)
	}
	return ""
}

func leanBool(b bool) string {
	if b {
		return "true"
	}
	return "false"
}

// ---------------------------------------------------------------------------------------------
// Watch

type watchFacts struct {
	registersBeforeReturn bool // on every path the listener is registered by a statement of Watch's own body, before the goroutine starts
	registerBeforeReplay bool
	sends                int // sends on the consumer channel inside the per-watch goroutine(s)
	guardedSends         int // … of which inside a select that also receives from ctx.Done()
	returns              int // return statements of the per-watch goroutine (its own body, nested literals excluded)
	undrainedReturns     int // … of which are not preceded, in their block, by `go func(){ for range eventCh {} }()`
	deferClose           bool
	explicitCloseReturns int // returns preceded in their block by close(ch)
	perWatchStream       bool // Watch opens its own primitive event stream (no shared dispatcher)
	cancelReturns        int  // returns taken in a `case <-ctx.Done():` branch of a select of the per-watch goroutine
	cancelReturnsDrained int  // … of which start the endless drain of the internal channel first
}

// consumerChan is the name of the `chan<-` parameter.
func consumerChan(fd *ast.FuncDecl) string {
	for _, fl := range fd.Type.Params.List {
		if ct, ok := fl.Type.(*ast.ChanType); ok && ct.Dir == ast.SEND && len(fl.Names) == 1 {
			return fl.Names[0].Name
		}
	}
	return "ch"
}

func isCtxDoneRecv(s ast.Stmt) bool {
	var e ast.Expr
	switch x := s.(type) {
	case *ast.ExprStmt:
		e = x.X
	case *ast.AssignStmt:
		if len(x.Rhs) == 1 {
			e = x.Rhs[0]
		}
	}
	ue, ok := e.(*ast.UnaryExpr)
	return ok && ue.Op == token.ARROW && exprString(ue.X) == "ctx.Done()"
}

func isDrainGo(s ast.Stmt) bool {
	gs, ok := s.(*ast.GoStmt)
	if !ok {
		return false
	}
	fl, ok := gs.Call.Fun.(*ast.FuncLit)
	if !ok || len(fl.Body.List) != 1 {
		return false
	}
	rs, ok := fl.Body.List[0].(*ast.RangeStmt)
	return ok && rs.Key == nil && rs.Value == nil && len(rs.Body.List) == 0
}

func isCloseOf(s ast.Stmt, ch string) bool {
	es, ok := s.(*ast.ExprStmt)
	if !ok {
		return false
	}
	ce, ok := es.X.(*ast.CallExpr)
	return ok && exprString(ce.Fun) == "close" && len(ce.Args) == 1 && exprString(ce.Args[0]) == ch
}

// walkOwn visits the statements of a function literal's own body, not descending into nested literals.
func walkOwn(n ast.Node, f func(block []ast.Stmt, i int, sel *ast.SelectStmt)) {
	var rec func(n ast.Node, sel *ast.SelectStmt)
	visitBlock := func(list []ast.Stmt, sel *ast.SelectStmt) {
		for i := range list {
			f(list, i, sel)
			rec(list[i], sel)
		}
	}
	rec = func(n ast.Node, sel *ast.SelectStmt) {
		switch x := n.(type) {
		case *ast.BlockStmt:
			visitBlock(x.List, sel)
		case *ast.IfStmt:
			rec(x.Body, sel)
			if x.Else != nil {
				rec(x.Else, sel)
			}
		case *ast.ForStmt:
			rec(x.Body, sel)
		case *ast.RangeStmt:
			rec(x.Body, sel)
		case *ast.SelectStmt:
			for _, c := range x.Body.List {
				cc := c.(*ast.CommClause)
				if cc.Comm != nil {
					f([]ast.Stmt{cc.Comm}, 0, x)
				}
				visitBlock(cc.Body, nil)
			}
		case *ast.SwitchStmt:
			for _, c := range x.Body.List {
				visitBlock(c.(*ast.CaseClause).Body, sel)
			}
		case *ast.TypeSwitchStmt:
			for _, c := range x.Body.List {
				visitBlock(c.(*ast.CaseClause).Body, sel)
			}
		}
	}
	rec(n, nil)
}

func selectHasCtxDone(sel *ast.SelectStmt) bool {
	if sel == nil {
		return false
	}
	for _, c := range sel.Body.List {
		if cc := c.(*ast.CommClause); cc.Comm != nil && isCtxDoneRecv(cc.Comm) {
			return true
		}
	}
	return false
}

// isRegistration: `…[id] = eventCh` (shared dispatcher) or `… := ….Events(ctx, …)` (own stream).
func isRegistration(n ast.Node) bool {
	as, ok := n.(*ast.AssignStmt)
	if !ok || len(as.Rhs) != 1 {
		return false
	}
	if _, ok := as.Lhs[0].(*ast.IndexExpr); ok && exprString(as.Rhs[0]) == "eventCh" {
		return true
	}
	if ce, ok := as.Rhs[0].(*ast.CallExpr); ok {
		if se, ok := ce.Fun.(*ast.SelectorExpr); ok && se.Sel.Name == "Events" {
			return true
		}
	}
	return false
}

// alwaysRegisters: executing the statement registers the listener on every path through it.  Closures assigned to
// a local (`register := func() {…}`) count at their CALL sites; a `go` statement or a function literal never counts;
// an if counts only with an else, both branches registering.
func alwaysRegisters(st ast.Stmt, closures map[string]bool) bool {
	switch x := st.(type) {
	case *ast.AssignStmt:
		return isRegistration(x)
	case *ast.ExprStmt:
		if ce, ok := x.X.(*ast.CallExpr); ok {
			if id, ok := ce.Fun.(*ast.Ident); ok && closures[id.Name] {
				return true
			}
		}
	case *ast.BlockStmt:
		for _, s := range x.List {
			if alwaysRegisters(s, closures) {
				return true
			}
		}
	case *ast.IfStmt:
		if x.Else == nil {
			return false
		}
		return alwaysRegisters(x.Body, closures) && alwaysRegisters(x.Else, closures)
	}
	return false
}

// registersSynchronously: some statement of Watch's own top-level body, before its first `go` statement, always
// registers the listener — i.e. the listener is in place when Watch returns, with and without replay.
func registersSynchronously(fd *ast.FuncDecl) bool {
	closures := map[string]bool{}
	for _, st := range fd.Body.List {
		if as, ok := st.(*ast.AssignStmt); ok && len(as.Lhs) == 1 && len(as.Rhs) == 1 {
			if fl, ok := as.Rhs[0].(*ast.FuncLit); ok {
				reg := false
				for _, s := range fl.Body.List {
					if alwaysRegisters(s, map[string]bool{}) {
						reg = true
					}
				}
				if id, ok := as.Lhs[0].(*ast.Ident); ok && reg {
					closures[id.Name] = true
				}
				continue
			}
		}
		if _, ok := st.(*ast.GoStmt); ok {
			return false
		}
		if alwaysRegisters(st, closures) {
			return true
		}
	}
	return false
}

func watchFactsOf(file *ast.File, fd *ast.FuncDecl) watchFacts {
	var wf watchFacts
	ch := consumerChan(fd)
	// registration: either an assignment `…[id] = eventCh` (shared dispatcher) or a call `….Events(ctx, …)` (own stream)
	var regPos []token.Pos
	var readPos []token.Pos
	ast.Inspect(fd.Body, func(n ast.Node) bool {
		switch x := n.(type) {
		case *ast.AssignStmt:
			if len(x.Lhs) == 1 && len(x.Rhs) == 1 {
				if _, ok := x.Lhs[0].(*ast.IndexExpr); ok && exprString(x.Rhs[0]) == "eventCh" {
					regPos = append(regPos, x.Pos())
				}
			}
		case *ast.CallExpr:
			if se, ok := x.Fun.(*ast.SelectorExpr); ok {
				switch se.Sel.Name {
				case "Events":
					regPos = append(regPos, x.Pos())
					wf.perWatchStream = true
				case "Get", "List", "GetIndex":
					// replay reads of the primitive (receiver is a field of s or a local primitive handle)
					recv := exprString(se.X)
					if strings.HasPrefix(recv, "s.") || recv == "transactions" {
						readPos = append(readPos, x.Pos())
					}
				}
			}
		}
		return true
	})
	wf.registersBeforeReturn = registersSynchronously(fd)
	wf.registerBeforeReplay = len(regPos) > 0 && len(readPos) > 0
	for _, r := range regPos {
		for _, p := range readPos {
			if r > p {
				wf.registerBeforeReplay = false
			}
		}
	}
	// the per-watch goroutines: every `go func() {…}()` directly in Watch (not the drain literals), plus
	// helper functions they call with the consumer channel (propagateEvents)
	var bodies []*ast.BlockStmt
	seenHelper := map[string]bool{}
	ast.Inspect(fd.Body, func(n ast.Node) bool {
		if gs, ok := n.(*ast.GoStmt); ok {
			if fl, ok := gs.Call.Fun.(*ast.FuncLit); ok && !isDrainGo(gs) {
				bodies = append(bodies, fl.Body)
				return false
			}
			if id, ok := gs.Call.Fun.(*ast.Ident); ok && !seenHelper[id.Name] {
				if h := findFunc(file, id.Name); h != nil {
					seenHelper[id.Name] = true
					bodies = append(bodies, h.Body)
				}
			}
		}
		return true
	})
	for i := 0; i < len(bodies); i++ {
		ast.Inspect(bodies[i], func(n ast.Node) bool {
			if ce, ok := n.(*ast.CallExpr); ok {
				if id, ok := ce.Fun.(*ast.Ident); ok && !seenHelper[id.Name] {
					if h := findFunc(file, id.Name); h != nil && h.Recv == nil && h.Name.Name != "close" {
						seenHelper[id.Name] = true
						bodies = append(bodies, h.Body)
					}
				}
			}
			return true
		})
	}
	for _, body := range bodies {
		ast.Inspect(body, func(n ast.Node) bool {
			if _, ok := n.(*ast.FuncLit); ok {
				return false
			}
			sel, ok := n.(*ast.SelectStmt)
			if !ok {
				return true
			}
			for _, c := range sel.Body.List {
				cc := c.(*ast.CommClause)
				if cc.Comm == nil || !isCtxDoneRecv(cc.Comm) {
					continue
				}
				drained := false
				for _, st := range cc.Body {
					if isDrainGo(st) {
						drained = true
					}
					if _, ok := st.(*ast.ReturnStmt); ok {
						wf.cancelReturns++
						if drained {
							wf.cancelReturnsDrained++
						}
					}
				}
			}
			return true
		})
		for _, st := range body.List {
			if ds, ok := st.(*ast.DeferStmt); ok && exprString(ds.Call.Fun) == "close" && len(ds.Call.Args) == 1 && exprString(ds.Call.Args[0]) == ch {
				wf.deferClose = true
			}
		}
		walkOwn(body, func(block []ast.Stmt, i int, sel *ast.SelectStmt) {
			switch x := block[i].(type) {
			case *ast.SendStmt:
				if exprString(x.Chan) == ch {
					wf.sends++
					if selectHasCtxDone(sel) {
						wf.guardedSends++
					}
				}
			case *ast.ReturnStmt:
				wf.returns++
				drained, closed := false, false
				for j := 0; j < i; j++ {
					if isDrainGo(block[j]) {
						drained = true
					}
					if isCloseOf(block[j], ch) {
						closed = true
					}
				}
				if !drained {
					wf.undrainedReturns++
				}
				if closed {
					wf.explicitCloseReturns++
				}
			}
		})
	}
	return wf
}

// guardTerm translates a guard condition `obj.<field path> ==/!= <zero literal>` into a Lean term of
// type GGuard (field, isZero).  Anything else becomes the field `other` (the twin ignores it and the
// correspondence check then shows the difference).
func guardTerm(e ast.Expr, obj string) string {
	be, ok := e.(*ast.BinaryExpr)
	if !ok || (be.Op != token.EQL && be.Op != token.NEQ) {
		return "⟨.other, true⟩"
	}
	lit, ok := be.Y.(*ast.BasicLit)
	if !ok || (lit.Value != `""` && lit.Value != "0") {
		return "⟨.other, true⟩"
	}
	field := fieldTerm(strings.TrimPrefix(exprString(be.X), obj+"."))
	return fmt.Sprintf("⟨%s, %s⟩", field, leanBool(be.Op == token.EQL))
}

func fieldTerm(path string) string {
	switch path {
	case "ID", "ID.Target.ID":
		return ".id"
	case "TargetID":
		return ".targetID"
	case "TransactionIndex":
		return ".txIndex"
	case "Revision":
		return ".revision"
	case "Version":
		return ".version"
	case "Key":
		return ".key"
	case "ID.Target.Type":
		return ".targetType"
	case "ID.Target.Version":
		return ".targetVersion"
	}
	return ".other"
}

// guardTermsOf: like guardsOf, as Lean terms; defaults are reported by field.
func guardTermsOf(fd *ast.FuncDecl) (guards, defaults []string) {
	obj := objParam(fd)
	for _, st := range fd.Body.List {
		is, ok := st.(*ast.IfStmt)
		if !ok || is.Init != nil || is.Else != nil {
			break
		}
		if isReturnInvalid(is.Body) {
			guards = append(guards, guardTerm(is.Cond, obj))
			continue
		}
		if isSingleAssign(is.Body) {
			defaults = append(defaults, guardTerm(is.Cond, obj))
			continue
		}
		break
	}
	return
}

func posOfCall(names []string, suffix string) int {
	for i, n := range names {
		if strings.HasSuffix(n, suffix) {
			return i
		}
	}
	return -1
}

func init() {
	sections = append(sections, func() {
		out.WriteString("/-! ### store facts (C15): guards, Revision++, IfVersion, call order, watch structure -/\n\nnamespace StoreFacts\n\n")
		defer out.WriteString("end StoreFacts\n\n")
		out.WriteString("/-- a field of a stored record that a store wrapper inspects -/\ninductive GField\n  | id | targetID | txIndex | revision | version | key | targetType | targetVersion | other\nderiving DecidableEq, Repr\n\n")
		out.WriteString("/-- `if obj.<field> == <zero value> { return errors.NewInvalid(…) }` (isZero) or `!=` (¬isZero) -/\nstructure GGuard where\n  field : GField\n  isZero : Bool\nderiving DecidableEq, Repr\n\n")
		for _, src := range storeSrcs {
			f := parseFile(src.rel)
			if f == nil {
				continue
			}
			for _, m := range []string{"Create", "Update", "UpdateStatus"} {
				fd := methodDecl(f, m)
				if fd == nil {
					fail("%s: method %s not found", src.rel, m)
					continue
				}
				obj := objParam(fd)
				guards, defaults := guardTermsOf(fd)
				texts, _ := guardsOf(fd)
				fmt.Fprintf(&out, "/-- argument guards of `%s` in %s, in source order: %s -/\ndef %s%sGuards : List GGuard := [%s]\n\n",
					m, src.rel, strings.Join(texts, "; "), src.prefix, m, strings.Join(guards, ", "))
				names := calls(fd.Body)
				if m == "Create" {
					fmt.Fprintf(&out, "/-- defaulting ifs (`if cond { field = … }`) before the guards of `Create` in %s -/\ndef %sCreateDefaults : List GGuard := [%s]\n\n",
						src.rel, src.prefix, strings.Join(defaults, ", "))
					var pc *ast.CallExpr
					prim := ""
					for _, name := range []string{"Append", "Insert"} {
						if c := primCall(fd, name); c != nil {
							pc, prim = c, name
						}
					}
					if pc == nil {
						fail("%s: Create has no Append/Insert of the record", src.rel)
						continue
					}
					fmt.Fprintf(&out, "/-- `Create` in %s writes with `%s`: an indexed log (Append) or a plain map (Insert) -/\ndef %sCreateAppends : Bool := %s\n\n", src.rel, prim, src.prefix, leanBool(prim == "Append"))
					rev := assignsBefore(fd, "Revision", pc.Pos())
					n := 0
					fmt.Sscanf(rev, "%d", &n)
					fmt.Fprintf(&out, "/-- `%s.Revision = %s` before the primitive call of `Create` in %s -/\ndef %sCreateRevision : Nat := %d\n\n",
						obj, rev, src.rel, src.prefix, n)
					si, pi := posOfCall(names, "s.store"), posOfCall(names, "."+prim)
					fmt.Fprintf(&out, "/-- `Create` in %s calls `s.store(…)` (values half) before the entry %s -/\ndef %sCreateValuesFirst : Bool := %s\n\n",
						src.rel, prim, src.prefix, leanBool(si >= 0 && pi >= 0 && si < pi))
					continue
				}
				pc := primCall(fd, "Update")
				if pc == nil {
					fail("%s: %s has no primitive Update of the record", src.rel, m)
					continue
				}
				fmt.Fprintf(&out, "/-- field passed as `IfVersion(primitive.Version(%s.<field>))` by `%s` in %s (`other`: no IfVersion, unconditional write) -/\ndef %s%sIfVersion : GField := %s\n\n",
					obj, m, src.rel, src.prefix, m, fieldTerm(ifVersionField(pc, obj)))
				fmt.Fprintf(&out, "/-- `%s.Revision++` before the primitive call of `%s` in %s -/\ndef %s%sRevisionInc : Bool := %s\n\n",
					obj, m, src.rel, src.prefix, m, leanBool(revisionIncBefore(fd, pc.Pos())))
				si := posOfCall(names, "s.store")
				pi := -1
				for i, n := range names {
					if strings.HasSuffix(n, ".Update") && i > si {
						pi = i
						break
					}
				}
				fmt.Fprintf(&out, "/-- `%s` in %s calls `s.store(…)` (values half) before the entry compare-and-set -/\ndef %s%sValuesFirst : Bool := %s\n\n",
					m, src.rel, src.prefix, m, leanBool(si >= 0 && pi >= 0 && si < pi))
			}
			// configuration stores: do getCommitted and getApplied open the same atomix map (same name format)?
			if gc, ga := methodDecl(f, "getCommitted"), methodDecl(f, "getApplied"); gc != nil && ga != nil {
				fc, fa := sprintfFormat(gc), sprintfFormat(ga)
				fmt.Fprintf(&out, "/-- `getCommitted` (%s) and `getApplied` (%s) of %s name the same atomix map -/\ndef %sSideMapsShared : Bool := %s\n\n",
					fc, fa, src.rel, src.prefix, leanBool(fc == fa))
				fmt.Fprintf(&out, "/-- the applied map's name is the committed map's name followed by this suffix (empty when shared or not of that shape) -/\ndef %sAppliedSuffix : String := %s\n\n",
					src.prefix, leanStr(suffixOf(fa, fc)))
			}
			if sd := methodDecl(f, "store"); sd != nil {
				// the guard under which `store` rewrites a side-map entry that already exists (and is not pruned):
				// the condition of the `if` whose body calls transaction.Update, as a Lean Bool term
				var guard ast.Expr
				var insertGuard ast.Expr
				ast.Inspect(sd.Body, func(n ast.Node) bool {
					is, ok := n.(*ast.IfStmt)
					if !ok {
						return true
					}
					for _, st := range is.Body.List {
						if es, ok := st.(*ast.ExprStmt); ok {
							if ce, ok := es.X.(*ast.CallExpr); ok {
								switch exprString(ce.Fun) {
								case "transaction.Update":
									guard = is.Cond
								}
							}
						}
					}
					return true
				})
				_ = insertGuard
				if guard == nil {
					fail("%s: store: no `if … { transaction.Update(…) }`", src.rel)
				} else {
					c := &skCtx{callOrd: map[token.Pos]int{}, tracked: map[string]bool{}}
					c.prepass(sd)
					fmt.Fprintf(&out, "/-- `store` in %s rewrites an existing, unpruned side-map entry under this condition (operands and uninterpreted conditions named by their Go text) -/\ndef %sStoreRewriteGuard (g : OnosVerif.Generated.V2G) : Bool :=\n  %s\n\n", src.rel, src.prefix, c.cond(guard))
				}
			}
			wd := methodDecl(f, "Watch")
			if wd == nil {
				fail("%s: method Watch not found", src.rel)
				continue
			}
			wf := watchFactsOf(f, wd)
			fmt.Fprintf(&out, "/-- `Watch` in %s: the listener is registered before every replay read -/\ndef %sWatchRegisterBeforeReplay : Bool := %s\n\n", src.rel, src.prefix, leanBool(wf.registerBeforeReplay))
			fmt.Fprintf(&out, "/-- `Watch` in %s: on every path (with and without replay, one record or all) a statement of Watch's own body registers the listener before the per-watch goroutine is started, so it is in place when Watch returns -/\ndef %sWatchRegistersBeforeReturn : Bool := %s\n\n", src.rel, src.prefix, leanBool(wf.registersBeforeReturn))
			fmt.Fprintf(&out, "/-- `Watch` in %s opens its own primitive event stream (no shared dispatcher goroutine) -/\ndef %sWatchOwnStream : Bool := %s\n\n", src.rel, src.prefix, leanBool(wf.perWatchStream))
			fmt.Fprintf(&out, "/-- sends on the consumer channel inside the per-watch goroutine of %s -/\ndef %sWatchSends : Nat := %d\n\n", src.rel, src.prefix, wf.sends)
			fmt.Fprintf(&out, "/-- … of which inside a `select` that also waits on `ctx.Done()` -/\ndef %sWatchGuardedSends : Nat := %d\n\n", src.prefix, wf.guardedSends)
			fmt.Fprintf(&out, "/-- return statements of the per-watch goroutine of %s -/\ndef %sWatchReturns : Nat := %d\n\n", src.rel, src.prefix, wf.returns)
			fmt.Fprintf(&out, "/-- … of which leave without starting `go func(){ for range eventCh {} }()` -/\ndef %sWatchUndrainedReturns : Nat := %d\n\n", src.prefix, wf.undrainedReturns)
			fmt.Fprintf(&out, "/-- returns of the per-watch goroutine of %s taken in a `case <-ctx.Done():` branch of a select (the watcher leaves while the dispatcher may still hold it in a snapshot of the listeners) -/\ndef %sWatchCancelReturns : Nat := %d\n\n", src.rel, src.prefix, wf.cancelReturns)
			fmt.Fprintf(&out, "/-- … of which first start `go func(){ for range eventCh {} }()`, the drain that never ends -/\ndef %sWatchCancelReturnsDrained : Nat := %d\n\n", src.prefix, wf.cancelReturnsDrained)
			fmt.Fprintf(&out, "/-- the per-watch goroutine of %s has `defer close(ch)` -/\ndef %sWatchDeferClose : Bool := %s\n\n", src.rel, src.prefix, leanBool(wf.deferClose))
			fmt.Fprintf(&out, "/-- returns of that goroutine preceded by an explicit `close(ch)` in their block -/\ndef %sWatchExplicitCloseReturns : Nat := %d\n\n", src.prefix, wf.explicitCloseReturns)
		}
	})
}
