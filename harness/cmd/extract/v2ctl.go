package main

// Control skeletons of the v2 reconcilers (C01 C02 C04 C05 C06 C07 C09 C10 C11).
//
// Every reconcile function of pkg/controller/v2/{proposal,transaction,configuration,mastership}
// is translated into a Lean function
//
//     def v2sk_<name> (g : V2G) : List String
//
// that returns the *trace* of the invocation: the tracked assignments (`set lhs := rhs`), the
// calls (`call f`) and the way it returns (`ret nil | ret err | ret requeue <id>`), in execution
// order, as a function of an abstract state `g`:
//
//     g.n "<Go expression>"   the numeric value of an operand (an index, a term, an enum constant,
//                             a string taken as a code, "" = 0)
//     g.b "<Go condition>"    the truth value of a condition the translator does not interpret
//                             (`x != nil`, `err != nil` after a given call, `ok`, a call)
//
// The translation is by continuation passing over the syntax tree: `if`/`else`, `switch` (value and
// type switches), `return`, `for`/`range` (body once, bracketed by `for … {` / `}` tokens),
// assignments and calls.  Nothing is compared as text: conditions become Lean Bool terms, so a
// re-ordered conjunction or a swapped comparison is judged by what it computes.  The hand-written
// twin is proved equal to these functions on the abstraction of its own state
// (`OnosVerif/Proofs/V2Skel*.lean`): a changed guard, a dropped or re-ordered write, a dropped
// re-queue changes the generated function and the equality theorem stops checking.

import (
	"fmt"
	"go/ast"
	"go/token"
	"regexp"
	"sort"
	"strings"
)

type skDef struct {
	pos  token.Pos
	v    string // err | ok
	name string // what it stands for
}

type skCtx struct {
	fresh   int
	callOrd map[token.Pos]int // ordinal of a call among the calls of the same callee (source order)
	defs    []skDef           // assignments to err / ok, in source order
	tracked map[string]bool
}

// prepass numbers the calls and records which call every assignment to `err` / `ok` stands for;
// both are functions of the syntax tree alone, so a continuation can be translated in any context.
func (c *skCtx) prepass(fd *ast.FuncDecl) {
	count := map[string]int{}
	var cs []*ast.CallExpr
	ast.Inspect(fd.Body, func(m ast.Node) bool {
		if ce, ok := m.(*ast.CallExpr); ok {
			cs = append(cs, ce)
		}
		return true
	})
	sort.SliceStable(cs, func(i, j int) bool { return cs[i].Pos() < cs[j].Pos() })
	for _, ce := range cs {
		name := strings.TrimSuffix(exprString(ce.Fun), "()")
		count[name]++
		c.callOrd[ce.Pos()] = count[name]
	}
	ast.Inspect(fd.Body, func(m ast.Node) bool {
		as, ok := m.(*ast.AssignStmt)
		if !ok || len(as.Rhs) != 1 {
			return true
		}
		for _, l := range as.Lhs {
			id, ok := l.(*ast.Ident)
			if !ok || (id.Name != "err" && id.Name != "ok") {
				continue
			}
			what := skExpr(as.Rhs[0])
			if ce, isCall := as.Rhs[0].(*ast.CallExpr); isCall {
				name := strings.TrimSuffix(exprString(ce.Fun), "()")
				what = fmt.Sprintf("%s#%d", name, c.callOrd[ce.Pos()])
			} else if ix, isIx := as.Rhs[0].(*ast.IndexExpr); isIx {
				what = skExpr(ix.X) + "[]"
			}
			c.defs = append(c.defs, skDef{as.Pos(), id.Name, what})
		}
		return true
	})
	sort.SliceStable(c.defs, func(i, j int) bool { return c.defs[i].pos < c.defs[j].pos })
}

// reaching names the call an `err` / `ok` read at pos stands for (the closest assignment before it)
func (c *skCtx) reaching(v string, pos token.Pos) string {
	name := "?"
	for _, d := range c.defs {
		if d.pos <= pos && d.v == v {
			name = d.what()
		}
	}
	return name
}

func (d skDef) what() string { return d.name }

// calls that carry no protocol meaning
var skIgnoredCallPrefixes = []string{"log.", "errors.", "fmt.", "time.", "strings.", "sort.", "proto.", "status.", "codes."}
var skIgnoredCalls = map[string]bool{"make": true, "len": true, "append": true, "getCurrentTimestamp": true,
	"string": true, "uint64": true, "int": true, "copy": true, "delete": true, "new": true, "cap": true, "panic": true,
	"ctx.Err": true, "ctx.Done": true}

func skIgnoredCall(name string) bool {
	if skIgnoredCalls[name] {
		return true
	}
	for _, p := range skIgnoredCallPrefixes {
		if strings.HasPrefix(name, p) {
			return true
		}
	}
	// type conversions and constructors of the API packages: configapi.TargetID(x), topoapi.ID(x)
	if strings.HasPrefix(name, "configapi.") || strings.HasPrefix(name, "topoapi.") || strings.HasPrefix(name, "gnmi.") {
		return true
	}
	return false
}

// skExpr prints an expression completely (composite literals with their fields, calls with their
// arguments); fields named Start/End (timestamps) are left out.
func skExpr(e ast.Expr) string {
	switch x := e.(type) {
	case nil:
		return ""
	case *ast.Ident:
		return x.Name
	case *ast.BasicLit:
		return x.Value
	case *ast.SelectorExpr:
		return skExpr(x.X) + "." + x.Sel.Name
	case *ast.StarExpr:
		return "*" + skExpr(x.X)
	case *ast.ParenExpr:
		return "(" + skExpr(x.X) + ")"
	case *ast.UnaryExpr:
		return x.Op.String() + skExpr(x.X)
	case *ast.BinaryExpr:
		return skExpr(x.X) + " " + x.Op.String() + " " + skExpr(x.Y)
	case *ast.IndexExpr:
		return skExpr(x.X) + "[" + skExpr(x.Index) + "]"
	case *ast.TypeAssertExpr:
		return skExpr(x.X) + ".(" + skExpr(x.Type) + ")"
	case *ast.CallExpr:
		args := make([]string, len(x.Args))
		for i, a := range x.Args {
			args[i] = skExpr(a)
		}
		return skExpr(x.Fun) + "(" + strings.Join(args, ", ") + ")"
	case *ast.KeyValueExpr:
		return skExpr(x.Key) + ": " + skExpr(x.Value)
	case *ast.CompositeLit:
		var fs []string
		for _, el := range x.Elts {
			if kv, ok := el.(*ast.KeyValueExpr); ok {
				if id, ok := kv.Key.(*ast.Ident); ok && (id.Name == "Start" || id.Name == "End") {
					continue
				}
				if cl, ok := kv.Value.(*ast.CompositeLit); ok && skExpr(cl) == skExpr(cl.Type)+"{}" {
					continue // a nested literal that only carried timestamps
				}
			}
			fs = append(fs, skExpr(el))
		}
		return skExpr(x.Type) + "{" + strings.Join(fs, ", ") + "}"
	case *ast.ArrayType:
		return "[]" + skExpr(x.Elt)
	case *ast.MapType:
		return "map[" + skExpr(x.Key) + "]" + skExpr(x.Value)
	case *ast.FuncLit:
		return "func{}"
	}
	return fmt.Sprintf("<%T>", e)
}

// statement-level calls of an expression, outermost first, in source order
func (c *skCtx) callTokens(e ast.Expr) []string {
	type pc struct {
		pos  token.Pos
		name string
	}
	var cs []pc
	ast.Inspect(e, func(m ast.Node) bool {
		if _, ok := m.(*ast.FuncLit); ok {
			return false
		}
		if ce, ok := m.(*ast.CallExpr); ok {
			cs = append(cs, pc{ce.Pos(), exprString(ce.Fun)})
		}
		return true
	})
	sort.SliceStable(cs, func(i, j int) bool { return cs[i].pos < cs[j].pos })
	var toks []string
	for _, x := range cs {
		name := strings.TrimSuffix(x.name, "()")
		if skIgnoredCall(name) {
			continue
		}
		toks = append(toks, "call "+name)
	}
	return toks
}

func isNil(e ast.Expr) bool {
	id, ok := e.(*ast.Ident)
	return ok && id.Name == "nil"
}

// numeric operand of a comparison
func (c *skCtx) operand(e ast.Expr) string {
	switch x := e.(type) {
	case *ast.ParenExpr:
		return c.operand(x.X)
	case *ast.BasicLit:
		if x.Kind == token.INT {
			return x.Value
		}
		if x.Kind == token.STRING && (x.Value == `""` || x.Value == "``") {
			return "0"
		}
	}
	return "g.n " + leanStr(skExpr(e))
}

func (c *skCtx) boolAtom(e ast.Expr) string {
	s := skExpr(e)
	// err / ok are re-used variables: name them after the call that set them
	if s == "ok" {
		s = "ok@" + c.reaching("ok", e.Pos())
	} else if s == "err" || strings.Contains(s, "(err)") {
		s = s + "@" + c.reaching("err", e.Pos())
	}
	return "g.b " + leanStr(s)
}

// cond translates a Go condition into a Lean Bool term over g.
func (c *skCtx) cond(e ast.Expr) string {
	switch x := e.(type) {
	case *ast.ParenExpr:
		return c.cond(x.X)
	case *ast.UnaryExpr:
		if x.Op == token.NOT {
			return "(!" + c.cond(x.X) + ")"
		}
	case *ast.BinaryExpr:
		switch x.Op {
		case token.LAND:
			return "(" + c.cond(x.X) + " && " + c.cond(x.Y) + ")"
		case token.LOR:
			return "(" + c.cond(x.X) + " || " + c.cond(x.Y) + ")"
		case token.EQL, token.NEQ, token.LSS, token.GTR, token.LEQ, token.GEQ:
			if isNil(x.Y) || isNil(x.X) {
				other := x.X
				if isNil(x.X) {
					other = x.Y
				}
				var atom string
				if s := skExpr(other); s == "err" {
					atom = "g.b " + leanStr("err@"+c.reaching("err", x.Pos()))
				} else {
					atom = "g.b " + leanStr(s+" != nil")
				}
				if x.Op == token.NEQ {
					return atom
				}
				return "(!" + atom + ")"
			}
			l, r := c.operand(x.X), c.operand(x.Y)
			switch x.Op {
			case token.EQL:
				return "(" + l + " == " + r + ")"
			case token.NEQ:
				return "(" + l + " != " + r + ")"
			// Bool-valued comparisons: no Decidable instance whose arguments a rewrite could leave behind
			case token.LSS:
				return "(Nat.blt (" + l + ") (" + r + "))"
			case token.GTR:
				return "(Nat.blt (" + r + ") (" + l + "))"
			case token.LEQ:
				return "(Nat.ble (" + l + ") (" + r + "))"
			case token.GEQ:
				return "(Nat.ble (" + r + ") (" + l + "))"
			}
		}
	}
	return c.boolAtom(e)
}

var skWriteCall = regexp.MustCompile(`^(r\.\w+\.(Update|UpdateStatus|Create|Delete)|r\.update\w+Status|\w+\.Set|r\.applyValues)$`)

// tok renders one token as a constructor of the Lean type `Tok`
func tok(t string) string {
	switch {
	case strings.HasPrefix(t, "\x00"):
		return t[1:]
	case strings.HasPrefix(t, "set "):
		parts := strings.SplitN(t[4:], " := ", 2)
		if len(parts) == 2 {
			return ".set " + leanStr(parts[0]) + " " + leanStr(parts[1])
		}
		return ".set " + leanStr(t[4:]) + " \"\""
	case strings.HasPrefix(t, "call "):
		if skWriteCall.MatchString(t[5:]) {
			return ".write " + leanStr(t[5:])
		}
		return ".call " + leanStr(t[5:])
	case strings.HasPrefix(t, "for "):
		return ".loop " + leanStr(strings.TrimSuffix(strings.TrimPrefix(t, "for "), " {"))
	case t == "}":
		return ".endLoop"
	}
	return ".misc " + leanStr(t)
}

func lst(toks []string) string {
	q := make([]string, len(toks))
	for i, t := range toks {
		q[i] = tok(t)
	}
	return "[" + strings.Join(q, ", ") + "]"
}

// share names a long continuation so that the branches refer to it instead of copying it
func (c *skCtx) share(kk string, ind string) (name string, wrap func(string) string) {
	if len(kk) <= 60 {
		return kk, func(s string) string { return s }
	}
	c.fresh++
	n := fmt.Sprintf("k%d", c.fresh)
	return n, func(s string) string {
		if !strings.Contains(s, n) {
			return s
		}
		return "(let " + n + " : List Tok := " + kk + "\n" + ind + s + ")"
	}
}

// cat prepends literal tokens to a continuation term
func cat(toks []string, k string) string {
	if len(toks) == 0 {
		return k
	}
	if k == "[]" {
		return lst(toks)
	}
	return lst(toks) + " ++ " + k
}

func (c *skCtx) trackedLHS(e ast.Expr) bool {
	s := skExpr(e)
	if strings.HasSuffix(s, ".Start") || strings.HasSuffix(s, ".End") {
		return false
	}
	root := s
	if i := strings.IndexAny(s, ".["); i >= 0 {
		root = s[:i]
	}
	return c.tracked[root]
}

func operandLike(e ast.Expr) bool {
	switch x := e.(type) {
	case *ast.Ident:
		return x.Name != "nil" && x.Name != "true" && x.Name != "false"
	case *ast.SelectorExpr:
		return operandLike(x.X)
	case *ast.BasicLit:
		return x.Kind == token.INT || (x.Kind == token.STRING && x.Value == `""`)
	case *ast.ParenExpr:
		return operandLike(x.X)
	}
	return false
}

// setTokens: `lhs = rhs` as tokens.  An operand on the right is taken by value (`setN`), a composite
// literal field by field (timestamps and descriptions left out), anything else as written.
func (c *skCtx) setTokens(lhs string, rhs ast.Expr) []string {
	if operandLike(rhs) {
		return []string{"\x00.setN " + leanStr(lhs) + " (" + c.operand(rhs) + ")"}
	}
	e := rhs
	if u, ok := e.(*ast.UnaryExpr); ok && u.Op == token.AND {
		e = u.X
	}
	if cl, ok := e.(*ast.CompositeLit); ok {
		var toks []string
		for _, el := range cl.Elts {
			kv, ok := el.(*ast.KeyValueExpr)
			if !ok {
				return []string{"set " + lhs + " := " + skExpr(rhs)}
			}
			key := skExpr(kv.Key)
			if key == "Start" || key == "End" || key == "Description" {
				continue
			}
			toks = append(toks, c.setTokens(lhs+"."+key, kv.Value)...)
		}
		if len(toks) == 0 {
			return []string{"set " + lhs + " := " + skExpr(cl.Type) + "{}"}
		}
		return toks
	}
	return []string{"set " + lhs + " := " + skExpr(rhs)}
}

// holes replaces the operands of a call tree (identifiers, selectors, literals, arithmetic on them)
// by `_` and collects them as numeric terms, so that a re-queued id is compared by value
func (c *skCtx) holes(e ast.Expr, args *[]string) string {
	if ce, ok := e.(*ast.CallExpr); ok {
		parts := make([]string, len(ce.Args))
		for i, a := range ce.Args {
			parts[i] = c.holes(a, args)
		}
		return skExpr(ce.Fun) + "(" + strings.Join(parts, ", ") + ")"
	}
	*args = append(*args, c.arith(e))
	return "_"
}

// arith: an operand, or operand ± literal
func (c *skCtx) arith(e ast.Expr) string {
	if be, ok := e.(*ast.BinaryExpr); ok && (be.Op == token.ADD || be.Op == token.SUB) {
		return "(" + c.arith(be.X) + " " + be.Op.String() + " " + c.arith(be.Y) + ")"
	}
	if pe, ok := e.(*ast.ParenExpr); ok {
		return c.arith(pe.X)
	}
	return "(" + c.operand(e) + ")"
}

func (c *skCtx) retToken(r *ast.ReturnStmt) string {
	raw := func(shape string, args []string) string {
		return "\x00.ret " + leanStr(shape) + " [" + strings.Join(args, ", ") + "]"
	}
	if len(r.Results) == 0 {
		return raw("", nil)
	}
	last := skExpr(r.Results[len(r.Results)-1])
	first := r.Results[0]
	if cl, ok := first.(*ast.CompositeLit); ok && len(r.Results) == 2 {
		for _, el := range cl.Elts {
			if kv, ok := el.(*ast.KeyValueExpr); ok && skExpr(kv.Key) == "Requeue" {
				var args []string
				shape := c.holes(kv.Value, &args)
				return raw("requeue "+shape+" "+last, args)
			}
		}
		return raw(last, nil)
	}
	parts := make([]string, len(r.Results))
	for i, x := range r.Results {
		parts[i] = skExpr(x)
	}
	return raw(strings.Join(parts, ", "), nil)
}

// block translates a statement list followed by continuation k (a Lean term) and, inside a loop,
// kLoop (where `continue`/`break` go).  indent is for readability of the generated file only.
func (c *skCtx) block(stmts []ast.Stmt, k string, kLoop string, ind string) string {
	if len(stmts) == 0 {
		return k
	}
	s, rest := stmts[0], stmts[1:]
	next := func() string { return c.block(rest, k, kLoop, ind) }
	switch x := s.(type) {
	case *ast.ReturnStmt:
		var toks []string
		for _, r := range x.Results {
			// a call in a return position: `return r.reconcileApply(ctx, proposal)`
			toks = append(toks, c.callTokens(r)...)
		}
		if len(x.Results) == 1 || (len(toks) > 0 && len(x.Results) <= 2) {
			if _, isCall := x.Results[0].(*ast.CallExpr); isCall {
				return lst(append(toks, "\x00.ret \"call\" []"))
			}
		}
		return lst(append(toks, c.retToken(x)))
	case *ast.BranchStmt:
		if kLoop != "" {
			return kLoop
		}
		return cat([]string{"branch " + x.Tok.String()}, next())
	case *ast.BlockStmt:
		return c.block(append(append([]ast.Stmt{}, x.List...), rest...), k, kLoop, ind)
	case *ast.ExprStmt:
		return cat(c.callTokens(x.X), next())
	case *ast.AssignStmt:
		var toks []string
		for _, r := range x.Rhs {
			toks = append(toks, c.callTokens(r)...)
		}
		if len(x.Lhs) == len(x.Rhs) {
			for i, l := range x.Lhs {
				if c.trackedLHS(l) {
					toks = append(toks, c.setTokens(skExpr(l), x.Rhs[i])...)
				} else if id, ok := l.(*ast.Ident); ok && id.Name != "_" {
					// locals that carry the outcome of a loop: flags set to a constant, slices built by append
					if r, ok := x.Rhs[i].(*ast.Ident); ok && (r.Name == "true" || r.Name == "false") {
						toks = append(toks, "set "+id.Name+" := "+r.Name)
					} else if ce, ok := x.Rhs[i].(*ast.CallExpr); ok && exprString(ce.Fun) == "append" {
						toks = append(toks, "set "+id.Name+" := "+skExpr(ce))
					}
				}
			}
		}
		return cat(toks, next())
	case *ast.IncDecStmt:
		if c.trackedLHS(x.X) {
			return cat([]string{"set " + skExpr(x.X) + " " + x.Tok.String()}, next())
		}
		return next()
	case *ast.IfStmt:
		if x.Init != nil {
			// translate the init statement, then the test, in that order
			inner := &ast.IfStmt{Cond: x.Cond, Body: x.Body, Else: x.Else}
			return c.block(append([]ast.Stmt{x.Init, inner}, rest...), k, kLoop, ind)
		}
		cond := c.cond(x.Cond)
		kk, wrap := c.share(next(), ind)
		thenT := c.block(x.Body.List, kk, kLoop, ind+"  ")
		var elseT string
		switch el := x.Else.(type) {
		case nil:
			elseT = kk
		case *ast.BlockStmt:
			elseT = c.block(el.List, kk, kLoop, ind+"  ")
		case *ast.IfStmt:
			elseT = c.block([]ast.Stmt{el}, kk, kLoop, ind+"  ")
		}
		if thenT == elseT {
			return wrap(thenT)
		}
		return wrap("(if " + cond + "\n" + ind + "  then " + thenT + "\n" + ind + "  else " + elseT + ")")
	case *ast.SwitchStmt:
		if x.Init != nil {
			inner := &ast.SwitchStmt{Tag: x.Tag, Body: x.Body}
			return c.block(append([]ast.Stmt{x.Init, inner}, rest...), k, kLoop, ind)
		}
		kk, wrap := c.share(next(), ind)
		var def *ast.CaseClause
		type arm struct{ cond, body string }
		var arms []arm
		for _, st := range x.Body.List {
			cc := st.(*ast.CaseClause)
			if cc.List == nil {
				def = cc
				continue
			}
			var alts []string
			for _, l := range cc.List {
				if x.Tag == nil {
					alts = append(alts, c.cond(l))
				} else {
					alts = append(alts, "("+c.operand(x.Tag)+" == "+c.operand(l)+")")
				}
			}
			arms = append(arms, arm{strings.Join(alts, " || "), c.block(cc.Body, kk, kLoop, ind+"  ")})
		}
		res := kk
		if def != nil {
			res = c.block(def.Body, kk, kLoop, ind+"  ")
		}
		for i := len(arms) - 1; i >= 0; i-- {
			res = "(if " + arms[i].cond + "\n" + ind + "  then " + arms[i].body + "\n" + ind + "  else " + res + ")"
		}
		return wrap(res)
	case *ast.TypeSwitchStmt:
		kk, wrap := c.share(next(), ind)
		var subject string
		switch a := x.Assign.(type) {
		case *ast.AssignStmt:
			subject = skExpr(a.Rhs[0])
		case *ast.ExprStmt:
			subject = skExpr(a.X)
		}
		subject = strings.TrimSuffix(subject, ".(type)")
		var def *ast.CaseClause
		type arm struct{ cond, body string }
		var arms []arm
		for _, st := range x.Body.List {
			cc := st.(*ast.CaseClause)
			if cc.List == nil {
				def = cc
				continue
			}
			var alts []string
			for _, l := range cc.List {
				alts = append(alts, "g.b "+leanStr(subject+" is "+skExpr(l)))
			}
			arms = append(arms, arm{strings.Join(alts, " || "), c.block(cc.Body, kk, kLoop, ind+"  ")})
		}
		res := kk
		if def != nil {
			res = c.block(def.Body, kk, kLoop, ind+"  ")
		}
		for i := len(arms) - 1; i >= 0; i-- {
			res = "(if " + arms[i].cond + "\n" + ind + "  then " + arms[i].body + "\n" + ind + "  else " + res + ")"
		}
		return wrap(res)
	case *ast.RangeStmt:
		head := "for " + skExpr(x.X) + " {"
		toks := c.callTokens(x.X)
		kk := cat([]string{"}"}, next())
		body := c.block(x.Body.List, kk, kk, ind+"  ")
		return cat(append(toks, head), body)
	case *ast.ForStmt:
		head := "for {"
		if x.Cond != nil {
			head = "for " + skExpr(x.Cond) + " {"
		}
		kk := cat([]string{"}"}, next())
		body := c.block(x.Body.List, kk, kk, ind+"  ")
		return cat([]string{head}, body)
	case *ast.DeclStmt, *ast.EmptyStmt:
		return next()
	case *ast.DeferStmt:
		return cat(append([]string{"defer"}, c.callTokens(x.Call)...), next())
	case *ast.GoStmt:
		return cat(append([]string{"go"}, c.callTokens(x.Call)...), next())
	case *ast.SelectStmt:
		return cat([]string{"select"}, next())
	case *ast.LabeledStmt:
		return c.block(append([]ast.Stmt{x.Stmt}, rest...), k, kLoop, ind)
	}
	return cat([]string{fmt.Sprintf("unsupported %T", s)}, next())
}

var skTrackedRoots = []string{"configuration", "config", "proposal", "transaction", "prevProposal", "targetProposal", "prevTransaction",
	"targetTransaction", "nextProposal", "changeValues", "rollbackValues", "rollbackIndex"}

func emitSkeleton(rel string, f *ast.File, goName, leanName string) {
	fd := findFunc(f, goName)
	if fd == nil || fd.Body == nil {
		fail("%s: func %s not found", rel, goName)
		return
	}
	c := &skCtx{callOrd: map[token.Pos]int{}, tracked: map[string]bool{}}
	for _, r := range skTrackedRoots {
		c.tracked[r] = true
	}
	c.prepass(fd)
	term := c.block(fd.Body.List, "[.ret \"(end)\" []]", "", "  ")
	fmt.Fprintf(&out, "/-- trace of `%s` in %s as a function of the abstract state (translator `v2ctl.go`) -/\ndef %s (g : V2G) : List Tok :=\n  %s\n\n",
		goName, rel, leanName, term)
}

// emitLoops emits, for every `for … := range transaction.Status.Proposals` of a function (in source
// order, k = 1, 2, …), two more functions: `<lean>_loop<k>_body`, the trace of ONE iteration ending in
// the token `.misc "next"` where the iteration hands over to the next one (end of the body, `continue`)
// or in a return; and `<lean>_loop<k>_after`, the trace of the statements that follow the loop in its
// block.  With them a loop over ANY number of proposals is tied (the whole-function skeleton holds the
// body once): Lean iterates the body over the list (`OnosVerif/V2/SkelLoop.lean`).
func emitLoops(rel string, f *ast.File, goName, leanName string) {
	fd := findFunc(f, goName)
	if fd == nil || fd.Body == nil {
		return
	}
	k := 0
	// outer: the statements that run after `list` is done (the rest of the enclosing blocks up to the
	// function's end; nothing is carried out of a loop body)
	var visit func(list []ast.Stmt, outer []ast.Stmt)
	visit = func(list []ast.Stmt, outer []ast.Stmt) {
		for i, st := range list {
			follow := append(append([]ast.Stmt{}, list[i+1:]...), outer...)
			switch x := st.(type) {
			case *ast.RangeStmt:
				if exprString(x.X) == "transaction.Status.Proposals" {
					k++
					c := &skCtx{callOrd: map[token.Pos]int{}, tracked: map[string]bool{}}
					for _, r := range skTrackedRoots {
						c.tracked[r] = true
					}
					c.prepass(fd)
					next := "[.misc \"next\"]"
					body := c.block(x.Body.List, next, next, "  ")
					fmt.Fprintf(&out, "/-- one iteration of loop %d over `transaction.Status.Proposals` in `%s` (%s): ends in `.misc \"next\"` or in a return -/\ndef %s_loop%d_body (g : V2G) : List Tok :=\n  %s\n\n",
						k, goName, rel, leanName, k, body)
					c2 := &skCtx{callOrd: map[token.Pos]int{}, tracked: c.tracked}
					c2.prepass(fd)
					after := c2.block(follow, "[.ret \"(end)\" []]", "", "  ")
					fmt.Fprintf(&out, "/-- the statements after loop %d of `%s` in its block -/\ndef %s_loop%d_after (g : V2G) : List Tok :=\n  %s\n\n",
						k, goName, leanName, k, after)
				}
				visit(x.Body.List, nil)
			case *ast.BlockStmt:
				visit(x.List, follow)
			case *ast.IfStmt:
				visit(x.Body.List, follow)
				if eb, ok := x.Else.(*ast.BlockStmt); ok {
					visit(eb.List, follow)
				}
			case *ast.ForStmt:
				visit(x.Body.List, nil)
			case *ast.SwitchStmt:
				for _, cc := range x.Body.List {
					visit(cc.(*ast.CaseClause).Body, follow)
				}
			case *ast.TypeSwitchStmt:
				for _, cc := range x.Body.List {
					visit(cc.(*ast.CaseClause).Body, follow)
				}
			}
		}
	}
	visit(fd.Body.List, nil)
}

func init() {
	sections = append(sections, func() {
		out.WriteString("/-! ## control skeletons of the v2 reconcilers -/\n\n")
		type fn struct{ goName, leanName string }
		for _, unit := range []struct {
			rel string
			fns []fn
		}{
			{"pkg/controller/v2/proposal/controller.go", []fn{
				{"reconcileProposal", "v2sk_prop_dispatch"}, {"reconcileInitialize", "v2sk_prop_initialize"},
				{"reconcileValidate", "v2sk_prop_validate"}, {"reconcileAbort", "v2sk_prop_abort"},
				{"reconcileCommit", "v2sk_prop_commit"}, {"reconcileApply", "v2sk_prop_apply"},
				{"updateProposalStatus", "v2sk_prop_updateStatus"}}},
			{"pkg/controller/v2/transaction/controller.go", []fn{
				{"reconcileTransaction", "v2sk_tx_dispatch"}, {"reconcileInitialize", "v2sk_tx_initialize"},
				{"reconcileValidate", "v2sk_tx_validate"}, {"reconcileCommit", "v2sk_tx_commit"},
				{"reconcileApply", "v2sk_tx_apply"}, {"reconcileAbort", "v2sk_tx_abort"},
				{"updateTransactionStatus", "v2sk_tx_updateStatus"}}},
			{"pkg/controller/v2/configuration/controller.go", []fn{
				{"reconcileConfiguration", "v2sk_cfg_reconcile"}}},
			{"pkg/controller/v2/mastership/controller.go", []fn{
				{"Reconcile", "v2sk_mast_reconcile"}}},
			// the v3 per-target transaction reconciler (C20)
			{"pkg/controller/v3/transaction/controller.go", []fn{
				{"reconcileTransaction", "v3sk_dispatch"}, {"reconcileChange", "v3sk_change"},
				{"reconcileRollback", "v3sk_rollback"}, {"commitChange", "v3sk_commitChange"},
				{"applyChange", "v3sk_applyChange"}, {"commitRollback", "v3sk_commitRollback"},
				{"applyRollback", "v3sk_applyRollback"}}},
		} {
			f := parseFile(unit.rel)
			for _, x := range unit.fns {
				if strings.HasPrefix(x.leanName, "v3sk_") {
					emitSkeletonSym(unit.rel, f, x.goName, x.leanName)
				} else {
					emitSkeleton(unit.rel, f, x.goName, x.leanName)
					if strings.HasPrefix(x.leanName, "v2sk_tx_") && x.leanName != "v2sk_tx_dispatch" && x.leanName != "v2sk_tx_initialize" {
						emitLoops(unit.rel, f, x.goName, x.leanName)
					}
				}
			}
		}
	})
}
