package main

import (
	"go/parser"
	"reflect"
	"testing"
)

// sameTree must tell different functions apart and must ignore only the pointer/value difference.
func TestSameTree(t *testing.T) {
	src := func(body string) string { return "package p\nfunc f(paths []*configapi.PathValue) int {\n" + body + "\n}\n" }
	parse := func(s string) interface{} {
		f, err := parser.ParseFile(fset, "x.go", s, 0)
		if err != nil {
			t.Fatal(err)
		}
		return findFunc(f, "f")
	}
	a := parse(src("for _, pv := range paths { if strings.HasPrefix(pv.Path, d) { return 1 } }\nreturn 0"))
	b := parse("package p\nfunc f(paths []configapi.PathValue) int {\nfor _, pv := range paths { if strings.HasPrefix(pv.Path, d) { return 1 } }\nreturn 0\n}\n")
	c := parse(src("for _, pv := range paths { if strings.HasSuffix(pv.Path, d) { return 1 } }\nreturn 0"))
	d := parse(src("for _, pv := range paths { if !strings.HasPrefix(pv.Path, d) { return 1 } }\nreturn 0"))
	if !sameTree(reflect.ValueOf(a), reflect.ValueOf(b)) {
		t.Error("pointer/value difference must be ignored")
	}
	if sameTree(reflect.ValueOf(a), reflect.ValueOf(c)) {
		t.Error("a different callee must be seen")
	}
	if sameTree(reflect.ValueOf(a), reflect.ValueOf(d)) {
		t.Error("a negation must be seen")
	}
}
