package main

// C19 facts: which fields the per-target request built by splitSubscribeRequest / copyPrefix
// carries over from the original (composite-literal keys and where each value comes from), set
// against the exported fields of the gnmi message types read from the gnmi module's sources.
// The twin OnosVerif/Subscribe/Model.lean copies exactly the listed fields.

import (
	"fmt"
	"go/ast"
	"go/parser"
	"os/exec"
	"path/filepath"
	"strings"
)

// moduleDir asks the go tool where a dependency of /repo lives.
func moduleDir(mod string) string {
	cmd := exec.Command("go", "list", "-m", "-f", "{{.Dir}}", mod)
	cmd.Dir = repo
	b, err := cmd.Output()
	if err != nil {
		fail("go list -m %s: %v", mod, err)
		return ""
	}
	return strings.TrimSpace(string(b))
}

// exportedFields lists the exported fields of a struct type declared in a file.
func exportedFields(f *ast.File, typeName string) []string {
	var out []string
	for _, d := range f.Decls {
		gd, ok := d.(*ast.GenDecl)
		if !ok {
			continue
		}
		for _, s := range gd.Specs {
			ts, ok := s.(*ast.TypeSpec)
			if !ok || ts.Name.Name != typeName {
				continue
			}
			st, ok := ts.Type.(*ast.StructType)
			if !ok {
				continue
			}
			for _, fld := range st.Fields.List {
				for _, n := range fld.Names {
					if n.IsExported() {
						out = append(out, n.Name)
					}
				}
			}
		}
	}
	return out
}

// literalFields finds the composite literal of the given type inside a function and classifies
// every key: "copy" = the same-named field of `src` (or its nil-safe getter), else the callee /
// expression kind.
func literalFields(fn *ast.FuncDecl, typeName string, srcs []string) [][2]string {
	var res [][2]string
	if fn == nil {
		return nil
	}
	ast.Inspect(fn.Body, func(n ast.Node) bool {
		cl, ok := n.(*ast.CompositeLit)
		if !ok || res != nil {
			return true
		}
		if exprString(cl.Type) != typeName {
			return true
		}
		for _, el := range cl.Elts {
			kvx, ok := el.(*ast.KeyValueExpr)
			if !ok {
				continue
			}
			key := exprString(kvx.Key)
			val := "other"
			vs := exprString(kvx.Value)
			for _, src := range srcs {
				if vs == src+"."+key || vs == src+".Get"+key+"()" {
					val = "copy"
				}
			}
			if val == "other" {
				switch v := kvx.Value.(type) {
				case *ast.CallExpr:
					val = "call:" + exprString(v.Fun)
				case *ast.UnaryExpr:
					val = "literal"
				case *ast.Ident:
					val = "param:" + v.Name
				}
			}
			res = append(res, [2]string{key, val})
		}
		return true
	})
	return res
}

func leanPairs(ps [][2]string) string {
	parts := make([]string, len(ps))
	for i, p := range ps {
		parts[i] = fmt.Sprintf("(%s, %s)", leanStr(p[0]), leanStr(p[1]))
	}
	return "[" + strings.Join(parts, ", ") + "]"
}

// subAtom classifies one conjunct of the dispatch conditions of processSubscribeRequest.
func subAtom(e ast.Expr) string {
	switch exprString(e) {
	case "req.GetSubscribe() != nil":
		return "sub"
	case "req.GetPoll() != nil":
		return "poll"
	case "sctx.req != nil":
		return "have"
	case "sctx.req == nil":
		return "nothave"
	}
	return "other"
}

// subBranch classifies what a branch of the dispatch does: refuse = returns an Invalid error
// straight away; split = remembers the request, splits it and forwards; poll = relays a poll.
func subBranch(b *ast.BlockStmt) string {
	kind := "other"
	hasSplit, hasPoll := false, false
	ast.Inspect(b, func(n ast.Node) bool {
		if c, ok := n.(*ast.CallExpr); ok {
			switch exprString(c.Fun) {
			case "splitSubscribeRequest":
				hasSplit = true
			case "s.sendPollRequest":
				hasPoll = true
			}
		}
		return true
	})
	switch {
	case hasSplit && !hasPoll:
		kind = "split"
	case hasPoll && !hasSplit:
		kind = "poll"
	case len(b.List) == 1:
		if ret, ok := b.List[0].(*ast.ReturnStmt); ok && len(ret.Results) == 1 {
			if c, ok := ret.Results[0].(*ast.CallExpr); ok && exprString(c.Fun) == "errors.NewInvalid" {
				kind = "refuse"
			}
		}
	}
	return kind
}

func init() {
	sections = append(sections, func() {
		const rel = "pkg/northbound/gnmi/v2/subscribe.go"
		file := parseFile(rel)
		split := findFunc(file, "splitSubscribeRequest")
		cp := findFunc(file, "copyPrefix")
		if split == nil || cp == nil {
			fail("%s: splitSubscribeRequest / copyPrefix not found", rel)
			return
		}
		dir := moduleDir("github.com/openconfig/gnmi")
		var pb *ast.File
		if dir != "" {
			var err error
			pb, err = parser.ParseFile(fset, filepath.Join(dir, "proto", "gnmi", "gnmi.pb.go"), nil, 0)
			if err != nil {
				fail("cannot parse gnmi.pb.go: %v", err)
				return
			}
		}
		// the dispatch of processSubscribeRequest: an if / else-if chain
		proc := findFunc(file, "processSubscribeRequest")
		var chain []string
		if proc != nil && len(proc.Body.List) > 0 {
			var cur ast.Stmt = proc.Body.List[0]
			for cur != nil {
				switch x := cur.(type) {
				case *ast.IfStmt:
					var atoms []string
					for _, cj := range flattenAnd(x.Cond) {
						atoms = append(atoms, subAtom(cj))
					}
					chain = append(chain, fmt.Sprintf("(%s, %s)", leanStrList(atoms), leanStr(subBranch(x.Body))))
					cur = x.Else
				case *ast.BlockStmt:
					chain = append(chain, fmt.Sprintf("([], %s)", leanStr(subBranch(x))))
					cur = nil
				default:
					cur = nil
				}
			}
		}
		fmt.Fprintf(&out, "/-! ### C19: dispatch of processSubscribeRequest (%s) -/\n\n", rel)
		fmt.Fprintf(&out, "/-- the if / else-if chain: (conjuncts of the condition — sub = the message is a subscription, poll = it is a poll, have / nothave = a subscription was / was not received on this stream; empty = final else, what the branch does) -/\ndef subProcessChain : List (List String × String) := [%s]\n\n", strings.Join(chain, ", "))
		fmt.Fprintf(&out, "/-! ### C19: fields carried into the per-target subscribe request (%s) -/\n\n", rel)
		fmt.Fprintf(&out, "/-- exported fields of the gnmi message types (from the gnmi module sources) -/\ndef gnmiSubscriptionListFields : List String := %s\ndef gnmiPathFields : List String := %s\ndef gnmiSubscribeRequestFields : List String := %s\n\n",
			leanStrList(exportedFields(pb, "SubscriptionList")), leanStrList(exportedFields(pb, "Path")), leanStrList(exportedFields(pb, "SubscribeRequest")))
		fmt.Fprintf(&out, "/-- keys of the `gnmi.SubscriptionList{…}` literal in splitSubscribeRequest and where each value comes from (`copy` = same field of the original list) -/\ndef splitListLiteral : List (String × String) := %s\n\n", leanPairs(literalFields(split, "gnmi.SubscriptionList", []string{"subs"})))
		fmt.Fprintf(&out, "/-- keys of the `gnmi.SubscribeRequest{…}` literal (`copy` = same field of the original request) -/\ndef splitRequestLiteral : List (String × String) := %s\n\n", leanPairs(literalFields(split, "gnmi.SubscribeRequest", []string{"req"})))
		fmt.Fprintf(&out, "/-- keys of the `gnmi.Path{…}` literal in copyPrefix (`copy` = same field of the original prefix, through its nil-safe getter; `param:target` = the target argument) -/\ndef copyPrefixLiteral : List (String × String) := %s\n\n", leanPairs(literalFields(cp, "gnmi.Path", []string{"prefix"})))
	})
}
