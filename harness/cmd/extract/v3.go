package main

// Facts of the v3 transaction reconciler (C20): whether the two status-update helpers swallow a CAS
// conflict, how errorCode classifies typed errors, and the decision tables of the two nested
// switches on the gRPC code in applyChange / applyRollback.

import (
	"fmt"
	"go/ast"
	"go/token"
	"strings"
)

const v3ctl = "pkg/controller/v3/transaction/controller.go"

// negatedCalls returns the callee names of the `!f(err)` conjuncts of a condition.
func negatedCalls(e ast.Expr) []string {
	switch x := e.(type) {
	case *ast.ParenExpr:
		return negatedCalls(x.X)
	case *ast.BinaryExpr:
		if x.Op == token.LAND {
			return append(negatedCalls(x.X), negatedCalls(x.Y)...)
		}
	case *ast.UnaryExpr:
		if x.Op == token.NOT {
			if c, ok := x.X.(*ast.CallExpr); ok {
				return []string{exprString(c.Fun)}
			}
		}
	}
	return nil
}

// returnsIdent tells whether a block ends by returning the identifier `name` as its last result.
func returnsIdent(b *ast.BlockStmt, name string) bool {
	if b == nil || len(b.List) == 0 {
		return false
	}
	r, ok := b.List[len(b.List)-1].(*ast.ReturnStmt)
	if !ok || len(r.Results) == 0 {
		return false
	}
	id, ok := r.Results[len(r.Results)-1].(*ast.Ident)
	return ok && id.Name == name
}

// swallowsConflict: inside the helper, the guard that returns the store's error excludes conflicts
// (`!errors.IsConflict(err)` is one of its conjuncts), so a conflict falls through to `return nil`.
func swallowsConflict(fd *ast.FuncDecl) (bool, bool) {
	found, swallow := false, false
	ast.Inspect(fd, func(n ast.Node) bool {
		ifs, ok := n.(*ast.IfStmt)
		if !ok || !returnsIdent(ifs.Body, "err") {
			return true
		}
		neg := negatedCalls(ifs.Cond)
		if len(neg) == 0 {
			return true
		}
		found = true
		for _, c := range neg {
			if c == "errors.IsConflict" {
				swallow = true
			}
		}
		return true
	})
	return found, swallow
}

// codeSwitches finds, inside fn, the switch on `code` whose default clause holds the inner switch
// on `code` assigning failureType; it returns the outer table (label -> retry|superseded) and the
// inner table (label -> Failure_X).
func codeSwitches(fd *ast.FuncDecl) (outer [][2]string, inner [][2]string, ok bool) {
	ast.Inspect(fd, func(n ast.Node) bool {
		sw, isSw := n.(*ast.SwitchStmt)
		if !isSw || ok {
			return true
		}
		if id, isID := sw.Tag.(*ast.Ident); !isID || id.Name != "code" {
			return true
		}
		var def *ast.CaseClause
		var tbl [][2]string
		for _, st := range sw.Body.List {
			cc := st.(*ast.CaseClause)
			if cc.List == nil {
				def = cc
				continue
			}
			outcome := "superseded"
			if len(cc.Body) > 0 {
				if r, isR := cc.Body[len(cc.Body)-1].(*ast.ReturnStmt); isR && len(r.Results) > 0 {
					if id, isID := r.Results[len(r.Results)-1].(*ast.Ident); isID && id.Name == "err" {
						outcome = "retry"
					}
				}
			}
			for _, l := range cc.List {
				tbl = append(tbl, [2]string{strings.TrimPrefix(exprString(l), "codes."), outcome})
			}
		}
		if def == nil {
			return true
		}
		// the inner switch of the default clause
		for _, st := range def.Body {
			isw, isSw2 := st.(*ast.SwitchStmt)
			if !isSw2 {
				continue
			}
			var itbl [][2]string
			for _, ist := range isw.Body.List {
				cc := ist.(*ast.CaseClause)
				if len(cc.Body) != 1 {
					continue
				}
				as, isAs := cc.Body[0].(*ast.AssignStmt)
				if !isAs || len(as.Rhs) != 1 {
					continue
				}
				for _, l := range cc.List {
					itbl = append(itbl, [2]string{strings.TrimPrefix(exprString(l), "codes."),
						strings.TrimPrefix(exprString(as.Rhs[0]), "configapi.Failure_")})
				}
			}
			outer, inner, ok = tbl, itbl, true
			return false
		}
		return true
	})
	return
}

// prevLookups lists, per reconcile function and in source order, the `Index:` expression of every
// `prevTransactionID := configapi.TransactionID{…}` (the transaction the function waits for).
func prevLookups(f *ast.File) []string {
	var out []string
	for _, fn := range []string{"commitChange", "applyChange", "commitRollback", "applyRollback"} {
		fd := findFunc(f, fn)
		if fd == nil {
			fail("%s: func %s not found", v3ctl, fn)
			continue
		}
		ast.Inspect(fd.Body, func(n ast.Node) bool {
			as, ok := n.(*ast.AssignStmt)
			if !ok || len(as.Lhs) != 1 || len(as.Rhs) != 1 || exprString(as.Lhs[0]) != "prevTransactionID" {
				return true
			}
			cl, ok := as.Rhs[0].(*ast.CompositeLit)
			if !ok {
				out = append(out, fmt.Sprintf("(%s, %s)", leanStr(fn), leanStr("?"+exprString(as.Rhs[0]))))
				return true
			}
			idx := "?"
			for _, el := range cl.Elts {
				if kv, ok := el.(*ast.KeyValueExpr); ok && exprString(kv.Key) == "Index" {
					idx = exprString(kv.Value)
				}
			}
			out = append(out, fmt.Sprintf("(%s, %s)", leanStr(fn), leanStr(idx)))
			return true
		})
	}
	return out
}

func init() {
	sections = append(sections, func() {
		f := parseFile(v3ctl)
		fmt.Fprintf(&out, "/-- which transaction each function of the v3 transaction reconciler looks up as `prevTransaction` (the `Index:` of every `prevTransactionID`, in source order) -/\ndef v3PrevLookups : List (String × String) := [%s]\n\n", strings.Join(prevLookups(f), ", "))
		for _, h := range []struct{ goName, leanName string }{
			{"updateConfigurationStatus", "v3SwallowCfgConflict"}, {"updateTransactionStatus", "v3SwallowTxConflict"}} {
			fd := findFunc(f, h.goName)
			if fd == nil {
				fail("%s: func %s not found", v3ctl, h.goName)
				continue
			}
			found, swallow := swallowsConflict(fd)
			if !found {
				// no guard of that shape: every error (conflicts included) is returned
				swallow = false
			}
			fmt.Fprintf(&out, "/-- `%s` in %s returns nil on a CAS conflict (the caller goes on to its next write) -/\ndef %s : Bool := %v\n\n",
				h.goName, v3ctl, h.leanName, swallow)
		}
		// errorCode maps typed errors back to their gRPC code (fix 29b9466)
		typed := false
		if fd := findFunc(f, "errorCode"); fd != nil {
			for _, c := range calls(fd) {
				if c == "errors.Status" {
					typed = true
				}
			}
		}
		fmt.Fprintf(&out, "/-- the reconciler classifies a typed southbound error by `errors.Status(err).Code()` (otherwise every device error is `Unknown`) -/\ndef v3ErrorCodeTyped : Bool := %v\n\n", typed)
		for _, fn := range []struct{ goName, leanName string }{{"applyChange", "v3Apply"}, {"applyRollback", "v3Rb"}} {
			fd := findFunc(f, fn.goName)
			if fd == nil {
				fail("%s: func %s not found", v3ctl, fn.goName)
				continue
			}
			outer, inner, ok := codeSwitches(fd)
			if !ok {
				fail("%s: %s: the switch on the gRPC code was not found", v3ctl, fn.goName)
				continue
			}
			fmt.Fprintf(&out, "/-- outer `switch code` of `%s`: codes that make the invocation return the error (retry) or nil (superseded) -/\ndef %sOuter : List (String × String) := %s\n\n",
				fn.goName, fn.leanName, leanPairs(outer))
			fmt.Fprintf(&out, "/-- inner `switch code` of `%s` (default clause): code -> `configapi.Failure_…`; anything else keeps the zero value UNKNOWN -/\ndef %sFailure : List (String × String) := %s\n\n",
				fn.goName, fn.leanName, leanPairs(inner))
		}
	})
}
