package main

// C17 facts: the decision structure of the value conversion code, translated semantically
// (if-chain -> ordered list of (tested list, constructor), declaration -> constant value,
// comparison -> (operator, constant), switch case -> accessor method) for both API versions.

import (
	"fmt"
	"go/ast"
	"go/parser"
	"go/token"
	"os"
	"path/filepath"
	"regexp"
	"strconv"
	"strings"
)

// onosAPIDir locates the onos-api module the repository builds against (go.mod + module cache).
func onosAPIDir() string {
	b, err := os.ReadFile(filepath.Join(repo, "go.mod"))
	if err != nil {
		fail("cannot read go.mod: %v", err)
		return ""
	}
	m := regexp.MustCompile(`github.com/onosproject/onos-api/go\s+(v[^\s]+)`).FindSubmatch(b)
	if m == nil {
		fail("go.mod: onos-api version not found")
		return ""
	}
	cache := os.Getenv("GOMODCACHE")
	if cache == "" {
		gp := os.Getenv("GOPATH")
		if gp == "" {
			home, _ := os.UserHomeDir()
			gp = filepath.Join(home, "go")
		}
		cache = filepath.Join(gp, "pkg", "mod")
	}
	return filepath.Join(cache, "github.com", "onosproject", "onos-api", "go@"+string(m[1]))
}

func parserParse(path string) (*ast.File, error) { return parser.ParseFile(fset, path, nil, 0) }

// widthConsts evaluates the `Width` constant block of onos-api typedvalue.go
// (`WidthUnknown Width = 1 << (iota + 2)` and its implicit repetitions).
func widthConsts(api string) map[string]int64 {
	out := map[string]int64{}
	dir := onosAPIDir()
	if dir == "" {
		return out
	}
	rel := filepath.Join("onos", "config", api, "typedvalue.go")
	f, err := parserParse(filepath.Join(dir, rel))
	if err != nil {
		fail("cannot parse onos-api %s: %v", rel, err)
		return out
	}
	for _, d := range f.Decls {
		gd, ok := d.(*ast.GenDecl)
		if !ok || gd.Tok != token.CONST {
			continue
		}
		var cur ast.Expr
		isWidth := false
		for i, s := range gd.Specs {
			vs := s.(*ast.ValueSpec)
			if len(vs.Values) > 0 {
				cur = vs.Values[0]
				if id, ok := vs.Type.(*ast.Ident); ok && id.Name == "Width" {
					isWidth = true
				} else if vs.Type != nil {
					isWidth = false
				}
			}
			if !isWidth || cur == nil {
				continue
			}
			v, ok := evalIota(cur, int64(i))
			if !ok {
				fail("onos-api %s: cannot evaluate Width constant %s", rel, vs.Names[0].Name)
				continue
			}
			out[vs.Names[0].Name] = v
		}
	}
	if len(out) == 0 {
		fail("onos-api %s: no Width constants found", rel)
	}
	return out
}

func evalIota(e ast.Expr, iota int64) (int64, bool) {
	switch x := e.(type) {
	case *ast.BasicLit:
		v, err := strconv.ParseInt(x.Value, 0, 64)
		return v, err == nil
	case *ast.Ident:
		if x.Name == "iota" {
			return iota, true
		}
	case *ast.ParenExpr:
		return evalIota(x.X, iota)
	case *ast.BinaryExpr:
		a, ok1 := evalIota(x.X, iota)
		b, ok2 := evalIota(x.Y, iota)
		if !ok1 || !ok2 {
			return 0, false
		}
		switch x.Op {
		case token.SHL:
			return a << uint(b), true
		case token.ADD:
			return a + b, true
		case token.SUB:
			return a - b, true
		case token.MUL:
			return a * b, true
		}
	}
	return 0, false
}

// constRef returns the name of a `configapi.WidthX` reference inside an expression
// (possibly wrapped in a conversion such as int32(...)).
func constRef(e ast.Expr) string {
	name := ""
	ast.Inspect(e, func(n ast.Node) bool {
		if s, ok := n.(*ast.SelectorExpr); ok && strings.HasPrefix(s.Sel.Name, "Width") {
			name = s.Sel.Name
		}
		return true
	})
	return name
}

// leafListChain: the trailing `if len(X) > 0 { return configapi.NewY(args), nil } else if …` of handleLeafList.
func leafListChain(fd *ast.FuncDecl, rel string) [][3]string {
	var chain [][3]string
	if fd == nil {
		fail("%s: handleLeafList not found", rel)
		return nil
	}
	var first *ast.IfStmt
	for _, st := range fd.Body.List {
		if is, ok := st.(*ast.IfStmt); ok {
			if be, ok := is.Cond.(*ast.BinaryExpr); ok {
				if c, ok := be.X.(*ast.CallExpr); ok && exprString(c.Fun) == "len" {
					first = is
				}
			}
		}
	}
	for is := first; is != nil; {
		be, ok := is.Cond.(*ast.BinaryExpr)
		if !ok || be.Op != token.GTR || exprString(be.Y) != "0" {
			fail("%s: handleLeafList chain: unexpected condition %s", rel, exprString(is.Cond))
			return nil
		}
		c, ok := be.X.(*ast.CallExpr)
		if !ok || exprString(c.Fun) != "len" || len(c.Args) != 1 {
			fail("%s: handleLeafList chain: unexpected condition %s", rel, exprString(is.Cond))
			return nil
		}
		ret, ok := is.Body.List[0].(*ast.ReturnStmt)
		if !ok || len(ret.Results) == 0 {
			fail("%s: handleLeafList chain: branch does not return", rel)
			return nil
		}
		call, ok := ret.Results[0].(*ast.CallExpr)
		if !ok {
			fail("%s: handleLeafList chain: branch does not return a constructor call", rel)
			return nil
		}
		sel, ok := call.Fun.(*ast.SelectorExpr)
		if !ok {
			fail("%s: handleLeafList chain: unexpected constructor", rel)
			return nil
		}
		args := make([]string, len(call.Args))
		for i, a := range call.Args {
			args[i] = exprString(a)
		}
		chain = append(chain, [3]string{exprString(c.Args[0]), sel.Sel.Name, strings.Join(args, ",")})
		next, _ := is.Else.(*ast.IfStmt)
		is = next
	}
	if len(chain) == 0 {
		fail("%s: handleLeafList chain not found", rel)
	}
	return chain
}

// defaultWidths: `var xWidth = configapi.WidthNN` declarations of a function, in source order.
func defaultWidths(fd *ast.FuncDecl, rel string, consts map[string]int64) [][2]string {
	var out [][2]string
	if fd == nil {
		fail("%s: function not found", rel)
		return nil
	}
	ast.Inspect(fd.Body, func(n ast.Node) bool {
		ds, ok := n.(*ast.DeclStmt)
		if !ok {
			return true
		}
		gd := ds.Decl.(*ast.GenDecl)
		for _, s := range gd.Specs {
			vs, ok := s.(*ast.ValueSpec)
			if !ok || len(vs.Values) != 1 {
				continue
			}
			if c := constRef(vs.Values[0]); c != "" {
				v, ok := consts[c]
				if !ok {
					fail("%s: unknown width constant %s", rel, c)
					continue
				}
				out = append(out, [2]string{vs.Names[0].Name, strconv.FormatInt(v, 10)})
			}
		}
		return true
	})
	return out
}

// leafValueTable: per case of handleLeafValue's switch — the width comparison (operator and
// constant) if there is one, and what is stored under RFC 7951 / otherwise (accessor method or
// local variable name).
type leafCase struct {
	label, op, cnst, rfc, plain string
}

func storedExpr(st ast.Stmt) string {
	as, ok := st.(*ast.AssignStmt)
	if !ok || len(as.Rhs) != 1 {
		return ""
	}
	switch r := as.Rhs[0].(type) {
	case *ast.CallExpr:
		if s, ok := r.Fun.(*ast.SelectorExpr); ok {
			return s.Sel.Name
		}
		return exprString(r.Fun)
	case *ast.Ident:
		return r.Name
	}
	return ""
}

func lastStored(stmts []ast.Stmt) string {
	for i := len(stmts) - 1; i >= 0; i-- {
		if s := storedExpr(stmts[i]); s != "" {
			if as := stmts[i].(*ast.AssignStmt); as.Tok == token.ASSIGN {
				if _, isIndex := as.Lhs[0].(*ast.IndexExpr); isIndex {
					return s
				}
			}
		}
	}
	return ""
}

func leafValueTable(fd *ast.FuncDecl, rel string, consts map[string]int64) []leafCase {
	var out []leafCase
	if fd == nil {
		fail("%s: handleLeafValue not found", rel)
		return nil
	}
	var sw *ast.SwitchStmt
	for _, st := range fd.Body.List {
		if s, ok := st.(*ast.SwitchStmt); ok {
			sw = s
		}
	}
	if sw == nil {
		fail("%s: handleLeafValue: switch not found", rel)
		return nil
	}
	for _, c := range sw.Body.List {
		cc := c.(*ast.CaseClause)
		if len(cc.List) == 0 {
			continue // default
		}
		lc := leafCase{label: strings.TrimPrefix(exprString(cc.List[0]), "configapi.ValueType_")}
		var ifs *ast.IfStmt
		for _, st := range cc.Body {
			if is, ok := st.(*ast.IfStmt); ok {
				ifs = is
			}
		}
		if ifs != nil {
			mentionsRFC := false
			ast.Inspect(ifs.Cond, func(n ast.Node) bool {
				if id, ok := n.(*ast.Ident); ok && id.Name == "jsonRFC7951" {
					mentionsRFC = true
				}
				if be, ok := n.(*ast.BinaryExpr); ok {
					if cn := constRef(be.Y); cn != "" {
						lc.op = be.Op.String()
						v, ok := consts[cn]
						if !ok {
							fail("%s: unknown width constant %s", rel, cn)
						}
						lc.cnst = strconv.FormatInt(v, 10)
					}
				}
				return true
			})
			if !mentionsRFC {
				fail("%s: handleLeafValue case %s: condition without jsonRFC7951", rel, lc.label)
			}
			lc.rfc = lastStored(ifs.Body.List)
			if eb, ok := ifs.Else.(*ast.BlockStmt); ok {
				lc.plain = lastStored(eb.List)
			}
		} else {
			lc.rfc = lastStored(cc.Body)
			lc.plain = lc.rfc
		}
		out = append(out, lc)
	}
	return out
}

func init() {
	sections = append(sections, func() {
		for _, api := range []string{"v2", "v3"} {
			consts := widthConsts(api)
			rel := "pkg/utils/" + api + "/values/gnmi_value.go"
			vf := parseFile(rel)
			up := strings.ToUpper(api)
			chain := leafListChain(findFunc(vf, "handleLeafList"), rel)
			fmt.Fprintf(&out, "/-- the trailing if-chain of `handleLeafList` in %s: (list tested with `len(·) > 0`, constructor, arguments), in order -/\ndef leafListChain%s : List (String × String × String) := [", rel, up)
			for i, c := range chain {
				if i > 0 {
					out.WriteString(", ")
				}
				fmt.Fprintf(&out, "(%s, %s, %s)", leanStr(c[0]), leanStr(c[1]), leanStr(c[2]))
			}
			out.WriteString("]\n\n")
			dw := append(defaultWidths(findFunc(vf, "GnmiTypedValueToNativeType"), rel, consts),
				defaultWidths(findFunc(vf, "handleLeafList"), rel, consts)...)
			fmt.Fprintf(&out, "/-- `var xWidth = configapi.WidthNN` defaults in %s (GnmiTypedValueToNativeType, handleLeafList) -/\ndef defaultWidths%s : List (String × Nat) := [", rel, up)
			for i, d := range dw {
				if i > 0 {
					out.WriteString(", ")
				}
				fmt.Fprintf(&out, "(%s, %s)", leanStr(d[0]), d[1])
			}
			out.WriteString("]\n\n")
			// the decimal64 precision bound and the NaN refusal of GnmiTypedValueToNativeType
			if v, kind, ok := constValue(vf, "maxDecimal64Precision"); ok && kind == token.INT {
				fmt.Fprintf(&out, "/-- `maxDecimal64Precision` in %s: a DecimalVal with a larger precision is refused -/\ndef maxDecimalPrecision%s : Option Nat := some %s\n\n", rel, up, v)
			} else {
				fmt.Fprintf(&out, "/-- %s has no `maxDecimal64Precision`: no precision is refused -/\ndef maxDecimalPrecision%s : Option Nat := none\n\n", rel, up)
			}
			nanRefused := false
			if fd := findFunc(vf, "GnmiTypedValueToNativeType"); fd != nil {
				ast.Inspect(fd.Body, func(n ast.Node) bool {
					cc, ok := n.(*ast.CaseClause)
					if !ok || len(cc.List) != 1 || exprString(cc.List[0]) != "*gnmi.TypedValue_FloatVal" {
						return true
					}
					for _, st := range cc.Body {
						if is, ok := st.(*ast.IfStmt); ok {
							isNaN, returnsErr := false, false
							ast.Inspect(is.Cond, func(m ast.Node) bool {
								if c, ok := m.(*ast.CallExpr); ok && exprString(c.Fun) == "math.IsNaN" {
									isNaN = true
								}
								return true
							})
							for _, b := range is.Body.List {
								if r, ok := b.(*ast.ReturnStmt); ok && len(r.Results) == 2 && exprString(r.Results[0]) == "nil" {
									returnsErr = true
								}
							}
							if isNaN && returnsErr {
								nanRefused = true
							}
						}
					}
					return false
				})
			}
			fmt.Fprintf(&out, "/-- does the FloatVal case of `GnmiTypedValueToNativeType` in %s return an error for `math.IsNaN`? -/\ndef floatNaNRefused%s : Bool := %v\n\n", rel, up, nanRefused)
			trel := "pkg/utils/" + api + "/tree/tree.go"
			tf := parseFile(trel)
			tbl := leafValueTable(findFunc(tf, "handleLeafValue"), trel, consts)
			fmt.Fprintf(&out, "/-- `handleLeafValue` in %s, per case: (type, width comparison operator, width constant, stored under RFC 7951, stored otherwise) -/\ndef leafValueTable%s : List (String × String × Nat × String × String) := [", trel, up)
			for i, c := range tbl {
				if i > 0 {
					out.WriteString(",\n  ")
				}
				cn := c.cnst
				if cn == "" {
					cn = "0"
				}
				fmt.Fprintf(&out, "(%s, %s, %s, %s, %s)", leanStr(c.label), leanStr(c.op), cn, leanStr(c.rfc), leanStr(c.plain))
			}
			out.WriteString("]\n\n")
		}
	})
}
