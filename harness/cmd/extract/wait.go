package main

// Wait-loop facts (C08): for Set (pkg/northbound/gnmi/v2/set.go) and RollbackTransaction
// (pkg/northbound/admin/admin.go) the translator finds the `for … := range eventCh` loop and emits
//   * the truth table of its success condition and of its failure condition over
//     (Synchronicity, Status.State), obtained by EVALUATING the condition's AST for every pair,
//   * the Failure.Type -> errors.New<Kind> switch (cases, default, and the branch for a nil Failure),
//   * the synchronicity RollbackTransaction puts into the transaction it creates.

import (
	"fmt"
	"go/ast"
	"go/token"
	"strings"
)

var txStates = []string{"PENDING", "VALIDATED", "COMMITTED", "APPLIED", "FAILED"}
var txSyncs = []string{"ASYNCHRONOUS", "SYNCHRONOUS"}
var failTypes = []string{"UNKNOWN", "CANCELED", "NOT_FOUND", "ALREADY_EXISTS", "UNAUTHORIZED", "FORBIDDEN", "CONFLICT", "INVALID",
	"UNAVAILABLE", "NOT_SUPPORTED", "TIMEOUT", "INTERNAL"}
var errKinds = []string{"Unknown", "Canceled", "NotFound", "AlreadyExists", "Unauthorized", "Forbidden", "Conflict", "Invalid",
	"Unavailable", "NotSupported", "Timeout", "Internal"}

// lowerCamel: NOT_FOUND -> notFound, AlreadyExists -> alreadyExists
func lowerCamel(s string) string {
	if strings.Contains(s, "_") || s == strings.ToUpper(s) {
		parts := strings.Split(strings.ToLower(s), "_")
		for i := 1; i < len(parts); i++ {
			parts[i] = strings.ToUpper(parts[i][:1]) + parts[i][1:]
		}
		return strings.Join(parts, "")
	}
	return strings.ToLower(s[:1]) + s[1:]
}

// evalCond evaluates a condition built from ||, &&, (), == and != over `….Synchronicity` and `….Status.State`
// compared with configapi constants, for one (sync, state).
func evalCond(e ast.Expr, sync, state string) (val bool, ok bool) {
	switch x := e.(type) {
	case *ast.ParenExpr:
		return evalCond(x.X, sync, state)
	case *ast.BinaryExpr:
		switch x.Op {
		case token.LOR, token.LAND:
			a, ok1 := evalCond(x.X, sync, state)
			b, ok2 := evalCond(x.Y, sync, state)
			if !ok1 || !ok2 {
				return false, false
			}
			if x.Op == token.LOR {
				return a || b, true
			}
			return a && b, true
		case token.EQL, token.NEQ, token.LSS, token.LEQ, token.GTR, token.GEQ:
			lhs, rhs := exprString(x.X), exprString(x.Y)
			var actual, want string
			var order []string
			switch {
			case strings.HasSuffix(lhs, ".Synchronicity") && strings.HasPrefix(rhs, "configapi.TransactionStrategy_"):
				actual, want, order = sync, strings.TrimPrefix(rhs, "configapi.TransactionStrategy_"), txSyncs
			case strings.HasSuffix(lhs, ".Status.State") && strings.HasPrefix(rhs, "configapi.TransactionStatus_"):
				actual, want, order = state, strings.TrimPrefix(rhs, "configapi.TransactionStatus_"), txStates
			default:
				return false, false
			}
			// the enumerations' numeric order is the order of the lists above
			ia, iw := -1, -1
			for i, n := range order {
				if n == actual {
					ia = i
				}
				if n == want {
					iw = i
				}
			}
			if ia < 0 || iw < 0 {
				return false, false
			}
			switch x.Op {
			case token.EQL:
				return ia == iw, true
			case token.NEQ:
				return ia != iw, true
			case token.LSS:
				return ia < iw, true
			case token.LEQ:
				return ia <= iw, true
			case token.GTR:
				return ia > iw, true
			default:
				return ia >= iw, true
			}
		}
	}
	return false, false
}

func truthTable(e ast.Expr, rel, what string) string {
	var rows []string
	for _, sy := range txSyncs {
		for _, st := range txStates {
			v, ok := evalCond(e, sy, st)
			if !ok {
				fail("%s: cannot evaluate the %s condition of the wait loop", rel, what)
				return "[]"
			}
			if v {
				rows = append(rows, fmt.Sprintf("(.%s, .%s)", lowerCamel(sy), lowerCamel(st)))
			}
		}
	}
	return "[" + strings.Join(rows, ", ") + "]"
}

// errorsNewKind: the Kind of `errors.New<Kind>(…)` assigned/returned in a block ("" if none).
func errorsNewKind(n ast.Node) string {
	kind := ""
	ast.Inspect(n, func(m ast.Node) bool {
		if ce, ok := m.(*ast.CallExpr); ok && kind == "" {
			if f := exprString(ce.Fun); strings.HasPrefix(f, "errors.New") {
				kind = strings.TrimPrefix(f, "errors.New")
			}
		}
		return true
	})
	return kind
}

func kindTerm(k string) string {
	for _, e := range errKinds {
		if e == k {
			return "." + lowerCamel(k)
		}
	}
	return ".other"
}

func emitWaitLoop(rel, fn, prefix string) {
	f := parseFile(rel)
	fd := findFunc(f, fn)
	if fd == nil {
		fail("%s: function %s not found", rel, fn)
		return
	}
	var loop *ast.RangeStmt
	ast.Inspect(fd.Body, func(n ast.Node) bool {
		if rs, ok := n.(*ast.RangeStmt); ok && exprString(rs.X) == "eventCh" {
			loop = rs
		}
		return true
	})
	if loop == nil || len(loop.Body.List) == 0 {
		fail("%s: %s has no `range eventCh` loop", rel, fn)
		return
	}
	top, ok := loop.Body.List[0].(*ast.IfStmt)
	if !ok {
		fail("%s: the wait loop of %s does not start with an if", rel, fn)
		return
	}
	fmt.Fprintf(&out, "/-- (Synchronicity, State) pairs for which the wait loop of `%s` in %s answers with success -/\ndef %sWaitSuccess : List (TxSync × TxState) := %s\n\n",
		fn, rel, prefix, truthTable(top.Cond, rel, "success"))
	elif, ok := top.Else.(*ast.IfStmt)
	if !ok {
		fail("%s: the wait loop of %s has no else-if", rel, fn)
		return
	}
	fmt.Fprintf(&out, "/-- … and, otherwise, answers with the transaction's failure -/\ndef %sWaitFailed : List (TxSync × TxState) := %s\n\n",
		prefix, truthTable(elif.Cond, rel, "failure"))
	// the Failure.Type switch, its default, and the nil-Failure branch
	var sw *ast.SwitchStmt
	var nilBranch ast.Node
	ast.Inspect(elif.Body, func(n ast.Node) bool {
		switch x := n.(type) {
		case *ast.SwitchStmt:
			if sw == nil && strings.HasSuffix(exprString(x.Tag), "Failure.Type") {
				sw = x
			}
		case *ast.IfStmt:
			if strings.HasSuffix(exprString(x.Cond), "Failure != nil") && x.Else != nil {
				nilBranch = x.Else
			}
		}
		return true
	})
	if sw == nil {
		fail("%s: %s has no switch on Failure.Type", rel, fn)
		return
	}
	var rows []string
	def := ""
	for _, c := range sw.Body.List {
		cc := c.(*ast.CaseClause)
		kind := ""
		for _, st := range cc.Body {
			if k := errorsNewKind(st); k != "" {
				kind = k
			}
		}
		if cc.List == nil {
			def = kind
			continue
		}
		for _, lbl := range cc.List {
			name := strings.TrimPrefix(exprString(lbl), "configapi.Failure_")
			known := false
			for _, ft := range failTypes {
				if ft == name {
					known = true
				}
			}
			if !known {
				fail("%s: %s: unknown Failure type label %s", rel, fn, name)
				continue
			}
			rows = append(rows, fmt.Sprintf("(.%s, %s)", lowerCamel(name), kindTerm(kind)))
		}
	}
	fmt.Fprintf(&out, "/-- `switch Failure.Type` of `%s` in %s: case label ↦ errors.New<Kind> -/\ndef %sFailureSwitch : List (FailType × ErrKind) := [%s]\n\n",
		fn, rel, prefix, strings.Join(rows, ", "))
	fmt.Fprintf(&out, "/-- its `default:` -/\ndef %sFailureDefault : ErrKind := %s\n\n", prefix, kindTerm(def))
	nk := ""
	if nilBranch != nil {
		nk = errorsNewKind(nilBranch)
	}
	fmt.Fprintf(&out, "/-- the branch for a FAILED transaction without a Failure -/\ndef %sFailureNil : ErrKind := %s\n\n", prefix, kindTerm(nk))
}

func init() {
	sections = append(sections, func() {
		out.WriteString("/-! ### wait-loop facts (C08) -/\n\nnamespace WaitFacts\n\n")
		defer out.WriteString("end WaitFacts\n\n")
		out.WriteString("inductive TxState\n  | pending | validated | committed | applied | failed\nderiving DecidableEq, Repr\n\n")
		out.WriteString("inductive TxSync\n  | asynchronous | synchronous\nderiving DecidableEq, Repr\n\n")
		var fts, eks []string
		for _, f := range failTypes {
			fts = append(fts, lowerCamel(f))
		}
		for _, e := range errKinds {
			eks = append(eks, lowerCamel(e))
		}
		fmt.Fprintf(&out, "/-- configapi.Failure_Type; `other`: a number outside the enumeration -/\ninductive FailType\n  | %s | other\nderiving DecidableEq, Repr\n\n", strings.Join(fts, " | "))
		fmt.Fprintf(&out, "/-- onos-lib-go errors.New<Kind>; `other`: none found -/\ninductive ErrKind\n  | %s | other\nderiving DecidableEq, Repr\n\n", strings.Join(eks, " | "))
		emitWaitLoop("pkg/northbound/gnmi/v2/set.go", "Set", "set")
		emitWaitLoop("pkg/northbound/admin/admin.go", "RollbackTransaction", "rollback")
		// the synchronicity of the transaction RollbackTransaction creates
		f := parseFile("pkg/northbound/admin/admin.go")
		fd := findFunc(f, "RollbackTransaction")
		sync := ""
		if fd != nil {
			ast.Inspect(fd.Body, func(n ast.Node) bool {
				if kv, ok := n.(*ast.KeyValueExpr); ok && exprString(kv.Key) == "Synchronicity" {
					sync = strings.TrimPrefix(exprString(kv.Value), "configapi.TransactionStrategy_")
				}
				return true
			})
		}
		if sync == "" {
			fail("pkg/northbound/admin/admin.go: RollbackTransaction does not set Synchronicity")
			sync = "ASYNCHRONOUS"
		}
		fmt.Fprintf(&out, "/-- `Synchronicity:` of the transaction `RollbackTransaction` creates -/\ndef rollbackSynchronicity : TxSync := .%s\n\n", lowerCamel(sync))
	})
}
