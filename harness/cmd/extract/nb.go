package main

// Northbound facts (C12, C13): the literal of MatchWildcardRegexp, the call order of Set (all
// validation before the first mutating store call), the calls of its helpers, the order of the
// three operation loops, and the guards of the emptiness and size-limit checks translated to Lean
// functions.

import (
	"fmt"
	"go/ast"
	"go/token"
	"sort"
	"strconv"
	"strings"
)

// fullExpr prints an expression with call arguments (exprString drops them).
func fullExpr(e ast.Expr) string {
	switch x := e.(type) {
	case *ast.CallExpr:
		args := make([]string, len(x.Args))
		for i, a := range x.Args {
			args[i] = fullExpr(a)
		}
		return fullExpr(x.Fun) + "(" + strings.Join(args, ", ") + ")"
	case *ast.SelectorExpr:
		return fullExpr(x.X) + "." + x.Sel.Name
	case *ast.BinaryExpr:
		return fullExpr(x.X) + " " + x.Op.String() + " " + fullExpr(x.Y)
	case *ast.ParenExpr:
		return "(" + fullExpr(x.X) + ")"
	case *ast.UnaryExpr:
		return x.Op.String() + fullExpr(x.X)
	}
	return exprString(e)
}

// localStringConst finds `const name = "…"` declared inside a function body.
func localStringConst(fd *ast.FuncDecl, name string) (string, bool) {
	var val string
	found := false
	if fd == nil || fd.Body == nil {
		return "", false
	}
	ast.Inspect(fd.Body, func(n ast.Node) bool {
		vs, ok := n.(*ast.ValueSpec)
		if !ok {
			return true
		}
		for i, id := range vs.Names {
			if id.Name == name && i < len(vs.Values) {
				if bl, ok := vs.Values[i].(*ast.BasicLit); ok && bl.Kind == token.STRING {
					if s, err := strconv.Unquote(bl.Value); err == nil {
						val, found = s, true
					}
				}
			}
		}
		return true
	})
	return val, found
}

// leanCond translates a Go integer comparison into a Lean Bool term over named Int variables.
// vars maps the Go sub-expression (as printed by exprString) to the Lean variable.
func leanCond(e ast.Expr, vars map[string]string) (string, bool) {
	switch x := e.(type) {
	case *ast.ParenExpr:
		s, ok := leanCond(x.X, vars)
		return "(" + s + ")", ok
	case *ast.BasicLit:
		if x.Kind == token.INT {
			return "(" + x.Value + " : Int)", true
		}
	case *ast.BinaryExpr:
		l, ok1 := leanCond(x.X, vars)
		r, ok2 := leanCond(x.Y, vars)
		if !ok1 || !ok2 {
			return "", false
		}
		switch x.Op {
		case token.ADD:
			return "(" + l + " + " + r + ")", true
		case token.SUB:
			return "(" + l + " - " + r + ")", true
		case token.GTR:
			return "decide (" + l + " > " + r + ")", true
		case token.GEQ:
			return "decide (" + l + " ≥ " + r + ")", true
		case token.LSS:
			return "decide (" + l + " < " + r + ")", true
		case token.LEQ:
			return "decide (" + l + " ≤ " + r + ")", true
		case token.EQL:
			return "decide (" + l + " = " + r + ")", true
		case token.NEQ:
			return "decide (" + l + " ≠ " + r + ")", true
		case token.LAND:
			return "(" + l + " && " + r + ")", true
		case token.LOR:
			return "(" + l + " || " + r + ")", true
		}
	}
	if v, ok := vars[fullExpr(e)]; ok {
		return v, true
	}
	// len(x.updates) etc.: match on the trailing selector of the argument
	if c, ok := e.(*ast.CallExpr); ok && fullExpr(c.Fun) == "len" && len(c.Args) == 1 {
		arg := fullExpr(c.Args[0])
		for k, v := range vars {
			if strings.HasPrefix(k, "len:") && (arg == k[4:] || strings.HasSuffix(arg, "."+k[4:])) {
				return v, true
			}
		}
	}
	return "", false
}

func mentions(e ast.Expr, what string) bool {
	hit := false
	ast.Inspect(e, func(n ast.Node) bool {
		if ex, ok := n.(ast.Expr); ok && fullExpr(ex) == what {
			hit = true
		}
		return true
	})
	return hit
}

func init() {
	sections = append(sections, func() {
		out.WriteString("set_option linter.unusedVariables false\n\n")
		const wc = "pkg/utils/wildcards.go"
		wf := parseFile(wc)
		if s, ok := localStringConst(findFunc(wf, "MatchWildcardRegexp"), "legalChars"); ok {
			fmt.Fprintf(&out, "/-- `legalChars` in MatchWildcardRegexp, %s -/\ndef wildcardLegalChars : String := %s\n\n", wc, leanStr(s))
		} else {
			fail("%s: legalChars of MatchWildcardRegexp not found", wc)
		}
		// does MatchWildcardRegexp quote its input before building the expression?
		quoted := false
		for _, c := range calls(findFunc(wf, "MatchWildcardRegexp")) {
			if c == "regexp.QuoteMeta" {
				quoted = true
			}
		}
		fmt.Fprintf(&out, "/-- MatchWildcardRegexp passes the query through regexp.QuoteMeta -/\ndef wildcardQuotesMeta : Bool := %v\n\n", quoted)

		const sg = "pkg/northbound/gnmi/v2/set.go"
		sf := parseFile(sg)
		set := findFunc(sf, "Set")
		if set == nil {
			fail("%s: func Set not found", sg)
			return
		}
		fmt.Fprintf(&out, "/-- every call in `Set` (%s), in source order -/\ndef setCalls : List String := %s\n\n", sg, leanStrList(calls(set)))

		// helpers reachable from Set before the transaction is created
		helpers := []struct{ file, name string }{
			{sg, "getTargetInfo"}, {sg, "getTargetConfigurable"}, {sg, "doUpdateOrReplace"}, {sg, "doDelete"},
			{"pkg/northbound/gnmi/v2/set_utils.go", "newTransaction"}, {"pkg/northbound/gnmi/v2/set_utils.go", "computeChanges"},
			{"pkg/northbound/gnmi/v2/set_utils.go", "computeChange"},
			{"pkg/northbound/gnmi/v2/extensions.go", "getTargetVersionOverrides"}, {"pkg/northbound/gnmi/v2/extensions.go", "getTransactionStrategy"},
			{"pkg/northbound/gnmi/v2/extensions.go", "extractExtension"},
		}
		var rows []string
		for _, h := range helpers {
			fd := findFunc(parseFile(h.file), h.name)
			if fd == nil {
				fail("%s: func %s not found", h.file, h.name)
				continue
			}
			rows = append(rows, fmt.Sprintf("(%s, %s)", leanStr(h.name), leanStrList(calls(fd))))
		}
		fmt.Fprintf(&out, "/-- calls made by the helpers `Set` uses before the transaction is created -/\ndef setHelperCalls : List (String × List String) := [\n  %s]\n\n", strings.Join(rows, ",\n  "))

		// order of the three operation loops and the guards
		type loop struct {
			pos  token.Pos
			kind string
		}
		var loops []loop
		var emptyGuard, limitOn, limitTargets, limitOps string
		var guardPos []token.Pos
		var createPos token.Pos
		ast.Inspect(set.Body, func(n ast.Node) bool {
			switch st := n.(type) {
			case *ast.RangeStmt:
				switch fullExpr(st.X) {
				case "req.GetDelete()":
					loops = append(loops, loop{st.Pos(), "Delete"})
				case "req.GetReplace()":
					loops = append(loops, loop{st.Pos(), "Replace"})
				case "req.GetUpdate()":
					loops = append(loops, loop{st.Pos(), "Update"})
				}
			case *ast.CallExpr:
				if exprString(st.Fun) == "s.transactions.Create" && createPos == 0 {
					createPos = st.Pos()
				}
			case *ast.IfStmt:
				cond := fullExpr(st.Cond)
				if strings.Contains(cond, "req.GetUpdate()") && strings.Contains(cond, "req.GetDelete()") || mentions(st.Cond, "s.gnmiSetSizeLimit") {
					guardPos = append(guardPos, st.End())
				}
				switch {
				case strings.Contains(cond, "req.GetUpdate()") && strings.Contains(cond, "req.GetDelete()"):
					if s, ok := leanCond(st.Cond, map[string]string{
						"len(req.GetUpdate())": "nUpdate", "len(req.GetReplace())": "nReplace", "len(req.GetDelete())": "nDelete"}); ok {
						emptyGuard = s
					}
				case mentions(st.Cond, "s.gnmiSetSizeLimit") && mentions(st.Cond, "len(targets)"):
					// not expected: both in one condition
				case mentions(st.Cond, "s.gnmiSetSizeLimit") && !strings.Contains(cond, "len("):
					if s, ok := leanCond(st.Cond, map[string]string{"s.gnmiSetSizeLimit": "limit"}); ok {
						limitOn = s
					}
				case mentions(st.Cond, "len(targets)"):
					if s, ok := leanCond(st.Cond, map[string]string{"len(targets)": "nTargets", "s.gnmiSetSizeLimit": "limit"}); ok {
						limitTargets = s
					}
				case mentions(st.Cond, "s.gnmiSetSizeLimit"):
					if s, ok := leanCond(st.Cond, map[string]string{"s.gnmiSetSizeLimit": "limit", "len:updates": "nUpdates", "len:removes": "nRemoves", "operations": "nOps"}); ok {
						limitOps = s
					}
				}
			}
			return true
		})
		sort.Slice(loops, func(i, j int) bool { return loops[i].pos < loops[j].pos })
		var order []string
		for _, l := range loops {
			order = append(order, l.kind)
		}
		fmt.Fprintf(&out, "/-- the order in which `Set` walks the three operation lists -/\ndef setLoopOrder : List String := %s\n\n", leanStrList(order))
		if emptyGuard == "" || limitOn == "" || limitTargets == "" || limitOps == "" {
			fail("%s: could not translate the emptiness / size-limit guards of Set (%q %q %q %q)", sg, emptyGuard, limitOn, limitTargets, limitOps)
			return
		}
		inlineBefore := createPos != 0 && len(guardPos) > 0
		for _, gp := range guardPos {
			if gp >= createPos {
				inlineBefore = false
			}
		}
		fmt.Fprintf(&out, "/-- the emptiness check and the whole size-limit block of `Set` end before the call of transactions.Create -/\ndef setInlineGuardsBeforeCreate : Bool := %v\n\n", inlineBefore)
		fmt.Fprintf(&out, "/-- `Set` refuses when this holds of the three list lengths -/\ndef setEmptyGuard (nUpdate nReplace nDelete : Int) : Bool := %s\n\n", emptyGuard)
		fmt.Fprintf(&out, "/-- the size limit is enforced when this holds -/\ndef setLimitOn (limit : Int) : Bool := %s\n\n", limitOn)
		fmt.Fprintf(&out, "/-- under a limit, `Set` refuses when this holds of the number of targets -/\ndef setLimitTargetsGuard (nTargets limit : Int) : Bool := %s\n\n", limitTargets)
		fmt.Fprintf(&out, "/-- under a limit, `Set` refuses a target when this holds of the request's operations, the target's distinct update paths and its deletes -/\ndef setLimitOpsGuard (nOps nUpdates nRemoves limit : Int) : Bool := %s\n\n", limitOps)

		// Subscribe: field selections through a field of message type (x.Prefix.Target, x.Path.Target):
		// each is a nil dereference waiting for a request that leaves the message out
		const sub = "pkg/northbound/gnmi/v2/subscribe.go"
		subf := parseFile(sub)
		var deep []string
		for _, fn := range []string{"splitSubscribeRequest", "copyPrefix", "processSubscribeRequest"} {
			fd := findFunc(subf, fn)
			if fd == nil {
				fail("%s: func %s not found", sub, fn)
				continue
			}
			ast.Inspect(fd.Body, func(n ast.Node) bool {
				if se, ok := n.(*ast.SelectorExpr); ok {
					if inner, ok := se.X.(*ast.SelectorExpr); ok {
						if _, isIdent := inner.X.(*ast.Ident); isIdent {
							msgField := inner.Sel.Name == "Prefix" || inner.Sel.Name == "Path" || inner.Sel.Name == "Subscribe"
							if msgField {
								deep = append(deep, fn+": "+fullExpr(se))
							}
						}
					}
				}
				return true
			})
		}
		fmt.Fprintf(&out, "/-- field selections through the message-typed fields Prefix / Path / Subscribe in the Subscribe handler (%s) -/\ndef subscribeDerefChains : List String := %s\n\n", sub, leanStrList(deep))

		// getTargetInfo: does a non-empty prefix target replace the per-path target?
		gti := findFunc(sf, "getTargetInfo")
		prefixWins := false
		if gti != nil {
			ast.Inspect(gti.Body, func(n ast.Node) bool {
				if st, ok := n.(*ast.IfStmt); ok && fullExpr(st.Cond) == "len(id) > 0" && len(st.Body.List) == 1 {
					if as, ok := st.Body.List[0].(*ast.AssignStmt); ok && len(as.Lhs) == 1 && fullExpr(as.Lhs[0]) == "targetID" && fullExpr(as.Rhs[0]) == "id" {
						prefixWins = true
					}
				}
				return true
			})
		}
		// getTargetInfo: the topology lookup is a statement of the function body itself (not nested in a
		// branch) and comes before the statement that consults the overrides: it dominates both branches
		topoFirst := false
		if gti != nil {
			topoPos, ovPos := token.NoPos, token.NoPos
			for _, st := range gti.Body.List {
				if _, nested := st.(*ast.IfStmt); !nested && topoPos == token.NoPos {
					for _, c := range calls(st) {
						if c == "s.getTargetConfigurable" {
							topoPos = st.Pos()
						}
					}
				}
				if is, ok := st.(*ast.IfStmt); ok && ovPos == token.NoPos {
					hit := false
					ast.Inspect(is, func(n ast.Node) bool {
						if e, ok := n.(ast.Expr); ok && fullExpr(e) == "overrides.Overrides" {
							hit = true
						}
						return true
					})
					if hit {
						ovPos = is.Pos()
					}
				}
			}
			topoFirst = topoPos != token.NoPos && ovPos != token.NoPos && topoPos < ovPos
		}
		fmt.Fprintf(&out, "/-- getTargetInfo fetches the target's Configurable from the topology unconditionally, before the overrides are consulted -/\ndef setTopoLookupDominatesOverrides : Bool := %v\n\n", topoFirst)

		fmt.Fprintf(&out, "/-- getTargetInfo: `if len(id) > 0 { targetID = id }` (id = the prefix target) -/\ndef setPrefixTargetWins : Bool := %v\n\n", prefixWins)
	})
}
