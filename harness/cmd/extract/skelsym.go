package main

// Symbolic variant of the skeleton translation (v2ctl.go), used for functions that READ a field
// they have assigned earlier in the same invocation (the v3 transaction reconciler mutates
// `configuration.Committed.Target` and tests it again a few lines later).
//
// Same output language (a Lean function `V2G → List Tok`), but the translation carries an environment
// along every path: after `lhs = rhs` (rhs an operand, or operand ± literal) later reads of `lhs` in
// conditions and right-hand sides see the assigned term; loop flags assigned `true`/`false` are
// read back the same way; a record re-fetched from a store forgets its fields.  A branch that
// assigns gets its own copy of the continuation (translated in its own environment); branches that
// do not assign share it through `let` as before.

import (
	"fmt"
	"go/ast"
	"go/token"
	"strings"
)

type symEnv map[string]string

func (e symEnv) with(k, v string) symEnv {
	n := symEnv{}
	for a, b := range e {
		n[a] = b
	}
	n[k] = v
	return n
}

func (e symEnv) forget(root string) symEnv {
	n := symEnv{}
	for a, b := range e {
		if a == root || strings.HasPrefix(a, root+".") {
			continue
		}
		n[a] = b
	}
	return n
}

// where `continue` / `break` go: the end-of-loop marker, the statements after the loop, and the
// precomputed continuation that follows those (if any)
type loopCtx struct {
	stmts []ast.Stmt
	k     string
}

type symCtx struct {
	*skCtx
	endLoops map[*ast.EmptyStmt]*loopCtx // marker -> loop context to restore when the loop is left
}

// stripConv removes parentheses and the type conversions of the API package: configapi.Revision(x) is x
func stripConv(e ast.Expr) ast.Expr {
	for {
		switch x := e.(type) {
		case *ast.ParenExpr:
			e = x.X
			continue
		case *ast.CallExpr:
			if len(x.Args) == 1 {
				if sel, ok := x.Fun.(*ast.SelectorExpr); ok {
					if id, ok := sel.X.(*ast.Ident); ok && id.Name == "configapi" {
						e = x.Args[0]
						continue
					}
				}
			}
		}
		return e
	}
}

func (c *symCtx) operandS(e ast.Expr, env symEnv) string {
	e = stripConv(e)
	if bl, ok := e.(*ast.BasicLit); ok {
		if bl.Kind == token.INT {
			return bl.Value
		}
		if bl.Kind == token.STRING && (bl.Value == `""` || bl.Value == "``") {
			return "0"
		}
	}
	key := skExpr(e)
	if v, ok := env[key]; ok {
		return v
	}
	return "g.n " + leanStr(key)
}

func arithLike(e ast.Expr) bool {
	e = stripConv(e)
	if be, ok := e.(*ast.BinaryExpr); ok && (be.Op == token.ADD || be.Op == token.SUB) {
		return arithLike(be.X) && arithLike(be.Y)
	}
	return operandLike(e)
}

func (c *symCtx) arithS(e ast.Expr, env symEnv) string {
	e = stripConv(e)
	if be, ok := e.(*ast.BinaryExpr); ok && (be.Op == token.ADD || be.Op == token.SUB) {
		return "(" + c.arithS(be.X, env) + " " + be.Op.String() + " " + c.arithS(be.Y, env) + ")"
	}
	return "(" + c.operandS(e, env) + ")"
}

func (c *symCtx) condS(e ast.Expr, env symEnv) string {
	switch x := e.(type) {
	case *ast.ParenExpr:
		return c.condS(x.X, env)
	case *ast.UnaryExpr:
		if x.Op == token.NOT {
			return "(!" + c.condS(x.X, env) + ")"
		}
	case *ast.BinaryExpr:
		switch x.Op {
		case token.LAND:
			return "(" + c.condS(x.X, env) + " && " + c.condS(x.Y, env) + ")"
		case token.LOR:
			return "(" + c.condS(x.X, env) + " || " + c.condS(x.Y, env) + ")"
		case token.EQL, token.NEQ, token.LSS, token.GTR, token.LEQ, token.GEQ:
			if isNil(x.Y) || isNil(x.X) {
				return c.cond(e) // nil tests are uninterpreted atoms, named as in the plain translation
			}
			l, r := c.arithS(x.X, env), c.arithS(x.Y, env)
			switch x.Op {
			case token.EQL:
				return "(" + l + " == " + r + ")"
			case token.NEQ:
				return "(" + l + " != " + r + ")"
			case token.LSS:
				return "(Nat.blt " + l + " " + r + ")"
			case token.GTR:
				return "(Nat.blt " + r + " " + l + ")"
			case token.LEQ:
				return "(Nat.ble " + l + " " + r + ")"
			case token.GEQ:
				return "(Nat.ble " + r + " " + l + ")"
			}
		}
	}
	if v, ok := env[skExpr(e)]; ok {
		return v
	}
	return c.boolAtom(e)
}

// assign: tokens of `lhs = rhs` and the environment afterwards
func (c *symCtx) assign(lhs string, rhs ast.Expr, env symEnv) ([]string, symEnv) {
	if arithLike(rhs) {
		t := c.arithS(rhs, env)
		return []string{"\x00.setN " + leanStr(lhs) + " " + t}, env.with(lhs, t)
	}
	e := rhs
	if u, ok := e.(*ast.UnaryExpr); ok && u.Op == token.AND {
		e = u.X
	}
	if cl, ok := e.(*ast.CompositeLit); ok {
		var toks []string
		env = env.forget(lhs)
		for _, el := range cl.Elts {
			kv, ok := el.(*ast.KeyValueExpr)
			if !ok {
				return []string{"set " + lhs + " := " + skExpr(rhs)}, env
			}
			key := skExpr(kv.Key)
			if key == "Start" || key == "End" || key == "Description" {
				continue
			}
			var t []string
			t, env = c.assign(lhs+"."+key, kv.Value, env)
			toks = append(toks, t...)
		}
		if len(toks) == 0 {
			return []string{"set " + lhs + " := " + skExpr(cl.Type) + "{}"}, env
		}
		return toks, env
	}
	return []string{"set " + lhs + " := " + skExpr(rhs)}, env.forget(lhs)
}

// assigns: does the statement (or anything inside it) change the environment?
func (c *symCtx) assigns(n ast.Node) bool {
	if n == nil {
		return false
	}
	found := false
	ast.Inspect(n, func(m ast.Node) bool {
		switch x := m.(type) {
		case *ast.FuncLit:
			return false
		case *ast.IncDecStmt:
			if c.trackedLHS(x.X) {
				found = true
			}
		case *ast.AssignStmt:
			for i, l := range x.Lhs {
				if c.trackedLHS(l) {
					found = true
				}
				if id, ok := l.(*ast.Ident); ok && i < len(x.Rhs) {
					if r, ok := x.Rhs[i].(*ast.Ident); ok && (r.Name == "true" || r.Name == "false") && id.Name != "_" {
						found = true
					}
				}
			}
		}
		return !found
	})
	return found
}

func (c *symCtx) retS(r *ast.ReturnStmt, env symEnv) string {
	raw := func(shape string, args []string) string {
		return "\x00.ret " + leanStr(shape) + " [" + strings.Join(args, ", ") + "]"
	}
	var parts, args []string
	for _, x := range r.Results {
		if cl, ok := x.(*ast.CompositeLit); ok {
			var fs []string
			for _, el := range cl.Elts {
				if kv, ok := el.(*ast.KeyValueExpr); ok {
					fs = append(fs, skExpr(kv.Key)+": "+c.holesS(kv.Value, &args, env))
				} else {
					fs = append(fs, skExpr(el))
				}
			}
			parts = append(parts, skExpr(cl.Type)+"{"+strings.Join(fs, ", ")+"}")
			continue
		}
		parts = append(parts, skExpr(x))
	}
	return raw(strings.Join(parts, ", "), args)
}

func (c *symCtx) holesS(e ast.Expr, args *[]string, env symEnv) string {
	if ce, ok := e.(*ast.CallExpr); ok {
		parts := make([]string, len(ce.Args))
		for i, a := range ce.Args {
			parts[i] = c.holesS(a, args, env)
		}
		return skExpr(ce.Fun) + "(" + strings.Join(parts, ", ") + ")"
	}
	if cl, ok := e.(*ast.CompositeLit); ok {
		var fs []string
		for _, el := range cl.Elts {
			if kv, ok := el.(*ast.KeyValueExpr); ok {
				fs = append(fs, skExpr(kv.Key)+": "+c.holesS(kv.Value, args, env))
			}
		}
		return skExpr(cl.Type) + "{" + strings.Join(fs, ", ") + "}"
	}
	if arithLike(e) {
		*args = append(*args, c.arithS(e, env))
		return "_"
	}
	return skExpr(e)
}

// blockS translates stmts in environment env; loopRest is what `continue`/`break` jump to (nil
// outside loops); k, if not empty, is a precomputed continuation valid in the environment the
// statements end in (used only when they cannot change it).
func (c *symCtx) blockS(stmts []ast.Stmt, env symEnv, loopRest *loopCtx, k string, ind string) string {
	if len(stmts) == 0 {
		if k != "" {
			return k
		}
		return "[.ret \"(end)\" []]"
	}
	s, rest := stmts[0], stmts[1:]
	next := func(e symEnv) string { return c.blockS(rest, e, loopRest, k, ind) }
	switch x := s.(type) {
	case *ast.EmptyStmt:
		if outer, ok := c.endLoops[x]; ok {
			return cat([]string{"}"}, c.blockS(rest, env, outer, k, ind))
		}
		return next(env)
	case *ast.ReturnStmt:
		var toks []string
		for _, r := range x.Results {
			toks = append(toks, c.callTokens(r)...)
		}
		if len(x.Results) >= 1 {
			if _, isCall := x.Results[0].(*ast.CallExpr); isCall && len(x.Results) == 1 {
				return lst(append(toks, "\x00.ret \"call\" []"))
			}
		}
		return lst(append(toks, c.retS(x, env)))
	case *ast.BranchStmt:
		if loopRest != nil {
			return c.blockS(loopRest.stmts, env, loopRest, loopRest.k, ind)
		}
		return cat([]string{"branch " + x.Tok.String()}, next(env))
	case *ast.BlockStmt:
		return c.blockS(append(append([]ast.Stmt{}, x.List...), rest...), env, loopRest, k, ind)
	case *ast.ExprStmt:
		return cat(c.callTokens(x.X), next(env))
	case *ast.AssignStmt:
		var toks []string
		for _, r := range x.Rhs {
			toks = append(toks, c.callTokens(r)...)
		}
		e2 := env
		if len(x.Lhs) == len(x.Rhs) {
			for i, l := range x.Lhs {
				if c.trackedLHS(l) {
					var t []string
					t, e2 = c.assign(skExpr(l), x.Rhs[i], e2)
					toks = append(toks, t...)
				} else if id, ok := l.(*ast.Ident); ok && id.Name != "_" {
					if r, ok := x.Rhs[i].(*ast.Ident); ok && (r.Name == "true" || r.Name == "false") {
						toks = append(toks, "set "+id.Name+" := "+r.Name)
						e2 = e2.with(id.Name, r.Name)
					} else if ce, ok := x.Rhs[i].(*ast.CallExpr); ok && exprString(ce.Fun) == "append" {
						toks = append(toks, "set "+id.Name+" := "+skExpr(ce))
					}
				}
			}
		} else {
			// x, err := f(...): a record fetched again forgets what was assigned to its fields
			for _, l := range x.Lhs {
				if id, ok := l.(*ast.Ident); ok && c.tracked[id.Name] {
					e2 = e2.forget(id.Name)
				}
			}
		}
		return cat(toks, next(e2))
	case *ast.IncDecStmt:
		if c.trackedLHS(x.X) {
			l := skExpr(x.X)
			op := " + 1)"
			if x.Tok == token.DEC {
				op = " - 1)"
			}
			t := "(" + c.operandS(x.X, env) + op
			return cat([]string{"\x00.setN " + leanStr(l) + " " + t}, next(env.with(l, t)))
		}
		return next(env)
	case *ast.IfStmt:
		if x.Init != nil {
			inner := &ast.IfStmt{Cond: x.Cond, Body: x.Body, Else: x.Else}
			return c.blockS(append([]ast.Stmt{x.Init, inner}, rest...), env, loopRest, k, ind)
		}
		cond := c.condS(x.Cond, env)
		var elseStmts []ast.Stmt
		switch el := x.Else.(type) {
		case *ast.BlockStmt:
			elseStmts = el.List
		case *ast.IfStmt:
			elseStmts = []ast.Stmt{el}
		}
		var thenT, elseT string
		wrap := func(s string) string { return s }
		if !c.assigns(x.Body) && !c.assigns(x.Else) {
			var kk string
			kk, wrap = c.share(next(env), ind)
			thenT = c.blockS(x.Body.List, env, loopRest, kk, ind+"  ")
			elseT = c.blockS(elseStmts, env, loopRest, kk, ind+"  ")
		} else {
			thenT = c.blockS(append(append([]ast.Stmt{}, x.Body.List...), rest...), env, loopRest, k, ind+"  ")
			elseT = c.blockS(append(append([]ast.Stmt{}, elseStmts...), rest...), env, loopRest, k, ind+"  ")
		}
		if thenT == elseT {
			return wrap(thenT)
		}
		return wrap("(if " + cond + "\n" + ind + "  then " + thenT + "\n" + ind + "  else " + elseT + ")")
	case *ast.SwitchStmt:
		if x.Init != nil {
			inner := &ast.SwitchStmt{Tag: x.Tag, Body: x.Body}
			return c.blockS(append([]ast.Stmt{x.Init, inner}, rest...), env, loopRest, k, ind)
		}
		shared := !c.assigns(x.Body)
		kk := ""
		wrap := func(s string) string { return s }
		if shared {
			kk, wrap = c.share(next(env), ind)
		}
		arm := func(body []ast.Stmt) string {
			if shared {
				return c.blockS(body, env, loopRest, kk, ind+"  ")
			}
			return c.blockS(append(append([]ast.Stmt{}, body...), rest...), env, loopRest, k, ind+"  ")
		}
		var def *ast.CaseClause
		type armT struct{ cond, body string }
		var arms []armT
		for _, st := range x.Body.List {
			cc := st.(*ast.CaseClause)
			if cc.List == nil {
				def = cc
				continue
			}
			var alts []string
			for _, l := range cc.List {
				if x.Tag == nil {
					alts = append(alts, c.condS(l, env))
				} else {
					alts = append(alts, "("+c.arithS(x.Tag, env)+" == "+c.arithS(l, env)+")")
				}
			}
			arms = append(arms, armT{strings.Join(alts, " || "), arm(cc.Body)})
		}
		var res string
		if def != nil {
			res = arm(def.Body)
		} else {
			res = arm(nil)
		}
		for i := len(arms) - 1; i >= 0; i-- {
			res = "(if " + arms[i].cond + "\n" + ind + "  then " + arms[i].body + "\n" + ind + "  else " + res + ")"
		}
		return wrap(res)
	case *ast.RangeStmt, *ast.ForStmt:
		var body []ast.Stmt
		head := "for {"
		var toks []string
		if r, ok := x.(*ast.RangeStmt); ok {
			body = r.Body.List
			head = "for " + skExpr(r.X) + " {"
			toks = c.callTokens(r.X)
		} else {
			f := x.(*ast.ForStmt)
			body = f.Body.List
			if f.Cond != nil {
				head = "for " + skExpr(f.Cond) + " {"
			}
		}
		m := &ast.EmptyStmt{}
		c.endLoops[m] = loopRest
		after := append([]ast.Stmt{m}, rest...)
		all := append(append([]ast.Stmt{}, body...), after...)
		return cat(append(toks, head), c.blockS(all, env, &loopCtx{after, k}, k, ind+"  "))
	case *ast.DeclStmt:
		return next(env)
	case *ast.DeferStmt:
		return cat(append([]string{"defer"}, c.callTokens(x.Call)...), next(env))
	case *ast.LabeledStmt:
		return c.blockS(append([]ast.Stmt{x.Stmt}, rest...), env, loopRest, k, ind)
	case *ast.TypeSwitchStmt:
		return cat([]string{"unsupported type switch"}, next(env))
	}
	return cat([]string{fmt.Sprintf("unsupported %T", s)}, next(env))
}

func emitSkeletonSym(rel string, f *ast.File, goName, leanName string) {
	fd := findFunc(f, goName)
	if fd == nil || fd.Body == nil {
		fail("%s: func %s not found", rel, goName)
		return
	}
	base := &skCtx{callOrd: map[token.Pos]int{}, tracked: map[string]bool{}}
	for _, r := range skTrackedRoots {
		base.tracked[r] = true
	}
	base.prepass(fd)
	c := &symCtx{skCtx: base, endLoops: map[*ast.EmptyStmt]*loopCtx{}}
	term := c.blockS(fd.Body.List, symEnv{}, nil, "", "  ")
	fmt.Fprintf(&out, "/-- trace of `%s` in %s as a function of the abstract state at the START of the invocation (translator `skelsym.go`: later reads of an assigned field see the assigned term) -/\ndef %s (g : V2G) : List Tok :=\n  %s\n\n",
		goName, rel, leanName, term)
}
