package main

import (
	"fmt"
	"go/ast"
	"go/token"
	"reflect"
	"strconv"
	"strings"
)

// Facts about pkg/utils/v2/tree/tree.go and its v3 copy for C18:
//   - the delimiter constants the textual key parser works with,
//   - the functions PrunePathValues calls (the prefix test is strings.HasPrefix: textual),
//   - whether every function of the v3 file is, as a syntax tree, the v2 function up to
//     `[]*configapi.PathValue` vs `[]configapi.PathValue` (so that one twin serves both).

var posType = reflect.TypeOf(token.Pos(0))

// isPathValuePtr recognises `*configapi.PathValue`.
func isPathValuePtr(n ast.Node) (ast.Expr, bool) {
	st, ok := n.(*ast.StarExpr)
	if !ok {
		return nil, false
	}
	sel, ok := st.X.(*ast.SelectorExpr)
	if !ok || sel.Sel.Name != "PathValue" {
		return nil, false
	}
	return st.X, true
}

func sameTree(a, b reflect.Value) bool {
	if a.IsValid() != b.IsValid() {
		return false
	}
	if !a.IsValid() {
		return true
	}
	// normalise *configapi.PathValue to configapi.PathValue on either side
	if a.CanInterface() {
		if n, ok := a.Interface().(ast.Node); ok && n != nil && !reflect.ValueOf(n).IsNil() {
			if x, ok := isPathValuePtr(n); ok {
				return sameTree(reflect.ValueOf(x), b)
			}
		}
	}
	if b.CanInterface() {
		if n, ok := b.Interface().(ast.Node); ok && n != nil && !reflect.ValueOf(n).IsNil() {
			if x, ok := isPathValuePtr(n); ok {
				return sameTree(a, reflect.ValueOf(x))
			}
		}
	}
	if a.Kind() == reflect.Interface || a.Kind() == reflect.Ptr {
		if b.Kind() != a.Kind() {
			// an interface holding a pointer vs the pointer itself after normalisation
			if a.Kind() == reflect.Interface && !a.IsNil() {
				return sameTree(a.Elem(), b)
			}
			if b.Kind() == reflect.Interface && !b.IsNil() {
				return sameTree(a, b.Elem())
			}
			return false
		}
		if a.IsNil() || b.IsNil() {
			return a.IsNil() == b.IsNil()
		}
		return sameTree(a.Elem(), b.Elem())
	}
	if a.Type() != b.Type() {
		return false
	}
	switch a.Kind() {
	case reflect.Struct:
		for i := 0; i < a.NumField(); i++ {
			f := a.Type().Field(i)
			if f.Type == posType || f.Name == "Obj" || f.Name == "Scope" || f.Name == "Doc" || f.Name == "Comment" || f.Name == "Unresolved" {
				continue
			}
			if !sameTree(a.Field(i), b.Field(i)) {
				return false
			}
		}
		return true
	case reflect.Slice:
		if a.Len() != b.Len() {
			return false
		}
		for i := 0; i < a.Len(); i++ {
			if !sameTree(a.Index(i), b.Index(i)) {
				return false
			}
		}
		return true
	case reflect.String:
		return a.String() == b.String()
	case reflect.Int, reflect.Int8, reflect.Int16, reflect.Int32, reflect.Int64:
		return a.Int() == b.Int()
	case reflect.Bool:
		return a.Bool() == b.Bool()
	case reflect.Map:
		return true
	}
	return false
}

func init() {
	sections = append(sections, func() {
		const v2 = "pkg/utils/v2/tree/tree.go"
		const v3 = "pkg/utils/v3/tree/tree.go"
		f2, f3 := parseFile(v2), parseFile(v3)
		if f2 == nil || f3 == nil {
			return
		}
		// delimiter constants (both files)
		for _, fv := range []struct {
			f    *ast.File
			rel  string
			name string
		}{{f2, v2, "treeDelims2"}, {f3, v3, "treeDelims3"}} {
			var pairs []string
			for _, c := range []string{"slash", "equals", "bracketsq", "brktclose"} {
				v, kind, ok := constValue(fv.f, c)
				if !ok || kind != token.STRING {
					fail("%s: string constant %s not found", fv.rel, c)
					continue
				}
				s, err := strconv.Unquote(v)
				if err != nil {
					fail("%s: cannot unquote %s", fv.rel, c)
					continue
				}
				pairs = append(pairs, fmt.Sprintf("(%s, %s)", leanStr(c), leanStr(s)))
			}
			fmt.Fprintf(&out, "/-- the delimiter constants of %s -/\ndef %s : List (String × String) := [%s]\n\n", fv.rel, fv.name, strings.Join(pairs, ", "))
		}
		// calls made by PrunePathValues, in source order
		for _, fv := range []struct {
			f    *ast.File
			rel  string
			name string
		}{{f2, v2, "pruneCalls2"}, {f3, v3, "pruneCalls3"}} {
			fd := findFunc(fv.f, "PrunePathValues")
			if fd == nil {
				fail("%s: func PrunePathValues not found", fv.rel)
				continue
			}
			fmt.Fprintf(&out, "/-- every call expression inside `PrunePathValues` of %s, in source order -/\ndef %s : List String := %s\n\n", fv.rel, fv.name, leanStrList(calls(fd.Body)))
		}
		// v3 mirrors v2, function by function
		var pairs []string
		for _, fn := range []string{"BuildTree", "addPathToTree", "convertBasicType", "handleLeafValue", "PrunePathValues", "PrunePathMap"} {
			a, b := findFunc(f2, fn), findFunc(f3, fn)
			same := a != nil && b != nil && sameTree(reflect.ValueOf(a.Type), reflect.ValueOf(b.Type)) && sameTree(reflect.ValueOf(a.Body), reflect.ValueOf(b.Body))
			if a == nil || b == nil {
				fail("tree.go: func %s missing in v2 or v3", fn)
			}
			pairs = append(pairs, fmt.Sprintf("(%s, %v)", leanStr(fn), same))
		}
		fmt.Fprintf(&out, "/-- per function: the v3 syntax tree equals the v2 one up to `*configapi.PathValue` vs `configapi.PathValue` -/\ndef treeV3MirrorsV2 : List (String × Bool) := [%s]\n\n", strings.Join(pairs, ", "))
	})
}
