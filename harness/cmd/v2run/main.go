// Command v2run executes a v2.* script (stdin, one operation per line) on the real reconcilers and
// prints every answer: a developer tool for looking at one history.
package main

import (
	"bufio"
	"fmt"
	"os"

	"github.com/onosproject/onos-config/verifharness/props/v2proto"
)

func main() {
	r := v2proto.NewRealForTools()
	defer r.Close()
	sc := bufio.NewScanner(os.Stdin)
	sc.Buffer(make([]byte, 1<<20), 1<<24)
	for sc.Scan() {
		ln := sc.Text()
		if ln == "" || ln[0] == '#' {
			continue
		}
		fmt.Printf("%s\n  => %s\n", ln, r.Exec(ln))
	}
}
