module github.com/onosproject/onos-config/verifharness

go 1.19

require (
	github.com/onosproject/onos-api/go v0.10.32
	github.com/onosproject/onos-config v0.0.0
	github.com/onosproject/onos-lib-go v0.10.17
	github.com/openconfig/gnmi v0.9.1
	google.golang.org/grpc v1.54.0
)

require (
	github.com/Shopify/sarama v1.31.1 // indirect
	github.com/atomix/atomix/api v1.1.0 // indirect
	github.com/davecgh/go-spew v1.1.1 // indirect
	github.com/eapache/go-resiliency v1.2.0 // indirect
	github.com/eapache/go-xerial-snappy v0.0.0-20180814174437-776d5712da21 // indirect
	github.com/eapache/queue v1.1.0 // indirect
	github.com/fsnotify/fsnotify v1.5.1 // indirect
	github.com/gogo/protobuf v1.3.2 // indirect
	github.com/golang/protobuf v1.5.3 // indirect
	github.com/golang/snappy v0.0.4 // indirect
	github.com/google/uuid v1.3.0 // indirect
	github.com/grpc-ecosystem/go-grpc-middleware v1.4.0 // indirect
	github.com/hashicorp/go-uuid v1.0.2 // indirect
	github.com/hashicorp/hcl v1.0.0 // indirect
	github.com/jcmturner/aescts/v2 v2.0.0 // indirect
	github.com/jcmturner/dnsutils/v2 v2.0.0 // indirect
	github.com/jcmturner/gofork v1.0.0 // indirect
	github.com/jcmturner/gokrb5/v8 v8.4.2 // indirect
	github.com/jcmturner/rpc/v2 v2.0.3 // indirect
	github.com/klauspost/compress v1.14.2 // indirect
	github.com/magiconair/properties v1.8.6 // indirect
	github.com/mitchellh/go-homedir v1.1.0 // indirect
	github.com/mitchellh/mapstructure v1.4.3 // indirect
	github.com/pelletier/go-toml v1.9.4 // indirect
	github.com/pierrec/lz4 v2.6.1+incompatible // indirect
	github.com/rcrowley/go-metrics v0.0.0-20201227073835-cf1acfcdf475 // indirect
	github.com/spf13/afero v1.8.2 // indirect
	github.com/spf13/cast v1.4.1 // indirect
	github.com/spf13/jwalterweatherman v1.1.0 // indirect
	github.com/spf13/pflag v1.0.5 // indirect
	github.com/spf13/viper v1.11.0 // indirect
	github.com/subosito/gotenv v1.2.0 // indirect
	go.uber.org/atomic v1.7.0 // indirect
	go.uber.org/multierr v1.6.0 // indirect
	go.uber.org/zap v1.24.0 // indirect
	golang.org/x/crypto v0.0.0-20220411220226-7b82a4e95df4 // indirect
	golang.org/x/net v0.8.0 // indirect
	golang.org/x/sys v0.6.0 // indirect
	golang.org/x/text v0.8.0 // indirect
	google.golang.org/genproto v0.0.0-20230110181048-76db0878b65f // indirect
	google.golang.org/protobuf v1.28.1 // indirect
	gopkg.in/ini.v1 v1.66.4 // indirect
	gopkg.in/yaml.v2 v2.4.0 // indirect
)

// every requirement of /repo/go.mod at /repo's version, so that offline resolution (-mod=mod, GOPROXY=off)
// never has to guess a module for a package of a dependency (atomix test client, gomock, ...)
require (
	github.com/atomix/atomix/protocols/rsm v1.1.0 // indirect
	github.com/atomix/atomix/runtime v1.1.2 // indirect
	github.com/atomix/atomix/sidecar v0.4.4 // indirect
	github.com/atomix/go-sdk v0.13.3
	github.com/bits-and-blooms/bitset v1.3.1 // indirect
	github.com/bits-and-blooms/bloom/v3 v3.3.1 // indirect
	github.com/cenkalti/backoff v2.2.1+incompatible // indirect
	github.com/cenkalti/backoff/v4 v4.1.1 // indirect
	github.com/ericchiang/oidc v0.0.0-20160908143337-11f62933e071 // indirect
	github.com/golang-jwt/jwt/v5 v5.0.0 // indirect
	github.com/golang/glog v1.0.0 // indirect
	github.com/golang/mock v1.6.0 // indirect
	github.com/google/go-cmp v0.5.9 // indirect
	github.com/hashicorp/golang-lru/v2 v2.0.1 // indirect
	github.com/inconshreveable/mousetrap v1.0.0 // indirect
	github.com/kylelemons/godebug v1.1.0 // indirect
	github.com/onosproject/config-models/models/testdevice-1.0.x v0.5.29 // indirect
	github.com/openconfig/goyang v1.4.0 // indirect
	github.com/openconfig/grpctunnel v0.0.0-20220819142823-6f5422b8ca70 // indirect
	github.com/openconfig/ygot v0.24.4 // indirect
	github.com/pelletier/go-toml/v2 v2.0.0-beta.8 // indirect
	github.com/pkg/errors v0.9.1 // indirect
	github.com/pmezard/go-difflib v1.0.0 // indirect
	github.com/pquerna/cachecontrol v0.0.0-20180517163645-1555304b9b35 // indirect
	github.com/spf13/cobra v1.4.0 // indirect
	github.com/stretchr/testify v1.8.2 // indirect
	golang.org/x/oauth2 v0.4.0 // indirect
	google.golang.org/appengine v1.6.7 // indirect
	gopkg.in/square/go-jose.v1 v1.1.2 // indirect
	gopkg.in/square/go-jose.v2 v2.6.0 // indirect
	gopkg.in/yaml.v3 v3.0.1 // indirect
	gotest.tools v2.2.0+incompatible // indirect
)

replace github.com/onosproject/onos-config => /repo
