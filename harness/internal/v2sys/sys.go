package v2sys

import (
	"context"
	"encoding/hex"
	"fmt"
	"sort"
	"strconv"
	"strings"
	"time"

	"github.com/atomix/go-sdk/pkg/test"
	configapi "github.com/onosproject/onos-api/go/onos/config/v2"
	cfgctl "github.com/onosproject/onos-config/pkg/controller/v2/configuration"
	mastctl "github.com/onosproject/onos-config/pkg/controller/v2/mastership"
	propctl "github.com/onosproject/onos-config/pkg/controller/v2/proposal"
	txctl "github.com/onosproject/onos-config/pkg/controller/v2/transaction"
	"github.com/onosproject/onos-config/pkg/store/v2/configuration"
	"github.com/onosproject/onos-config/pkg/store/v2/proposal"
	"github.com/onosproject/onos-config/pkg/store/v2/transaction"
	"github.com/onosproject/onos-lib-go/pkg/controller"
	"github.com/onosproject/onos-lib-go/pkg/errors"
	"github.com/onosproject/onos-lib-go/pkg/logging"
	"google.golang.org/grpc/codes"
)

func init() {
	logging.SetLevel(logging.FatalLevel)
}

// injector counts the effects (store writes and accepted/refused southbound requests) of one
// invocation and fails or loses the k-th one.
type injector struct {
	n      int
	at     int         // -1: none
	mode   string      // "fail" | "conflict"
	before func(k int) // pre-emption hook, called before effect k
	after  func(k int) // pre-emption hook, called after the store call / request whose last effect is k returned
	// noPreempt: the next effect is the entry half of a configuration write whose values half was
	// counted just before: the real store call cannot be entered between the two
	noPreempt bool
}

// done is called when the real store call (or southbound request) whose last counted effect is the
// latest one has returned.
func (i *injector) done() {
	if i.after != nil {
		i.after(i.n - 1)
	}
}

func (i *injector) next() (k int, fail, conflict bool) {
	k = i.n
	i.n++
	if i.before != nil && !i.noPreempt {
		i.before(k)
	}
	if i.at == k {
		return k, i.mode == "fail", i.mode == "conflict"
	}
	return k, false, false
}

var errInjected = errors.NewUnavailable("injected store failure")

type txStore struct {
	transaction.Store
	inj *injector
}

func (s *txStore) UpdateStatus(ctx context.Context, t *configapi.Transaction) error {
	_, fail, conflict := s.inj.next()
	if fail {
		return errInjected
	}
	defer s.inj.done()
	if conflict {
		v := t.Version
		t.Version = v + 1000000
		err := s.Store.UpdateStatus(ctx, t)
		t.Version = v
		return err
	}
	return s.Store.UpdateStatus(ctx, t)
}

type propStore struct {
	proposal.Store
	inj *injector
}

func (s *propStore) Create(ctx context.Context, p *configapi.Proposal) error {
	_, fail, _ := s.inj.next()
	if fail {
		return errInjected
	}
	defer s.inj.done()
	return s.Store.Create(ctx, p)
}

func (s *propStore) UpdateStatus(ctx context.Context, p *configapi.Proposal) error {
	_, fail, conflict := s.inj.next()
	if fail {
		return errInjected
	}
	defer s.inj.done()
	if conflict {
		v := p.Version
		p.Version = v + 1000000
		err := s.Store.UpdateStatus(ctx, p)
		p.Version = v
		return err
	}
	return s.Store.UpdateStatus(ctx, p)
}

type cfgStore struct {
	configuration.Store
	inj *injector
}

func (s *cfgStore) Create(ctx context.Context, c *configapi.Configuration) error {
	_, fail, _ := s.inj.next()
	if fail {
		return errInjected
	}
	defer s.inj.done()
	return s.Store.Create(ctx, c)
}

// Update = values half (always: the commit code makes Values non-nil) + entry compare-and-set.
func (s *cfgStore) Update(ctx context.Context, c *configapi.Configuration) error {
	if c.Values != nil {
		_, fail, _ := s.inj.next()
		if fail {
			return errInjected
		}
		s.inj.noPreempt = true
	}
	_, fail, conflict := s.inj.next()
	s.inj.noPreempt = false
	defer s.inj.done()
	if fail || conflict {
		// lose the entry compare-and-set after the values half took place: stale version
		v := c.Version
		c.Version = v + 1000000
		err := s.Store.Update(ctx, c)
		c.Version = v
		return err
	}
	return s.Store.Update(ctx, c)
}

func (s *cfgStore) UpdateStatus(ctx context.Context, c *configapi.Configuration) error {
	if c.Status.Applied.Values != nil {
		_, fail, _ := s.inj.next()
		if fail {
			return errInjected
		}
		s.inj.noPreempt = true
	}
	_, fail, conflict := s.inj.next()
	s.inj.noPreempt = false
	defer s.inj.done()
	if fail || conflict {
		v := c.Version
		c.Version = v + 1000000
		err := s.Store.UpdateStatus(ctx, c)
		c.Version = v
		return err
	}
	return s.Store.UpdateStatus(ctx, c)
}

// Sys is the real control plane under the harness's control.
type Sys struct {
	Atomix   *test.Client
	Topo     *Topo
	Devs     *Devices
	Plugins  *Plugins
	RawTx    transaction.Store
	RawProp  proposal.Store
	RawCfg   configuration.Store
	Tx       *txStore
	Prop     *propStore
	Cfg      *cfgStore
	inj      *injector
	txR      *txctl.Reconciler
	propR    *propctl.Reconciler
	cfgR     *cfgctl.Reconciler
	mastR    *mastctl.Reconciler
	nTx      int
	queue    *workQueue
	watchers []stopper
}

// New builds a fresh system.
func New() (*Sys, error) {
	cl := test.NewClient()
	rawCfg, err := configuration.NewAtomixStore(cl)
	if err != nil {
		return nil, err
	}
	rawProp, err := proposal.NewAtomixStore(cl)
	if err != nil {
		return nil, err
	}
	rawTx, err := transaction.NewAtomixStore(cl)
	if err != nil {
		return nil, err
	}
	s := &Sys{Atomix: cl, Topo: NewTopo(), Devs: NewDevices(), Plugins: NewPlugins(),
		RawTx: rawTx, RawProp: rawProp, RawCfg: rawCfg, inj: &injector{at: -1}}
	s.Tx = &txStore{Store: rawTx, inj: s.inj}
	s.Prop = &propStore{Store: rawProp, inj: s.inj}
	s.Cfg = &cfgStore{Store: rawCfg, inj: s.inj}
	s.txR = txctl.NewReconcilerForVerif(s.Tx, s.Prop)
	s.propR = propctl.NewReconcilerForVerif(s.Topo, s.Devs, s.Prop, s.Cfg, s.Plugins)
	s.cfgR = cfgctl.NewReconcilerForVerif(s.Topo, s.Devs, s.Cfg)
	s.mastR = mastctl.NewReconcilerForVerif(s.Topo, s.Cfg)
	return s, nil
}

// Close releases the atomix test client.
func (s *Sys) Close() {
	s.StopWatchers()
	s.Atomix.Close()
}

func tname(t string) string { return "t" + t }

// PV is the wire form of a path value.
type PV struct {
	Path, Value string
	Deleted     bool
	Index       uint64
}

func decStr(h string) string {
	if h == "-" {
		return ""
	}
	b, _ := hex.DecodeString(h)
	return string(b)
}

func encStr(s string) string {
	if s == "" {
		return "-"
	}
	return hex.EncodeToString([]byte(s))
}

// DecVals parses `p=v:d:i,...`.
func DecVals(s string) []PV {
	if s == "-" || s == "" {
		return nil
	}
	var out []PV
	for _, tok := range strings.Split(s, ",") {
		p, rest, _ := strings.Cut(tok, "=")
		f := strings.Split(rest, ":")
		idx, _ := strconv.ParseUint(f[2], 10, 64)
		out = append(out, PV{Path: decStr(p), Value: decStr(f[0]), Deleted: f[1] == "d", Index: idx})
	}
	return out
}

func encPathValues(m map[string]*configapi.PathValue) string {
	if len(m) == 0 {
		return "-"
	}
	keys := make([]string, 0, len(m))
	for k := range m {
		keys = append(keys, k)
	}
	sort.Strings(keys)
	parts := make([]string, 0, len(keys))
	for _, k := range keys {
		v := m[k]
		d := "l"
		if v.Deleted {
			d = "d"
		}
		parts = append(parts, fmt.Sprintf("%s=%s:%s:%d", encStr(v.Path), encStr(string(v.Value.Bytes)), d, v.Index))
	}
	return strings.Join(parts, ",")
}

func toPathValue(pv PV) *configapi.PathValue {
	return &configapi.PathValue{Path: pv.Path, Deleted: pv.Deleted, Index: configapi.Index(pv.Index),
		Value: configapi.TypedValue{Bytes: []byte(pv.Value), Type: configapi.ValueType_STRING, TypeOpts: []int32{}}}
}

// Set appends a change transaction directly to the log (as the northbound Set does after its checks).
func (s *Sys) Set(sync, serializable bool, changes map[string][]PV, order []string) (uint64, error) {
	s.nTx++
	tx := &configapi.Transaction{ID: configapi.TransactionID(fmt.Sprintf("tx-%d", s.nTx))}
	vals := map[configapi.TargetID]*configapi.PathValues{}
	ov := map[string]*configapi.TargetTypeVersion{}
	for t, pvs := range changes {
		m := map[string]*configapi.PathValue{}
		for _, pv := range pvs {
			m[pv.Path] = toPathValue(pv)
		}
		vals[configapi.TargetID(tname(t))] = &configapi.PathValues{Values: m}
		ov[tname(t)] = &configapi.TargetTypeVersion{TargetType: TargetType, TargetVersion: TargetVersion}
	}
	tx.Details = &configapi.Transaction_Change{Change: &configapi.ChangeTransaction{Values: vals}}
	tx.TargetVersionOverrides = &configapi.TargetVersionOverrides{Overrides: ov}
	if sync {
		tx.TransactionStrategy.Synchronicity = configapi.TransactionStrategy_SYNCHRONOUS
	}
	if serializable {
		tx.TransactionStrategy.Isolation = configapi.TransactionStrategy_SERIALIZABLE
	}
	ctx, cancel := context.WithTimeout(context.Background(), 10*time.Second)
	defer cancel()
	if err := s.RawTx.Create(ctx, tx); err != nil {
		return 0, err
	}
	return uint64(tx.Index), nil
}

// Rollback appends a rollback transaction.
func (s *Sys) Rollback(index uint64) (uint64, error) {
	s.nTx++
	tx := &configapi.Transaction{ID: configapi.TransactionID(fmt.Sprintf("tx-%d", s.nTx)),
		Details: &configapi.Transaction_Rollback{Rollback: &configapi.RollbackTransaction{RollbackIndex: configapi.Index(index)}}}
	tx.TransactionStrategy.Synchronicity = configapi.TransactionStrategy_SYNCHRONOUS
	ctx, cancel := context.WithTimeout(context.Background(), 10*time.Second)
	defer cancel()
	if err := s.RawTx.Create(ctx, tx); err != nil {
		return 0, err
	}
	return uint64(tx.Index), nil
}

// RunOpts is the environment of one invocation.
type RunOpts struct {
	Plugin   string // "ok" | "bad" | "none"
	Dev      string // "ok" | "retry" | "wait" | "fail:<FAILURE>"
	SyncOK   int
	InjectAt int
	Inject   string
	Before   func(k int)
	After    func(k int)
}

var failureCodes = map[string]codes.Code{
	"UNKNOWN": codes.Unknown, "CANCELED": codes.Canceled, "NOT_FOUND": codes.NotFound, "ALREADY_EXISTS": codes.AlreadyExists,
	"UNAUTHORIZED": codes.Unauthenticated, "FORBIDDEN": codes.PermissionDenied, "CONFLICT": codes.FailedPrecondition,
	"INVALID": codes.InvalidArgument, "UNAVAILABLE": codes.Unavailable, "NOT_SUPPORTED": codes.Unimplemented,
	"TIMEOUT": codes.DeadlineExceeded, "INTERNAL": codes.Internal,
}

// Result is what one Reconcile returned.
type Result struct {
	Requeue  string
	Err      bool
	Effects  int
	Attempts int    // southbound Set calls made, whatever the answer
	Doc      []byte // the document the model plugin was asked to validate in this invocation (nil: none)
	Panic    string
}

// Run performs one Reconcile(id) of the real reconciler.
func (s *Sys) Run(id string, o RunOpts) (res Result) {
	// an invocation may run inside the pre-emption hook of another one: everything per-invocation is
	// saved here and restored when this one returns
	savedInj, savedRespond, savedSkip, savedAfter := *s.inj, s.Devs.Respond, s.Devs.SkipLog, s.Devs.After
	savedPresent, savedVerdict := s.Plugins.Present, s.Plugins.Verdict
	defer func() {
		*s.inj, s.Devs.Respond, s.Devs.SkipLog, s.Devs.After = savedInj, savedRespond, savedSkip, savedAfter
		s.Plugins.Present, s.Plugins.Verdict = savedPresent, savedVerdict
	}()
	s.inj.n, s.inj.at, s.inj.mode, s.inj.before, s.inj.noPreempt, s.inj.after = 0, -1, "", o.Before, false, o.After
	s.Devs.After = s.inj.done
	if o.Inject != "" {
		s.inj.at, s.inj.mode = o.InjectAt, o.Inject
	}
	s.Plugins.Present = o.Plugin != "none"
	if o.Plugin == "bad" {
		s.Plugins.Verdict = func([]byte) error { return errors.NewInvalid("the model says no") }
	} else {
		s.Plugins.Verdict = nil
	}
	isCfg := strings.HasPrefix(id, "cfg:")
	sent := 0
	// an injected failure of a southbound request is an unreachable device
	count := func() error {
		if _, fail, conflict := s.inj.next(); fail || conflict {
			s.Devs.SkipLog = true
			return GrpcErr(codes.Unavailable)
		}
		return nil
	}
	s.Devs.Respond = func(target string, n int) error {
		defer func() { sent++ }()
		if isCfg && sent < o.SyncOK {
			return count()
		}
		switch {
		case o.Dev == "" || o.Dev == "ok":
			return count()
		case o.Dev == "retry":
			s.Devs.SkipLog = true
			return GrpcErr(codes.Unavailable)
		case o.Dev == "retry:CANCELED":
			s.Devs.SkipLog = true
			return GrpcErr(codes.Canceled)
		case o.Dev == "retry:TIMEOUT":
			s.Devs.SkipLog = true
			return GrpcErr(codes.DeadlineExceeded)
		case o.Dev == "wait":
			s.Devs.SkipLog = true
			return GrpcErr(codes.PermissionDenied)
		case strings.HasPrefix(o.Dev, "fail:"):
			if !isCfg {
				if err := count(); err != nil {
					return err
				}
			} else {
				// a refused re-synchronisation request ends the invocation like a transient answer does:
				// nothing is written, the configuration stays SYNCHRONIZING; the twin records only the
				// accepted requests of a re-synchronisation, so the log does the same
				s.Devs.SkipLog = true
			}
			return GrpcErr(failureCodes[strings.TrimPrefix(o.Dev, "fail:")])
		}
		return nil
	}
	nDocs := len(s.Plugins.Docs)
	defer func() {
		if r := recover(); r != nil {
			res.Panic = fmt.Sprint(r)
		}
		res.Effects = s.inj.n
		res.Attempts = sent
		if len(s.Plugins.Docs) > nDocs {
			res.Doc = s.Plugins.Docs[len(s.Plugins.Docs)-1]
		}
		if len(s.Plugins.Docs) > 64 {
			s.Plugins.Docs = nil
		}
	}()
	f := strings.Split(id, ":")
	var r controller.Result
	var err error
	switch f[0] {
	case "tx":
		i, _ := strconv.ParseUint(f[1], 10, 64)
		r, err = s.txR.Reconcile(controller.NewID(configapi.Index(i)))
	case "prop":
		i, _ := strconv.ParseUint(f[2], 10, 64)
		r, err = s.propR.Reconcile(controller.NewID(proposal.NewID(configapi.TargetID(tname(f[1])), configapi.Index(i))))
	case "cfg":
		r, err = s.cfgR.Reconcile(controller.NewID(configuration.NewID(configapi.TargetID(tname(f[1])), TargetType, TargetVersion)))
	case "mast":
		r, err = s.mastR.Reconcile(controller.NewID(configuration.NewID(configapi.TargetID(tname(f[1])), TargetType, TargetVersion)))
	}
	res.Err = err != nil
	res.Requeue = "-"
	if r.Requeue.Value != nil {
		switch v := r.Requeue.Value.(type) {
		case configapi.Index:
			res.Requeue = fmt.Sprintf("tx:%d", v)
		case configapi.ProposalID:
			sv := string(v)
			k := strings.LastIndex(sv, "-")
			res.Requeue = fmt.Sprintf("prop:%s:%s", strings.TrimPrefix(sv[:k], "t"), sv[k+1:])
		default:
			res.Requeue = fmt.Sprintf("other:%v", v)
		}
	}
	return res
}

func phase(isNil bool, state string) string {
	switch {
	case isNil:
		return "-"
	case strings.HasSuffix(state, "FAILED"):
		return "f"
	case strings.HasSuffix(state, "ING"):
		return "o"
	}
	return "d"
}

func failure(f *configapi.Failure) string {
	if f == nil {
		return "-"
	}
	return f.Type.String()
}

// State renders the canonical projection of the persistent state (same format as the twin).
func (s *Sys) State() string {
	ctx, cancel := context.WithTimeout(context.Background(), 10*time.Second)
	defer cancel()
	var b strings.Builder
	txs, _ := s.RawTx.List(ctx)
	sort.Slice(txs, func(i, j int) bool { return txs[i].Index < txs[j].Index })
	var parts []string
	for _, t := range txs {
		ph := t.Status.Phases
		props := "nil"
		if t.Status.Proposals != nil {
			var ps []string
			for _, p := range t.Status.Proposals {
				ps = append(ps, strings.TrimPrefix(string(p), "t"))
			}
			sort.Strings(ps)
			props = "[" + strings.Join(ps, "+") + "]"
		}
		f := []string{
			phase(ph.Initialize == nil, stateStr(ph.Initialize != nil, func() string { return ph.Initialize.State.String() })),
			phase(ph.Validate == nil, stateStr(ph.Validate != nil, func() string { return ph.Validate.State.String() })),
			phase(ph.Commit == nil, stateStr(ph.Commit != nil, func() string { return ph.Commit.State.String() })),
			phase(ph.Apply == nil, stateStr(ph.Apply != nil, func() string { return ph.Apply.State.String() })),
			phase(ph.Abort == nil, stateStr(ph.Abort != nil, func() string { return ph.Abort.State.String() })),
			t.Status.State.String(), failure(t.Status.Failure), props}
		parts = append(parts, fmt.Sprintf("%d:%s", t.Index, strings.Join(f, ",")))
	}
	b.WriteString("TX[" + strings.Join(parts, ";") + "] ")

	props, _ := s.RawProp.List(ctx)
	parts = nil
	for _, p := range props {
		ph := p.Status.Phases
		var vf, af *configapi.Failure
		var term uint64
		if ph.Validate != nil {
			vf = ph.Validate.Failure
		}
		if ph.Apply != nil {
			af = ph.Apply.Failure
			term = uint64(ph.Apply.Term)
		}
		f := []string{
			strconv.FormatUint(uint64(p.Status.PrevIndex), 10), strconv.FormatUint(uint64(p.Status.NextIndex), 10),
			strconv.FormatUint(uint64(p.Status.RollbackIndex), 10),
			phase(ph.Initialize == nil, stateStr(ph.Initialize != nil, func() string { return ph.Initialize.State.String() })),
			phase(ph.Validate == nil, stateStr(ph.Validate != nil, func() string { return ph.Validate.State.String() })),
			phase(ph.Commit == nil, stateStr(ph.Commit != nil, func() string { return ph.Commit.State.String() })),
			phase(ph.Apply == nil, stateStr(ph.Apply != nil, func() string { return ph.Apply.State.String() })),
			phase(ph.Abort == nil, stateStr(ph.Abort != nil, func() string { return ph.Abort.State.String() })),
			failure(vf), failure(af), strconv.FormatUint(term, 10), "rb=" + encPathValues(p.Status.RollbackValues)}
		parts = append(parts, fmt.Sprintf("%s-%d:%s", strings.TrimPrefix(string(p.TargetID), "t"), p.TransactionIndex, strings.Join(f, ",")))
	}
	sort.Strings(parts)
	b.WriteString("PR[" + strings.Join(parts, ";") + "] ")

	cfgs, _ := s.RawCfg.List(ctx)
	parts = nil
	for _, c := range cfgs {
		st := c.Status
		f := []string{
			strconv.FormatUint(uint64(c.Index), 10), strconv.FormatUint(uint64(st.Proposed.Index), 10),
			strconv.FormatUint(uint64(st.Committed.Index), 10), strconv.FormatUint(uint64(st.Applied.Index), 10),
			relNum(st.Mastership.Master), strconv.FormatUint(uint64(st.Mastership.Term), 10),
			relNum(st.Applied.Mastership.Master), strconv.FormatUint(uint64(st.Applied.Mastership.Term), 10),
			st.State.String(), "vals=" + encPathValues(st.Applied.Values), "view=" + encPathValues(c.Values)}
		parts = append(parts, fmt.Sprintf("%s:%s", strings.TrimPrefix(string(c.TargetID), "t"), strings.Join(f, ",")))
	}
	sort.Strings(parts)
	b.WriteString("CF[" + strings.Join(parts, ";") + "] ")

	parts = nil
	s.Devs.mu.Lock()
	for t, st := range s.Devs.State {
		var kv []string
		for p, v := range st {
			kv = append(kv, encStr(p)+"="+encStr(v))
		}
		sort.Strings(kv)
		val := "-"
		if len(kv) > 0 {
			val = strings.Join(kv, ",")
		}
		parts = append(parts, strings.TrimPrefix(t, "t")+":"+val)
	}
	sort.Strings(parts)
	b.WriteString("DEV[" + strings.Join(parts, ";") + "] ")
	parts = nil
	for _, r := range s.Devs.Log {
		var items []string
		for _, d := range r.Deletes {
			items = append(items, "del:"+encStr(d))
		}
		for p, v := range r.Updates {
			items = append(items, "upd:"+encStr(p)+"="+encStr(v))
		}
		sort.Strings(items)
		acc := "ok"
		if !r.Accepted {
			acc = "refused"
		}
		parts = append(parts, fmt.Sprintf("%s/%s/%d/%s/%s", strings.TrimPrefix(r.Target, "t"), relNum(r.Conn), r.Term, acc, strings.Join(items, ",")))
	}
	s.Devs.mu.Unlock()
	b.WriteString("LOG[" + strings.Join(parts, ";") + "]")
	return b.String()
}

func stateStr(ok bool, f func() string) string {
	if !ok {
		return ""
	}
	return f()
}

func relNum(id string) string {
	if id == "" {
		return "0"
	}
	return strings.TrimPrefix(id, "rel-")
}

// SideMap returns the digest of the side map of a target (hint for the twin).
func (s *Sys) SideMap(t string) string {
	ctx, cancel := context.WithTimeout(context.Background(), 10*time.Second)
	defer cancel()
	c, err := s.RawCfg.Get(ctx, configuration.NewID(configapi.TargetID(tname(t)), TargetType, TargetVersion))
	if err != nil {
		return "-"
	}
	return encPathValues(c.Values)
}

// ProposalOrder returns the targets of a transaction's proposals in stored order (hint for the twin).
func (s *Sys) ProposalOrder(index uint64) string {
	ctx, cancel := context.WithTimeout(context.Background(), 10*time.Second)
	defer cancel()
	t, err := s.RawTx.GetByIndex(ctx, configapi.Index(index))
	if err != nil {
		return ""
	}
	if t.Status.Proposals == nil {
		// an initialisation that did not complete: the proposals that exist were created first
		all, _ := s.RawProp.List(ctx)
		var ts []string
		for _, p := range all {
			if uint64(p.TransactionIndex) == index {
				ts = append(ts, strings.TrimPrefix(string(p.TargetID), "t"))
			}
		}
		sort.Strings(ts)
		return strings.Join(ts, "+")
	}
	var ps []string
	for _, p := range t.Status.Proposals {
		sv := string(p)
		ps = append(ps, strings.TrimPrefix(sv[:strings.LastIndex(sv, "-")], "t"))
	}
	return strings.Join(ps, "+")
}

// Master returns the number of the master relation of a target's configuration (hint for the twin).
func (s *Sys) Master(t string) string {
	ctx, cancel := context.WithTimeout(context.Background(), 10*time.Second)
	defer cancel()
	c, err := s.RawCfg.Get(ctx, configuration.NewID(configapi.TargetID(tname(t)), TargetType, TargetVersion))
	if err != nil {
		return "0"
	}
	return relNum(c.Status.Mastership.Master)
}

// RollbackValues returns the digest of a proposal's captured rollback values (hint for the twin).
func (s *Sys) RollbackValues(t, index string) string {
	ctx, cancel := context.WithTimeout(context.Background(), 10*time.Second)
	defer cancel()
	i, _ := strconv.ParseUint(index, 10, 64)
	p, err := s.RawProp.Get(ctx, proposal.NewID(configapi.TargetID(tname(t)), configapi.Index(i)))
	if err != nil {
		return "-"
	}
	return encPathValues(p.Status.RollbackValues)
}

// Drain runs every reconciler on every record, sweep after sweep, with an accepting plugin and
// device, until a whole sweep writes nothing (the controllers are idle and at a fixed point) or
// the bound is hit. It returns the number of sweeps and whether the fixed point was reached.
func (s *Sys) Drain(targets []string, maxSweeps int) (int, bool) {
	ctx, cancel := context.WithTimeout(context.Background(), 60*time.Second)
	defer cancel()
	for sweep := 1; sweep <= maxSweeps; sweep++ {
		wrote := false
		var ids []string
		txs, _ := s.RawTx.List(ctx)
		for _, t := range txs {
			ids = append(ids, fmt.Sprintf("tx:%d", t.Index))
		}
		props, _ := s.RawProp.List(ctx)
		for _, p := range props {
			ids = append(ids, fmt.Sprintf("prop:%s:%d", strings.TrimPrefix(string(p.TargetID), "t"), p.TransactionIndex))
		}
		sort.Strings(ids)
		for _, t := range targets {
			ids = append(ids, "mast:"+t, "cfg:"+t)
		}
		for _, id := range ids {
			r := s.Run(id, RunOpts{Plugin: "ok", Dev: "ok", SyncOK: 1000000, InjectAt: -1})
			if r.Effects > 0 || r.Err {
				wrote = true
			}
		}
		if !wrote {
			return sweep, true
		}
	}
	return maxSweeps, false
}
