package v2sys

import (
	"fmt"
	"math/rand"
	"sort"
	"strconv"
	"strings"
	"sync"
	"time"

	configapi "github.com/onosproject/onos-api/go/onos/config/v2"
	cfgctl "github.com/onosproject/onos-config/pkg/controller/v2/configuration"
	mastctl "github.com/onosproject/onos-config/pkg/controller/v2/mastership"
	propctl "github.com/onosproject/onos-config/pkg/controller/v2/proposal"
	txctl "github.com/onosproject/onos-config/pkg/controller/v2/transaction"
	"github.com/onosproject/onos-lib-go/pkg/controller"
)

// A faithful work queue: the ids the controllers would be handed are exactly those the REAL store
// watchers of the four controllers emit (transaction/watcher.go, proposal/watcher.go,
// configuration/watcher.go, mastership/watcher.go, started on the real stores before the first
// record exists), the ids a Reconcile returns in Result.Requeue, and the id of an invocation that
// returned an error (the controller runtime retries it).  Nothing else wakes anything: a missing
// requeue or watcher mapping shows as work left behind when the queue runs empty.
// Topology events (relations appearing / disappearing) are injected by the harness as the ids the
// two topo watchers map them to (`mast:<t>` and `cfg:<t>`).

type workQueue struct {
	mu      sync.Mutex
	pending map[string]bool
	order   []string
	last    time.Time // last arrival
	total   int
}

func (q *workQueue) push(id string) {
	q.mu.Lock()
	defer q.mu.Unlock()
	q.last = time.Now()
	q.total++
	if q.pending[id] {
		return
	}
	q.pending[id] = true
	q.order = append(q.order, id)
}

func (q *workQueue) snapshot() ([]string, time.Time) {
	q.mu.Lock()
	defer q.mu.Unlock()
	return append([]string{}, q.order...), q.last
}

func (q *workQueue) remove(id string) {
	q.mu.Lock()
	defer q.mu.Unlock()
	delete(q.pending, id)
	for i, x := range q.order {
		if x == id {
			q.order = append(q.order[:i], q.order[i+1:]...)
			break
		}
	}
}

type stopper interface{ Stop() }

// StartWatchers starts the real store watchers of the four v2 controllers.
func (s *Sys) StartWatchers() error {
	if s.queue != nil {
		return nil
	}
	s.queue = &workQueue{pending: map[string]bool{}, last: time.Now()}
	cfgName := func(v interface{}) string {
		id := fmt.Sprint(v)
		suffix := "-" + string(TargetType) + "-" + string(TargetVersion)
		return strings.TrimPrefix(strings.TrimSuffix(id, suffix), "t")
	}
	conv := map[string]func(v interface{}) string{
		"tx": func(v interface{}) string { return fmt.Sprintf("tx:%d", v.(configapi.Index)) },
		"prop": func(v interface{}) string {
			sv := string(v.(configapi.ProposalID))
			k := strings.LastIndex(sv, "-")
			return fmt.Sprintf("prop:%s:%s", strings.TrimPrefix(sv[:k], "t"), sv[k+1:])
		},
		"cfg":  func(v interface{}) string { return "cfg:" + cfgName(v) },
		"mast": func(v interface{}) string { return "mast:" + cfgName(v) },
	}
	start := func(kind string, w interface {
		Start(ch chan<- controller.ID) error
		Stop()
	}) error {
		ch := make(chan controller.ID, 1024)
		if err := w.Start(ch); err != nil {
			return err
		}
		s.watchers = append(s.watchers, w)
		go func() {
			for id := range ch {
				func() {
					defer func() { _ = recover() }()
					s.queue.push(conv[kind](id.Value))
				}()
			}
		}()
		return nil
	}
	tw, tpw := txctl.NewWatchersForVerif(s.Tx, s.Prop)
	pw, pcw := propctl.NewWatchersForVerif(s.Prop, s.Cfg)
	cw, _ := cfgctl.NewWatchersForVerif(s.Topo, s.Cfg)
	_, mcw := mastctl.NewWatchersForVerif(s.Topo, s.Cfg)
	for _, x := range []struct {
		k string
		w interface {
			Start(ch chan<- controller.ID) error
			Stop()
		}
	}{{"tx", tw}, {"tx", tpw}, {"prop", pw}, {"prop", pcw}, {"cfg", cw}, {"mast", mcw}} {
		if err := start(x.k, x.w); err != nil {
			return err
		}
	}
	return nil
}

// StopWatchers stops them.
func (s *Sys) StopWatchers() {
	for _, w := range s.watchers {
		w.Stop()
	}
	s.watchers = nil
}

// Wake injects ids (topology events, as mapped by the topo watchers).
func (s *Sys) Wake(ids ...string) {
	if s.queue == nil {
		return
	}
	for _, id := range ids {
		s.queue.push(id)
	}
}

// settle waits until no id has arrived for `quiet`.
func (s *Sys) settle(quiet time.Duration) {
	for {
		_, last := s.queue.snapshot()
		d := time.Since(last)
		if d >= quiet {
			return
		}
		time.Sleep(quiet - d + time.Millisecond)
	}
}

// AutoOpts steer one faithful run.
type AutoOpts struct {
	Policy   string // rand | rr
	Seed     int64
	MaxSteps int
	Bad      map[uint64]bool // transactions whose proposals the plugin rejects
	Refuse   map[uint64]bool // transactions whose apply the device refuses
}

// partition is the work-queue partition an id is processed in (onos-lib-go controller: one
// goroutine and one FIFO queue per partition key): all transactions share one; proposals are
// partitioned by target; the configuration and mastership controllers by configuration.
func partition(id string) string {
	f := strings.Split(id, ":")
	switch f[0] {
	case "tx":
		return "tx"
	case "prop":
		return "prop:" + f[1]
	}
	return id
}

// Auto processes the work queue until it stays empty (quiescent) or MaxSteps invocations ran.
// Within a partition ids are processed in arrival order (FIFO, deduplicated); which partition
// runs next is the scheduler's choice: uniformly random (fair with probability 1) or round robin.
func (s *Sys) Auto(o AutoOpts) (steps int, quiescent bool, trace []string) {
	rnd := rand.New(rand.NewSource(o.Seed))
	quiet := 4 * time.Millisecond
	rr := 0
	for steps < o.MaxSteps {
		s.settle(quiet)
		ids, _ := s.queue.snapshot()
		if len(ids) == 0 {
			// nothing to do: make sure no event is still on its way
			time.Sleep(40 * time.Millisecond)
			s.settle(10 * quiet)
			if ids, _ = s.queue.snapshot(); len(ids) == 0 {
				// the events of the real store watchers arrive asynchronously; on a loaded machine (other checks,
				// Lean builds) later than the 80 ms above: look once more after a longer pause before the queue is
				// declared empty for good (a stranded transaction is reported from this verdict)
				time.Sleep(160 * time.Millisecond)
				s.settle(10 * quiet)
				ids, _ = s.queue.snapshot()
			}
			if len(ids) == 0 {
				return steps, true, trace
			}
		}
		// heads of the partitions, in order of first appearance
		var parts []string
		head := map[string]string{}
		for _, id := range ids {
			p := partition(id)
			if _, ok := head[p]; !ok {
				head[p] = id
				parts = append(parts, p)
			}
		}
		sort.Strings(parts)
		var p string
		if o.Policy == "rr" {
			p = parts[rr%len(parts)]
			rr++
		} else {
			p = parts[rnd.Intn(len(parts))]
		}
		id := head[p]
		s.queue.remove(id)
		ro := RunOpts{Plugin: "ok", Dev: "ok", SyncOK: 1000000, InjectAt: -1}
		if f := strings.Split(id, ":"); f[0] == "prop" {
			n, _ := strconv.ParseUint(f[2], 10, 64)
			if o.Bad[n] {
				ro.Plugin = "bad"
			}
			if o.Refuse[n] {
				ro.Dev = "fail:INVALID"
			}
		}
		res := s.Run(id, ro)
		steps++
		if len(trace) < 400 {
			trace = append(trace, id)
		}
		if res.Panic != "" {
			trace = append(trace, "panic:"+res.Panic)
			return steps, false, trace
		}
		if res.Requeue != "-" {
			s.queue.push(res.Requeue)
		}
		if res.Err {
			s.queue.push(id)
		}
	}
	return steps, false, trace
}
