// Package v2sys runs the real v2 control plane of onos-config in-process, one Reconcile(id) at a
// time, on the real stores (over the atomix in-memory test client) with fakes for topo, the
// southbound connection manager / device and the model plugin registry, and with store
// decorators that count, fail or pre-empt individual writes.
package v2sys

import (
	"context"
	"fmt"
	"sort"
	"strings"
	"sync"

	"github.com/onosproject/onos-api/go/onos/config/admin"
	configapi "github.com/onosproject/onos-api/go/onos/config/v2"
	topoapi "github.com/onosproject/onos-api/go/onos/topo"
	controllerutils "github.com/onosproject/onos-config/pkg/controller/utils"
	"github.com/onosproject/onos-config/pkg/pluginregistry"
	sb "github.com/onosproject/onos-config/pkg/southbound/gnmi"
	"github.com/onosproject/onos-config/pkg/utils"
	pathutils "github.com/onosproject/onos-config/pkg/utils/path"
	"github.com/onosproject/onos-lib-go/pkg/errors"
	baseClient "github.com/openconfig/gnmi/client"
	gpb "github.com/openconfig/gnmi/proto/gnmi"
	"google.golang.org/grpc/codes"
	"google.golang.org/grpc/status"
)

// TargetType and TargetVersion are used for every target of the harness.
const (
	TargetType    = "devicesim"
	TargetVersion = "1.0.0"
)

// ---------------------------------------------------------------- topo

// Topo is an in-memory topo.Store.
type Topo struct {
	mu      sync.Mutex
	objects map[topoapi.ID]*topoapi.Object
}

// NewTopo returns an empty topo store.
func NewTopo() *Topo { return &Topo{objects: map[topoapi.ID]*topoapi.Object{}} }

// AddTarget adds a target entity with the Configurable aspect.
func (t *Topo) AddTarget(id string, persistent bool) {
	e := &topoapi.Object{ID: topoapi.ID(id), Type: topoapi.Object_ENTITY,
		Obj: &topoapi.Object_Entity{Entity: &topoapi.Entity{KindID: "devicesim"}}}
	_ = e.SetAspect(&topoapi.Configurable{Type: TargetType, Version: TargetVersion, Target: id, Persistent: persistent})
	t.mu.Lock()
	t.objects[e.ID] = e
	t.mu.Unlock()
}

// AddRelation adds a CONTROLS relation from this onos-config node to the target.
func (t *Topo) AddRelation(relID string, target string) {
	r := &topoapi.Object{ID: topoapi.ID(relID), Type: topoapi.Object_RELATION,
		Obj: &topoapi.Object_Relation{Relation: &topoapi.Relation{KindID: topoapi.CONTROLS,
			SrcEntityID: controllerutils.GetOnosConfigID(), TgtEntityID: topoapi.ID(target)}}}
	t.mu.Lock()
	t.objects[r.ID] = r
	t.mu.Unlock()
}

// RemoveRelationsTo deletes every relation whose target entity is the given one.
func (t *Topo) RemoveRelationsTo(target string) {
	t.mu.Lock()
	defer t.mu.Unlock()
	for id, o := range t.objects {
		if r := o.GetRelation(); r != nil && string(r.TgtEntityID) == target {
			delete(t.objects, id)
		}
	}
}

// RemoveObject deletes an object.
func (t *Topo) RemoveObject(id string) {
	t.mu.Lock()
	delete(t.objects, topoapi.ID(id))
	t.mu.Unlock()
}

// Create implements topo.Store.
func (t *Topo) Create(ctx context.Context, object *topoapi.Object) error {
	t.mu.Lock()
	defer t.mu.Unlock()
	if _, ok := t.objects[object.ID]; ok {
		return errors.NewAlreadyExists("exists")
	}
	t.objects[object.ID] = object
	return nil
}

// Update implements topo.Store.
func (t *Topo) Update(ctx context.Context, object *topoapi.Object) error {
	t.mu.Lock()
	defer t.mu.Unlock()
	t.objects[object.ID] = object
	return nil
}

// Get implements topo.Store.
func (t *Topo) Get(ctx context.Context, id topoapi.ID) (*topoapi.Object, error) {
	t.mu.Lock()
	defer t.mu.Unlock()
	o, ok := t.objects[id]
	if !ok {
		return nil, errors.NewNotFound("object %s not found", id)
	}
	return o, nil
}

// List implements topo.Store: only the relation filter the controllers use is honoured.
func (t *Topo) List(ctx context.Context, filters *topoapi.Filters) ([]topoapi.Object, error) {
	t.mu.Lock()
	defer t.mu.Unlock()
	var ids []string
	for id := range t.objects {
		ids = append(ids, string(id))
	}
	sort.Strings(ids)
	var out []topoapi.Object
	for _, id := range ids {
		o := t.objects[topoapi.ID(id)]
		if filters != nil && filters.RelationFilter != nil {
			r := o.GetRelation()
			if r == nil || r.KindID != topoapi.ID(filters.RelationFilter.RelationKind) || string(r.SrcEntityID) != filters.RelationFilter.SrcId {
				continue
			}
		}
		out = append(out, *o)
	}
	return out, nil
}

// Delete implements topo.Store.
func (t *Topo) Delete(ctx context.Context, object *topoapi.Object) error {
	t.RemoveObject(string(object.ID))
	return nil
}

// Watch implements topo.Store (the harness drives reconciles itself).
func (t *Topo) Watch(ctx context.Context, ch chan<- topoapi.Event, filters *topoapi.Filters) error {
	return nil
}

// ---------------------------------------------------------------- device + connections

// Request is one southbound Set as the device saw it.
type Request struct {
	Target   string
	Conn     string
	Term     uint64
	Accepted bool
	Deletes  []string
	Updates  map[string]string // path -> value text
}

// Devices holds the simulated devices, the connections and the programmed responses.
type Devices struct {
	mu    sync.Mutex
	State map[string]map[string]string // target -> path -> value
	Conns map[string]string            // conn id -> target
	Log   []Request
	// Respond is consulted for every Set; nil error = accept
	Respond func(target string, n int) error
	// SkipLog is set by Respond when the request never reached the device (unreachable / superseded)
	SkipLog bool
	// After is called when a request that was counted as an effect has been dealt with by the device
	After func()
	nSets int
}

// NewDevices returns an empty device set.
func NewDevices() *Devices {
	return &Devices{State: map[string]map[string]string{}, Conns: map[string]string{}}
}

// Get implements sb.ConnManager.
func (d *Devices) Get(ctx context.Context, connID sb.ConnID) (sb.Conn, bool) {
	d.mu.Lock()
	defer d.mu.Unlock()
	t, ok := d.Conns[string(connID)]
	if !ok {
		return nil, false
	}
	return &conn{d: d, id: string(connID), target: t}, true
}

// GetByTarget implements sb.ConnManager.
func (d *Devices) GetByTarget(ctx context.Context, targetID topoapi.ID) (sb.Client, error) {
	d.mu.Lock()
	defer d.mu.Unlock()
	for id, t := range d.Conns {
		if t == string(targetID) {
			return &conn{d: d, id: id, target: t}, nil
		}
	}
	return nil, errors.NewNotFound("no connection")
}

// Connect implements sb.ConnManager.
func (d *Devices) Connect(ctx context.Context, target *topoapi.Object) error { return nil }

// Disconnect implements sb.ConnManager.
func (d *Devices) Disconnect(ctx context.Context, targetID topoapi.ID) error { return nil }

// Watch implements sb.ConnManager.
func (d *Devices) Watch(ctx context.Context, ch chan<- sb.Conn) error { return nil }

type conn struct {
	d      *Devices
	id     string
	target string
}

func (c *conn) ID() sb.ConnID        { return sb.ConnID(c.id) }
func (c *conn) TargetID() topoapi.ID { return topoapi.ID(c.target) }
func (c *conn) Close() error         { return nil }
func (c *conn) Capabilities(ctx context.Context, r *gpb.CapabilityRequest) (*gpb.CapabilityResponse, error) {
	return &gpb.CapabilityResponse{}, nil
}
func (c *conn) CapabilitiesWithString(ctx context.Context, request string) (*gpb.CapabilityResponse, error) {
	return &gpb.CapabilityResponse{}, nil
}
func (c *conn) Get(ctx context.Context, r *gpb.GetRequest) (*gpb.GetResponse, error) {
	return &gpb.GetResponse{}, nil
}
func (c *conn) GetWithString(ctx context.Context, request string) (*gpb.GetResponse, error) {
	return &gpb.GetResponse{}, nil
}
func (c *conn) SetWithString(ctx context.Context, request string) (*gpb.SetResponse, error) {
	return &gpb.SetResponse{}, nil
}
func (c *conn) Subscribe(ctx context.Context, q baseClient.Query) error { return nil }
func (c *conn) Poll() error                                             { return nil }

// Set applies the request to the simulated device with gNMI semantics (deletes first, textual
// subtree as sent, then updates) unless a response error is programmed; like
// pkg/southbound/gnmi/client.go it converts the gRPC status error with errors.FromGRPC.
func (c *conn) Set(ctx context.Context, r *gpb.SetRequest) (*gpb.SetResponse, error) {
	d := c.d
	d.mu.Lock()
	defer d.mu.Unlock()
	n := d.nSets
	d.nSets++
	req := Request{Target: c.target, Conn: c.id, Updates: map[string]string{}}
	for _, e := range r.Extension {
		if ma := e.GetMasterArbitration(); ma != nil {
			req.Term = ma.GetElectionId().GetLow()
		}
	}
	for _, p := range r.Delete {
		req.Deletes = append(req.Deletes, utils.StrPathElem(p.Elem))
	}
	for _, u := range append(append([]*gpb.Update{}, r.Replace...), r.Update...) {
		req.Updates[utils.StrPathElem(u.Path.Elem)] = utils.StrVal(u.Val)
	}
	var err error
	d.SkipLog = false
	if d.Respond != nil {
		// Respond may pre-empt this invocation with another one that talks to the device as well
		respond := d.Respond
		d.mu.Unlock()
		err = respond(c.target, n)
		d.mu.Lock()
		// the connection may have gone while this invocation was pre-empted: the request is lost
		if _, live := d.Conns[c.id]; err == nil && !live {
			d.SkipLog = true
			err = GrpcErr(codes.Unavailable)
		}
	}
	req.Accepted = err == nil
	if !d.SkipLog {
		d.Log = append(d.Log, req)
	}
	if err != nil {
		// a refusal is an effect as well (the request reached the device): pre-emption point after it
		if after := d.After; after != nil && !d.SkipLog {
			d.mu.Unlock()
			after()
			d.mu.Lock()
		}
		return nil, errors.FromGRPC(err)
	}
	st := d.State[c.target]
	if st == nil {
		st = map[string]string{}
		d.State[c.target] = st
	}
	for _, del := range req.Deletes {
		for p := range st {
			// gNMI delete: the addressed node and everything below it at path-element boundaries
			if strings.HasPrefix(p, del) && (len(p) == len(del) || p[len(del)] == '/' || p[len(del)] == '[') {
				delete(st, p)
			}
		}
	}
	for p, v := range req.Updates {
		st[p] = v
	}
	if after := d.After; after != nil {
		d.mu.Unlock()
		after()
		d.mu.Lock()
	}
	return &gpb.SetResponse{}, nil
}

// GrpcErr builds the status error a device returns.
func GrpcErr(code codes.Code) error { return status.Error(code, "device says "+code.String()) }

// ---------------------------------------------------------------- plugins

// Plugins is a fake plugin registry with one plugin for (TargetType, TargetVersion).
type Plugins struct {
	mu      sync.Mutex
	Present bool
	// Verdict is consulted on every Validate call; nil = valid
	Verdict func(doc []byte) error
	Docs    [][]byte
	RW      pathutils.ReadWritePathMap
}

// NewPlugins returns a registry whose plugin accepts everything.
func NewPlugins() *Plugins { return &Plugins{Present: true, RW: pathutils.ReadWritePathMap{}} }

// Start implements PluginRegistry.
func (p *Plugins) Start() {}

// Stop implements PluginRegistry.
func (p *Plugins) Stop() {}

// GetPlugin implements PluginRegistry.
func (p *Plugins) GetPlugin(model configapi.TargetType, version configapi.TargetVersion) (pluginregistry.ModelPlugin, bool) {
	p.mu.Lock()
	defer p.mu.Unlock()
	if !p.Present || model != TargetType || version != TargetVersion {
		return nil, false
	}
	return &plugin{p: p}, true
}

// GetPlugins implements PluginRegistry.
func (p *Plugins) GetPlugins() []pluginregistry.ModelPlugin {
	return []pluginregistry.ModelPlugin{&plugin{p: p}}
}

// NewClientFn implements PluginRegistry.
func (p *Plugins) NewClientFn(func(endpoint string) (admin.ModelPluginServiceClient, error)) {}

type plugin struct{ p *Plugins }

func (m *plugin) GetInfo() *pluginregistry.ModelPluginInfo {
	return &pluginregistry.ModelPluginInfo{ID: "devicesim-1.0.0", Info: admin.ModelInfo{Name: TargetType, Version: TargetVersion},
		ReadWritePaths: m.p.RW}
}
func (m *plugin) Capabilities(ctx context.Context) *gpb.CapabilityResponse {
	return &gpb.CapabilityResponse{}
}
func (m *plugin) Validate(ctx context.Context, jsonData []byte) error {
	m.p.mu.Lock()
	defer m.p.mu.Unlock()
	m.p.Docs = append(m.p.Docs, append([]byte{}, jsonData...))
	if m.p.Verdict != nil {
		return m.p.Verdict(jsonData)
	}
	return nil
}
func (m *plugin) GetPathValues(ctx context.Context, pathPrefix string, jsonData []byte) ([]*configapi.PathValue, error) {
	return nil, fmt.Errorf("not supported by the fake plugin")
}
func (m *plugin) LeafValueSelection(ctx context.Context, selectionPath string, jsonData []byte) ([]string, error) {
	return nil, nil
}
