// Package nbgen generates environments and northbound requests for the C12 / C13 checks:
// structured, mostly valid requests built from a model-path table (lists, keys, key leaves), with
// invalid operations mixed in at every position, prefixes on/off, extensions, size limits, plus
// mutation of requests for the crash search.  Every choice comes from the *rng.R it is given.
package nbgen

import (
	"encoding/hex"
	"fmt"
	"math"
	"sort"
	"strconv"
	"strings"

	gogoproto "github.com/gogo/protobuf/proto"
	adminapi "github.com/onosproject/onos-api/go/onos/config/admin"
	configapi "github.com/onosproject/onos-api/go/onos/config/v2"
	valueutils "github.com/onosproject/onos-config/pkg/utils/v2/values"
	"github.com/onosproject/onos-config/verifharness/internal/nbenv"
	"github.com/onosproject/onos-config/verifharness/internal/nbwire"
	"github.com/onosproject/onos-config/verifharness/internal/rng"
	pb "github.com/openconfig/gnmi/proto/gnmi"
)

// ModelElem is one element of a model path: name and key names.
type ModelElem struct {
	Name string
	Keys []string
}

// ModelPath is one read-write path of the model table.
type ModelPath struct {
	Elems  []ModelElem
	IsAKey bool
	Attr   string
}

// Text is the table key: /name[k=*]…
func (m ModelPath) Text() string {
	var b strings.Builder
	for _, e := range m.Elems {
		b.WriteString("/" + e.Name)
		ks := append([]string{}, e.Keys...)
		sort.Strings(ks)
		for _, k := range ks {
			b.WriteString("[" + k + "=*]")
		}
	}
	return b.String()
}

func mp(isKey bool, elems ...ModelElem) ModelPath {
	return ModelPath{Elems: elems, IsAKey: isKey, Attr: elems[len(elems)-1].Name}
}

func el(name string, keys ...string) ModelElem { return ModelElem{Name: name, Keys: keys} }

// Pool is the universe of model paths (adversarially close names, lists with one and two keys,
// nested lists, a nested list whose key has the name of its ancestor's key, a module prefix).
var Pool = []ModelPath{
	mp(false, el("foo")),
	mp(false, el("bar")),
	mp(false, el("c"), el("x")),
	mp(false, el("c"), el("xy")),
	mp(false, el("c"), el("d"), el("e")),
	mp(false, el("m:c"), el("m:d")),
	mp(true, el("l", "k"), el("k")),
	mp(false, el("l", "k"), el("v")),
	mp(false, el("l", "k"), el("w")),
	mp(true, el("l", "k"), el("m", "j"), el("j")),
	mp(false, el("l", "k"), el("m", "j"), el("u")),
	mp(true, el("l", "k"), el("n", "k"), el("k")),
	mp(false, el("l", "k"), el("n", "k"), el("z")),
	mp(true, el("l2", "k1", "k2"), el("k1")),
	mp(true, el("l2", "k1", "k2"), el("k2")),
	mp(false, el("l2", "k1", "k2"), el("x")),
}

// Env generation ---------------------------------------------------------------------------------

// Targets used by the generators.
var (
	GoodTargets = []string{"t1", "t2", "t3"}
	AllTargets  = []string{"t1", "t2", "t3", "tna", "tnp", "tx", ""}
)

// GenSpec generates an environment: t1..t3 with plugins (a random sub-table each), tna without
// aspect, tnp with an aspect naming an unregistered model, tx absent.
func GenSpec(r *rng.R) (nbenv.Spec, map[string][]ModelPath) {
	s := nbenv.Spec{}
	switch r.Intn(10) {
	case 0, 1, 2, 3:
		s.Limit = 0
	case 4:
		s.Limit = -r.Range(1, 3)
	default:
		s.Limit = r.Range(1, 6)
	}
	tables := map[string][]ModelPath{}
	nPlugins := r.Range(1, 2)
	for i := 0; i < nPlugins; i++ {
		name := fmt.Sprintf("model%d", i+1)
		var tab []ModelPath
		for _, m := range Pool {
			if r.Chance(9, 10) {
				tab = append(tab, m)
			}
		}
		// Go map iteration order is not fixed: any order of the table is a legitimate one
		for j := len(tab) - 1; j > 0; j-- {
			k := r.Intn(j + 1)
			tab[j], tab[k] = tab[k], tab[j]
		}
		ps := nbenv.PluginSpec{RegType: name, RegVersion: "1.0", Name: name, Version: "1.0"}
		for _, m := range tab {
			ps.RW = append(ps.RW, nbenv.RWSpec{Path: m.Text(), IsAKey: m.IsAKey, AttrName: m.Attr})
		}
		s.Plugins = append(s.Plugins, ps)
		tables[name+"/1.0"] = tab
	}
	for i, t := range GoodTargets {
		m := fmt.Sprintf("model%d", 1+i%nPlugins)
		s.Targets = append(s.Targets, nbenv.TargetSpec{ID: t, HasAspect: true, Type: m, Version: "1.0", Persistent: r.Chance(1, 4)})
	}
	s.Targets = append(s.Targets, nbenv.TargetSpec{ID: "tna"})
	s.Targets = append(s.Targets, nbenv.TargetSpec{ID: "tnp", HasAspect: true, Type: "nomodel", Version: "9"})
	return s, tables
}

// Request generation -----------------------------------------------------------------------------

var goodKeyVals = []string{"1", "10", "a", "a-b", "x.y", "A_1", "2"}
var badKeyVals = []string{"a b", "x/y", "]", "é", "*", "a=b", "[", "\\", "\n", "(", "...", ""}

// Instance is a model path with key values filled in.
type Instance struct {
	Model ModelPath
	Elems []*pb.PathElem
}

// Instantiate fills the keys of a model path.
func Instantiate(r *rng.R, m ModelPath, adversarial bool) Instance {
	in := Instance{Model: m}
	for _, e := range m.Elems {
		pe := &pb.PathElem{Name: e.Name}
		if len(e.Keys) > 0 {
			pe.Key = map[string]string{}
			for _, k := range e.Keys {
				if adversarial && r.Chance(1, 3) {
					pe.Key[k] = r.Pick(badKeyVals)
				} else {
					pe.Key[k] = r.Pick(goodKeyVals)
				}
			}
		}
		in.Elems = append(in.Elems, pe)
	}
	return in
}

func cloneElems(es []*pb.PathElem) []*pb.PathElem {
	out := make([]*pb.PathElem, len(es))
	for i, e := range es {
		ne := &pb.PathElem{Name: e.Name}
		if e.Key != nil {
			ne.Key = map[string]string{}
			for k, v := range e.Key {
				ne.Key[k] = v
			}
		}
		out[i] = ne
	}
	return out
}

// KeyLeafValue is the value of the key the leaf stands for in its own list entry.
func KeyLeafValue(in Instance) string {
	n := len(in.Elems)
	if n < 2 {
		return ""
	}
	return in.Elems[n-2].Key[in.Model.Attr]
}

// OpaqueVal builds an O value from a real TypedValue: the conversion result and ValueToString are
// computed with the real value code (the twin takes them as given).
func OpaqueVal(load string) nbwire.Val {
	v, _ := opaqueVal(load)
	return v
}

// opaqueVal also says whether the real value code panicked on the value (conversion or
// ValueToString): such a value is a crash of the value layer (listed under C17 while it lasts) and
// is not sent through the handlers.
func opaqueVal(load string) (v nbwire.Val, panicked bool) {
	tv := nbwire.OpaqueValue(load)
	v = nbwire.Val{Kind: "O", OpLoad: load}
	func() {
		defer func() {
			if rec := recover(); rec != nil {
				v.OpOK = false
				panicked = true
			}
		}()
		nv, err := valueutils.GnmiTypedValueToNativeType(tv, &adminapi.ReadWritePath{})
		if err == nil && nv != nil {
			v.OpOK = true
			v.OpRepr = nv.ValueToString()
		}
	}()
	return v, panicked
}

func genOpaque(r *rng.R) nbwire.Val {
	if r.Chance(1, 6) {
		// values the conversion has to refuse: NaN, a decimal64 precision beyond 18 (regressions of
		// two repaired crashes; left out while the tree under test still panics on them)
		load := r.Pick([]string{"f7fc00000", "fffc00000", "d5.70", "d-7.19", "d1.64", "d3.258"})
		// (a value the value layer panics on is sent all the same: request data that crashes the
		// conversion crashes the handler, which is what C12's monitor is there to report)
		return OpaqueVal(load)
	}
	if r.Chance(1, 5) {
		// leaf-lists with a member of a kind the conversion does not know (none, nil, double_val, nested
		// list, any, proto_bytes, json_ietf), alone or after supported members; other top-level oneof kinds
		mem := []string{"n", "D", "l", "a", "p", "j"}
		switch r.Intn(4) {
		case 0:
			return OpaqueVal("lm" + r.Pick(mem))
		case 1:
			return OpaqueVal("lms" + r.Pick(mem))
		case 2:
			return OpaqueVal("lm" + r.Pick(mem) + r.Pick(mem))
		default:
			return OpaqueVal(r.Pick([]string{"D", "P", "Y", "L"}))
		}
	}
	switch r.Intn(7) {
	case 0:
		return OpaqueVal("b" + hex.EncodeToString([]byte(r.Pick([]string{"", "a", "xyz"}))))
	case 1:
		return OpaqueVal(fmt.Sprintf("d%d.%d", r.Range(-500, 500), r.Range(0, 3)))
	case 2:
		return OpaqueVal("f" + strconv.FormatUint(uint64(math.Float32bits(float32(r.Range(-3, 3))*0.5)), 16))
	case 3:
		return OpaqueVal("le")
	case 4:
		return OpaqueVal("ls" + hex.EncodeToString([]byte("a")) + "," + hex.EncodeToString([]byte("b")))
	case 5:
		return OpaqueVal("li1,2,3")
	default:
		return OpaqueVal("lx")
	}
}

// GenVal generates a value; want is the string a key leaf has to carry ("" = free).
func GenVal(r *rng.R, want string, valid bool) nbwire.Val {
	if valid && want != "" {
		if n, err := strconv.ParseInt(want, 10, 64); err == nil && r.Chance(1, 3) && strconv.FormatInt(n, 10) == want {
			if n >= 0 && r.Bool() {
				return nbwire.Val{Kind: "U", Uint: uint64(n)}
			}
			return nbwire.Val{Kind: "I", Int: n}
		}
		if r.Chance(1, 5) {
			return nbwire.Val{Kind: "A", Str: want}
		}
		return nbwire.Val{Kind: "S", Str: want}
	}
	switch r.Intn(12) {
	case 0:
		return nbwire.Val{Kind: "I", Int: int64(r.Range(-3, 12))}
	case 1:
		return nbwire.Val{Kind: "U", Uint: uint64(r.Range(0, 12))}
	case 2:
		return nbwire.Val{Kind: "B", Bool: r.Bool()}
	case 3:
		return nbwire.Val{Kind: "A", Str: r.Pick(goodKeyVals)}
	case 4:
		if !valid {
			return nbwire.Val{Kind: r.Pick([]string{"_", "N", "X"})}
		}
	case 5:
		if !valid {
			return genOpaque(r)
		}
	case 6:
		if r.Chance(1, 2) {
			return genOpaque(r)
		}
	}
	return nbwire.Val{Kind: "S", Str: r.Pick([]string{"v", "1", "10", "a", "hello world", ""})}
}

// OpKind says what a generated operation was meant to be (for tags; the monitor does not use it).
type OpKind string

// GenOp is one generated operation.
type GenOp struct {
	Delete bool
	Path   *nbwire.PathMsg // full path, before a prefix is split off (nil = update without path)
	Val    nbwire.Val
	Kind   OpKind
}

// GenOperation generates one operation against table; valid asks for an acceptable one.
func GenOperation(r *rng.R, table []ModelPath, target string, valid bool) GenOp {
	if len(table) == 0 {
		table = Pool
	}
	m := table[r.Intn(len(table))]
	in := Instantiate(r, m, false)
	op := GenOp{Delete: r.Chance(1, 3), Kind: "valid"}
	p := &nbwire.PathMsg{Target: target, Elem: in.Elems}
	op.Path = p
	if op.Delete {
		if valid {
			switch r.Intn(4) {
			case 0: // a container / list entry above the leaf
				if len(p.Elem) > 1 {
					p.Elem = p.Elem[:r.Range(1, len(p.Elem)-1)]
					op.Kind = "valid-subtree"
				}
			case 1: // a list without its keys
				last := p.Elem[len(p.Elem)-1]
				if len(p.Elem) > 1 {
					p.Elem = p.Elem[:len(p.Elem)-1]
					last = p.Elem[len(p.Elem)-1]
				}
				if len(last.Key) > 0 && r.Bool() {
					last.Key = nil
					op.Kind = "valid-list"
				}
			}
			return op
		}
	} else {
		want := ""
		if m.IsAKey {
			want = KeyLeafValue(in)
		}
		op.Val = GenVal(r, want, true)
		if valid {
			if r.Chance(1, 12) { // JSON-valued update of the parent
				leaf := p.Elem[len(p.Elem)-1]
				p.Elem = p.Elem[:len(p.Elem)-1]
				op.Val = nbwire.Val{Kind: "J", JSON: [][2]string{{"/" + leaf.Name, "jv"}}}
				op.Kind = "valid-json"
			}
			return op
		}
	}
	// invalid variants
	switch r.Intn(15) {
	case 0:
		p.Elem[len(p.Elem)-1].Name = r.Pick([]string{"zz", "nope", "fo", "x", "k2", "v2"})
		op.Kind = "unknown-leaf"
	case 1:
		if len(p.Elem) > 1 {
			p.Elem = p.Elem[:len(p.Elem)-1]
		} else {
			p.Elem[0].Name = p.Elem[0].Name + "x"
		}
		op.Kind = "container-or-unknown"
	case 2: // textual, non-structural prefix
		last := p.Elem[len(p.Elem)-1]
		if len(last.Name) > 1 {
			last.Name = last.Name[:len(last.Name)-1]
		} else {
			last.Name = "q"
		}
		op.Kind = "textual-prefix"
	case 3: // key leaf contradicting its key
		op.Val = nbwire.Val{Kind: "S", Str: r.Pick([]string{"other", "11", ""})}
		op.Kind = "key-mismatch-or-plain"
	case 4: // characters outside the index alphabet
		in2 := Instantiate(r, m, true)
		p.Elem = in2.Elems
		if m.IsAKey {
			op.Val = nbwire.Val{Kind: "S", Str: KeyLeafValue(in2)}
		}
		op.Kind = "adversarial-keys"
	case 5: // a key left out / a key too many / a wrong key name
		for _, e := range p.Elem {
			if len(e.Key) > 0 {
				switch r.Intn(3) {
				case 0:
					e.Key = nil
				case 1:
					e.Key["extra"] = "1"
				default:
					for k, v := range e.Key {
						delete(e.Key, k)
						e.Key["z"+k] = v
						break
					}
				}
				break
			}
		}
		op.Kind = "wrong-keys"
	case 6: // brackets / slashes inside an element name
		i := r.Intn(len(p.Elem))
		p.Elem[i].Name = p.Elem[i].Name + r.Pick([]string{"[k=1]", "[abc]", "[", "]", "/x", "[k=1", "[=]", "[a=b=c]", "\\", " "})
		op.Kind = "bracket-name"
	case 7: // v0.3 elements
		var es []string
		for _, e := range p.Elem {
			s := e.Name
			ks := make([]string, 0, len(e.Key))
			for k := range e.Key {
				ks = append(ks, k)
			}
			sort.Strings(ks)
			for _, k := range ks {
				s += "[" + k + "=" + e.Key[k] + "]"
			}
			es = append(es, s)
		}
		p.Elem, p.Element = nil, es
		op.Kind = "v03-elements"
	case 8:
		if !op.Delete {
			op.Path = nil
			op.Kind = "no-path"
		} else {
			p.Elem = nil
			op.Kind = "root-delete"
		}
	case 9:
		if !op.Delete {
			op.Val = GenVal(r, "", false)
			op.Kind = "odd-value"
		}
	case 10:
		if !op.Delete {
			op.Val = nbwire.Val{Kind: "J", JSONBad: r.Chance(1, 3), JSON: [][2]string{{"/" + r.Pick([]string{"foo", "zz", "l[k=1]/v"}), "jv"}}}
			op.Kind = "json"
		}
	case 11: // ancestor's key value in a same-named nested key leaf
		for _, cand := range table {
			if cand.IsAKey && len(cand.Elems) == 3 && len(cand.Elems[0].Keys) == 1 && len(cand.Elems[1].Keys) == 1 && cand.Elems[0].Keys[0] == cand.Elems[1].Keys[0] {
				in3 := Instantiate(r, cand, false)
				in3.Elems[0].Key[cand.Attr] = "1"
				in3.Elems[1].Key[cand.Attr] = "2"
				op.Path = &nbwire.PathMsg{Target: target, Elem: in3.Elems}
				op.Val = nbwire.Val{Kind: "S", Str: "1"}
				op.Delete = false
				op.Kind = "ancestor-key"
			}
		}
	case 12:
		op.Path.Target = r.Pick([]string{"tna", "tnp", "tx", ""})
		op.Kind = "bad-target"
	case 13:
		p.Elem = append(p.Elem, &pb.PathElem{Name: "below"})
		op.Kind = "below-leaf"
	default:
		p.Elem = append([]*pb.PathElem{{Name: r.Pick([]string{"", "*", "..."})}}, p.Elem...)
		op.Kind = "odd-root"
	}
	return op
}

// SplitPrefix moves the first k elements of every path into a prefix (only when all paths share
// them); it returns nil when no common prefix of that length exists.
func commonPrefixLen(ops []GenOp) int {
	n := -1
	var first []*pb.PathElem
	for i, o := range ops {
		if o.Path == nil || len(o.Path.Element) > 0 {
			return 0
		}
		if i == 0 {
			first = o.Path.Elem
			n = len(first)
			continue
		}
		k := 0
		for k < n && k < len(o.Path.Elem) && nbwireElemEq(first[k], o.Path.Elem[k]) {
			k++
		}
		n = k
	}
	if n < 0 {
		return 0
	}
	return n
}

func nbwireElemEq(a, b *pb.PathElem) bool {
	if a.Name != b.Name || len(a.Key) != len(b.Key) {
		return false
	}
	for k, v := range a.Key {
		if w, ok := b.Key[k]; !ok || w != v {
			return false
		}
	}
	return true
}

// StrategyExt is a valid TransactionStrategy extension.
func StrategyExt(sync, iso int) nbwire.Ext {
	b, _ := gogoproto.Marshal(&configapi.TransactionStrategy{Synchronicity: configapi.TransactionStrategy_Synchronicity(sync), Isolation: configapi.TransactionStrategy_Isolation(iso)})
	return nbwire.Ext{ID: 111, Bytes: b}
}

// OverridesExt is a TargetVersionOverrides extension; a nil entry encodes a map entry without value.
func OverridesExt(m map[string]*configapi.TargetTypeVersion) nbwire.Ext {
	b, _ := gogoproto.Marshal(&configapi.TargetVersionOverrides{Overrides: m})
	return nbwire.Ext{ID: 112, Bytes: b}
}

// GenExts generates the extension list (mostly empty).
func GenExts(r *rng.R, spec nbenv.Spec, targets []string, allowNil bool) ([]nbwire.Ext, []string) {
	var out []nbwire.Ext
	var tags []string
	if r.Chance(13, 20) {
		return nil, nil
	}
	n := r.Range(1, 2)
	for i := 0; i < n; i++ {
		switch []int{0, 0, 0, 2, 2, 2, 2, 2, 4, 5, 6, 6, 7, 7, 8}[r.Intn(15)] {
		case 0, 1:
			out = append(out, StrategyExt(r.Intn(2), r.Intn(2)))
			tags = append(tags, "ext-strategy")
		case 2, 3:
			m := map[string]*configapi.TargetTypeVersion{}
			t := "t1"
			if len(targets) > 0 {
				t = r.Pick(targets)
			}
			switch k := r.Intn(6); {
			case k < 3 && len(spec.Plugins) > 0:
				p := spec.Plugins[r.Intn(len(spec.Plugins))]
				m[t] = &configapi.TargetTypeVersion{TargetType: configapi.TargetType(p.Name), TargetVersion: configapi.TargetVersion(p.Version)}
				tags = append(tags, "ext-override-valid")
			case k == 3:
				m[t] = &configapi.TargetTypeVersion{TargetType: "nomodel", TargetVersion: "0"}
				tags = append(tags, "ext-override-unknown-model")
			case k == 4 && allowNil:
				m[t] = nil
				tags = append(tags, "ext-override-nil")
			default:
				m["other"] = &configapi.TargetTypeVersion{TargetType: "model1", TargetVersion: "1.0"}
				tags = append(tags, "ext-override-other-target")
			}
			out = append(out, OverridesExt(m))
		case 4:
			out = append(out, nbwire.Ext{ID: uint32(pick2(r, 111, 112)), Bytes: []byte{0xff}})
			tags = append(tags, "ext-malformed")
		case 5:
			out = append(out, nbwire.Ext{ID: uint32(pick2(r, 111, 112)), Bytes: []byte{0x0a, 0x05, 0x01}})
			tags = append(tags, "ext-malformed")
		case 6:
			out = append(out, nbwire.Ext{ID: uint32(pick2(r, 110, 5)), Bytes: []byte{0xff, 0x01}})
			tags = append(tags, "ext-other-id")
		case 7:
			out = append(out, nbwire.Ext{Other: true})
			tags = append(tags, "ext-unregistered")
		default:
			// bytes of one kind under the id of the other
			e := StrategyExt(1, 1)
			e.ID = 112
			if r.Bool() {
				e = OverridesExt(map[string]*configapi.TargetTypeVersion{"t1": {TargetType: "model1", TargetVersion: "1.0"}})
				e.ID = 111
			}
			out = append(out, e)
			tags = append(tags, "ext-cross")
		}
	}
	return out, tags
}

// GenSet generates one Set request.  mode: "valid" (every operation acceptable), "mixed"
// (one or more invalid operations among valid ones), "wild" (anything).
func GenSet(r *rng.R, spec nbenv.Spec, tables map[string][]ModelPath, mode string, allowNilOverride bool) (*nbwire.Req, []string) {
	req := &nbwire.Req{}
	var tags []string
	tableOf := func(t string) []ModelPath {
		for _, ts := range spec.Targets {
			if ts.ID == t {
				return tables[ts.Type+"/"+ts.Version]
			}
		}
		return nil
	}
	nOps := r.Range(1, 5)
	if r.Chance(1, 25) {
		nOps = 0
		tags = append(tags, "no-ops")
	}
	multi := r.Chance(1, 5)
	base := r.Pick(GoodTargets)
	badAt := -1
	if mode == "mixed" && nOps > 0 {
		badAt = r.Intn(nOps)
	}
	var ops []GenOp
	var used []string
	for i := 0; i < nOps; i++ {
		t := base
		if multi {
			t = r.Pick(GoodTargets)
		}
		valid := mode == "valid" || (mode == "mixed" && i != badAt && r.Chance(9, 10)) || (mode == "wild" && r.Chance(1, 2))
		op := GenOperation(r, tableOf(t), t, valid)
		if !valid {
			tags = append(tags, "op-"+string(op.Kind))
		}
		ops = append(ops, op)
		used = append(used, t)
	}
	// a repeated path now and then (map overwrite, limit counting)
	if len(ops) > 0 && r.Chance(1, 8) {
		d := ops[r.Intn(len(ops))]
		if d.Path != nil {
			d2 := d
			d2.Path = &nbwire.PathMsg{Target: d.Path.Target, Elem: cloneElems(d.Path.Elem), Element: d.Path.Element}
			ops = append(ops, d2)
			tags = append(tags, "repeated-path")
		}
	}
	// prefix
	switch r.Intn(8) {
	case 0, 1: // prefix target only: per-path targets become irrelevant (sometimes contradictory)
		req.Prefix = &nbwire.PathMsg{Target: base}
		for i := range ops {
			if ops[i].Path != nil {
				ops[i].Path.Target = r.Pick([]string{"", base, "t2", "tx"})
			}
		}
		tags = append(tags, "prefix-target")
	case 2, 3: // prefix target and elements
		if k := commonPrefixLen(ops); k > 0 {
			cut := r.Range(1, k)
			req.Prefix = &nbwire.PathMsg{Target: base, Elem: cloneElems(ops[0].Path.Elem[:cut])}
			for i := range ops {
				ops[i].Path.Elem = ops[i].Path.Elem[cut:]
				ops[i].Path.Target = r.Pick([]string{"", base, "t3"})
			}
			tags = append(tags, "prefix-target-elems")
		}
	case 4: // prefix elements, no target
		if k := commonPrefixLen(ops); k > 0 {
			cut := r.Range(1, k)
			req.Prefix = &nbwire.PathMsg{Elem: cloneElems(ops[0].Path.Elem[:cut])}
			for i := range ops {
				ops[i].Path.Elem = ops[i].Path.Elem[cut:]
			}
			tags = append(tags, "prefix-elems")
		}
	case 5:
		if mode != "valid" {
			req.Prefix = &nbwire.PathMsg{Target: r.Pick(AllTargets), Element: []string{r.Pick([]string{"c", "l[k=1]", ""})}}
			tags = append(tags, "prefix-odd")
		}
	}
	for _, o := range ops {
		if o.Delete {
			if o.Path == nil {
				continue
			}
			req.Delete = append(req.Delete, o.Path)
		} else if r.Chance(1, 4) {
			req.Replace = append(req.Replace, nbwire.Update{Path: o.Path, Val: o.Val})
		} else {
			req.Update = append(req.Update, nbwire.Update{Path: o.Path, Val: o.Val})
		}
	}
	// the targets the operations really go to (prefix target wins), known to the topology or not
	used = EffectiveTargets(req)
	exts, et := GenExts(r, spec, used, allowNilOverride && mode != "valid")
	tags = append(tags, et...)
	// an override naming a loaded model for an effective target the topology does not know (or knows
	// without the Configurable aspect): the override must not make the target exist
	for _, t := range used {
		known := false
		for _, ts := range spec.Targets {
			if ts.ID == t && ts.HasAspect {
				known = true
			}
		}
		if !known && len(spec.Plugins) > 0 && r.Chance(1, 2) {
			p := spec.Plugins[r.Intn(len(spec.Plugins))]
			ov := OverridesExt(map[string]*configapi.TargetTypeVersion{t: {TargetType: configapi.TargetType(p.Name), TargetVersion: configapi.TargetVersion(p.Version)}})
			exts = append([]nbwire.Ext{ov}, exts...)
			tags = append(tags, "ext-override-unknown-target")
			break
		}
	}
	req.Exts = exts
	return req, tags
}

// EffectiveTargets lists the distinct targets the operations of a Set are applied to.
func EffectiveTargets(req *nbwire.Req) []string {
	var out []string
	seen := map[string]bool{}
	add := func(p *nbwire.PathMsg) {
		t := ""
		if p != nil {
			t = p.Target
		}
		if req.Prefix != nil && req.Prefix.Target != "" {
			t = req.Prefix.Target
		}
		if !seen[t] {
			seen[t] = true
			out = append(out, t)
		}
	}
	for _, p := range req.Delete {
		add(p)
	}
	for _, u := range req.Replace {
		add(u.Path)
	}
	for _, u := range req.Update {
		add(u.Path)
	}
	return out
}

// Pick2 helper lives on rng.R through this wrapper type.
// (kept here to avoid changing the shared rng package)
func pick2(r *rng.R, a, b int) int {
	if r.Bool() {
		return a
	}
	return b
}

// ---------------------------------------------------------------------------------------------
// C12: every kind of request, and mutation

// GenSpec12 is GenSpec plus two entities c1, c2 whose configurations the scripts create directly.
func GenSpec12(r *rng.R) (nbenv.Spec, map[string][]ModelPath) {
	s, tables := GenSpec(r)
	s.Targets = append(s.Targets,
		nbenv.TargetSpec{ID: "c1", HasAspect: true, Type: "model1", Version: "1.0", Persistent: r.Bool()},
		nbenv.TargetSpec{ID: "c2", HasAspect: true, Type: "model1", Version: "1.0"})
	return s, tables
}

var wildKeyVals = []string{"*", "(", ")", "[", "]", "+", "?", "\\", "|", "{", "}", "^", "$", ".", "...", "a", "1", "x/y", " ", "é", "\n", ""}

// GenGetPath generates a Get path: a model instance with wildcards / odd characters.
func GenGetPath(r *rng.R, table []ModelPath, target string) *nbwire.PathMsg {
	if len(table) == 0 {
		table = Pool
	}
	in := Instantiate(r, table[r.Intn(len(table))], false)
	p := &nbwire.PathMsg{Target: target, Elem: in.Elems}
	switch r.Intn(10) {
	case 0:
		p.Elem = p.Elem[:r.Intn(len(p.Elem)+1)]
	case 1:
		p.Elem[r.Intn(len(p.Elem))].Name = r.Pick([]string{"*", "...", "a(b", "[", "x*", "", "a\\", "$"})
	case 2, 3:
		for _, e := range p.Elem {
			for k := range e.Key {
				e.Key[k] = r.Pick(wildKeyVals)
			}
		}
	case 4:
		p.Elem = append(p.Elem, &pb.PathElem{Name: "..."})
	case 5:
		p.Elem, p.Element = nil, []string{"foo", r.Pick([]string{"*", "(", "a[b"})}
	case 6:
		p.Elem = nil
	}
	return p
}

// GenGet generates a Get request.
func GenGet(r *rng.R, spec nbenv.Spec, tables map[string][]ModelPath, allowNilOverride bool) (*nbwire.Req, []string) {
	req := &nbwire.Req{HasEnc: true, HasType: true}
	var tags []string
	switch k := r.Intn(12); {
	case k < 5:
		req.Enc = 2
	case k < 8:
		req.Enc = 0
	case k < 10:
		req.Enc = 4
	default:
		req.Enc = []int{1, 3, 7}[r.Intn(3)]
		tags = append(tags, "get-bad-encoding")
	}
	if r.Chance(1, 6) {
		req.Type = r.Range(1, 3)
		tags = append(tags, fmt.Sprintf("get-type-%d", req.Type))
	}
	targets := []string{"t1", "t2", "t3", "c1", "c2", "tna", "tnp", "tx", "", "*"}
	n := r.Range(0, 3)
	for i := 0; i < n; i++ {
		t := targets[r.Intn(len(targets))]
		if r.Chance(2, 3) {
			t = r.Pick([]string{"t1", "c1", "c2"})
		}
		req.Paths = append(req.Paths, GenGetPath(r, Pool, t))
	}
	switch r.Intn(6) {
	case 0:
		req.Prefix = &nbwire.PathMsg{Target: r.Pick([]string{"t1", "c1", "", "*", "tx"})}
		tags = append(tags, "get-prefix-target")
	case 1:
		req.Prefix = GenGetPath(r, Pool, r.Pick([]string{"t1", "c1", "", "c2"}))
		tags = append(tags, "get-prefix-path")
	case 2:
		// the prefix alone spells the whole path of a leaf the directly created configuration c1 stores
		// (/v0 /v1 /v2), or nearly (a shorter / longer name of the same length class, a one-character
		// wildcard); the request has no path, a path without elements, or one more element
		req.Prefix = &nbwire.PathMsg{Target: r.Pick([]string{"c1", "c1", "c1", "c2", ""}),
			Elem: []*pb.PathElem{{Name: r.Pick([]string{"v0", "v1", "v2", "v9", "v", "v00", "v*", "*", "?0"})}}}
		switch r.Intn(4) {
		case 0:
			req.Paths = nil
		case 1:
			req.Paths = []*nbwire.PathMsg{{}}
		case 2:
			req.Paths = []*nbwire.PathMsg{{Target: r.Pick([]string{"", "c1"})}, {Elem: []*pb.PathElem{{Name: "x"}}}}
		}
		if r.Chance(2, 3) {
			req.Enc = 2
		}
		tags = append(tags, "get-prefix-whole-leaf")
	}
	if len(req.Paths) == 0 {
		tags = append(tags, "get-no-paths")
	}
	var used []string
	for _, p := range req.Paths {
		used = append(used, p.Target)
	}
	if req.Prefix != nil {
		used = append(used, req.Prefix.Target)
	}
	exts, et := GenExts(r, spec, used, allowNilOverride)
	if r.Chance(1, 10) {
		exts = append(exts, StrategyExt(1, 0))
		tags = append(tags, "get-synchronous")
	}
	req.Exts = exts
	tags = append(tags, et...)
	return req, tags
}

// GenSyncGet generates a SYNCHRONOUS Get over several targets whose configurations exist (c1, c2,
// created by the script) and some that may not: the handler starts one goroutine per target, and
// every non-persistent target without a master connection reports an error from its goroutine.
func GenSyncGet(r *rng.R) (*nbwire.Req, []string) {
	req := &nbwire.Req{HasEnc: true, HasType: true, Enc: []int{0, 2, 4}[r.Intn(3)]}
	targets := []string{"c2", "c1"}
	if r.Bool() {
		targets = append(targets, r.Pick([]string{"t1", "t2", "t3"}))
	}
	if r.Chance(1, 4) {
		targets = targets[:1]
	}
	for _, t := range targets {
		req.Paths = append(req.Paths, &nbwire.PathMsg{Target: t, Elem: []*pb.PathElem{{Name: r.Pick([]string{"foo", "v0", "c"})}}})
	}
	req.Exts = []nbwire.Ext{StrategyExt(1, r.Intn(2))}
	return req, []string{"get-synchronous", "get-synchronous-several-targets"}
}

// GenSubStream generates the messages of one Subscribe stream.
func GenSubStream(r *rng.R) ([]nbwire.SubMsg, []string) {
	var out []nbwire.SubMsg
	var tags []string
	n := r.Range(1, 3)
	for i := 0; i < n; i++ {
		switch k := r.Intn(10); {
		case k < 6:
			m := nbwire.SubMsg{Kind: "S"}
			switch r.Intn(4) {
			case 0:
				tags = append(tags, "sub-no-prefix")
			case 1:
				m.Prefix = &nbwire.PathMsg{Target: r.Pick([]string{"t1", "tx", "c1"})}
				tags = append(tags, "sub-prefix-target")
			case 2:
				m.Prefix = &nbwire.PathMsg{Elem: []*pb.PathElem{{Name: "c"}}}
				tags = append(tags, "sub-prefix-elems")
			default:
				m.Prefix = &nbwire.PathMsg{}
			}
			ns := r.Range(0, 4)
			for j := 0; j < ns; j++ {
				if r.Chance(1, 5) {
					m.Subs = append(m.Subs, nil)
					tags = append(tags, "sub-entry-no-path")
					continue
				}
				m.Subs = append(m.Subs, GenGetPath(r, Pool, r.Pick([]string{"t1", "t2", "", "tx", "c1"})))
			}
			out = append(out, m)
		case k < 8:
			out = append(out, nbwire.SubMsg{Kind: "P"})
			tags = append(tags, "sub-poll")
		default:
			out = append(out, nbwire.SubMsg{Kind: "O"})
			tags = append(tags, "sub-other")
		}
	}
	return out, tags
}

// Mutate applies one random structural mutation to a request (omissions, odd texts, swapped kinds).
func Mutate(r *rng.R, req *nbwire.Req) string {
	paths := func() []*nbwire.PathMsg {
		var ps []*nbwire.PathMsg
		if req.Prefix != nil {
			ps = append(ps, req.Prefix)
		}
		ps = append(ps, req.Delete...)
		ps = append(ps, req.Paths...)
		for _, u := range req.Update {
			if u.Path != nil {
				ps = append(ps, u.Path)
			}
		}
		for _, u := range req.Replace {
			if u.Path != nil {
				ps = append(ps, u.Path)
			}
		}
		return ps
	}
	ps := paths()
	switch r.Intn(12) {
	case 0:
		if len(req.Update) > 0 {
			req.Update[r.Intn(len(req.Update))].Path = nil
			return "mut-nil-path"
		}
	case 1:
		if len(req.Update) > 0 {
			req.Update[r.Intn(len(req.Update))].Val = nbwire.Val{Kind: r.Pick([]string{"_", "N", "X"})}
			return "mut-no-value"
		}
	case 2:
		if len(ps) > 0 {
			ps[r.Intn(len(ps))].Elem = nil
			return "mut-no-elems"
		}
	case 3:
		if len(ps) > 0 {
			p := ps[r.Intn(len(ps))]
			p.Elem = append(p.Elem, &pb.PathElem{Name: r.Pick([]string{"", "[", "]", "x[abc]", "x[=]", "[k=", "a/b", "\\", "x[a=b][c]", "*", "..."})})
			return "mut-odd-elem"
		}
	case 4:
		if len(ps) > 0 {
			p := ps[r.Intn(len(ps))]
			for _, e := range p.Elem {
				if e.Key == nil {
					e.Key = map[string]string{}
				}
				e.Key[r.Pick([]string{"k", "", "k=", "[", "k]"})] = r.Pick(wildKeyVals)
				break
			}
			return "mut-odd-key"
		}
	case 5:
		if len(ps) > 0 {
			ps[r.Intn(len(ps))].Target = r.Pick([]string{"", "*", "tx", "tna", "t1", "c2", "é", " "})
			return "mut-target"
		}
	case 6:
		req.Prefix = nil
		return "mut-no-prefix"
	case 7:
		req.Prefix = &nbwire.PathMsg{Target: r.Pick([]string{"", "t1", "*", "c2"})}
		return "mut-prefix"
	case 8:
		if len(ps) > 0 {
			p := ps[r.Intn(len(ps))]
			p.Element = []string{r.Pick([]string{"", "a", "x[abc]", "[", "l[k=1]"})}
			if r.Bool() {
				p.Elem = nil
			}
			return "mut-v03"
		}
	case 9:
		req.Exts = append(req.Exts, nbwire.Ext{ID: uint32(pick2(r, 111, 112)), Bytes: []byte{byte(r.Intn(256)), byte(r.Intn(256)), byte(r.Intn(8))}})
		return "mut-ext-bytes"
	case 10:
		if len(req.Delete) > 0 && len(req.Update) > 0 {
			req.Delete = append(req.Delete, req.Update[0].Path)
			if req.Delete[len(req.Delete)-1] == nil {
				req.Delete = req.Delete[:len(req.Delete)-1]
			}
			return "mut-delete-updated"
		}
	default:
		if len(req.Update) > 0 {
			u := req.Update[r.Intn(len(req.Update))]
			req.Update = append(req.Update, u)
			return "mut-duplicate"
		}
	}
	return "mut-none"
}
