// Package nbenv builds the northbound servers of onos-config (gNMI and admin, through their
// NewServerForVerif hooks) on the real v2 stores over the atomix in-memory test client, with
// hand-written fakes for the topology store, the model-plugin registry and the southbound
// connection manager.  The transaction store is decorated so that a handler's Watch is answered
// at once; every record a handler created is then pushed, step by step and under recover(),
// through the real transaction and proposal reconcilers (NewReconcilerForVerif hooks).
//
// Used by the C12 and C13 correspondence checks.
package nbenv

import (
	"context"
	"encoding/json"
	"fmt"
	"runtime/debug"
	"sort"
	"strings"
	"sync"
	"time"

	"github.com/atomix/go-sdk/pkg/test"
	adminapi "github.com/onosproject/onos-api/go/onos/config/admin"
	configapi "github.com/onosproject/onos-api/go/onos/config/v2"
	topoapi "github.com/onosproject/onos-api/go/onos/topo"
	proposalctl "github.com/onosproject/onos-config/pkg/controller/v2/proposal"
	transactionctl "github.com/onosproject/onos-config/pkg/controller/v2/transaction"
	nbadmin "github.com/onosproject/onos-config/pkg/northbound/admin"
	nbgnmi "github.com/onosproject/onos-config/pkg/northbound/gnmi/v2"
	"github.com/onosproject/onos-config/pkg/pluginregistry"
	sb "github.com/onosproject/onos-config/pkg/southbound/gnmi"
	"github.com/onosproject/onos-config/pkg/store/topo"
	"github.com/onosproject/onos-config/pkg/store/v2/configuration"
	"github.com/onosproject/onos-config/pkg/store/v2/proposal"
	"github.com/onosproject/onos-config/pkg/store/v2/transaction"
	"github.com/onosproject/onos-config/pkg/utils/path"
	"github.com/onosproject/onos-lib-go/pkg/controller"
	"github.com/onosproject/onos-lib-go/pkg/errors"
	"github.com/onosproject/onos-lib-go/pkg/logging"
	baseClient "github.com/openconfig/gnmi/client"
	"github.com/openconfig/gnmi/proto/gnmi"
	"google.golang.org/grpc"
)

func init() {
	logging.SetLevel(logging.FatalLevel)
}

// TargetSpec is one topology entity.
type TargetSpec struct {
	ID         string
	HasAspect  bool // carries the onos.topo.Configurable aspect
	Type       string
	Version    string
	Persistent bool
}

// RWSpec is one read-write model path.
type RWSpec struct {
	Path     string
	IsAKey   bool
	AttrName string
}

// PluginSpec is one registered model plugin: RegType/RegVersion is the key it is found under,
// Name/Version what its ModelInfo reports.
type PluginSpec struct {
	RegType    string
	RegVersion string
	Name       string
	Version    string
	RW         []RWSpec
}

// Spec describes the environment of one case.
type Spec struct {
	Limit   int
	Targets []TargetSpec
	Plugins []PluginSpec
}

// ---------------------------------------------------------------------------------------------
// fakes

// FakeTopo is a topology store holding the entities of the Spec.
type FakeTopo struct {
	objs map[topoapi.ID]*topoapi.Object
	ids  []topoapi.ID
}

var _ topo.Store = &FakeTopo{}

func newFakeTopo(ts []TargetSpec) *FakeTopo {
	f := &FakeTopo{objs: map[topoapi.ID]*topoapi.Object{}}
	for _, t := range ts {
		o := &topoapi.Object{ID: topoapi.ID(t.ID), Type: topoapi.Object_ENTITY,
			Obj: &topoapi.Object_Entity{Entity: &topoapi.Entity{}}}
		if t.HasAspect {
			_ = o.SetAspect(&topoapi.Configurable{Type: t.Type, Version: t.Version, Target: t.ID, Persistent: t.Persistent})
		}
		if _, dup := f.objs[o.ID]; !dup {
			f.ids = append(f.ids, o.ID)
		}
		f.objs[o.ID] = o
	}
	return f
}

// Create is not used by the northbound.
func (f *FakeTopo) Create(ctx context.Context, object *topoapi.Object) error { return nil }

// Update is not used by the northbound.
func (f *FakeTopo) Update(ctx context.Context, object *topoapi.Object) error { return nil }

// Get answers like the real store: the object, or a NotFound typed error.
func (f *FakeTopo) Get(ctx context.Context, id topoapi.ID) (*topoapi.Object, error) {
	if o, ok := f.objs[id]; ok {
		c := *o
		return &c, nil
	}
	return nil, errors.NewNotFound("object %s not found", id)
}

// List returns the entities that carry the Configurable aspect (the only filter the code uses).
func (f *FakeTopo) List(ctx context.Context, filters *topoapi.Filters) ([]topoapi.Object, error) {
	var out []topoapi.Object
	for _, id := range f.ids {
		o := f.objs[id]
		if o.Aspects != nil {
			out = append(out, *o)
		}
	}
	return out, nil
}

// Delete is not used by the northbound.
func (f *FakeTopo) Delete(ctx context.Context, object *topoapi.Object) error { return nil }

// Watch is not used by the northbound.
func (f *FakeTopo) Watch(ctx context.Context, ch chan<- topoapi.Event, filters *topoapi.Filters) error {
	return nil
}

// JSONErr is the JSON payload on which the fake plugin reports an error.
const JSONErr = "!err"

// FakePlugin is a model plugin with a generated read-write path table.  Its GetPathValues has a
// fixed, documented contract (the twin mirrors it): the JSON document is a flat object of
// strings {"<relative path>": "<value>"}; every member becomes the string value of
// pathPrefix+<relative path> ("/" as prefix counts as empty); the payload JSONErr is refused.
type FakePlugin struct {
	info *pluginregistry.ModelPluginInfo
}

var _ pluginregistry.ModelPlugin = &FakePlugin{}

// GetInfo returns the plugin info (with the read-write path table).
func (p *FakePlugin) GetInfo() *pluginregistry.ModelPluginInfo { return p.info }

// Capabilities reports one model.
func (p *FakePlugin) Capabilities(ctx context.Context) *gnmi.CapabilityResponse {
	return &gnmi.CapabilityResponse{SupportedModels: []*gnmi.ModelData{{Name: p.info.Info.Name, Organization: "verif", Version: p.info.Info.Version}}}
}

// Validate accepts everything.
func (p *FakePlugin) Validate(ctx context.Context, jsonData []byte) error { return nil }

// GetPathValues implements the contract above.
func (p *FakePlugin) GetPathValues(ctx context.Context, pathPrefix string, jsonData []byte) ([]*configapi.PathValue, error) {
	if string(jsonData) == JSONErr {
		return nil, errors.NewInvalid("fake plugin: cannot parse document")
	}
	m := map[string]string{}
	if len(jsonData) > 0 {
		if err := json.Unmarshal(jsonData, &m); err != nil {
			return nil, errors.NewInvalid("fake plugin: cannot parse document")
		}
	}
	keys := make([]string, 0, len(m))
	for k := range m {
		keys = append(keys, k)
	}
	sort.Strings(keys)
	if pathPrefix == "/" {
		pathPrefix = ""
	}
	var out []*configapi.PathValue
	for _, k := range keys {
		out = append(out, &configapi.PathValue{Path: pathPrefix + k, Value: *configapi.NewTypedValueString(m[k])})
	}
	return out, nil
}

// LeafValueSelection returns a fixed selection.
func (p *FakePlugin) LeafValueSelection(ctx context.Context, selectionPath string, jsonData []byte) ([]string, error) {
	if strings.Contains(selectionPath, "!") {
		return nil, errors.NewInvalid("fake plugin: bad selection path")
	}
	return []string{"a", "b"}, nil
}

// FakeRegistry is the plugin registry.
type FakeRegistry struct {
	byKey map[string]*FakePlugin
	all   []pluginregistry.ModelPlugin
}

var _ pluginregistry.PluginRegistry = &FakeRegistry{}

func newFakeRegistry(ps []PluginSpec) *FakeRegistry {
	r := &FakeRegistry{byKey: map[string]*FakePlugin{}}
	for _, p := range ps {
		rw := path.ReadWritePathMap{}
		for _, e := range p.RW {
			rw[e.Path] = adminapi.ReadWritePath{Path: e.Path, ValueType: configapi.ValueType_STRING, IsAKey: e.IsAKey, AttrName: e.AttrName}
		}
		fp := &FakePlugin{info: &pluginregistry.ModelPluginInfo{
			ID:             p.Name + "-" + p.Version,
			Info:           adminapi.ModelInfo{Name: p.Name, Version: p.Version},
			ReadWritePaths: rw,
		}}
		k := p.RegType + "\x00" + p.RegVersion
		if _, dup := r.byKey[k]; !dup {
			r.byKey[k] = fp
			r.all = append(r.all, fp)
		}
	}
	return r
}

// Start does nothing.
func (r *FakeRegistry) Start() {}

// Stop does nothing.
func (r *FakeRegistry) Stop() {}

// GetPlugin looks the plugin up by (type, version).
func (r *FakeRegistry) GetPlugin(model configapi.TargetType, version configapi.TargetVersion) (pluginregistry.ModelPlugin, bool) {
	p, ok := r.byKey[string(model)+"\x00"+string(version)]
	if !ok {
		return nil, false
	}
	return p, true
}

// GetPlugins lists the plugins.
func (r *FakeRegistry) GetPlugins() []pluginregistry.ModelPlugin { return r.all }

// NewClientFn does nothing.
func (r *FakeRegistry) NewClientFn(func(endpoint string) (adminapi.ModelPluginServiceClient, error)) {
}

// FakeClient is a southbound client that accepts everything and records subscriptions.
type FakeClient struct {
	mu   sync.Mutex
	Subs []baseClient.Query
	id   sb.ConnID
	tgt  topoapi.ID
}

var _ sb.Conn = &FakeClient{}

// Close does nothing.
func (c *FakeClient) Close() error { return nil }

// ID is the connection id.
func (c *FakeClient) ID() sb.ConnID { return c.id }

// TargetID is the target.
func (c *FakeClient) TargetID() topoapi.ID { return c.tgt }

// Capabilities answers empty.
func (c *FakeClient) Capabilities(ctx context.Context, r *gnmi.CapabilityRequest) (*gnmi.CapabilityResponse, error) {
	return &gnmi.CapabilityResponse{}, nil
}

// CapabilitiesWithString answers empty.
func (c *FakeClient) CapabilitiesWithString(ctx context.Context, request string) (*gnmi.CapabilityResponse, error) {
	return &gnmi.CapabilityResponse{}, nil
}

// Get answers with one empty notification.
func (c *FakeClient) Get(ctx context.Context, r *gnmi.GetRequest) (*gnmi.GetResponse, error) {
	return &gnmi.GetResponse{Notification: []*gnmi.Notification{{}}}, nil
}

// GetWithString answers empty.
func (c *FakeClient) GetWithString(ctx context.Context, request string) (*gnmi.GetResponse, error) {
	return &gnmi.GetResponse{}, nil
}

// Set accepts.
func (c *FakeClient) Set(ctx context.Context, r *gnmi.SetRequest) (*gnmi.SetResponse, error) {
	return &gnmi.SetResponse{}, nil
}

// SetWithString accepts.
func (c *FakeClient) SetWithString(ctx context.Context, request string) (*gnmi.SetResponse, error) {
	return &gnmi.SetResponse{}, nil
}

// Subscribe records the query.
func (c *FakeClient) Subscribe(ctx context.Context, q baseClient.Query) error {
	c.mu.Lock()
	c.Subs = append(c.Subs, q)
	c.mu.Unlock()
	return nil
}

// Poll accepts.
func (c *FakeClient) Poll() error { return nil }

// FakeConns is a connection manager with one connection per entity that has the aspect.
type FakeConns struct {
	byTarget map[topoapi.ID]*FakeClient
}

var _ sb.ConnManager = &FakeConns{}

func newFakeConns(ts []TargetSpec) *FakeConns {
	f := &FakeConns{byTarget: map[topoapi.ID]*FakeClient{}}
	for _, t := range ts {
		if t.HasAspect {
			f.byTarget[topoapi.ID(t.ID)] = &FakeClient{id: sb.ConnID("conn-" + t.ID), tgt: topoapi.ID(t.ID)}
		}
	}
	return f
}

// Get looks a connection up by id.
func (f *FakeConns) Get(ctx context.Context, connID sb.ConnID) (sb.Conn, bool) {
	for _, c := range f.byTarget {
		if c.id == connID {
			return c, true
		}
	}
	return nil, false
}

// GetByTarget looks a client up by target.
func (f *FakeConns) GetByTarget(ctx context.Context, targetID topoapi.ID) (sb.Client, error) {
	if c, ok := f.byTarget[targetID]; ok {
		return c, nil
	}
	return nil, errors.NewNotFound("client for target %s not found", targetID)
}

// Connect does nothing.
func (f *FakeConns) Connect(ctx context.Context, target *topoapi.Object) error { return nil }

// Disconnect does nothing.
func (f *FakeConns) Disconnect(ctx context.Context, targetID topoapi.ID) error { return nil }

// Watch does nothing.
func (f *FakeConns) Watch(ctx context.Context, ch chan<- sb.Conn) error { return nil }

// ---------------------------------------------------------------------------------------------
// transaction store decorator

// TxDecor wraps the real transaction store: Create is recorded, Watch is answered at once with
// the created record in the awaited state (so that a Set/Rollback handler returns without
// running controllers).
type TxDecor struct {
	transaction.Store
	mu      sync.Mutex
	Created []*configapi.Transaction
	Creates int // number of Create calls (successful or not)
	// Answer is the state the watch reports (APPLIED by default).
	Answer  configapi.TransactionStatus_State
	Failure *configapi.Failure
}

// Create forwards to the real store and records the record.
func (d *TxDecor) Create(ctx context.Context, t *configapi.Transaction) error {
	d.mu.Lock()
	d.Creates++
	d.mu.Unlock()
	err := d.Store.Create(ctx, t)
	if err == nil {
		d.mu.Lock()
		d.Created = append(d.Created, t)
		d.mu.Unlock()
	}
	return err
}

// Watch answers the handler's per-transaction watch at once.
func (d *TxDecor) Watch(ctx context.Context, ch chan<- configapi.TransactionEvent, opts ...transaction.WatchOption) error {
	d.mu.Lock()
	var last *configapi.Transaction
	if len(d.Created) > 0 {
		last = d.Created[len(d.Created)-1]
	}
	ans, fail := d.Answer, d.Failure
	d.mu.Unlock()
	go func() {
		defer close(ch)
		if last == nil {
			return
		}
		ev := configapi.TransactionEvent{Type: configapi.TransactionEvent_UPDATED, Transaction: *last}
		ev.Transaction.Status.State = ans
		ev.Transaction.Status.Failure = fail
		select {
		case ch <- ev:
		case <-ctx.Done():
		}
	}()
	return nil
}

// CfgDecor wraps the real configuration store for the gNMI server: Watch is refused at once.  The
// only watcher is a SYNCHRONOUS Get waiting for a configuration to be applied — which never
// happens in the harness (no master) — so the wait ends deterministically instead of by a deadline.
type CfgDecor struct {
	configuration.Store
}

// Watch is refused.
func (d *CfgDecor) Watch(ctx context.Context, ch chan<- configapi.ConfigurationEvent, opts ...configuration.WatchOption) error {
	return errors.NewUnavailable("harness: configuration watch refused")
}

// ---------------------------------------------------------------------------------------------

// sharedConn is the primitive.Client the stores get: the atomix test client builds a whole new
// runtime, sidecar service and connection on every Connect — once per store and once per side map
// of the configuration store — and never releases them; here one connection serves every
// primitive of the environment and is closed with it.
type sharedConn struct {
	c    *test.Client
	mu   sync.Mutex
	conn *grpc.ClientConn
}

func (t *sharedConn) Connect(ctx context.Context) (*grpc.ClientConn, error) {
	t.mu.Lock()
	defer t.mu.Unlock()
	if t.conn != nil {
		return t.conn, nil
	}
	conn, err := t.c.Connect(ctx)
	if err != nil {
		return nil, err
	}
	t.conn = conn
	return conn, nil
}

func (t *sharedConn) closeAll() {
	t.mu.Lock()
	defer t.mu.Unlock()
	if t.conn != nil {
		_ = t.conn.Close()
		t.conn = nil
	}
}

// Env is one wired environment.
type Env struct {
	tracker *sharedConn
	Spec    Spec
	Atomix  *test.Client
	RawTx   transaction.Store
	Tx      *TxDecor
	Props   proposal.Store
	Cfgs    configuration.Store
	Topo    *FakeTopo
	Reg     *FakeRegistry
	Conns   *FakeConns
	Gnmi    *nbgnmi.Server
	Admin   *nbadmin.Server
	TxRec   *transactionctl.Reconciler
	PropRec *proposalctl.Reconciler
}

// New builds the environment.
func New(spec Spec) (*Env, error) {
	slots <- struct{}{}
	cluster := test.NewClient()
	tracker := &sharedConn{c: cluster}
	cfgs, err := configuration.NewAtomixStore(tracker)
	if err != nil {
		return nil, err
	}
	props, err := proposal.NewAtomixStore(tracker)
	if err != nil {
		return nil, err
	}
	txs, err := transaction.NewAtomixStore(tracker)
	if err != nil {
		return nil, err
	}
	e := &Env{tracker: tracker, Spec: spec, Atomix: cluster, RawTx: txs, Props: props, Cfgs: cfgs}
	e.Tx = &TxDecor{Store: txs, Answer: configapi.TransactionStatus_APPLIED}
	e.Topo = newFakeTopo(spec.Targets)
	e.Reg = newFakeRegistry(spec.Plugins)
	e.Conns = newFakeConns(spec.Targets)
	e.Gnmi = nbgnmi.NewServerForVerif(e.Topo, e.Tx, props, &CfgDecor{Store: cfgs}, e.Reg, e.Conns, spec.Limit)
	e.Admin = nbadmin.NewServerForVerif(e.Tx, cfgs, e.Reg)
	e.TxRec = transactionctl.NewReconcilerForVerif(txs, props)
	e.PropRec = proposalctl.NewReconcilerForVerif(e.Topo, e.Conns, props, cfgs, e.Reg)
	return e, nil
}

// An environment is expensive (about 100 goroutines and 25 MB: one in-process gRPC service per
// atomix primitive), so the number of live ones is bounded; New blocks until a slot is free.
var slots = make(chan struct{}, 48)

// Close releases the stores.  The atomix test client starts its in-process gRPC services in
// goroutines that call os.Exit(1) when Serve finds the server already stopped, so a client must
// not be closed before the goroutines of its latest services got to run: closing happens a
// second later, and only after a goroutine spawned at that moment has run as well.
func (e *Env) Close() {
	go func() {
		time.Sleep(time.Second)
		ran := make(chan struct{})
		go func() { close(ran) }()
		<-ran
		time.Sleep(50 * time.Millisecond)
		ctx := context.Background()
		_ = e.RawTx.Close(ctx)
		_ = e.Props.Close(ctx)
		_ = e.Cfgs.Close(ctx)
		e.tracker.closeAll()
		e.Atomix.Close()
		<-slots
	}()
}

// LastCrashStack holds the stack of the latest crash Drive recovered from (for reports).
var LastCrashStack string

// Drive pushes the transaction with the given index through the real transaction and proposal
// reconcilers, one Reconcile call at a time, each under recover().  It returns the panic text of
// the first crashing step ("" if none).
func (e *Env) Drive(index configapi.Index, rounds int) (crash string) {
	step := func(what string, f func() (controller.Result, error)) {
		defer func() {
			if r := recover(); r != nil && crash == "" {
				crash = fmt.Sprintf("%s: %v", what, r)
				LastCrashStack = string(debug.Stack())
			}
		}()
		_, _ = f()
	}
	ctx := context.Background()
	lastSig := ""
	for i := 0; i < rounds && crash == ""; i++ {
		step("transaction reconciler", func() (controller.Result, error) {
			return e.TxRec.Reconcile(controller.NewID(index))
		})
		if crash != "" {
			return
		}
		t, err := e.RawTx.GetByIndex(ctx, index)
		if err != nil {
			return
		}
		var ids []configapi.ProposalID
		if t.Status.Proposals != nil {
			ids = append(ids, t.Status.Proposals...)
		}
		sig := fmt.Sprintf("t%d", t.Version)
		for _, id := range ids {
			id := id
			step("proposal reconciler", func() (controller.Result, error) {
				return e.PropRec.Reconcile(controller.NewID(id))
			})
			if p, err := e.Props.Get(ctx, id); err == nil {
				sig += fmt.Sprintf(" p%d", p.Version)
			}
		}
		if cs, err := e.Cfgs.List(ctx); err == nil {
			for _, c := range cs {
				sig += fmt.Sprintf(" c%d", c.Version)
			}
		}
		if sig == lastSig {
			return // a whole round changed nothing: quiescent (committed, waiting for a master)
		}
		lastSig = sig
	}
	return
}

// LogLen is the length of the transaction log.
func (e *Env) LogLen() int {
	ts, err := e.RawTx.List(context.Background())
	if err != nil {
		return -1
	}
	return len(ts)
}

// ConfigDigest is a canonical rendering of every stored configuration (id, live and deleted
// values), independent of versions and timestamps.
func (e *Env) ConfigDigest() string {
	cs, err := e.Cfgs.List(context.Background())
	if err != nil {
		return "error " + err.Error()
	}
	var parts []string
	for _, c := range cs {
		var vs []string
		for p, v := range c.Values {
			d := ""
			if v.Deleted {
				d = "!"
			}
			vs = append(vs, fmt.Sprintf("%s%s=%s", d, p, v.Value.ValueToString()))
		}
		sort.Strings(vs)
		parts = append(parts, fmt.Sprintf("%s{%s}", c.ID, strings.Join(vs, ",")))
	}
	sort.Strings(parts)
	return strings.Join(parts, ";")
}
