// Package rng is the single source of randomness of the harness: a splitmix64 stream whose
// whole state is one uint64, so that (seed, case number) identifies a generated case.
package rng

// R is a splitmix64 generator.
type R struct{ s uint64 }

// New returns a generator for the given seed.
func New(seed uint64) *R { return &R{s: seed*0x9E3779B97F4A7C15 + 0x1234567} }

// Fork derives an independent generator for sub-stream n.
func (r *R) Fork(n uint64) *R { return New(r.s ^ (n+1)*0xBF58476D1CE4E5B9) }

// U64 returns the next value.
func (r *R) U64() uint64 {
	r.s += 0x9E3779B97F4A7C15
	z := r.s
	z = (z ^ (z >> 30)) * 0xBF58476D1CE4E5B9
	z = (z ^ (z >> 27)) * 0x94D049BB133111EB
	return z ^ (z >> 31)
}

// Intn returns a value in [0,n).
func (r *R) Intn(n int) int {
	if n <= 0 {
		return 0
	}
	return int(r.U64() % uint64(n))
}

// Range returns a value in [lo,hi].
func (r *R) Range(lo, hi int) int { return lo + r.Intn(hi-lo+1) }

// Bool returns true with probability 1/2.
func (r *R) Bool() bool { return r.U64()&1 == 1 }

// Chance returns true with probability num/den.
func (r *R) Chance(num, den int) bool { return r.Intn(den) < num }

// Pick returns one of the strings.
func (r *R) Pick(xs []string) string { return xs[r.Intn(len(xs))] }

// State returns the whole state of the generator.
func (r *R) State() uint64 { return r.s }

// FromState rebuilds a generator from its state.
func FromState(s uint64) *R { return &R{s: s} }
