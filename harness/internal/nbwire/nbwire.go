// Package nbwire is the Go side of the line codec of the northbound twin
// (lean/OnosVerif/NB/Wire.lean): abstract request structures, their token form, and the
// construction of the real protobuf requests from them.
//
// Tokens (strings hex-encoded, "-" = empty; see fw.EncStr):
//
//	path   := <target>|<elem>,<elem>…|<element>,<element>…        (elem as fw.EncElem; "_" = absent message)
//	val    := _ (no TypedValue) | N (oneof unset) | S:<hex> | A:<hex> | I:<int> | U:<nat> | B:<0|1>
//	          | J:! (unparseable JSON) | J:<k>=<v>;<k>=<v>… (flat JSON object) | X (json_ietf_val)
//	          | O:<convOk 0|1>:<ValueToString hex>:<payload>   (bytes/decimal/float/leaf-list; payload rebuilds the value)
//	upd    := <path>@<val>
//	ext    := E (extension without registered_ext) | R:<id>:<S>:<O>:<bytes hex>
//	          S = what the bytes decode to as TransactionStrategy: ! | <sync>.<isolation>
//	          O = what they decode to as TargetVersionOverrides:   ! | <k>~<type>~<version>;<k>~! …
//	request tokens: pfx=<path> x=<ext> d=<path> r=<upd> u=<upd> p=<path> enc=<n> ty=<n>
package nbwire

import (
	"encoding/hex"
	"fmt"
	"math"
	"sort"
	"strconv"
	"strings"

	gogoproto "github.com/gogo/protobuf/proto"
	adminapi "github.com/onosproject/onos-api/go/onos/config/admin"
	configapi "github.com/onosproject/onos-api/go/onos/config/v2"
	"github.com/onosproject/onos-config/verifharness/internal/fw"
	"github.com/onosproject/onos-config/verifharness/internal/nbenv"
	pb "github.com/openconfig/gnmi/proto/gnmi"
	"github.com/openconfig/gnmi/proto/gnmi_ext"
	"google.golang.org/protobuf/proto"
)

// PathMsg is a gnmi.Path (nil = absent).
type PathMsg struct {
	Target  string
	Elem    []*pb.PathElem
	Element []string
}

// Val is the value of an update.
type Val struct {
	Kind    string // _ N S A I U B J X O
	Str     string
	Int     int64
	Uint    uint64
	Bool    bool
	JSONBad bool
	JSON    [][2]string // members in order
	OpOK    bool
	OpRepr  string
	OpLoad  string // b<hex> | d<digits>.<precision> | f<bits hex> | ls<hex>,<hex>… | li<n>,<n>… | le
}

// Update is a gnmi.Update.
type Update struct {
	Path *PathMsg
	Val  Val
}

// Ext is a gnmi_ext.Extension: registered (ID, Bytes) or something else.
type Ext struct {
	Other bool
	ID    uint32
	Bytes []byte
}

// Req holds the fields of Set and Get requests.
type Req struct {
	Prefix  *PathMsg
	Exts    []Ext
	Delete  []*PathMsg
	Replace []Update
	Update  []Update
	Paths   []*PathMsg
	Enc     int
	Type    int
	HasEnc  bool
	HasType bool
}

// ---------------------------------------------------------------------------------------------
// encoding

// EncPath is the token of a path.
func EncPath(p *PathMsg) string {
	if p == nil {
		return "_"
	}
	es := make([]string, len(p.Elem))
	for i, e := range p.Elem {
		es[i] = fw.EncElem(e)
	}
	ls := make([]string, len(p.Element))
	for i, e := range p.Element {
		ls[i] = fw.EncStr(e)
	}
	return fw.EncStr(p.Target) + "|" + strings.Join(es, ",") + "|" + strings.Join(ls, ",")
}

// EncVal is the token of a value.
func EncVal(v Val) string {
	switch v.Kind {
	case "_", "N", "X":
		return v.Kind
	case "S", "A":
		return v.Kind + ":" + fw.EncStr(v.Str)
	case "I":
		return "I:" + strconv.FormatInt(v.Int, 10)
	case "U":
		return "U:" + strconv.FormatUint(v.Uint, 10)
	case "B":
		if v.Bool {
			return "B:1"
		}
		return "B:0"
	case "J":
		if v.JSONBad {
			return "J:!"
		}
		ms := make([]string, len(v.JSON))
		for i, m := range v.JSON {
			ms[i] = fw.EncStr(m[0]) + "=" + fw.EncStr(m[1])
		}
		return "J:" + strings.Join(ms, ";")
	case "O":
		ok := "0"
		if v.OpOK {
			ok = "1"
		}
		return "O:" + ok + ":" + fw.EncStr(v.OpRepr) + ":" + v.OpLoad
	}
	return "_"
}

// EncUpdate is the token of an update.
func EncUpdate(u Update) string { return EncPath(u.Path) + "@" + EncVal(u.Val) }

// EncExt is the token of an extension; the decode annotations are computed with the real
// protobuf code (a dependency the twin does not model).
func EncExt(e Ext) string {
	if e.Other {
		return "E"
	}
	s := "!"
	var ts configapi.TransactionStrategy
	if err := gogoproto.Unmarshal(e.Bytes, &ts); err == nil {
		s = fmt.Sprintf("%d.%d", uint32(ts.Synchronicity), uint32(ts.Isolation))
	}
	o := "!"
	var tv configapi.TargetVersionOverrides
	if err := gogoproto.Unmarshal(e.Bytes, &tv); err == nil {
		var es []string
		for k, v := range tv.Overrides {
			if v == nil {
				es = append(es, fw.EncStr(k)+"~!")
			} else {
				es = append(es, fw.EncStr(k)+"~"+fw.EncStr(string(v.TargetType))+"~"+fw.EncStr(string(v.TargetVersion)))
			}
		}
		sort.Strings(es)
		o = strings.Join(es, ";")
	}
	b := "-"
	if len(e.Bytes) > 0 {
		b = hex.EncodeToString(e.Bytes)
	}
	return fmt.Sprintf("R:%d:%s:%s:%s", e.ID, s, o, b)
}

// Toks renders the request tokens.
func (r *Req) Toks() []string {
	var t []string
	if r.Prefix != nil {
		t = append(t, "pfx="+EncPath(r.Prefix))
	}
	for _, e := range r.Exts {
		t = append(t, "x="+EncExt(e))
	}
	for _, p := range r.Delete {
		t = append(t, "d="+EncPath(p))
	}
	for _, u := range r.Replace {
		t = append(t, "r="+EncUpdate(u))
	}
	for _, u := range r.Update {
		t = append(t, "u="+EncUpdate(u))
	}
	for _, p := range r.Paths {
		t = append(t, "p="+EncPath(p))
	}
	if r.HasEnc {
		t = append(t, fmt.Sprintf("enc=%d", r.Enc))
	}
	if r.HasType {
		t = append(t, fmt.Sprintf("ty=%d", r.Type))
	}
	return t
}

// EncEnv renders the `nb.env` line.
func EncEnv(s nbenv.Spec) string {
	t := []string{"nb.env", fmt.Sprintf("L=%d", s.Limit)}
	b := func(x bool) string {
		if x {
			return "1"
		}
		return "0"
	}
	for _, tg := range s.Targets {
		t = append(t, "T="+strings.Join([]string{fw.EncStr(tg.ID), b(tg.HasAspect), fw.EncStr(tg.Type), fw.EncStr(tg.Version), b(tg.Persistent)}, "|"))
	}
	for _, p := range s.Plugins {
		rws := make([]string, len(p.RW))
		for i, e := range p.RW {
			rws[i] = fw.EncStr(e.Path) + ";" + b(e.IsAKey) + ";" + fw.EncStr(e.AttrName)
		}
		t = append(t, "G="+strings.Join([]string{fw.EncStr(p.Name), fw.EncStr(p.Version), strings.Join(rws, ",")}, "|"))
	}
	return strings.Join(t, " ")
}

// ---------------------------------------------------------------------------------------------
// decoding

func splitList(sep, s string) []string {
	if s == "" {
		return nil
	}
	return strings.Split(s, sep)
}

// DecPath decodes a path token ("_" = nil).
func DecPath(tok string) (*PathMsg, bool) {
	if tok == "_" {
		return nil, true
	}
	parts := strings.Split(tok, "|")
	if len(parts) != 3 {
		return nil, false
	}
	t, ok := fw.DecStr(parts[0])
	if !ok {
		return nil, false
	}
	p := &PathMsg{Target: t}
	for _, e := range splitList(",", parts[1]) {
		pe, ok := fw.DecElem(e)
		if !ok {
			return nil, false
		}
		p.Elem = append(p.Elem, pe)
	}
	for _, e := range splitList(",", parts[2]) {
		s, ok := fw.DecStr(e)
		if !ok {
			return nil, false
		}
		p.Element = append(p.Element, s)
	}
	return p, true
}

// DecVal decodes a value token.
func DecVal(tok string) (Val, bool) {
	switch tok {
	case "_", "N", "X":
		return Val{Kind: tok}, true
	}
	parts := strings.Split(tok, ":")
	if len(parts) < 2 {
		return Val{}, false
	}
	switch parts[0] {
	case "S", "A":
		s, ok := fw.DecStr(parts[1])
		return Val{Kind: parts[0], Str: s}, ok && len(parts) == 2
	case "I":
		n, err := strconv.ParseInt(parts[1], 10, 64)
		return Val{Kind: "I", Int: n}, err == nil
	case "U":
		n, err := strconv.ParseUint(parts[1], 10, 64)
		return Val{Kind: "U", Uint: n}, err == nil
	case "B":
		return Val{Kind: "B", Bool: parts[1] == "1"}, parts[1] == "0" || parts[1] == "1"
	case "J":
		if parts[1] == "!" {
			return Val{Kind: "J", JSONBad: true}, true
		}
		v := Val{Kind: "J"}
		for _, m := range splitList(";", parts[1]) {
			k, x, ok := strings.Cut(m, "=")
			if !ok {
				return Val{}, false
			}
			ks, ok1 := fw.DecStr(k)
			xs, ok2 := fw.DecStr(x)
			if !ok1 || !ok2 {
				return Val{}, false
			}
			v.JSON = append(v.JSON, [2]string{ks, xs})
		}
		return v, true
	case "O":
		if len(parts) != 4 {
			return Val{}, false
		}
		r, ok := fw.DecStr(parts[2])
		return Val{Kind: "O", OpOK: parts[1] == "1", OpRepr: r, OpLoad: parts[3]}, ok
	}
	return Val{}, false
}

// DecUpdate decodes an update token.
func DecUpdate(tok string) (Update, bool) {
	p, v, ok := strings.Cut(tok, "@")
	if !ok {
		return Update{}, false
	}
	pm, ok1 := DecPath(p)
	vv, ok2 := DecVal(v)
	return Update{Path: pm, Val: vv}, ok1 && ok2
}

// DecExt decodes an extension token (the annotations are ignored: the bytes are the request).
func DecExt(tok string) (Ext, bool) {
	if tok == "E" {
		return Ext{Other: true}, true
	}
	parts := strings.Split(tok, ":")
	if len(parts) != 5 || parts[0] != "R" {
		return Ext{}, false
	}
	id, err := strconv.ParseUint(parts[1], 10, 32)
	if err != nil {
		return Ext{}, false
	}
	var b []byte
	if parts[4] != "-" {
		b, err = hex.DecodeString(parts[4])
		if err != nil {
			return Ext{}, false
		}
	}
	return Ext{ID: uint32(id), Bytes: b}, true
}

// DecReq decodes request tokens.
func DecReq(toks []string) (*Req, bool) {
	r := &Req{}
	for _, t := range toks {
		switch {
		case strings.HasPrefix(t, "pfx="):
			p, ok := DecPath(t[4:])
			if !ok || p == nil {
				return nil, false
			}
			r.Prefix = p
		case strings.HasPrefix(t, "x="):
			e, ok := DecExt(t[2:])
			if !ok {
				return nil, false
			}
			r.Exts = append(r.Exts, e)
		case strings.HasPrefix(t, "d="):
			p, ok := DecPath(t[2:])
			if !ok || p == nil {
				return nil, false
			}
			r.Delete = append(r.Delete, p)
		case strings.HasPrefix(t, "r="):
			u, ok := DecUpdate(t[2:])
			if !ok {
				return nil, false
			}
			r.Replace = append(r.Replace, u)
		case strings.HasPrefix(t, "u="):
			u, ok := DecUpdate(t[2:])
			if !ok {
				return nil, false
			}
			r.Update = append(r.Update, u)
		case strings.HasPrefix(t, "p="):
			p, ok := DecPath(t[2:])
			if !ok || p == nil {
				return nil, false
			}
			r.Paths = append(r.Paths, p)
		case strings.HasPrefix(t, "enc="):
			n, err := strconv.Atoi(t[4:])
			if err != nil {
				return nil, false
			}
			r.Enc, r.HasEnc = n, true
		case strings.HasPrefix(t, "ty="):
			n, err := strconv.Atoi(t[3:])
			if err != nil {
				return nil, false
			}
			r.Type, r.HasType = n, true
		default:
			return nil, false
		}
	}
	return r, true
}

// DecEnv decodes the arguments of `nb.env`.
func DecEnv(toks []string) (nbenv.Spec, bool) {
	var s nbenv.Spec
	for _, t := range toks {
		switch {
		case strings.HasPrefix(t, "L="):
			n, err := strconv.Atoi(t[2:])
			if err != nil {
				return s, false
			}
			s.Limit = n
		case strings.HasPrefix(t, "T="):
			p := strings.Split(t[2:], "|")
			if len(p) != 5 {
				return s, false
			}
			id, ok1 := fw.DecStr(p[0])
			ty, ok2 := fw.DecStr(p[2])
			ver, ok3 := fw.DecStr(p[3])
			if !ok1 || !ok2 || !ok3 {
				return s, false
			}
			s.Targets = append(s.Targets, nbenv.TargetSpec{ID: id, HasAspect: p[1] == "1", Type: ty, Version: ver, Persistent: p[4] == "1"})
		case strings.HasPrefix(t, "G="):
			p := strings.Split(t[2:], "|")
			if len(p) != 3 {
				return s, false
			}
			name, ok1 := fw.DecStr(p[0])
			ver, ok2 := fw.DecStr(p[1])
			if !ok1 || !ok2 {
				return s, false
			}
			ps := nbenv.PluginSpec{RegType: name, RegVersion: ver, Name: name, Version: ver}
			for _, x := range splitList(",", p[2]) {
				f := strings.Split(x, ";")
				if len(f) != 3 {
					return s, false
				}
				pa, ok1 := fw.DecStr(f[0])
				at, ok2 := fw.DecStr(f[2])
				if !ok1 || !ok2 {
					return s, false
				}
				ps.RW = append(ps.RW, nbenv.RWSpec{Path: pa, IsAKey: f[1] == "1", AttrName: at})
			}
			s.Plugins = append(s.Plugins, ps)
		default:
			return s, false
		}
	}
	return s, true
}

// ---------------------------------------------------------------------------------------------
// real requests

// GPath builds the gnmi.Path.
func GPath(p *PathMsg) *pb.Path {
	if p == nil {
		return nil
	}
	return &pb.Path{Target: p.Target, Elem: p.Elem, Element: p.Element}
}

// JSONBytes renders the flat document the fake plugin understands.
func JSONBytes(v Val) []byte {
	if v.JSONBad {
		return []byte(nbenv.JSONErr)
	}
	var b strings.Builder
	b.WriteString("{")
	for i, m := range v.JSON {
		if i > 0 {
			b.WriteString(",")
		}
		b.WriteString(strconv.Quote(m[0]))
		b.WriteString(":")
		b.WriteString(strconv.Quote(m[1]))
	}
	b.WriteString("}")
	return []byte(b.String())
}

// OpaqueValue rebuilds the TypedValue of an O payload.
func OpaqueValue(load string) *pb.TypedValue {
	if load == "" {
		return &pb.TypedValue{}
	}
	body := load[1:]
	switch load[0] {
	case 'D': // gNMI 0.8+ double_val
		return &pb.TypedValue{Value: &pb.TypedValue_DoubleVal{DoubleVal: 2.5}}
	case 'P':
		return &pb.TypedValue{Value: &pb.TypedValue_ProtoBytes{ProtoBytes: []byte{1, 2}}}
	case 'Y':
		return &pb.TypedValue{Value: &pb.TypedValue_AnyVal{}}
	case 'L': // a leaf-list without its array
		return &pb.TypedValue{Value: &pb.TypedValue_LeaflistVal{}}
	case 'b':
		bs, _ := hex.DecodeString(body)
		return &pb.TypedValue{Value: &pb.TypedValue_BytesVal{BytesVal: bs}}
	case 'd':
		d, p, _ := strings.Cut(body, ".")
		dn, _ := strconv.ParseInt(d, 10, 64)
		pn, _ := strconv.ParseUint(p, 10, 32)
		return &pb.TypedValue{Value: &pb.TypedValue_DecimalVal{DecimalVal: &pb.Decimal64{Digits: dn, Precision: uint32(pn)}}}
	case 'f':
		n, _ := strconv.ParseUint(body, 16, 32)
		return &pb.TypedValue{Value: &pb.TypedValue_FloatVal{FloatVal: math.Float32frombits(uint32(n))}}
	case 'l':
		arr := &pb.ScalarArray{}
		if len(body) > 0 {
			switch body[0] {
			case 's':
				for _, h := range splitList(",", body[1:]) {
					s, _ := fw.DecStr(h)
					arr.Element = append(arr.Element, &pb.TypedValue{Value: &pb.TypedValue_StringVal{StringVal: s}})
				}
			case 'i':
				for _, h := range splitList(",", body[1:]) {
					n, _ := strconv.ParseInt(h, 10, 64)
					arr.Element = append(arr.Element, &pb.TypedValue{Value: &pb.TypedValue_IntVal{IntVal: n}})
				}
			case 'x': // a member of an unsupported kind
				arr.Element = append(arr.Element, &pb.TypedValue{Value: &pb.TypedValue_JsonVal{JsonVal: []byte("{}")}})
			case 'm': // members of the kinds the leaf-list conversion does not know, one letter each, after supported ones
				for _, k := range body[1:] {
					switch k {
					case 's':
						arr.Element = append(arr.Element, &pb.TypedValue{Value: &pb.TypedValue_StringVal{StringVal: "a"}})
					case 'n': // an element without a value (a nested omission)
						arr.Element = append(arr.Element, &pb.TypedValue{})
					case 'z': // a nil element
						arr.Element = append(arr.Element, nil)
					case 'D':
						arr.Element = append(arr.Element, &pb.TypedValue{Value: &pb.TypedValue_DoubleVal{DoubleVal: 1.5}})
					case 'l':
						arr.Element = append(arr.Element, &pb.TypedValue{Value: &pb.TypedValue_LeaflistVal{LeaflistVal: &pb.ScalarArray{}}})
					case 'a':
						arr.Element = append(arr.Element, &pb.TypedValue{Value: &pb.TypedValue_AnyVal{}})
					case 'p':
						arr.Element = append(arr.Element, &pb.TypedValue{Value: &pb.TypedValue_ProtoBytes{ProtoBytes: []byte{1}}})
					case 'j':
						arr.Element = append(arr.Element, &pb.TypedValue{Value: &pb.TypedValue_JsonIetfVal{JsonIetfVal: []byte("{}")}})
					}
				}
			}
		}
		return &pb.TypedValue{Value: &pb.TypedValue_LeaflistVal{LeaflistVal: arr}}
	}
	return &pb.TypedValue{}
}

// GVal builds the gnmi.TypedValue.
func GVal(v Val) *pb.TypedValue {
	switch v.Kind {
	case "_":
		return nil
	case "N":
		return &pb.TypedValue{}
	case "S":
		return &pb.TypedValue{Value: &pb.TypedValue_StringVal{StringVal: v.Str}}
	case "A":
		return &pb.TypedValue{Value: &pb.TypedValue_AsciiVal{AsciiVal: v.Str}}
	case "I":
		return &pb.TypedValue{Value: &pb.TypedValue_IntVal{IntVal: v.Int}}
	case "U":
		return &pb.TypedValue{Value: &pb.TypedValue_UintVal{UintVal: v.Uint}}
	case "B":
		return &pb.TypedValue{Value: &pb.TypedValue_BoolVal{BoolVal: v.Bool}}
	case "J":
		return &pb.TypedValue{Value: &pb.TypedValue_JsonVal{JsonVal: JSONBytes(v)}}
	case "X":
		return &pb.TypedValue{Value: &pb.TypedValue_JsonIetfVal{JsonIetfVal: []byte("{}")}}
	case "O":
		return OpaqueValue(v.OpLoad)
	}
	return nil
}

// GUpdate builds the gnmi.Update.
func GUpdate(u Update) *pb.Update { return &pb.Update{Path: GPath(u.Path), Val: GVal(u.Val)} }

// GExts builds the extensions.
func GExts(es []Ext) []*gnmi_ext.Extension {
	var out []*gnmi_ext.Extension
	for _, e := range es {
		if e.Other {
			out = append(out, &gnmi_ext.Extension{})
			continue
		}
		out = append(out, &gnmi_ext.Extension{Ext: &gnmi_ext.Extension_RegisteredExt{
			RegisteredExt: &gnmi_ext.RegisteredExtension{Id: gnmi_ext.ExtensionID(e.ID), Msg: e.Bytes}}})
	}
	return out
}

// SetRequest builds the real request and passes it through the wire encoding, so that it is
// exactly what a decoded request looks like.
func (r *Req) SetRequest() (*pb.SetRequest, error) {
	req := &pb.SetRequest{Prefix: GPath(r.Prefix), Extension: GExts(r.Exts)}
	for _, p := range r.Delete {
		req.Delete = append(req.Delete, GPath(p))
	}
	for _, u := range r.Replace {
		req.Replace = append(req.Replace, GUpdate(u))
	}
	for _, u := range r.Update {
		req.Update = append(req.Update, GUpdate(u))
	}
	b, err := proto.Marshal(req)
	if err != nil {
		return nil, err
	}
	out := &pb.SetRequest{}
	if err := proto.Unmarshal(b, out); err != nil {
		return nil, err
	}
	return out, nil
}

// GetRequest builds the real request through the wire encoding.
func (r *Req) GetRequest() (*pb.GetRequest, error) {
	req := &pb.GetRequest{Prefix: GPath(r.Prefix), Extension: GExts(r.Exts), Encoding: pb.Encoding(r.Enc), Type: pb.GetRequest_DataType(r.Type)}
	for _, p := range r.Paths {
		req.Path = append(req.Path, GPath(p))
	}
	b, err := proto.Marshal(req)
	if err != nil {
		return nil, err
	}
	out := &pb.GetRequest{}
	if err := proto.Unmarshal(b, out); err != nil {
		return nil, err
	}
	return out, nil
}

// SubMsg is one message of a Subscribe stream.
type SubMsg struct {
	Kind   string // S P O
	Prefix *PathMsg
	Subs   []*PathMsg // nil member = subscription without path
}

// EncSubMsg is the token of a stream message.
func EncSubMsg(m SubMsg) string {
	switch m.Kind {
	case "P", "O":
		return m.Kind
	}
	parts := []string{"S", EncPath(m.Prefix)}
	for _, s := range m.Subs {
		parts = append(parts, EncPath(s))
	}
	return strings.Join(parts, "@")
}

// DecSubMsg decodes a stream message token.
func DecSubMsg(tok string) (SubMsg, bool) {
	if tok == "P" || tok == "O" {
		return SubMsg{Kind: tok}, true
	}
	parts := strings.Split(tok, "@")
	if len(parts) < 2 || parts[0] != "S" {
		return SubMsg{}, false
	}
	m := SubMsg{Kind: "S"}
	p, ok := DecPath(parts[1])
	if !ok {
		return SubMsg{}, false
	}
	m.Prefix = p
	for _, s := range parts[2:] {
		sp, ok := DecPath(s)
		if !ok {
			return SubMsg{}, false
		}
		m.Subs = append(m.Subs, sp)
	}
	return m, true
}

// SubscribeRequest builds the real message through the wire encoding.
func (m SubMsg) SubscribeRequest() (*pb.SubscribeRequest, error) {
	req := &pb.SubscribeRequest{}
	switch m.Kind {
	case "P":
		req.Request = &pb.SubscribeRequest_Poll{Poll: &pb.Poll{}}
	case "S":
		sl := &pb.SubscriptionList{Prefix: GPath(m.Prefix)}
		for _, s := range m.Subs {
			sl.Subscription = append(sl.Subscription, &pb.Subscription{Path: GPath(s)})
		}
		req.Request = &pb.SubscribeRequest_Subscribe{Subscribe: sl}
	}
	b, err := proto.Marshal(req)
	if err != nil {
		return nil, err
	}
	out := &pb.SubscribeRequest{}
	if err := proto.Unmarshal(b, out); err != nil {
		return nil, err
	}
	return out, nil
}

// LeafSelRequest builds the admin request; the change context goes through the wire encoding.
func LeafSelRequest(target, typ, version, selPath string, ctx *Req) (*adminapi.LeafSelectionQueryRequest, error) {
	req := &adminapi.LeafSelectionQueryRequest{Target: target, Type: typ, Version: version, SelectionPath: selPath}
	if ctx != nil {
		sr, err := ctx.SetRequest()
		if err != nil {
			return nil, err
		}
		req.ChangeContext = sr
	}
	return req, nil
}
