package nbreal

// The real side runs in recycled child processes.
//
// The atomix in-memory test client the stores run on cannot be released completely: every
// environment leaves goroutines behind that keep re-dialling its stopped servers, and one of its
// goroutines calls os.Exit(1) when a service is stopped before it got to serve.  So the handlers do
// not run in the process that drives the check: New() hands out a proxy that forwards the script
// lines of a case to a child process (this same binary, started with NBREAL_WORKER=1, answering on
// fd 3), children are replaced after a fixed number of cases, and a child that dies is replaced and
// the case replayed from its first line.

import (
	"bufio"
	"fmt"
	"io"
	"os"
	"os/exec"
	"strings"
	"sync"
)

const (
	workerEnv      = "NBREAL_WORKER"
	casesPerWorker = 120
	maxWorkers     = 16
)

func init() {
	if os.Getenv(workerEnv) == "1" {
		runWorker()
		os.Exit(0)
	}
}

// runWorker serves script lines read from stdin; answers go to fd 3 (stdout stays free for
// whatever the libraries print).
func runWorker() {
	out := os.NewFile(3, "answers")
	if out == nil {
		os.Exit(3)
	}
	w := bufio.NewWriter(out)
	in := bufio.NewReaderSize(os.Stdin, 1<<20)
	r := NewLocal()
	for {
		line, err := in.ReadString('\n')
		if err != nil {
			r.Close()
			return
		}
		line = strings.TrimRight(line, "\n")
		var ans string
		if line == "@close" {
			r.Close()
			r = NewLocal()
			ans = "closed"
		} else {
			ans = strings.ReplaceAll(r.Exec(line), "\n", "\\n")
		}
		if _, err := w.WriteString(ans + "\n"); err != nil {
			return
		}
		if err := w.Flush(); err != nil {
			return
		}
	}
}

type child struct {
	cmd   *exec.Cmd
	in    io.WriteCloser
	out   *bufio.Reader
	outF  *os.File
	cases int
}

func spawn() (*child, error) {
	exe, err := os.Executable()
	if err != nil {
		return nil, err
	}
	pr, pw, err := os.Pipe()
	if err != nil {
		return nil, err
	}
	cmd := exec.Command(exe)
	cmd.Env = append(os.Environ(), workerEnv+"=1", "GOMAXPROCS=4", "GOMEMLIMIT=1GiB")
	cmd.ExtraFiles = []*os.File{pw}
	cmd.Stdout = nil
	cmd.Stderr = nil
	in, err := cmd.StdinPipe()
	if err != nil {
		return nil, err
	}
	if err := cmd.Start(); err != nil {
		return nil, err
	}
	_ = pw.Close()
	return &child{cmd: cmd, in: in, out: bufio.NewReaderSize(pr, 1<<20), outF: pr}, nil
}

func (c *child) ask(line string) (string, error) {
	if _, err := io.WriteString(c.in, line+"\n"); err != nil {
		return "", err
	}
	ans, err := c.out.ReadString('\n')
	if err != nil {
		return "", err
	}
	return strings.TrimRight(ans, "\n"), nil
}

func (c *child) kill() {
	_ = c.in.Close()
	_ = c.cmd.Process.Kill()
	_ = c.cmd.Wait()
	_ = c.outF.Close()
}

type workerPool struct {
	mu    sync.Mutex
	idle  []*child
	total int
	cond  *sync.Cond
}

var pool = func() *workerPool {
	p := &workerPool{}
	p.cond = sync.NewCond(&p.mu)
	return p
}()

func (p *workerPool) acquire() (*child, error) {
	p.mu.Lock()
	for {
		if n := len(p.idle); n > 0 {
			c := p.idle[n-1]
			p.idle = p.idle[:n-1]
			p.mu.Unlock()
			return c, nil
		}
		if p.total < maxWorkers {
			p.total++
			p.mu.Unlock()
			c, err := spawn()
			if err != nil {
				p.mu.Lock()
				p.total--
				p.cond.Signal()
				p.mu.Unlock()
				return nil, err
			}
			return c, nil
		}
		p.cond.Wait()
	}
}

func (p *workerPool) release(c *child, healthy bool) {
	c.cases++
	if !healthy || c.cases >= casesPerWorker {
		c.kill()
		p.mu.Lock()
		p.total--
		p.cond.Signal()
		p.mu.Unlock()
		return
	}
	p.mu.Lock()
	p.idle = append(p.idle, c)
	p.cond.Signal()
	p.mu.Unlock()
}

// Remote executes the lines of one case in a child process.
type Remote struct {
	c       *child
	history []string
}

// New returns the executor of one case.
func New() *Remote { return &Remote{} }

// Exec forwards one line; a dead child is replaced and the case replayed.
func (r *Remote) Exec(line string) string {
	if strings.ContainsAny(line, "\n\r") {
		return "bad-op"
	}
	for attempt := 0; attempt < 3; attempt++ {
		if r.c == nil {
			c, err := pool.acquire()
			if err != nil {
				return "worker-error " + strings.ReplaceAll(err.Error(), " ", "_")
			}
			r.c = c
			ok := true
			for _, h := range r.history {
				if _, err := r.c.ask(h); err != nil {
					ok = false
					break
				}
			}
			if !ok {
				pool.release(r.c, false)
				r.c = nil
				continue
			}
		}
		ans, err := r.c.ask(line)
		if err == nil {
			r.history = append(r.history, line)
			return ans
		}
		pool.release(r.c, false)
		r.c = nil
	}
	return fmt.Sprintf("worker-died on %q", line)
}

// Close ends the case and gives the child back.
func (r *Remote) Close() {
	if r.c == nil {
		return
	}
	_, err := r.c.ask("@close")
	pool.release(r.c, err == nil)
	r.c = nil
}
