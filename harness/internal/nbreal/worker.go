package nbreal

// The real side runs in recycled child processes.
//
// The atomix in-memory test client the stores run on cannot be released completely: every
// environment leaves goroutines behind that keep re-dialling its stopped servers, and one of its
// goroutines calls os.Exit(1) when a service is stopped before it got to serve.  So the handlers do
// not run in the process that drives the check: New() hands out a proxy that forwards the script
// lines of a case to a child process (this same binary, started with NBREAL_WORKER=1, answering on
// fd 3), children are replaced after a fixed number of cases.
//
// A child that dies while it serves a line is an observation, not an accident: a panic in a
// goroutine the handler spawned cannot be recovered and takes the server process down, which is
// exactly what C12 forbids.  The line is run again in fresh children — alone (after the nb.env
// line), then after the whole history of the case — and if the child dies again the answer is
// `panic process-died`, which the C12 monitor reports with the request as replay.  Half of the
// children run with GOMAXPROCS=1, which makes goroutine interleavings deterministic.

import (
	"bufio"
	"fmt"
	"io"
	"os"
	"os/exec"
	"runtime"
	"strings"
	"sync"
	"sync/atomic"
	"time"
)

const (
	workerEnv      = "NBREAL_WORKER"
	casesPerWorker = 120
	maxWorkers     = 16
)

func init() {
	if os.Getenv(workerEnv) == "1" {
		runWorker()
		os.Exit(0)
	}
}

// runWorker serves script lines read from stdin; answers go to fd 3 (stdout stays free for
// whatever the libraries print).
func runWorker() {
	out := os.NewFile(3, "answers")
	if out == nil {
		os.Exit(3)
	}
	w := bufio.NewWriter(out)
	in := bufio.NewReaderSize(os.Stdin, 1<<20)
	r := NewLocal()
	for {
		line, err := in.ReadString('\n')
		if err != nil {
			r.Close()
			return
		}
		line = strings.TrimRight(line, "\n")
		var ans string
		if line == "@close" {
			r.Close()
			r = NewLocal()
			ans = "closed"
		} else {
			ans = strings.ReplaceAll(r.Exec(line), "\n", "\\n")
			settle(line)
		}
		if _, err := w.WriteString(ans + "\n"); err != nil {
			return
		}
		if err := w.Flush(); err != nil {
			return
		}
	}
}

// settle lets goroutines a handler left behind run before the answer is given, so that a panic
// in one of them is attributed to the request that spawned it.
func settle(line string) {
	if !(strings.HasPrefix(line, "nb.get") || strings.HasPrefix(line, "nb.sub") || strings.HasPrefix(line, "nb.set")) {
		return
	}
	for i := 0; i < 20; i++ {
		runtime.Gosched()
	}
	if strings.HasPrefix(line, "nb.get") && strings.Contains(line, " x=R:111:1.") {
		time.Sleep(2 * time.Millisecond) // SYNCHRONOUS Get: one goroutine per target
		for i := 0; i < 20; i++ {
			runtime.Gosched()
		}
	}
}

type child struct {
	cmd   *exec.Cmd
	in    io.WriteCloser
	out   *bufio.Reader
	outF  *os.File
	cases int
}

var spawned uint64

func spawn() (*child, error) {
	procs := "GOMAXPROCS=4"
	if atomic.AddUint64(&spawned, 1)%2 == 0 {
		procs = "GOMAXPROCS=1"
	}
	exe, err := os.Executable()
	if err != nil {
		return nil, err
	}
	pr, pw, err := os.Pipe()
	if err != nil {
		return nil, err
	}
	cmd := exec.Command(exe)
	cmd.Env = append(os.Environ(), workerEnv+"=1", procs, "GOMEMLIMIT=1GiB")
	cmd.ExtraFiles = []*os.File{pw}
	cmd.Stdout = nil
	cmd.Stderr = nil
	in, err := cmd.StdinPipe()
	if err != nil {
		return nil, err
	}
	if err := cmd.Start(); err != nil {
		return nil, err
	}
	_ = pw.Close()
	return &child{cmd: cmd, in: in, out: bufio.NewReaderSize(pr, 1<<20), outF: pr}, nil
}

func (c *child) ask(line string) (string, error) {
	if _, err := io.WriteString(c.in, line+"\n"); err != nil {
		return "", err
	}
	ans, err := c.out.ReadString('\n')
	if err != nil {
		return "", err
	}
	return strings.TrimRight(ans, "\n"), nil
}

func (c *child) kill() {
	_ = c.in.Close()
	_ = c.cmd.Process.Kill()
	_ = c.cmd.Wait()
	_ = c.outF.Close()
}

type workerPool struct {
	mu    sync.Mutex
	idle  []*child
	total int
	cond  *sync.Cond
}

var pool = func() *workerPool {
	p := &workerPool{}
	p.cond = sync.NewCond(&p.mu)
	return p
}()

func (p *workerPool) acquire() (*child, error) {
	p.mu.Lock()
	for {
		if n := len(p.idle); n > 0 {
			c := p.idle[n-1]
			p.idle = p.idle[:n-1]
			p.mu.Unlock()
			return c, nil
		}
		if p.total < maxWorkers {
			p.total++
			p.mu.Unlock()
			c, err := spawn()
			if err != nil {
				p.mu.Lock()
				p.total--
				p.cond.Signal()
				p.mu.Unlock()
				return nil, err
			}
			return c, nil
		}
		p.cond.Wait()
	}
}

func (p *workerPool) release(c *child, healthy bool) {
	c.cases++
	if !healthy || c.cases >= casesPerWorker {
		c.kill()
		p.mu.Lock()
		p.total--
		p.cond.Signal()
		p.mu.Unlock()
		return
	}
	p.mu.Lock()
	p.idle = append(p.idle, c)
	p.cond.Signal()
	p.mu.Unlock()
}

// Remote executes the lines of one case in a child process.
type Remote struct {
	c       *child
	history []string
}

// New returns the executor of one case.
func New() *Remote { return &Remote{} }

// attach gets a child and brings it to the state of the case so far.
func (r *Remote) attach(history []string) error {
	c, err := pool.acquire()
	if err != nil {
		return err
	}
	for _, h := range history {
		if _, err := c.ask(h); err != nil {
			pool.release(c, false)
			return err
		}
	}
	r.c = c
	return nil
}

// diesOn runs line after prefix in a fresh child and says whether the child died on it.
func diesOn(prefix []string, line string) bool {
	c, err := pool.acquire()
	if err != nil {
		return false
	}
	for _, h := range prefix {
		if _, err := c.ask(h); err != nil {
			pool.release(c, false)
			return false // died earlier: not this line's doing
		}
	}
	_, err = c.ask(line)
	if err != nil {
		pool.release(c, false)
		return true
	}
	_, err = c.ask("@close")
	pool.release(c, err == nil)
	return false
}

// Exec forwards one line.  If the child dies on it, the death is confirmed in fresh children and
// reported as the answer `panic process-died`.
func (r *Remote) Exec(line string) string {
	if strings.ContainsAny(line, "\n\r") {
		return "bad-op"
	}
	for attempt := 0; attempt < 3; attempt++ {
		if r.c == nil {
			if err := r.attach(r.history); err != nil {
				continue
			}
		}
		ans, err := r.c.ask(line)
		if err == nil {
			r.history = append(r.history, line)
			return ans
		}
		pool.release(r.c, false)
		r.c = nil
		// the child died serving this line: alone, then with the history, a few times (a race
		// between goroutines need not show every time)
		var alone []string
		if len(r.history) > 0 && strings.HasPrefix(r.history[0], "nb.env") {
			alone = r.history[:1]
		}
		for try := 0; try < 4; try++ {
			if diesOn(alone, line) || diesOn(r.history, line) {
				return "panic process-died"
			}
		}
		// not confirmed: an accident of the test client; serve the line again
	}
	return fmt.Sprintf("worker-died on %q", line)
}

// Close ends the case and gives the child back.
func (r *Remote) Close() {
	if r.c == nil {
		return
	}
	_, err := r.c.ask("@close")
	pool.release(r.c, err == nil)
	r.c = nil
}
