// Package nbreal executes the `nb.*` script lines of the northbound twin on the real handlers
// (nbenv: NewServerForVerif on the real stores), every call under recover(), and renders the
// canonical answer lines the twin is compared with.
package nbreal

import (
	"context"
	"crypto/sha256"
	"encoding/hex"
	"fmt"
	"io"
	"sort"
	"strconv"
	"strings"

	adminapi "github.com/onosproject/onos-api/go/onos/config/admin"
	configapi "github.com/onosproject/onos-api/go/onos/config/v2"
	"github.com/onosproject/onos-config/pkg/store/v2/configuration"
	"github.com/onosproject/onos-config/pkg/utils"
	pathutils "github.com/onosproject/onos-config/pkg/utils/path"
	"github.com/onosproject/onos-config/verifharness/internal/fw"
	"github.com/onosproject/onos-config/verifharness/internal/nbenv"
	"github.com/onosproject/onos-config/verifharness/internal/nbwire"
	pb "github.com/openconfig/gnmi/proto/gnmi"
	"google.golang.org/grpc/metadata"
	"google.golang.org/grpc/status"
)

// DriveRounds bounds the reconcile rounds that follow every created transaction (driving stops
// earlier when a whole round changes nothing).
const DriveRounds = 40

// Real is the in-process executor of one case (see worker.go: the checks run it inside recycled
// child processes).
type Real struct {
	env *nbenv.Env
}

// NewLocal returns an in-process executor without environment (the first line of a script creates it).
func NewLocal() *Real { return &Real{} }

// Close releases the environment.
func (r *Real) Close() {
	if r.env != nil {
		r.env.Close()
		r.env = nil
	}
}

// PanicSite maps a recovered panic value to the twin's site names.
func PanicSite(v interface{}) string {
	m := fmt.Sprint(v)
	switch {
	case strings.Contains(m, "nil pointer dereference"):
		return "nilDeref"
	case strings.Contains(m, "slice bounds out of range"), strings.Contains(m, "index out of range"):
		return "sliceBounds"
	case strings.Contains(m, "assignment to entry in nil map"):
		return "nilMapWrite"
	case strings.Contains(m, "regexp: Compile"):
		return "mustCompile"
	}
	return "other:" + strings.ReplaceAll(m, " ", "_")
}

// Cause maps an error text to the twin's cause names ("" = not a pre-store refusal).
func Cause(m string) string {
	switch {
	case strings.Contains(m, "key ") && strings.HasSuffix(m, " not found"):
		return "noConfig"
	case strings.Contains(m, "no updates, replace or deletes"):
		return "noOps"
	case strings.Contains(m, "not found") && strings.Contains(m, "object "):
		return "topoNotFound"
	case strings.Contains(m, "no aspects found"), strings.Contains(m, "aspect '") && strings.Contains(m, "not found"):
		return "noAspect"
	case strings.Contains(m, "plugin not found"), strings.Contains(m, "error getting plugin"):
		return "noPlugin"
	case strings.Contains(m, "unable to find exact match for RW model path"):
		return "noExactPath"
	case strings.Contains(m, "unable to find RW model path"):
		return "noModelPath"
	case strings.Contains(m, "not yet supported"), strings.Contains(m, "Not yet supported"), strings.Contains(m, "empty leaf list given"),
		strings.Contains(m, "NaN is not supported"), strings.Contains(m, "decimal64 precision"):
		return "valueConv"
	case strings.Contains(m, "does not match pattern"):
		return "indexChars"
	case strings.Contains(m, "index attribute"):
		return "keyMismatch"
	case strings.Contains(m, "fake plugin"):
		return "pluginErr"
	case strings.Contains(m, "must contain only 1 target"):
		return "tooManyTargets"
	case strings.Contains(m, "must not exceed"):
		return "tooManyOps"
	case strings.Contains(m, "invalid path"):
		return "invalidPath"
	case strings.Contains(m, "invalid encoding format"):
		return "badEncoding"
	case strings.Contains(m, "has no target"):
		return "noTarget"
	case strings.Contains(m, "client for target"):
		return "noConn"
	case strings.Contains(m, "duplicate subscription message"):
		return "dupSubscribe"
	case strings.Contains(m, "subscription request not received yet"):
		return "pollFirst"
	case strings.Contains(m, "unknown subscription message type"):
		return "unknownSubMsg"
	case strings.Contains(m, "Prefix or at least one path must specify a target"):
		return "noSubTarget"
	case strings.Contains(m, "proto:"), strings.Contains(m, "unexpected EOF"), strings.Contains(m, "illegal wireType"), strings.Contains(m, "wrong wireType"), strings.Contains(m, "illegal tag"):
		return "badExt"
	}
	return ""
}

func errLine(err error, notFoundCause string) string {
	code := status.Code(err).String()
	c := Cause(err.Error())
	if c == "" && code == "NotFound" && notFoundCause != "" {
		c = notFoundCause
	}
	if c == "" {
		return ""
	}
	return "err " + code + " " + c
}

func encPV(v *configapi.PathValue) string {
	if v.Deleted {
		return "D"
	}
	k := "O"
	switch v.Value.Type {
	case configapi.ValueType_EMPTY:
		k = "E"
	case configapi.ValueType_STRING:
		k = "S"
	case configapi.ValueType_INT:
		k = "I"
	case configapi.ValueType_UINT:
		k = "U"
	case configapi.ValueType_BOOL:
		k = "B"
	}
	return k + "." + fw.EncStr(v.Value.ValueToString())
}

// EncTx is the canonical line of a created change transaction.
func EncTx(t *configapi.Transaction, respOK bool) string {
	toks := []string{"ok"}
	if respOK {
		toks = append(toks, "resp=ok")
	} else {
		toks = append(toks, "resp=err")
	}
	toks = append(toks, fmt.Sprintf("st=%d.%d", uint32(t.TransactionStrategy.Synchronicity), uint32(t.TransactionStrategy.Isolation)))
	var ov []string
	if t.TargetVersionOverrides != nil {
		for k, v := range t.TargetVersionOverrides.Overrides {
			if v == nil {
				ov = append(ov, fw.EncStr(k)+"~!")
			} else {
				ov = append(ov, fw.EncStr(k)+"~"+fw.EncStr(string(v.TargetType))+"~"+fw.EncStr(string(v.TargetVersion)))
			}
		}
	}
	sort.Strings(ov)
	if len(ov) == 0 {
		toks = append(toks, "ov=-")
	} else {
		toks = append(toks, "ov="+strings.Join(ov, ";"))
	}
	var ts, cs []string
	if ch := t.GetChange(); ch != nil {
		for tg, vals := range ch.Values {
			ts = append(ts, "t:"+fw.EncStr(string(tg)))
			if vals == nil {
				continue
			}
			for p, v := range vals.Values {
				cs = append(cs, "c:"+fw.EncStr(string(tg))+":"+fw.EncStr(p)+":"+encPV(v))
			}
		}
	}
	sort.Strings(ts)
	sort.Strings(cs)
	toks = append(toks, ts...)
	toks = append(toks, cs...)
	return strings.Join(toks, " ")
}

type call struct {
	panicked bool
	pval     interface{}
	err      error
}

func guarded(f func() error) (c call) {
	// `returned` and not `recover() != nil` decides: the module says go 1.19, so panic(nil) keeps its old
	// meaning and recover() answers nil for it, while a real server still dies of it
	returned := false
	defer func() {
		if r := recover(); r != nil || !returned {
			c.panicked, c.pval = true, r
			if r == nil {
				c.pval = "panic(nil)"
			}
		}
	}()
	c.err = f()
	returned = true
	return
}

// Exec runs one script line.
func (r *Real) Exec(line string) string {
	toks := strings.Fields(line)
	if len(toks) == 0 {
		return "bad-op"
	}
	op, args := toks[0], toks[1:]
	if op == "nb.env" {
		spec, ok := nbwire.DecEnv(args)
		if !ok {
			return "bad-op"
		}
		r.Close()
		e, err := nbenv.New(spec)
		if err != nil {
			return "env-error " + err.Error()
		}
		r.env = e
		return "ok"
	}
	if pure := execPure(op, args); pure != "" {
		return pure
	}
	if r.env == nil {
		return "bad-op"
	}
	e := r.env
	ctx := context.Background()
	switch op {
	case "obs":
		d := sha256.Sum256([]byte(e.ConfigDigest()))
		return fmt.Sprintf("obs log=%d creates=%d cfg=%s", e.LogLen(), e.Tx.Creates, hex.EncodeToString(d[:8]))
	case "nb.log":
		return fmt.Sprintf("log %d", e.LogLen())
	case "nb.set":
		rq, ok := nbwire.DecReq(args)
		if !ok {
			return "bad-op"
		}
		req, err := rq.SetRequest()
		if err != nil {
			return "bad-op"
		}
		before := len(e.Tx.Created)
		c := guarded(func() error { _, err := e.Gnmi.Set(ctx, req); return err })
		if c.panicked {
			return "panic " + PanicSite(c.pval)
		}
		if len(e.Tx.Created) > before {
			t := e.Tx.Created[len(e.Tx.Created)-1]
			if crash := e.Drive(t.Index, DriveRounds); crash != "" {
				return "panic downstream " + PanicSite(crash)
			}
			return EncTx(t, c.err == nil)
		}
		if c.err == nil {
			return "ok-without-transaction"
		}
		if l := errLine(c.err, ""); l != "" {
			return l
		}
		return "err " + status.Code(c.err).String() + " other:" + strings.ReplaceAll(c.err.Error(), " ", "_")
	case "nb.get":
		rq, ok := nbwire.DecReq(args)
		if !ok {
			return "bad-op"
		}
		req, err := rq.GetRequest()
		if err != nil {
			return "bad-op"
		}
		// (a SYNCHRONOUS Get that has to wait is ended by nbenv.CfgDecor, not by a deadline)
		gctx := ctx
		var resp *pb.GetResponse
		c := guarded(func() error { var err error; resp, err = e.Gnmi.Get(gctx, req); return err })
		if c.panicked {
			return "panic " + PanicSite(c.pval)
		}
		if c.err != nil {
			if l := errLine(c.err, "noConfig"); l != "" {
				return l
			}
			return "reached"
		}
		if rq.Type == 2 || rq.Type == 3 {
			return "relayed"
		}
		if len(resp.Notification) == 1 && len(resp.Notification[0].Update) == 1 &&
			resp.Notification[0].Update[0].GetPath().GetTarget() == "*" && len(resp.Notification[0].Update[0].GetPath().GetElem()) == 1 &&
			resp.Notification[0].Update[0].GetPath().GetElem()[0].Name == "all-targets" {
			return "all"
		}
		return "reached"
	case "nb.sub":
		var msgs []nbwire.SubMsg
		for _, a := range args {
			if !strings.HasPrefix(a, "m=") {
				return "bad-op"
			}
			m, ok := nbwire.DecSubMsg(a[2:])
			if !ok {
				return "bad-op"
			}
			msgs = append(msgs, m)
		}
		return r.execSub(msgs)
	case "nb.rollback":
		if len(args) != 1 {
			return "bad-op"
		}
		n, err := strconv.ParseUint(args[0], 10, 64)
		if err != nil {
			return "bad-op"
		}
		before := len(e.Tx.Created)
		c := guarded(func() error {
			_, err := e.Admin.RollbackTransaction(ctx, &adminapi.RollbackRequest{Index: configapi.Index(n)})
			return err
		})
		if c.panicked {
			return "panic " + PanicSite(c.pval)
		}
		if len(e.Tx.Created) > before {
			t := e.Tx.Created[len(e.Tx.Created)-1]
			if crash := e.Drive(t.Index, DriveRounds); crash != "" {
				return "panic downstream " + PanicSite(crash)
			}
		}
		if c.err != nil {
			return "err " + status.Code(c.err).String() + " other:" + strings.ReplaceAll(c.err.Error(), " ", "_")
		}
		return "ok"
	case "nb.gettx":
		if len(args) != 1 {
			return "bad-op"
		}
		n, err := strconv.ParseUint(args[0], 10, 64)
		if err != nil {
			return "bad-op"
		}
		c := guarded(func() error {
			_, err := e.Admin.GetTransaction(ctx, &adminapi.GetTransactionRequest{Index: configapi.Index(n), ID: "uuid:none"})
			return err
		})
		if c.panicked {
			return "panic " + PanicSite(c.pval)
		}
		if c.err != nil {
			if status.Code(c.err).String() == "NotFound" {
				return "err NotFound txNotFound"
			}
			return "err " + status.Code(c.err).String() + " other:" + strings.ReplaceAll(c.err.Error(), " ", "_")
		}
		return "ok"
	case "nb.cap":
		var n int
		c := guarded(func() error {
			resp, err := e.Gnmi.Capabilities(ctx, &pb.CapabilityRequest{})
			if err == nil {
				n = len(resp.SupportedModels)
			}
			return err
		})
		if c.panicked {
			return "panic " + PanicSite(c.pval)
		}
		if c.err != nil {
			return "err " + status.Code(c.err).String() + " other:" + strings.ReplaceAll(c.err.Error(), " ", "_")
		}
		return fmt.Sprintf("cap %d", n)
	case "nb.cfg":
		if len(args) != 4 {
			return "bad-op"
		}
		t, ok1 := fw.DecStr(args[0])
		ty, ok2 := fw.DecStr(args[1])
		v, ok3 := fw.DecStr(args[2])
		n, err := strconv.Atoi(args[3])
		if !ok1 || !ok2 || !ok3 || err != nil {
			return "bad-op"
		}
		cfg := &configapi.Configuration{ID: configuration.NewID(configapi.TargetID(t), configapi.TargetType(ty), configapi.TargetVersion(v)), TargetID: configapi.TargetID(t)}
		if n > 0 {
			cfg.Values = map[string]*configapi.PathValue{}
			for i := 0; i < n; i++ {
				p := fmt.Sprintf("/v%d", i)
				cfg.Values[p] = &configapi.PathValue{Path: p, Value: *configapi.NewTypedValueString("x")}
			}
		}
		if err := e.Cfgs.Create(ctx, cfg); err != nil {
			if status.Code(err).String() == "AlreadyExists" || strings.Contains(err.Error(), "already exists") || strings.Contains(strings.ToLower(err.Error()), "exists") {
				return "err AlreadyExists cfgExists"
			}
			return "err other:" + strings.ReplaceAll(err.Error(), " ", "_")
		}
		return "ok"
	case "nb.leafsel":
		if len(args) < 4 {
			return "bad-op"
		}
		t, ok1 := fw.DecStr(args[0])
		ty, ok2 := fw.DecStr(args[1])
		v, ok3 := fw.DecStr(args[2])
		sp, ok4 := fw.DecStr(args[3])
		if !ok1 || !ok2 || !ok3 || !ok4 {
			return "bad-op"
		}
		var cx *nbwire.Req
		if len(args) > 4 {
			if args[4] != "ctx" {
				return "bad-op"
			}
			var ok bool
			cx, ok = nbwire.DecReq(args[5:])
			if !ok {
				return "bad-op"
			}
		}
		req, err := nbwire.LeafSelRequest(t, ty, v, sp, cx)
		if err != nil {
			return "bad-op"
		}
		c := guarded(func() error { _, err := e.Admin.LeafSelectionQuery(ctx, req); return err })
		if c.panicked {
			return "panic " + PanicSite(c.pval)
		}
		if c.err != nil {
			m := c.err.Error()
			if strings.Contains(m, "error getting leaf selection") || strings.Contains(m, "error converting configuration to JSON") {
				return "reached" // after the configuration was rendered: the value layer's and the plugin's business
			}
			if l := errLine(c.err, "noConfig"); l != "" {
				return l
			}
		}
		return "reached"
	}
	return "bad-op"
}

// fakeStream feeds a fixed list of messages to Subscribe.
type fakeStream struct {
	ctx  context.Context
	msgs []*pb.SubscribeRequest
	i    int
	sent int
}

func (s *fakeStream) Send(*pb.SubscribeResponse) error { s.sent++; return nil }
func (s *fakeStream) Recv() (*pb.SubscribeRequest, error) {
	if s.i >= len(s.msgs) {
		return nil, io.EOF
	}
	m := s.msgs[s.i]
	s.i++
	return m, nil
}
func (s *fakeStream) SetHeader(metadata.MD) error  { return nil }
func (s *fakeStream) SendHeader(metadata.MD) error { return nil }
func (s *fakeStream) SetTrailer(metadata.MD)       {}
func (s *fakeStream) Context() context.Context     { return s.ctx }
func (s *fakeStream) SendMsg(m interface{}) error  { return nil }
func (s *fakeStream) RecvMsg(m interface{}) error  { return nil }

func encSplit(tr map[string]*pb.SubscribeRequest) string {
	var es []string
	for t, r := range tr {
		es = append(es, fmt.Sprintf("%s*%d", fw.EncStr(t), len(r.GetSubscribe().GetSubscription())))
	}
	sort.Strings(es)
	return "split:" + strings.Join(es, ",")
}

// execSub runs one stream through the real Subscribe (for crashes and the final error) and
// renders every message's outcome; the split of a subscription is read back from the fake
// southbound clients' recorded queries where possible and from the split hook otherwise.
func (r *Real) execSub(msgs []nbwire.SubMsg) string {
	e := r.env
	st := &fakeStream{ctx: context.Background()}
	for _, m := range msgs {
		req, err := m.SubscribeRequest()
		if err != nil {
			return "bad-op"
		}
		st.msgs = append(st.msgs, req)
	}
	c := guarded(func() error { return e.Gnmi.Subscribe(st) })
	if c.panicked {
		return "sub panic:" + PanicSite(c.pval)
	}
	// message by message, as far as the stream got
	out := []string{"sub"}
	subscribed := false
	for i, m := range msgs {
		if i >= st.i {
			break
		}
		last := i == st.i-1 && c.err != nil && c.err != io.EOF
		switch {
		case last:
			cause := Cause(c.err.Error())
			if cause == "" {
				cause = "other:" + strings.ReplaceAll(c.err.Error(), " ", "_")
			}
			out = append(out, "err:"+status.Code(c.err).String()+":"+cause)
		case m.Kind == "S":
			subscribed = true
			var tr map[string]*pb.SubscribeRequest
			g := guarded(func() error {
				var err error
				tr, err = nbgnmiSplit(st.msgs[i])
				return err
			})
			if g.panicked {
				out = append(out, "panic:"+PanicSite(g.pval))
			} else if g.err != nil {
				out = append(out, "err:"+status.Code(g.err).String()+":"+Cause(g.err.Error()))
			} else {
				out = append(out, encSplit(tr))
			}
		case m.Kind == "P":
			out = append(out, "polled")
		default:
			out = append(out, "?")
		}
	}
	_ = subscribed
	return strings.Join(out, " ")
}

// ---------------------------------------------------------------------------------------------
// the pure text functions of path.go / wildcards.go, differential-tested directly

func execPure(op string, args []string) (out string) {
	switch op {
	case "nb.rmidx", "nb.anon", "nb.idx", "nb.valid", "nb.idxok", "nb.wild", "nb.find":
	default:
		return ""
	}
	defer func() {
		if r := recover(); r != nil {
			out = "panic " + PanicSite(r)
		}
	}()
	if len(args) < 1 {
		return "bad-op"
	}
	s, ok := fw.DecStr(args[0])
	if !ok {
		return "bad-op"
	}
	switch op {
	case "nb.rmidx":
		return "ok " + fw.EncStr(pathutils.RemovePathIndices(s))
	case "nb.anon":
		return "ok " + fw.EncStr(pathutils.AnonymizePathIndices(s))
	case "nb.idx":
		ns, vs := pathutils.ExtractIndexNames(s)
		toks := []string{"ok"}
		for i := range ns {
			toks = append(toks, fw.EncStr(ns[i])+"="+fw.EncStr(vs[i]))
		}
		return strings.Join(toks, " ")
	case "nb.valid":
		if pathutils.IsPathValid(s) == nil {
			return "ok 1"
		}
		return "ok 0"
	case "nb.idxok":
		if pathutils.CheckPathIndexIsValid(s) == nil {
			return "ok 1"
		}
		return "ok 0"
	case "nb.wild":
		if len(args) != 2 {
			return "bad-op"
		}
		re := utils.MatchWildcardRegexp(s, args[1] == "1")
		return "ok " + fw.EncStr(re.String())
	case "nb.find":
		if len(args) != 3 {
			return "bad-op"
		}
		rw := pathutils.ReadWritePathMap{}
		if !strings.HasPrefix(args[2], "rw=") {
			return "bad-op"
		}
		if args[2] != "rw=" {
			for _, x := range strings.Split(args[2][3:], ",") {
				f := strings.Split(x, ";")
				if len(f) != 3 {
					return "bad-op"
				}
				p, _ := fw.DecStr(f[0])
				a, _ := fw.DecStr(f[2])
				rw[p] = adminapi.ReadWritePath{Path: p, IsAKey: f[1] == "1", AttrName: a}
			}
		}
		exact, e, err := pathutils.FindPathFromModel(s, rw, args[1] == "1")
		if err != nil {
			if l := errLine(err, ""); l != "" {
				// FindPathFromModel's own error, seen through errors.Status as the handlers do
				return "err " + statusThroughHandler(err) + " " + Cause(err.Error())
			}
			return "err other"
		}
		if exact {
			return "ok 1 " + fw.EncStr(e.AttrName)
		}
		return "ok 0"
	}
	return "bad-op"
}
