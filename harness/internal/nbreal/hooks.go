package nbreal

import (
	nbgnmi "github.com/onosproject/onos-config/pkg/northbound/gnmi/v2"
	"github.com/onosproject/onos-lib-go/pkg/errors"
	pb "github.com/openconfig/gnmi/proto/gnmi"
)

// nbgnmiSplit is splitSubscribeRequest through its verification hook.
func nbgnmiSplit(req *pb.SubscribeRequest) (map[string]*pb.SubscribeRequest, error) {
	return nbgnmi.SplitSubscribeRequestForVerif(req)
}

// statusThroughHandler is the gRPC code a handler reports for err (errors.Status(err)).
func statusThroughHandler(err error) string {
	return errors.Status(err).Code().String()
}
