// Package oracle talks to the Lean driver (`oracle`) over the line protocol.
package oracle

import (
	"bufio"
	"fmt"
	"io"
	"os/exec"
	"strings"
)

// O is a running driver process.
type O struct {
	cmd *exec.Cmd
	in  io.WriteCloser
	out *bufio.Reader
	N   int // lines answered
}

// Start launches the driver binary.
func Start(path string) (*O, error) {
	cmd := exec.Command(path)
	in, err := cmd.StdinPipe()
	if err != nil {
		return nil, err
	}
	out, err := cmd.StdoutPipe()
	if err != nil {
		return nil, err
	}
	if err := cmd.Start(); err != nil {
		return nil, err
	}
	return &O{cmd: cmd, in: in, out: bufio.NewReaderSize(out, 1<<20)}, nil
}

// Ask sends one operation line and returns the answer line.
func (o *O) Ask(line string) (string, error) {
	if strings.ContainsAny(line, "\n\r") {
		return "", fmt.Errorf("line contains newline: %q", line)
	}
	if _, err := io.WriteString(o.in, line+"\n"); err != nil {
		return "", err
	}
	ans, err := o.out.ReadString('\n')
	if err != nil {
		return "", fmt.Errorf("oracle died on %q: %v", line, err)
	}
	o.N++
	return strings.TrimRight(ans, "\n"), nil
}

// Close ends the driver.
func (o *O) Close() {
	_ = o.in.Close()
	_ = o.cmd.Wait()
}
