// Package quiet silences the onos-lib-go loggers of the code under test.  Its import path sorts
// before github.com/onosproject/onos-lib-go/..., so (Go >= 1.21 initialises packages in import-path
// order among those whose dependencies are ready) its init runs before the init functions of
// onos-lib-go packages that log at start-up (pkg/auth warns about a missing OIDC server).
package quiet

import "github.com/onosproject/onos-lib-go/pkg/logging"

func init() { logging.SetLevel(logging.FatalLevel) }

// On does nothing; importing the package is what matters.
func On() {}
