package fw

import (
	"bufio"
	"encoding/json"
	"fmt"
	"io"
	"os"
	"os/exec"
	"strconv"
	"strings"
	"sync"

	"github.com/onosproject/onos-config/verifharness/internal/rng"
)

// Subprocess mode: the real executor (and the generator, when it needs the real system) runs in
// child processes of the same binary (`corr -worker -prop <id>`), which call the real code
// in-process and are recycled after a number of cases — the atomix in-memory test client leaks
// memory and goroutines for every instance, so one long-lived process cannot run thousands of
// fresh systems.

const sep = "\x1f"

// WorkerMain is the child side: it serves generation and execution requests on stdin/stdout.
func WorkerMain(p *Prop) {
	in := bufio.NewReaderSize(os.Stdin, 1<<20)
	out := bufio.NewWriterSize(os.Stdout, 1<<20)
	var cur Real
	for {
		line, err := in.ReadString('\n')
		if err != nil {
			return
		}
		line = strings.TrimRight(line, "\n")
		switch {
		case strings.HasPrefix(line, "#gen "):
			f := strings.Fields(line)
			st, _ := strconv.ParseUint(f[2], 10, 64)
			c := p.Gen(rng.FromState(st), f[1])
			b, _ := json.Marshal(c)
			fmt.Fprintf(out, "%s\n", b)
		case line == "#new":
			if cur != nil {
				cur.Close()
			}
			cur = p.NewReal()
			fmt.Fprintln(out, "ok")
		case line == "#close":
			if cur != nil {
				cur.Close()
				cur = nil
			}
			fmt.Fprintln(out, "ok")
		default:
			if cur == nil {
				cur = p.NewReal()
			}
			var o, tl string
			if h, ok := cur.(Hinter); ok {
				o, tl = h.ExecHint(line)
			} else {
				o, tl = cur.Exec(line), line
			}
			fmt.Fprintf(out, "%s%s%s\n", strings.ReplaceAll(o, "\n", " "), sep, tl)
		}
		out.Flush()
	}
}

type child struct {
	cmd  *exec.Cmd
	in   io.WriteCloser
	out  *bufio.Reader
	uses int
}

type pool struct {
	mu      sync.Mutex
	propID  string
	free    []*child
	recycle int
}

func (pl *pool) spawn() (*child, error) {
	exe, err := os.Executable()
	if err != nil {
		return nil, err
	}
	cmd := exec.Command(exe, "-worker", "-prop", pl.propID)
	cmd.Stderr = nil
	cmd.Env = append(os.Environ(), "GOMEMLIMIT=3GiB")
	in, err := cmd.StdinPipe()
	if err != nil {
		return nil, err
	}
	o, err := cmd.StdoutPipe()
	if err != nil {
		return nil, err
	}
	if err := cmd.Start(); err != nil {
		return nil, err
	}
	return &child{cmd: cmd, in: in, out: bufio.NewReaderSize(o, 1<<20)}, nil
}

func (pl *pool) get() (*child, error) {
	pl.mu.Lock()
	if n := len(pl.free); n > 0 {
		c := pl.free[n-1]
		pl.free = pl.free[:n-1]
		pl.mu.Unlock()
		return c, nil
	}
	pl.mu.Unlock()
	return pl.spawn()
}

func (c *child) kill() {
	_ = c.in.Close()
	_ = c.cmd.Process.Kill()
	_ = c.cmd.Wait()
}

func (pl *pool) put(c *child) {
	c.uses++
	if c.uses >= pl.recycle {
		c.kill()
		return
	}
	pl.mu.Lock()
	pl.free = append(pl.free, c)
	pl.mu.Unlock()
}

func (pl *pool) closeAll() {
	pl.mu.Lock()
	defer pl.mu.Unlock()
	for _, c := range pl.free {
		c.kill()
	}
	pl.free = nil
}

func (c *child) ask(line string) (string, error) {
	if _, err := io.WriteString(c.in, line+"\n"); err != nil {
		return "", err
	}
	ans, err := c.out.ReadString('\n')
	if err != nil {
		return "", err
	}
	return strings.TrimRight(ans, "\n"), nil
}

// subReal is a Real (and Hinter) backed by a child process.
type subReal struct {
	pl   *pool
	c    *child
	dead bool
}

func (s *subReal) Exec(line string) string {
	o, _ := s.ExecHint(line)
	return o
}

func (s *subReal) ExecHint(line string) (string, string) {
	if s.dead {
		return "worker-died", line
	}
	ans, err := s.c.ask(line)
	if err != nil {
		s.dead = true
		return "worker-died " + err.Error(), line
	}
	o, tl, ok := strings.Cut(ans, sep)
	if !ok {
		return ans, line
	}
	return o, tl
}

func (s *subReal) Close() {
	if s.dead {
		s.c.kill()
		return
	}
	if _, err := s.c.ask("#close"); err != nil {
		s.c.kill()
		return
	}
	s.pl.put(s.c)
}

// viaSubprocess returns a copy of the property whose executor and generator run in children.
func viaSubprocess(p *Prop) (*Prop, *pool) {
	pl := &pool{propID: p.ID, recycle: 20}
	q := *p
	q.NewReal = func() Real {
		c, err := pl.get()
		if err != nil {
			return RealFunc(func(string) string { return "worker-spawn-failed " + err.Error() })
		}
		if _, err := c.ask("#new"); err != nil {
			c.kill()
			return RealFunc(func(string) string { return "worker-died" })
		}
		return &subReal{pl: pl, c: c}
	}
	if p.GenInWorker {
		q.Gen = func(r *rng.R, tier string) Case {
			c, err := pl.get()
			if err != nil {
				return Case{}
			}
			ans, err := c.ask(fmt.Sprintf("#gen %s %d", tier, r.State()))
			if err != nil {
				c.kill()
				return Case{}
			}
			var cs Case
			_ = json.Unmarshal([]byte(ans), &cs)
			pl.put(c)
			return cs
		}
	}
	return &q, pl
}
