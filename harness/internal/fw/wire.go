package fw

import (
	"encoding/hex"
	"sort"
	"strings"

	pb "github.com/openconfig/gnmi/proto/gnmi"
)

// EncStr is the wire form of a string: hex of its bytes, "-" when empty.
func EncStr(s string) string {
	if s == "" {
		return "-"
	}
	return hex.EncodeToString([]byte(s))
}

// DecStr inverts EncStr.
func DecStr(h string) (string, bool) {
	if h == "-" {
		return "", true
	}
	b, err := hex.DecodeString(h)
	if err != nil {
		return "", false
	}
	return string(b), true
}

// EncElem is the wire form of a path element (keys sorted by name).
func EncElem(e *pb.PathElem) string {
	var b strings.Builder
	b.WriteString("e:")
	b.WriteString(EncStr(e.Name))
	ks := make([]string, 0, len(e.Key))
	for k := range e.Key {
		ks = append(ks, k)
	}
	sort.Strings(ks)
	for _, k := range ks {
		b.WriteString(";")
		b.WriteString(EncStr(k))
		b.WriteString("=")
		b.WriteString(EncStr(e.Key[k]))
	}
	return b.String()
}

// EncElems joins elements with spaces.
func EncElems(es []*pb.PathElem) string {
	parts := make([]string, len(es))
	for i, e := range es {
		parts[i] = EncElem(e)
	}
	return strings.Join(parts, " ")
}

// DecElem inverts EncElem.
func DecElem(tok string) (*pb.PathElem, bool) {
	if !strings.HasPrefix(tok, "e:") {
		return nil, false
	}
	parts := strings.Split(tok[2:], ";")
	name, ok := DecStr(parts[0])
	if !ok {
		return nil, false
	}
	e := &pb.PathElem{Name: name}
	for _, kv := range parts[1:] {
		k, v, ok := strings.Cut(kv, "=")
		if !ok {
			return nil, false
		}
		ks, ok1 := DecStr(k)
		vs, ok2 := DecStr(v)
		if !ok1 || !ok2 {
			return nil, false
		}
		if e.Key == nil {
			e.Key = map[string]string{}
		}
		e.Key[ks] = vs
	}
	return e, true
}

// DecElems decodes a token list.
func DecElems(toks []string) ([]*pb.PathElem, bool) {
	var out []*pb.PathElem
	for _, t := range toks {
		e, ok := DecElem(t)
		if !ok {
			return nil, false
		}
		out = append(out, e)
	}
	return out, true
}

// Join builds an answer line, dropping a trailing empty tail.
func Join(toks ...string) string {
	return strings.TrimRight(strings.Join(toks, " "), " ")
}
