// Package fw is the shared correspondence framework: it generates cases from one PRNG, runs
// every case's operation script on the real code (in-process) and on the Lean twin (the
// `oracle` driver), diffs the canonical answers, evaluates the property's own monitor on the
// real answers, shrinks what fails, attributes failures to listed known findings by signature,
// and writes a machine-readable result that ./check turns into evidence.
package fw

import (
	"encoding/json"
	"fmt"
	"os"
	"path/filepath"
	"sort"
	"strings"
	"sync"
	"time"

	"github.com/onosproject/onos-config/verifharness/internal/oracle"
	"github.com/onosproject/onos-config/verifharness/internal/rng"
)

// Case is one generated or stored case: the script is the same on both sides.
type Case struct {
	Script     []string `json:"script"`
	Tags       []string `json:"tags,omitempty"`
	Nontrivial bool     `json:"nontrivial"`
	Origin     string   `json:"origin,omitempty"` // "gen:<n>", "enum:<n>", "corpus:<file>"
	genIndex   int      // >0: still to be generated (case number + 1)
}

// Real executes script lines on the implementation.  One Real per case (scripts may be stateful).
type Real interface {
	Exec(line string) string
	Close()
}

// Hinter is implemented by executors whose real run resolves nondeterminism (Go map iteration
// order, random choices) that the twin has to be told about: the twin receives `twinLine`
// (the line plus hints) instead of the line.
type Hinter interface {
	ExecHint(line string) (out string, twinLine string)
}

// RealFunc adapts a stateless function.
type RealFunc func(line string) string

// Exec runs the function.
func (f RealFunc) Exec(line string) string { return f(line) }

// Close does nothing.
func (f RealFunc) Close() {}

// Prop describes one property's correspondence check.
type Prop struct {
	ID       string
	Rule     string // how cases are generated and what counts as non-trivial
	Quick    int    // generated cases per tier
	Thorough int
	Workers  int // 0 = default
	// Gen produces one case from its own PRNG stream.
	Gen func(r *rng.R, tier string) Case
	// Enumerate returns the exhaustively enumerated part (may be nil).
	Enumerate func(tier string) []Case
	// NewReal returns the executor of one case on the real code.
	NewReal func() Real
	// Monitor evaluates the property's observable statement on the real answers of a case.
	// It must not consult the oracle.  It returns one message per failure.
	Monitor func(c Case, realOut []string) []string
	// Sigs are the decidable signatures of listed known findings (KNOWN_FINDINGS.txt `sig=`).
	Sigs map[string]func(c Case, realOut []string, msg string) bool
	// Shrink proposes smaller variants of a case (may be nil).
	Shrink func(c Case) []Case
	// Match decides whether the twin's answer admits the implementation's answer for a line
	// (nil = string equality).  For lines whose real outcome is legitimately non-deterministic the
	// twin answers with the set of outcomes and Match checks membership.
	Match func(line, realOut, twinOut string) bool
	// Agree is an older name of Match (same meaning); used when Match is nil.
	Agree func(line, real, twin string) bool
	// OutcomeTags adds tags derived from the real answers of a case to the printed distribution
	// (which branches / error kinds were actually hit); may be nil.
	OutcomeTags func(c Case, realOut []string) []string
	// Reset, when non-empty, is sent to the twin before every case (answer ignored): stateful twins
	// must not carry state into a case whose own init line was shrunk away.
	Reset string
	// Subprocess: run the real executor in recycled child processes (see subproc.go);
	// GenInWorker: the generator needs the real system too and also runs there.
	Subprocess  bool
	GenInWorker bool
	// DeterministicScripts: every choice of a case is in its script (scheduling, faults, injections), so a
	// difference between twin and implementation is a deterministic function of the script: a disagreement that two
	// re-runs of the SAME script do not show is an event of the test infrastructure (an atomix call of the
	// in-process test client timing out on a loaded machine) - counted in the result, not reported as a violation.
	// Monitor failures are never filtered this way.
	DeterministicScripts bool
	// Protected lines are never dropped by the shrinker (set-up lines such as a reset).
	Protected func(line string) bool
	// FixedLayout: the monitor addresses lines by position, so the shrinker must not drop lines.
	FixedLayout bool
	// NoOracle marks lines that are not sent to the twin (real-only observation lines).
	RealOnly func(line string) bool
}

// PostHinter may be implemented by a Real whose last Exec resolved a nondeterministic choice of the
// implementation (Go map iteration order, a random pick); see runCase.
type PostHinter interface {
	Hint() string
}

// Failure is one reported problem.
type Failure struct {
	Kind    string   `json:"kind"` // "monitor" | "correspondence"
	Msg     string   `json:"msg"`
	Case    Case     `json:"case"`
	RealOut []string `json:"real_out"`
	TwinOut []string `json:"twin_out,omitempty"`
	Known   string   `json:"known,omitempty"` // id of the listed finding it was attributed to
	Replay  string   `json:"replay,omitempty"`
	NoInput bool     `json:"no_failing_input_found,omitempty"`
}

// Result is what one run covered and found.
type Result struct {
	Property           string         `json:"property"`
	Tier               string         `json:"tier"`
	Seed               uint64         `json:"seed"`
	Evaluations        int            `json:"evaluations"`
	DistinctNontrivial int            `json:"distinct_nontrivial"`
	Distinct           int            `json:"distinct"`
	Enumerated         int            `json:"enumerated"`
	CorpusCases        int            `json:"corpus_cases"`
	Lines              int            `json:"lines_compared"`
	Rule               string         `json:"rule"`
	Distribution       map[string]int `json:"distribution"`
	Samples            []Case         `json:"samples"`
	KnownHits          map[string]int `json:"known_hits"`
	KnownReproduced    []string       `json:"known_reproduced"`
	UnreproducedDisagreements int     `json:"unreproduced_disagreements"`
	Violations         []Failure      `json:"violations"`
	WallS              float64        `json:"wall_s"`
}

// Known is one line of KNOWN_FINDINGS.txt.
type Known struct {
	Property string
	ID       string
	Sig      string
	Replay   string
	Text     string
}

// LoadKnown reads the `known:` lines of KNOWN_FINDINGS.txt for one property.
func LoadKnown(path, prop string) []Known {
	b, err := os.ReadFile(path)
	if err != nil {
		return nil
	}
	var out []Known
	for _, ln := range strings.Split(string(b), "\n") {
		ln = strings.TrimSpace(ln)
		if !strings.HasPrefix(ln, "known:") {
			continue
		}
		head, text, _ := strings.Cut(strings.TrimPrefix(ln, "known:"), "::")
		k := Known{Text: strings.TrimSpace(text)}
		for _, f := range strings.Fields(head) {
			key, val, ok := strings.Cut(f, "=")
			if !ok {
				continue
			}
			switch key {
			case "property":
				k.Property = val
			case "id":
				k.ID = val
			case "sig":
				k.Sig = val
			case "replay":
				k.Replay = val
			}
		}
		if k.Property == prop {
			out = append(out, k)
		}
	}
	return out
}

// Opts are the run parameters.
type Opts struct {
	Tier       string
	Seed       uint64
	OraclePath string
	VerifDir   string
	ReplayFile string // run just this script
	NoTwin     bool   // search mode: the twin does not build; monitors only
	Scale      float64
}

type outcome struct {
	c       Case
	real    []string
	twin    []string
	disLine int // first disagreeing line, -1 if none
	mon     []string
}

func runCase(p *Prop, o *oracle.O, c Case) outcome {
	out := outcome{c: c, disLine: -1}
	r := p.NewReal()
	defer r.Close()
	if o != nil && p.Reset != "" {
		_, _ = o.Ask(p.Reset)
	}
	for i, ln := range c.Script {
		var ro string
		twinLine := ln
		if h, ok := r.(Hinter); ok {
			ro, twinLine = h.ExecHint(ln)
		} else {
			ro = r.Exec(ln)
			// a Real may resolve a nondeterministic choice of the implementation in its last Exec and
			// report it afterwards (PostHinter): the hint is appended to the line the twin gets
			if ph, ok := r.(PostHinter); ok {
				if hint := ph.Hint(); hint != "" {
					twinLine = ln + " " + hint
				}
			}
		}
		out.real = append(out.real, ro)
		if o != nil && (p.RealOnly == nil || !p.RealOnly(ln)) {
			to, err := o.Ask(twinLine)
			if err != nil {
				to = "oracle-error " + err.Error()
			}
			out.twin = append(out.twin, to)
			same := to == ro
			if !same && p.Match != nil && !strings.HasPrefix(to, "oracle-error") {
				same = p.Match(ln, ro, to)
			} else if !same && p.Agree != nil && !strings.HasPrefix(to, "oracle-error") {
				same = p.Agree(ln, ro, to)
			}
			if !same && out.disLine < 0 {
				out.disLine = i
			}
		} else {
			out.twin = append(out.twin, ro)
		}
	}
	if p.Monitor != nil {
		out.mon = p.Monitor(c, out.real)
	}
	return out
}

// shrink minimises a case while `bad` stays true: delta debugging on the script (chunks of
// halving size, then single lines), then the property's own candidates; bounded evaluations.
func shrink(p *Prop, c Case, bad func(Case) bool) Case {
	cur := c
	evals := 0
	budget := 160
	try := func(cand Case) bool {
		if evals >= budget {
			return false
		}
		evals++
		return bad(cand)
	}
	if !p.FixedLayout {
		for chunk := len(cur.Script) / 2; chunk >= 1 && evals < budget; {
			removed := false
			for start := 0; start+chunk <= len(cur.Script) && evals < budget; {
				var s []string
				ok := true
				for i, ln := range cur.Script {
					if i >= start && i < start+chunk {
						if p.Protected != nil && p.Protected(ln) {
							ok = false
							break
						}
						continue
					}
					s = append(s, ln)
				}
				if ok && len(s) < len(cur.Script) && try(Case{Script: s, Tags: cur.Tags, Nontrivial: cur.Nontrivial, Origin: cur.Origin}) {
					cur.Script = s
					removed = true
				} else {
					start += chunk
				}
			}
			if !removed || chunk == 1 {
				if chunk == 1 && !removed {
					break
				}
				chunk /= 2
				if chunk == 0 && removed {
					chunk = 1
				}
			}
		}
	}
	for round := 0; round < 50 && evals < budget && p.Shrink != nil; round++ {
		improved := false
		for _, cand := range p.Shrink(cur) {
			if try(cand) {
				cur = cand
				improved = true
				break
			}
		}
		if !improved {
			break
		}
	}
	return cur
}

func loadScript(path string) (Case, error) {
	b, err := os.ReadFile(path)
	if err != nil {
		return Case{}, err
	}
	var c Case
	if strings.HasSuffix(path, ".json") {
		var f struct {
			Case Case `json:"case"`
		}
		if err := json.Unmarshal(b, &f); err != nil {
			return Case{}, err
		}
		c = f.Case
	} else {
		for _, ln := range strings.Split(string(b), "\n") {
			ln = strings.TrimSpace(ln)
			if ln == "" || strings.HasPrefix(ln, "#") {
				continue
			}
			c.Script = append(c.Script, ln)
		}
	}
	c.Origin = "corpus:" + filepath.Base(path)
	return c, nil
}

// Run executes the check and returns the result; the caller prints and exits.
func Run(p *Prop, opts Opts) (*Result, error) {
	start := time.Now()
	if p.Subprocess {
		q, pl := viaSubprocess(p)
		defer pl.closeAll()
		p = q
	}
	res := &Result{Property: p.ID, Tier: opts.Tier, Seed: opts.Seed, Rule: p.Rule,
		Distribution: map[string]int{}, KnownHits: map[string]int{}}
	known := LoadKnown(filepath.Join(opts.VerifDir, "KNOWN_FINDINGS.txt"), p.ID)

	// cases: corpus first, then enumerated, then generated
	var cases []Case
	if opts.ReplayFile != "" {
		c, err := loadScript(opts.ReplayFile)
		if err != nil {
			return nil, err
		}
		cases = append(cases, c)
	} else {
		files, _ := filepath.Glob(filepath.Join(opts.VerifDir, "corpus", p.ID, "*.script"))
		sort.Strings(files)
		for _, f := range files {
			c, err := loadScript(f)
			if err != nil {
				return nil, err
			}
			c.Nontrivial = true
			cases = append(cases, c)
		}
		res.CorpusCases = len(cases)
		if p.Enumerate != nil {
			en := p.Enumerate(opts.Tier)
			for i := range en {
				en[i].Origin = fmt.Sprintf("enum:%d", i)
			}
			res.Enumerated = len(en)
			cases = append(cases, en...)
		}
		n := p.Quick
		if opts.Tier == "thorough" {
			n = p.Thorough
		}
		if opts.Scale > 0 {
			n = int(float64(n) * opts.Scale)
		}
		for i := 0; i < n; i++ {
			cases = append(cases, Case{Origin: fmt.Sprintf("gen:%d", i), genIndex: i + 1})
		}
	}

	workers := p.Workers
	if workers <= 0 {
		workers = 8
	}
	if workers > len(cases) {
		workers = len(cases)
	}
	if workers < 1 {
		workers = 1
	}
	outs := make([]outcome, len(cases))
	var wg sync.WaitGroup
	var firstErr error
	var mu sync.Mutex
	for w := 0; w < workers; w++ {
		wg.Add(1)
		go func(w int) {
			defer wg.Done()
			var o *oracle.O
			if !opts.NoTwin {
				var err error
				o, err = oracle.Start(opts.OraclePath)
				if err != nil {
					mu.Lock()
					firstErr = err
					mu.Unlock()
					return
				}
				defer o.Close()
			}
			for i := w; i < len(cases); i += workers {
				if g := cases[i].genIndex; g > 0 {
					c := p.Gen(rng.New(opts.Seed).Fork(uint64(g-1)), opts.Tier)
					c.Origin = cases[i].Origin
					cases[i] = c
				}
				outs[i] = runCase(p, o, cases[i])
			}
		}(w)
	}
	wg.Wait()
	if firstErr != nil {
		return nil, firstErr
	}

	// a fresh oracle for shrinking
	var so *oracle.O
	if !opts.NoTwin {
		var err error
		so, err = oracle.Start(opts.OraclePath)
		if err != nil {
			return nil, err
		}
		defer so.Close()
	}

	attribute := func(c Case, real []string, msg string) string {
		for _, k := range known {
			if f, ok := p.Sigs[k.Sig]; ok && f(c, real, msg) {
				return k.ID
			}
		}
		return ""
	}

	seen := map[string]bool{}
	seenNT := map[string]bool{}
	reproduced := map[string]bool{}
	replayN := 0
	writeReplay := func(f *Failure) {
		dir := filepath.Join(opts.VerifDir, "replays")
		_ = os.MkdirAll(dir, 0o755)
		name := filepath.Join(dir, fmt.Sprintf("%s-seed%d-%d.json", p.ID, opts.Seed, replayN))
		replayN++
		f.Replay = name
		b, _ := json.MarshalIndent(map[string]interface{}{
			"property": p.ID, "seed": opts.Seed, "tier": opts.Tier, "kind": f.Kind, "verdict": f.Msg,
			"case": f.Case, "real_out": f.RealOut, "twin_out": f.TwinOut,
			"no_failing_input_found": f.NoInput,
			"replay_cmd":             fmt.Sprintf("./check %s --replay %s", p.ID, name),
		}, "", " ")
		_ = os.WriteFile(name, b, 0o644)
	}

	for _, oc := range outs {
		res.Evaluations++
		res.Lines += len(oc.c.Script)
		key := strings.Join(oc.c.Script, "\n")
		if !seen[key] {
			seen[key] = true
			if oc.c.Nontrivial && !seenNT[key] {
				seenNT[key] = true
			}
		}
		for _, t := range oc.c.Tags {
			res.Distribution[t]++
		}
		if p.OutcomeTags != nil {
			for _, t := range p.OutcomeTags(oc.c, oc.real) {
				res.Distribution[t]++
			}
		}
		if len(res.Samples) < 6 && (oc.c.Nontrivial || len(res.Samples) < 2) {
			res.Samples = append(res.Samples, oc.c)
		}

		// 1. monitor failures: the property itself fails on the real code for this case
		unknownMon := ""
		for _, m := range oc.mon {
			if id := attribute(oc.c, oc.real, m); id != "" && oc.disLine < 0 {
				if res.KnownHits[id] == 0 && !strings.HasPrefix(oc.c.Origin, "corpus:") {
					// keep one sample of every attributed finding for inspection (.work, not evidence)
					_ = os.MkdirAll(filepath.Join(opts.VerifDir, ".work"), 0o755)
					_ = os.WriteFile(filepath.Join(opts.VerifDir, ".work", "known-"+id+".script"),
						[]byte("# "+m+"\n"+strings.Join(oc.c.Script, "\n")+"\n"), 0o644)
				}
				res.KnownHits[id]++
				reproduced[id] = true
			} else if unknownMon == "" {
				unknownMon = m
			}
		}
		if unknownMon != "" && len(res.Violations) < 5 {
			min := shrink(p, oc.c, func(c Case) bool {
				o2 := runCase(p, nil, c)
				for _, m := range o2.mon {
					if attribute(c, o2.real, m) == "" {
						return true
					}
				}
				return false
			})
			o2 := runCase(p, so, min)
			msg := ""
			for _, m := range o2.mon {
				if attribute(min, o2.real, m) == "" {
					msg = m
					break
				}
			}
			if msg == "" {
				// the failure does not reproduce on a re-run (timing-dependent): report the original observation
				msg, min, o2 = unknownMon, oc.c, oc
			}
			f := Failure{Kind: "monitor", Msg: msg, Case: min, RealOut: o2.real, TwinOut: o2.twin}
			writeReplay(&f)
			res.Violations = append(res.Violations, f)
			continue
		}
		// 2. correspondence breaks are handled in a second pass, so that failing inputs found by the
		// monitor are reported first
	}
	for _, oc := range outs {
		hasMon := false
		for _, m := range oc.mon {
			if attribute(oc.c, oc.real, m) == "" {
				hasMon = true
			}
		}
		if hasMon {
			continue
		}
		if oc.disLine >= 0 && len(res.Violations) < 5 {
			if p.DeterministicScripts && runCase(p, so, oc.c).disLine < 0 && runCase(p, so, oc.c).disLine < 0 {
				res.UnreproducedDisagreements++
				fmt.Printf("NOTE property=%s a disagreement at line %d of case %s did not reproduce in two re-runs of the same script (infrastructure event, not reported)\n", p.ID, oc.disLine, oc.c.Origin)
				continue
			}
			min := shrink(p, oc.c, func(c Case) bool { return runCase(p, so, c).disLine >= 0 })
			o2 := runCase(p, so, min)
			if o2.disLine < 0 {
				// the minimised script does not reproduce (a nondeterministic disagreement): report the original
				o2 = oc
				min = oc.c
			}
			f := Failure{Kind: "correspondence", Case: min, RealOut: o2.real, TwinOut: o2.twin, NoInput: true,
				Msg: fmt.Sprintf("twin and implementation differ at line %d: real=%q twin=%q", o2.disLine, at(o2.real, o2.disLine), at(o2.twin, o2.disLine))}
			// does the property's own monitor fail on the disagreeing case or its minimised form?
			for _, cand := range []outcome{oc, o2} {
				for _, m := range cand.mon {
					if attribute(cand.c, cand.real, m) == "" {
						f.NoInput = false
						f.Msg = m + " (found via correspondence break: " + f.Msg + ")"
						f.Case, f.RealOut, f.TwinOut = cand.c, cand.real, cand.twin
						break
					}
				}
				if !f.NoInput {
					break
				}
			}
			writeReplay(&f)
			res.Violations = append(res.Violations, f)
		}
	}
	res.Distinct = len(seen)
	res.DistinctNontrivial = len(seenNT)
	for id := range reproduced {
		res.KnownReproduced = append(res.KnownReproduced, id)
	}
	sort.Strings(res.KnownReproduced)
	res.WallS = time.Since(start).Seconds()
	return res, nil
}

func at(xs []string, i int) string {
	if i >= 0 && i < len(xs) {
		return xs[i]
	}
	return ""
}

// Emit writes the result file, prints the human-readable lines and returns the exit code.
func Emit(res *Result, known []Known, outPath string) int {
	b, _ := json.MarshalIndent(res, "", " ")
	if outPath != "" {
		_ = os.WriteFile(outPath, b, 0o644)
	}
	for _, k := range known {
		for _, id := range res.KnownReproduced {
			if id == k.ID {
				fmt.Printf("KNOWN-FINDING: property=%s %s [%s, %d cases this run]\n", res.Property, k.Text, k.ID, res.KnownHits[id])
			}
		}
	}
	code := 0
	for _, v := range res.Violations {
		code = 1
		suffix := ""
		if v.NoInput {
			suffix = " no-failing-input-found"
		}
		msg := v.Msg
		if len(msg) > 600 {
			msg = msg[:600] + "...(truncated; full text in the replay file)"
		}
		fmt.Printf("DETAIL property=%s kind=%s %s\n", res.Property, v.Kind, msg)
		fmt.Printf("VIOLATION property=%s replay=%s%s\n", res.Property, v.Replay, suffix)
	}
	fmt.Printf("corr %s tier=%s seed=%d cases=%d distinct_nontrivial=%d lines=%d known_hits=%v violations=%d wall=%.1fs\n",
		res.Property, res.Tier, res.Seed, res.Evaluations, res.DistinctNontrivial, res.Lines, res.KnownHits, len(res.Violations), res.WallS)
	return code
}

// Registry holds every registered property check.
var Registry = map[string]*Prop{}

// Register adds a property check (called from the init of each props/cNN package).
func Register(p *Prop) { Registry[p.ID] = p }
