// Package worker runs a property's real-code executor in WORKER PROCESSES (this binary re-executed with
// VERIF_WORKER=<name>), taken from a pool and replaced after a bounded number of cases:
//   - the atomix in-memory test client does not release its gRPC connections and partition clients on Close
//     (about 35 goroutines and 4 MB per case stay behind), so a long run in one process exhausts memory;
//   - a panic in a goroutine of the code under test takes the whole process down: in a worker that is an
//     observation ("panic <text>", then "crashed"), not the end of the check.
//
// Protocol on the worker's stdin/stdout: `\x02begin`, script lines, `\x02end`; every answer line starts with \x01
// (anything else the code under test prints on stdout is ignored).
package worker

import (
	"bufio"
	"bytes"
	"fmt"
	"io"
	"os"
	"os/exec"
	"strings"
	"sync"

	"github.com/onosproject/onos-config/verifharness/internal/fw"
)

const envName = "VERIF_WORKER"

// Serve turns this process into the worker `name` if it was started as one (call it from the package's init);
// it never returns in that case.
func Serve(name string, newLocal func() fw.Real) {
	if os.Getenv(envName) != name {
		return
	}
	in := bufio.NewReaderSize(os.Stdin, 1<<20)
	out := bufio.NewWriter(os.Stdout)
	var r fw.Real
	reply := func(s string) {
		fmt.Fprintf(out, "\x01%s\n", strings.ReplaceAll(s, "\n", " "))
		out.Flush()
	}
	for {
		line, err := in.ReadString('\n')
		if err != nil {
			os.Exit(0)
		}
		line = strings.TrimRight(line, "\n")
		switch line {
		case "\x02begin":
			if r != nil {
				r.Close()
			}
			r = newLocal()
			reply("ok")
		case "\x02end":
			if r != nil {
				r.Close()
				r = nil
			}
			reply("ok")
		default:
			if r == nil {
				reply("bad-op")
			} else {
				reply(r.Exec(line))
			}
		}
	}
}

type child struct {
	cmd    *exec.Cmd
	in     io.WriteCloser
	out    *bufio.Reader
	mu     sync.Mutex
	stderr bytes.Buffer
	cases  int
}

// Pool hands out proxies to workers of one name.
type Pool struct {
	Name           string
	CasesPerWorker int
	idle           chan *child
	once           sync.Once
}

func (p *Pool) init() {
	p.once.Do(func() {
		p.idle = make(chan *child, 64)
		if p.CasesPerWorker <= 0 {
			p.CasesPerWorker = 150
		}
	})
}

func (p *Pool) spawn() (*child, error) {
	cmd := exec.Command(os.Args[0])
	cmd.Env = append(os.Environ(), envName+"="+p.Name)
	in, err := cmd.StdinPipe()
	if err != nil {
		return nil, err
	}
	out, err := cmd.StdoutPipe()
	if err != nil {
		return nil, err
	}
	errp, err := cmd.StderrPipe()
	if err != nil {
		return nil, err
	}
	if err := cmd.Start(); err != nil {
		return nil, err
	}
	c := &child{cmd: cmd, in: in, out: bufio.NewReaderSize(out, 1<<20)}
	go func() {
		buf := make([]byte, 4096)
		for {
			n, err := errp.Read(buf)
			if n > 0 {
				c.mu.Lock()
				if c.stderr.Len() > 1<<16 {
					c.stderr.Reset()
				}
				c.stderr.Write(buf[:n])
				c.mu.Unlock()
			}
			if err != nil {
				return
			}
		}
	}()
	return c, nil
}

func (c *child) ask(line string) (string, error) {
	if _, err := io.WriteString(c.in, line+"\n"); err != nil {
		return "", err
	}
	for {
		ans, err := c.out.ReadString('\n')
		if err != nil {
			return "", err
		}
		if strings.HasPrefix(ans, "\x01") {
			return strings.TrimRight(ans[1:], "\n"), nil
		}
	}
}

func (c *child) kill() {
	_ = c.in.Close()
	_ = c.cmd.Process.Kill()
	_ = c.cmd.Wait()
}

// crashText classifies the death of a worker from its stderr.
func (c *child) crashText() string {
	_ = c.cmd.Wait() // lets the stderr copier finish
	c.mu.Lock()
	s := c.stderr.String()
	c.mu.Unlock()
	if i := strings.Index(s, "panic:"); i >= 0 {
		ln := s[i+len("panic:"):]
		if j := strings.IndexByte(ln, '\n'); j > 0 {
			ln = ln[:j]
		}
		return strings.ReplaceAll(strings.TrimSpace(ln), " ", "-")
	}
	if i := strings.Index(s, "fatal error:"); i >= 0 {
		ln := s[i+len("fatal error:"):]
		if j := strings.IndexByte(ln, '\n'); j > 0 {
			ln = ln[:j]
		}
		return "fatal-" + strings.ReplaceAll(strings.TrimSpace(ln), " ", "-")
	}
	return "worker-process-died"
}

type proxy struct {
	p    *Pool
	c    *child
	dead bool
}

// NewReal returns the executor of one case: a proxy to a worker process.
func (p *Pool) NewReal() fw.Real {
	p.init()
	var c *child
	select {
	case c = <-p.idle:
	default:
		var err error
		c, err = p.spawn()
		if err != nil {
			return fw.RealFunc(func(string) string { return "worker-spawn-error " + err.Error() })
		}
	}
	if _, err := c.ask("\x02begin"); err != nil {
		c.kill()
		return fw.RealFunc(func(string) string { return "worker-begin-error" })
	}
	return &proxy{p: p, c: c}
}

func (x *proxy) Exec(line string) string {
	if x.dead {
		return "crashed"
	}
	ans, err := x.c.ask(line)
	if err != nil {
		x.dead = true
		msg := x.c.crashText()
		x.c.kill()
		return "panic " + msg
	}
	return ans
}

func (x *proxy) Close() {
	if x.dead {
		return
	}
	if _, err := x.c.ask("\x02end"); err != nil {
		x.c.kill()
		return
	}
	x.c.cases++
	if x.c.cases >= x.p.CasesPerWorker {
		x.c.kill()
		return
	}
	select {
	case x.p.idle <- x.c:
	default:
		x.c.kill()
	}
}
