// Package c16 ties the Lean path twin (OnosVerif/Path) to pkg/utils/gnmiPathUtils.go and
// GetParentPath, and evaluates C16's statement on the real functions.
package c16

import (
	"strings"

	"github.com/onosproject/onos-config/pkg/utils"
	pathutils "github.com/onosproject/onos-config/pkg/utils/path"
	"github.com/onosproject/onos-config/verifharness/internal/fw"
	"github.com/onosproject/onos-config/verifharness/internal/rng"
	pb "github.com/openconfig/gnmi/proto/gnmi"
)

var names = []string{"a", "b", "bc", "b-c", "b.c", "ab", "m:a", "list", "l_1", "x9"}
var keyNames = []string{"k", "j", "name", "id", "k-2", "m:k"}
var keyAlphabet = []string{"1", "10", "a", "z", "-", ".", "_", "*", "/", "]", "[", "\\", "=", " ", "é", "(", "+"}
var rawAlphabet = []string{"a", "b", "1", "/", "[", "]", "\\", "=", "k", "-", ".", ":", "é"}

func genKeyVal(r *rng.R, adversarial bool) string {
	n := r.Range(1, 3)
	var b strings.Builder
	for i := 0; i < n; i++ {
		if adversarial {
			b.WriteString(r.Pick(keyAlphabet))
		} else {
			b.WriteString(r.Pick(keyAlphabet[:8]))
		}
	}
	return b.String()
}

func genPath(r *rng.R, adversarial bool) []*pb.PathElem {
	n := r.Range(0, 5)
	var p []*pb.PathElem
	for i := 0; i < n; i++ {
		e := &pb.PathElem{Name: r.Pick(names)}
		if r.Chance(1, 2) {
			nk := r.Range(1, 3)
			e.Key = map[string]string{}
			for j := 0; j < nk; j++ {
				e.Key[r.Pick(keyNames)] = genKeyVal(r, adversarial)
			}
		}
		p = append(p, e)
	}
	return p
}

func genRaw(r *rng.R) string {
	n := r.Range(0, 10)
	var b strings.Builder
	for i := 0; i < n; i++ {
		b.WriteString(r.Pick(rawAlphabet))
	}
	return b.String()
}

// malformed elements: names/keys outside what the system accepts (correspondence only)
func genMalformed(r *rng.R) []*pb.PathElem {
	p := genPath(r, true)
	for _, e := range p {
		switch r.Intn(5) {
		case 0:
			e.Name = e.Name + r.Pick([]string{"/", "\\", "[", "]", "=", ""})
		case 1:
			e.Name = ""
		case 2:
			if e.Key == nil {
				e.Key = map[string]string{}
			}
			e.Key[r.Pick([]string{"", "k=", "k]", "k\\", "k/", "[k"})] = genKeyVal(r, true)
		case 3:
			if e.Key == nil {
				e.Key = map[string]string{}
			}
			e.Key[r.Pick(keyNames)] = ""
		}
	}
	return p
}

func isIdent(s string) bool {
	if s == "" {
		return false
	}
	for i, c := range s {
		switch {
		case c >= 'a' && c <= 'z', c >= 'A' && c <= 'Z', c == '_':
		case i > 0 && (c >= '0' && c <= '9' || c == '-' || c == '.'):
		default:
			return false
		}
	}
	return true
}

func isName(s string) bool {
	if m, n, ok := strings.Cut(s, ":"); ok {
		return isIdent(m) && isIdent(n)
	}
	return isIdent(s)
}

// wf is the property's own well-formedness: YANG-identifier names (optionally module-prefixed),
// identifier key names, non-empty key values of any characters.
func wf(p []*pb.PathElem) bool {
	for _, e := range p {
		if !isName(e.Name) {
			return false
		}
		for k, v := range e.Key {
			if !isName(k) || v == "" {
				return false
			}
		}
	}
	return true
}

func mkCase(p, q []*pb.PathElem, raws []string, tags []string) fw.Case {
	var s []string
	s = append(s, fw.Join("path.str", fw.EncElems(p)))
	s = append(s, fw.Join("path.rt", fw.EncElems(p)))
	s = append(s, fw.Join("path.parentof", fw.EncElems(p)))
	if len(p) > 0 {
		s = append(s, fw.Join("path.str", fw.EncElems(p[:len(p)-1])))
	} else {
		s = append(s, "path.str")
	}
	s = append(s, fw.Join("path.str", fw.EncElems(q)))
	s = append(s, fw.Join("path.strpath", fw.EncElems(p)))
	for _, raw := range raws {
		s = append(s, "path.split "+fw.EncStr(raw), "path.parse "+fw.EncStr(raw), "path.parent "+fw.EncStr(raw))
	}
	nt := false
	for _, e := range p {
		if len(e.Key) > 0 {
			nt = true
		}
	}
	return fw.Case{Script: s, Tags: tags, Nontrivial: nt}
}

func mutate(r *rng.R, p []*pb.PathElem) []*pb.PathElem {
	q := make([]*pb.PathElem, 0, len(p))
	for _, e := range p {
		ne := &pb.PathElem{Name: e.Name}
		if e.Key != nil {
			ne.Key = map[string]string{}
			for k, v := range e.Key {
				ne.Key[k] = v
			}
		}
		q = append(q, ne)
	}
	if len(q) == 0 {
		return q
	}
	i := r.Intn(len(q))
	switch r.Intn(5) {
	case 0: // move a key-looking suffix between name and key
		for k, v := range q[i].Key {
			delete(q[i].Key, k)
			q[i].Name = q[i].Name + "[" + k + "=" + v + "]"
			break
		}
	case 1: // merge two elements into one name with a slash
		if i+1 < len(q) && len(q[i].Key) == 0 {
			q[i].Name = q[i].Name + "/" + q[i+1].Name
			q[i].Key = q[i+1].Key
			q = append(q[:i+1], q[i+2:]...)
		}
	case 2: // change escaping-relevant characters of a key value
		for k, v := range q[i].Key {
			q[i].Key[k] = strings.NewReplacer("]", "\\]", "\\", "\\\\").Replace(v)
			break
		}
	case 3:
		for k, v := range q[i].Key {
			q[i].Key[k] = v + r.Pick(keyAlphabet)
			break
		}
	case 4: // identical copy
	}
	return q
}

func gen(r *rng.R, tier string) fw.Case {
	var p []*pb.PathElem
	var tags []string
	switch k := r.Intn(10); {
	case k < 3:
		p = genPath(r, false)
		tags = append(tags, "wf-plain")
	case k < 8:
		p = genPath(r, true)
		tags = append(tags, "wf-adversarial-keys")
	default:
		p = genMalformed(r)
		tags = append(tags, "malformed")
	}
	q := mutate(r, p)
	var raws []string
	for i := 0; i < 2; i++ {
		raws = append(raws, genRaw(r))
	}
	if len(p) > 0 {
		raws = append(raws, utils.StrPathElem(p))
	}
	for _, e := range p {
		for _, v := range e.Key {
			if strings.ContainsAny(v, "/][\\=") {
				tags = append(tags, "escape-worthy-key")
				break
			}
		}
	}
	if wf(p) {
		tags = append(tags, "monitored")
	}
	return mkCase(p, q, raws, tags)
}

// enumerate: every single-element path whose one key value ranges over all strings of length
// 1..3 over a 6-character alphabet (exhaustive for that space).
func enumerate(tier string) []fw.Case {
	alpha := []string{"a", "/", "]", "[", "\\", "="}
	var vals []string
	var rec func(prefix string, d int)
	rec = func(prefix string, d int) {
		if prefix != "" {
			vals = append(vals, prefix)
		}
		if d == 0 {
			return
		}
		for _, a := range alpha {
			rec(prefix+a, d-1)
		}
	}
	rec("", 3)
	var out []fw.Case
	for _, v := range vals {
		p := []*pb.PathElem{{Name: "a"}, {Name: "l", Key: map[string]string{"k": v}}, {Name: "b"}}
		c := mkCase(p, p[:2], nil, []string{"enum-keyval"})
		c.Nontrivial = true
		out = append(out, c)
	}
	return out
}

func errClass(err error) string {
	m := err.Error()
	switch {
	case strings.Contains(m, "element name"):
		return "noElemName"
	case strings.Contains(m, "opening '['"):
		return "noOpen"
	case strings.Contains(m, "find '='"):
		return "noEq"
	case strings.Contains(m, "key name"):
		return "noKeyName"
	case strings.Contains(m, "find ']'"):
		return "noClose"
	case strings.Contains(m, "key value"):
		return "noKeyValue"
	}
	return "other:" + m
}

func parse(s string) string {
	p, err := utils.ParseGNMIElements(utils.SplitPath(s))
	if err != nil {
		return "err " + errClass(err)
	}
	return fw.Join("ok", fw.EncElems(p.Elem))
}

func exec(line string) (out string) {
	defer func() {
		if r := recover(); r != nil {
			out = "panic"
		}
	}()
	toks := strings.Fields(line)
	op, args := toks[0], toks[1:]
	switch op {
	case "path.str", "path.strpath", "path.rt", "path.parentof":
		p, ok := fw.DecElems(args)
		if !ok {
			return "bad-op"
		}
		switch op {
		case "path.str":
			return fw.Join("ok", fw.EncStr(utils.StrPathElem(p)))
		case "path.strpath":
			return fw.Join("ok", fw.EncStr(utils.StrPath(&pb.Path{Elem: p})))
		case "path.rt":
			return parse(utils.StrPathElem(p))
		default:
			return fw.Join("ok", fw.EncStr(pathutils.GetParentPath(utils.StrPathElem(p))))
		}
	case "path.split", "path.parse", "path.parent":
		if len(args) != 1 {
			return "bad-op"
		}
		s, ok := fw.DecStr(args[0])
		if !ok {
			return "bad-op"
		}
		switch op {
		case "path.split":
			parts := utils.SplitPath(s)
			enc := make([]string, len(parts))
			for i, x := range parts {
				enc[i] = fw.EncStr(x)
			}
			return fw.Join("ok", strings.Join(enc, " "))
		case "path.parse":
			return parse(s)
		default:
			return fw.Join("ok", fw.EncStr(pathutils.GetParentPath(s)))
		}
	}
	return "bad-op"
}

func decodeP(line string) []*pb.PathElem {
	toks := strings.Fields(line)
	p, _ := fw.DecElems(toks[1:])
	return p
}

// monitor: C16's statement on the real answers (lines 0..4 of every case).
func monitor(c fw.Case, out []string) []string {
	if len(c.Script) < 5 || !strings.HasPrefix(c.Script[0], "path.str") {
		return nil
	}
	p := decodeP(c.Script[0])
	q := decodeP(c.Script[4])
	var fails []string
	if wf(p) {
		if want := fw.Join("ok", fw.EncElems(p)); out[1] != want {
			fails = append(fails, "roundtrip: parse(split(str p)) != p: got "+out[1]+" want "+want)
		}
		if len(p) > 0 && out[2] != out[3] {
			fails = append(fails, "parent: GetParentPath(str p) != str(p without last element): got "+out[2]+" want "+out[3])
		}
		if wf(q) && out[0] == out[4] && fw.EncElems(p) != fw.EncElems(q) {
			fails = append(fails, "injective: two different accepted paths share the text "+out[0])
		}
	}
	return fails
}

func lastElemSlashInKey(c fw.Case, out []string, msg string) bool {
	if !strings.HasPrefix(msg, "parent:") {
		return false
	}
	p := decodeP(c.Script[0])
	if len(p) == 0 {
		return false
	}
	for _, v := range p[len(p)-1].Key {
		if strings.Contains(v, "/") {
			return true
		}
	}
	return false
}

// shrinkCase proposes smaller paths: drop an element, drop a key, shorten a key value.
func shrinkCase(c fw.Case) []fw.Case {
	if len(c.Script) < 5 {
		return nil
	}
	p := decodeP(c.Script[0])
	q := decodeP(c.Script[4])
	var out []fw.Case
	add := func(np []*pb.PathElem) {
		nc := mkCase(np, q, nil, c.Tags)
		nc.Origin = c.Origin
		out = append(out, nc)
	}
	if len(c.Script) > 6 {
		add(p)
	}
	for i := range p {
		np := append(append([]*pb.PathElem{}, p[:i]...), p[i+1:]...)
		add(np)
	}
	for i, e := range p {
		for k, v := range e.Key {
			ne := &pb.PathElem{Name: e.Name, Key: map[string]string{}}
			for k2, v2 := range e.Key {
				if k2 != k {
					ne.Key[k2] = v2
				}
			}
			np := append([]*pb.PathElem{}, p...)
			np[i] = ne
			add(np)
			if len(v) > 1 {
				for _, nv := range []string{v[1:], v[:len(v)-1]} {
					ne2 := &pb.PathElem{Name: e.Name, Key: map[string]string{}}
					for k2, v2 := range e.Key {
						ne2.Key[k2] = v2
					}
					ne2.Key[k] = nv
					np2 := append([]*pb.PathElem{}, p...)
					np2[i] = ne2
					add(np2)
				}
			}
		}
	}
	return out
}

// Prop is the C16 correspondence check.
var Prop = &fw.Prop{
	ID: "C16",
	Rule: "structured gNMI paths (0-5 elements, names from an adversarial identifier set, 0-3 keys, key values over the accepted alphabet plus / ] [ \\ = space ( + and a non-ASCII letter), " +
		"a mutated sibling path for injectivity, a malformed stream (empty names/values, brackets in names) and raw strings for split/parse/parent; " +
		"plus exhaustive enumeration of one key value over {a / ] [ \\ =}^1..3. Non-trivial = the path has at least one key; distinct = distinct script.",
	Quick: 4000, Thorough: 150000,
	Gen: gen, Enumerate: enumerate,
	NewReal: func() fw.Real { return fw.RealFunc(exec) },
	Monitor: monitor, Shrink: shrinkCase, FixedLayout: true,
	Sigs: map[string]func(fw.Case, []string, string) bool{
		"parentSlashInLastKey": lastElemSlashInKey,
	},
}

func init() { fw.Register(Prop) }
