// Package c03g is the read side of C03: the gNMI Get handler returns exactly the stored live
// leaves the request selects — for every encoding, every split of the effective path into prefix
// and path, wildcards in either part, several paths per request.  Cases populate one or two
// targets through the real Set handler and controllers and then issue Get requests through the
// real Get handler; the monitor is an independent element-by-element gNMI reference.
package c03g

import (
	"context"
	"encoding/json"
	"fmt"
	"sort"
	"strings"
	"time"

	configv2 "github.com/onosproject/onos-api/go/onos/config/v2"
	"github.com/onosproject/onos-config/pkg/store/v2/configuration"
	"github.com/onosproject/onos-config/pkg/utils"
	"github.com/onosproject/onos-config/verifharness/internal/fw"
	"github.com/onosproject/onos-config/verifharness/internal/rng"
	pb "github.com/openconfig/gnmi/proto/gnmi"
)

// ---- the path universe: sibling names that are textual prefixes of each other, lists with one
// and two keys, key values that are textual prefixes of each other ----

type leaf struct {
	text  string
	elems []*pb.PathElem
}

func el(name string, kv ...string) *pb.PathElem {
	e := &pb.PathElem{Name: name}
	for i := 0; i+1 < len(kv); i += 2 {
		if e.Key == nil {
			e.Key = map[string]string{}
		}
		e.Key[kv[i]] = kv[i+1]
	}
	return e
}

func mk(es ...*pb.PathElem) leaf { return leaf{text: utils.StrPathElem(es), elems: es} }

var universe = []leaf{
	mk(el("a"), el("b")), mk(el("a"), el("bc")), mk(el("a"), el("b-c")), mk(el("a"), el("d"), el("e")), mk(el("a"), el("d"), el("ef")),
	mk(el("ab")), mk(el("abc")), mk(el("a.b"), el("c")),
	mk(el("l", "k", "1"), el("v")), mk(el("l", "k", "1"), el("w")), mk(el("l", "k", "10"), el("v")), mk(el("l", "k", "10"), el("w")),
	mk(el("l", "k", "2"), el("sub"), el("x")), mk(el("l", "k", "2"), el("v")),
	mk(el("p", "a", "x", "b", "y"), el("val")), mk(el("p", "a", "x", "b", "z"), el("val")), mk(el("p", "a", "xy", "b", "y"), el("val")),
	mk(el("p", "a", "x", "b", "y"), el("q"), el("r")),
	mk(el("box", "id", "r1"), el("gamma")), mk(el("box", "id", "r2"), el("gamma")), mk(el("box", "id", "r1"), el("cfg"), el("alpha")),
	mk(el("box", "id", "r2"), el("cfg"), el("alpha")), mk(el("box", "id", "r10"), el("cfg"), el("alpha")),
	mk(el("c"), el("l", "k", "1"), el("v")), mk(el("c"), el("l", "k", "1"), el("d"), el("e")),
}

// list keys by list name (for flattening a JSON document)
var listKeys = map[string][]string{"l": {"k"}, "p": {"a", "b"}, "box": {"id"}}

var byText = func() map[string]leaf {
	m := map[string]leaf{}
	for _, l := range universe {
		m[l.text] = l
	}
	return m
}()

// deletable: leaves whose text is not a textual prefix of another universe path and that have
// no textual-prefix sibling above them (so that deleting them removes nothing else: the cascade
// defects of the write side, KF-C03-textual-prefix, stay out of this stream)
func deletable(l leaf) bool {
	for _, o := range universe {
		if o.text != l.text && strings.HasPrefix(o.text, l.text) {
			return false
		}
	}
	return true
}

// ---- script lines ----
//   nbget.load <T> s:<hex path>=<hex value> … d:<hex path> …
//   nbget.get <P|J|I> <p|q|b> <T> pfx=<nil|.|elem,elem…> p=<.|elem,elem…> …

type getReq struct {
	enc    string // P, J, I
	tmode  string // p: target in the prefix; q: in every path; b: both
	target string
	pfx    []*pb.PathElem // nil + hasPfx=false: no prefix message
	hasPfx bool
	paths  [][]*pb.PathElem
}

func encElemList(es []*pb.PathElem) string {
	if len(es) == 0 {
		return "."
	}
	parts := make([]string, len(es))
	for i, e := range es {
		parts[i] = fw.EncElem(e)
	}
	return strings.Join(parts, ",")
}

func decElemList(s string) ([]*pb.PathElem, bool) {
	if s == "." {
		return []*pb.PathElem{}, true
	}
	var out []*pb.PathElem
	for _, t := range strings.Split(s, ",") {
		e, ok := fw.DecElem(t)
		if !ok {
			return nil, false
		}
		out = append(out, e)
	}
	return out, true
}

func getLine(g getReq) string {
	toks := []string{"nbget.get", g.enc, g.tmode, g.target}
	if !g.hasPfx {
		toks = append(toks, "pfx=nil")
	} else {
		toks = append(toks, "pfx="+encElemList(g.pfx))
	}
	for _, p := range g.paths {
		toks = append(toks, "p="+encElemList(p))
	}
	return strings.Join(toks, " ")
}

func decGet(line string) (getReq, bool) {
	toks := strings.Fields(line)
	if len(toks) < 5 || toks[0] != "nbget.get" || !strings.HasPrefix(toks[4], "pfx=") {
		return getReq{}, false
	}
	g := getReq{enc: toks[1], tmode: toks[2], target: toks[3]}
	if p := toks[4][4:]; p != "nil" {
		es, ok := decElemList(p)
		if !ok {
			return g, false
		}
		g.pfx, g.hasPfx = es, true
	}
	for _, t := range toks[5:] {
		if !strings.HasPrefix(t, "p=") {
			return g, false
		}
		es, ok := decElemList(t[2:])
		if !ok {
			return g, false
		}
		g.paths = append(g.paths, es)
	}
	return g, true
}

type loadReq struct {
	target string
	set    map[string]string
	del    []string
}

func loadLine(l loadReq) string {
	toks := []string{"nbget.load", l.target}
	ks := make([]string, 0, len(l.set))
	for k := range l.set {
		ks = append(ks, k)
	}
	sort.Strings(ks)
	for _, k := range ks {
		toks = append(toks, "s:"+fw.EncStr(k)+"="+fw.EncStr(l.set[k]))
	}
	ds := append([]string{}, l.del...)
	sort.Strings(ds)
	for _, d := range ds {
		toks = append(toks, "d:"+fw.EncStr(d))
	}
	return strings.Join(toks, " ")
}

func decLoad(line string) (loadReq, bool) {
	toks := strings.Fields(line)
	if len(toks) < 2 || toks[0] != "nbget.load" {
		return loadReq{}, false
	}
	l := loadReq{target: toks[1], set: map[string]string{}}
	for _, t := range toks[2:] {
		switch {
		case strings.HasPrefix(t, "s:"):
			k, v, ok := strings.Cut(t[2:], "=")
			ks, ok1 := fw.DecStr(k)
			vs, ok2 := fw.DecStr(v)
			if !ok || !ok1 || !ok2 {
				return l, false
			}
			l.set[ks] = vs
		case strings.HasPrefix(t, "d:"):
			ds, ok := fw.DecStr(t[2:])
			if !ok {
				return l, false
			}
			l.del = append(l.del, ds)
		default:
			return l, false
		}
	}
	return l, true
}

// ---- the real side ----

type real struct {
	env     *env
	targets map[string]string // script name -> target id in the environment
}

func newReal() fw.Real { return &real{targets: map[string]string{}} }

func (r *real) Close() {
	if r.env != nil {
		release(r.env)
		r.env = nil
	}
}

func (r *real) tid(name string) string {
	if id, ok := r.targets[name]; ok {
		return id
	}
	id := freshTargetID()
	r.targets[name] = id
	return id
}

func strVal(s string) *pb.TypedValue {
	return &pb.TypedValue{Value: &pb.TypedValue_StringVal{StringVal: s}}
}

func (r *real) Exec(line string) (out string) {
	defer func() {
		if rec := recover(); rec != nil {
			out = "panic"
		}
	}()
	if r.env == nil {
		e, err := acquire()
		if err != nil {
			return "err env"
		}
		r.env = e
	}
	r.env.mu.Lock()
	defer r.env.mu.Unlock()
	switch {
	case strings.HasPrefix(line, "nbget.load"):
		l, ok := decLoad(line)
		if !ok {
			return "bad-op"
		}
		return r.load(l)
	case strings.HasPrefix(line, "nbget.get"):
		g, ok := decGet(line)
		if !ok {
			return "bad-op"
		}
		return r.get(g)
	}
	return "bad-op"
}

func (r *real) set(req *pb.SetRequest) error {
	ctx, cancel := context.WithTimeout(context.Background(), 15*time.Second)
	defer cancel()
	envMu.Lock()
	r.env.sets++
	envMu.Unlock()
	_, err := r.env.server.Set(ctx, req)
	return err
}

// load: one Set with every leaf (those to be deleted included), one Set deleting the leaves to be
// deleted (their tombstones stay in the configuration), then the stored live leaves are read
// from the configuration store and must be the loaded ones.
func (r *real) load(l loadReq) string {
	id := r.tid(l.target)
	req := &pb.SetRequest{Prefix: &pb.Path{Target: id}}
	add := func(text, val string) bool {
		lf, ok := byText[text]
		if !ok {
			return false
		}
		req.Update = append(req.Update, &pb.Update{Path: &pb.Path{Elem: lf.elems}, Val: strVal(val)})
		return true
	}
	for k, v := range l.set {
		if !add(k, v) {
			return "bad-op"
		}
	}
	for _, d := range l.del {
		if !add(d, "doomed") {
			return "bad-op"
		}
	}
	if len(req.Update) > 0 {
		if err := r.set(req); err != nil {
			return "err set:" + strings.ReplaceAll(err.Error(), " ", "_")
		}
	}
	if len(l.del) > 0 {
		dreq := &pb.SetRequest{Prefix: &pb.Path{Target: id}}
		for _, d := range l.del {
			dreq.Delete = append(dreq.Delete, &pb.Path{Elem: byText[d].elems})
		}
		if err := r.set(dreq); err != nil {
			return "err delete:" + strings.ReplaceAll(err.Error(), " ", "_")
		}
	}
	if len(req.Update) == 0 {
		return "ok 0 0"
	}
	ctx, cancel := context.WithTimeout(context.Background(), 5*time.Second)
	defer cancel()
	cfg, err := r.env.cfgs.Get(ctx, configuration.NewID(configv2.TargetID(id), modelName, modelVersion))
	if err != nil {
		return "err cfg:" + strings.ReplaceAll(err.Error(), " ", "_")
	}
	live, dead := map[string]string{}, 0
	for p, v := range cfg.Values {
		if v.Deleted {
			dead++
			continue
		}
		live[p] = string(v.Value.Bytes)
	}
	if len(live) != len(l.set) {
		return fmt.Sprintf("err stored-differs: %d live leaves stored, %d loaded", len(live), len(l.set))
	}
	for k, v := range l.set {
		if live[k] != v {
			return "err stored-differs:" + fw.EncStr(k)
		}
	}
	return fmt.Sprintf("ok %d %d", len(live), dead)
}

func cloneElems(es []*pb.PathElem) []*pb.PathElem {
	out := make([]*pb.PathElem, len(es))
	for i, e := range es {
		ne := &pb.PathElem{Name: e.Name}
		for k, v := range e.Key {
			if ne.Key == nil {
				ne.Key = map[string]string{}
			}
			ne.Key[k] = v
		}
		out[i] = ne
	}
	return out
}

func (r *real) buildGet(g getReq) *pb.GetRequest {
	id := r.tid(g.target)
	req := &pb.GetRequest{Encoding: map[string]pb.Encoding{"P": pb.Encoding_PROTO, "J": pb.Encoding_JSON, "I": pb.Encoding_JSON_IETF}[g.enc]}
	if g.hasPfx {
		req.Prefix = &pb.Path{Elem: cloneElems(g.pfx)}
		if len(g.pfx) == 0 {
			req.Prefix.Elem = nil
		}
		if g.tmode != "q" {
			req.Prefix.Target = id
		}
	}
	for _, p := range g.paths {
		path := &pb.Path{Elem: cloneElems(p)}
		if g.tmode != "p" {
			path.Target = id
		}
		req.Path = append(req.Path, path)
	}
	return req
}

func errCause(err error) string {
	m := err.Error()
	switch {
	case strings.Contains(m, "has no target"):
		return "noTarget"
	case strings.Contains(m, "not found"):
		return "noConfig"
	}
	return "other:" + strings.ReplaceAll(m, " ", "_")
}

func (r *real) get(g getReq) string {
	ctx, cancel := context.WithTimeout(context.Background(), 5*time.Second)
	defer cancel()
	resp, err := r.env.server.Get(ctx, r.buildGet(g))
	if err != nil {
		return "err " + errCause(err)
	}
	parts := []string{"ok"}
	for _, n := range resp.Notification {
		parts = append(parts, encNotification(n, g.enc))
	}
	return strings.Join(parts, " ")
}

// encNotification: PROTO `n[u:<hex path>=<hex value>,…]` (sorted), an update without value
// `e@<hex path>`; JSON `j@<hex update path>[<hex leaf path>=<hex value>,…]` — the document
// flattened (keys of list entries folded into the path, sorted).
func encNotification(n *pb.Notification, enc string) string {
	var items []string
	for _, u := range n.Update {
		ptxt := fw.EncStr(utils.StrPath(u.Path))
		switch v := u.Val.GetValue().(type) {
		case nil:
			items = append(items, "e@"+ptxt)
		case *pb.TypedValue_StringVal:
			items = append(items, "u:"+ptxt+"="+fw.EncStr(v.StringVal))
		case *pb.TypedValue_JsonVal:
			items = append(items, "j@"+ptxt+"["+strings.Join(flattenDoc(v.JsonVal), ",")+"]")
		default:
			items = append(items, "x:"+ptxt)
		}
	}
	sort.Strings(items)
	return "n[" + strings.Join(items, ";") + "]"
}

// flattenDoc: the (path, value) leaves of an RFC 7951 document rooted at `/`.
func flattenDoc(doc []byte) []string {
	var top interface{}
	if err := json.Unmarshal(doc, &top); err != nil {
		return []string{"baddoc:" + fw.EncStr(string(doc))}
	}
	var out []string
	var walk func(prefix string, node interface{})
	walk = func(prefix string, node interface{}) {
		switch x := node.(type) {
		case map[string]interface{}:
			for name, child := range x {
				if arr, ok := child.([]interface{}); ok {
					keys := listKeys[name]
					for _, item := range arr {
						im, ok := item.(map[string]interface{})
						if !ok {
							out = append(out, "badlist:"+fw.EncStr(prefix+"/"+name))
							continue
						}
						e := name
						rest := map[string]interface{}{}
						for k, v := range im {
							rest[k] = v
						}
						for _, k := range keys {
							e += "[" + k + "=" + fmt.Sprint(im[k]) + "]"
							delete(rest, k)
						}
						walk(prefix+"/"+e, rest)
					}
					continue
				}
				walk(prefix+"/"+name, child)
			}
		case string:
			out = append(out, fw.EncStr(prefix)+"="+fw.EncStr(x))
		default:
			out = append(out, "badleaf:"+fw.EncStr(prefix))
		}
	}
	walk("", top)
	sort.Strings(out)
	return out
}

// ---- the independent reference: element by element, gNMI wildcard semantics ----

func elemMatch(q, p *pb.PathElem) bool {
	if q.Name != "*" && q.Name != p.Name {
		return false
	}
	for k, v := range q.Key {
		pv, ok := p.Key[k]
		if !ok || (v != "*" && v != pv) {
			return false
		}
	}
	return true
}

// refMatch: the stored path p lies at or beneath what the query q addresses.
func refMatch(q, p []*pb.PathElem) bool {
	if len(q) == 0 {
		return true
	}
	if q[0].Name == "..." {
		for k := 0; k <= len(p); k++ {
			if refMatch(q[1:], p[k:]) {
				return true
			}
		}
		return false
	}
	if len(p) == 0 {
		return false
	}
	return elemMatch(q[0], p[0]) && refMatch(q[1:], p[1:])
}

// effective query of one path of a request: prefix elements then path elements.
func effective(g getReq, i int) []*pb.PathElem {
	q := append([]*pb.PathElem{}, g.pfx...)
	if i >= 0 {
		q = append(q, g.paths[i]...)
	}
	return q
}

// expected: the leaves of the loaded configuration the query selects.
func expected(loaded map[string]string, q []*pb.PathElem) map[string]string {
	out := map[string]string{}
	for text, v := range loaded {
		if refMatch(q, byText[text].elems) {
			out[text] = v
		}
	}
	return out
}

// returned parses one notification of a real answer into its leaves; bad: a malformed item.
func returned(n string) (map[string]string, string) {
	out := map[string]string{}
	if !strings.HasPrefix(n, "n[") || !strings.HasSuffix(n, "]") {
		return nil, "malformed notification " + n
	}
	body := n[2 : len(n)-1]
	if body == "" {
		return out, ""
	}
	for _, it := range strings.Split(body, ";") {
		switch {
		case strings.HasPrefix(it, "e@"):
		case strings.HasPrefix(it, "u:"):
			k, v, _ := strings.Cut(it[2:], "=")
			ks, _ := fw.DecStr(k)
			vs, _ := fw.DecStr(v)
			if _, dup := out[ks]; dup {
				return nil, "leaf returned twice: " + ks
			}
			out[ks] = vs
		case strings.HasPrefix(it, "j@"):
			i := strings.Index(it, "[")
			inner := it[i+1 : len(it)-1]
			if inner == "" {
				continue
			}
			for _, lf := range strings.Split(inner, ",") {
				k, v, ok := strings.Cut(lf, "=")
				if !ok {
					return nil, "document does not flatten: " + lf
				}
				ks, _ := fw.DecStr(k)
				vs, _ := fw.DecStr(v)
				out[ks] = vs
			}
		default:
			return nil, "unexpected update " + it
		}
	}
	return out, ""
}

// monitor: every returned leaf is expected and every expected leaf is returned, notification by
// notification.  Messages: `<kind>@<line>#<notification>: <leaf path> …`.
func monitor(c fw.Case, out []string) []string {
	loaded := map[string]map[string]string{}
	var fails []string
	for i, ln := range c.Script {
		if i >= len(out) {
			break
		}
		if l, ok := decLoad(ln); ok {
			if !strings.HasPrefix(out[i], "ok ") {
				fails = append(fails, fmt.Sprintf("load@%d#0: the configuration could not be stored: %s", i, out[i]))
				continue
			}
			if len(l.set)+len(l.del) > 0 { // nothing was ever set: no configuration exists (refusal classes are C13's)
				loaded[l.target] = l.set
			}
			continue
		}
		g, ok := decGet(ln)
		if !ok {
			continue
		}
		cfg, has := loaded[g.target]
		if !has {
			continue // a target that was never configured: refusal classes are C13's
		}
		if !strings.HasPrefix(out[i], "ok") {
			fails = append(fails, fmt.Sprintf("refused@%d#0: a Get on a configured target is not answered: %s", i, out[i]))
			continue
		}
		ns := strings.Fields(out[i])[1:]
		want := len(g.paths)
		if want == 0 {
			want = 1
		}
		if len(ns) != want {
			fails = append(fails, fmt.Sprintf("shape@%d#0: %d notifications for %d paths", i, len(ns), want))
			continue
		}
		for j, n := range ns {
			qi := j
			if len(g.paths) == 0 {
				qi = -1
			}
			exp := expected(cfg, effective(g, qi))
			got, bad := returned(n)
			if bad != "" {
				fails = append(fails, fmt.Sprintf("shape@%d#%d: %s", i, j, bad))
				continue
			}
			for p, v := range got {
				if ev, ok := exp[p]; !ok {
					fails = append(fails, fmt.Sprintf("unexpected@%d#%d: %s is returned (=%s) but the query does not select it", i, j, p, v))
				} else if ev != v {
					fails = append(fails, fmt.Sprintf("value@%d#%d: %s is returned with value %s, stored %s", i, j, p, v, ev))
				}
			}
			for p := range exp {
				if _, ok := got[p]; !ok {
					fails = append(fails, fmt.Sprintf("missing@%d#%d: %s is stored and selected by the query but not returned", i, j, p))
				}
			}
		}
	}
	sort.Strings(fails)
	return fails
}

// ---- generators ----

func genLoad(r *rng.R, target string) loadReq {
	l := loadReq{target: target, set: map[string]string{}}
	n := r.Range(4, 14)
	perm := make([]int, len(universe))
	for i := range perm {
		perm[i] = i
	}
	for i := len(perm) - 1; i > 0; i-- {
		j := r.Intn(i + 1)
		perm[i], perm[j] = perm[j], perm[i]
	}
	for _, ix := range perm[:n] {
		lf := universe[ix]
		if r.Chance(1, 6) && deletable(lf) {
			l.del = append(l.del, lf.text)
			continue
		}
		l.set[lf.text] = "v" + itoa(ix) + target
	}
	return l
}

// genQuery derives a query from a universe leaf: a prefix of its elements (a container or the
// leaf), with elements and key values replaced by wildcards, keys omitted, `...` inserted.
func genQuery(r *rng.R) ([]*pb.PathElem, []string) {
	var tags []string
	lf := universe[r.Intn(len(universe))]
	n := r.Range(0, len(lf.elems))
	if r.Chance(2, 3) {
		n = r.Range(1, len(lf.elems))
	}
	q := cloneElems(lf.elems[:n])
	if r.Chance(1, 12) { // a path that exists nowhere
		q = append(q, el("nope"))
		tags = append(tags, "q-absent")
	}
	for i := range q {
		switch r.Intn(9) {
		case 0:
			for k := range q[i].Key {
				q[i].Key[k] = "*"
				tags = append(tags, "q-key-star")
				if r.Bool() {
					break
				}
			}
		case 1:
			if len(q[i].Key) > 0 {
				for k := range q[i].Key {
					delete(q[i].Key, k)
					tags = append(tags, "q-key-omitted")
					if r.Bool() {
						break
					}
				}
			}
		case 2:
			q[i] = el("*")
			tags = append(tags, "q-elem-star")
		case 3:
			if r.Chance(1, 2) {
				q[i] = el("...")
				tags = append(tags, "q-ellipsis")
			}
		}
	}
	if r.Chance(1, 10) && len(q) > 0 {
		i := r.Intn(len(q) + 1)
		q = append(q[:i], append([]*pb.PathElem{el("...")}, q[i:]...)...)
		tags = append(tags, "q-ellipsis")
	}
	if len(q) == 0 {
		tags = append(tags, "q-root")
	}
	return q, tags
}

func genGet(r *rng.R, target string) (getReq, []string) {
	g := getReq{enc: []string{"P", "P", "J", "I"}[r.Intn(4)], target: target}
	tags := []string{"enc-" + g.enc}
	np := r.Range(1, 3)
	if r.Chance(2, 3) {
		np = 1
	}
	q0, t0 := genQuery(r)
	tags = append(tags, t0...)
	switch r.Intn(6) {
	case 0: // no prefix message at all
		g.tmode = "q"
		g.paths = append(g.paths, q0)
		tags = append(tags, "split-path-only")
	case 1: // prefix only
		g.hasPfx, g.pfx, g.tmode = true, q0, "p"
		np = 0
		tags = append(tags, "split-prefix-only")
	default:
		cut := r.Range(0, len(q0))
		g.hasPfx, g.pfx = true, q0[:cut]
		g.paths = append(g.paths, q0[cut:])
		g.tmode = []string{"p", "q", "b"}[r.Intn(3)]
		tags = append(tags, "split-both", "tmode-"+g.tmode)
		for _, e := range g.pfx {
			if e.Name == "*" || e.Name == "..." {
				tags = append(tags, "wildcard-in-prefix")
			}
			for _, v := range e.Key {
				if v == "*" {
					tags = append(tags, "wildcard-in-prefix")
				}
			}
		}
	}
	for len(g.paths) < np {
		q, t := genQuery(r)
		tags = append(tags, t...)
		// further paths share the prefix: relative to it when they start with it, else anything
		g.paths = append(g.paths, q)
	}
	if len(g.paths) > 1 {
		tags = append(tags, "several-paths")
	}
	return g, tags
}

func dedup(xs []string) []string {
	seen := map[string]bool{}
	var out []string
	for _, x := range xs {
		if !seen[x] {
			seen[x] = true
			out = append(out, x)
		}
	}
	return out
}

func gen(r *rng.R, tier string) fw.Case {
	var script, tags []string
	targets := []string{"A"}
	if r.Chance(1, 3) {
		targets = append(targets, "B")
		tags = append(tags, "two-targets")
	}
	for _, t := range targets {
		l := genLoad(r, t)
		script = append(script, loadLine(l))
		if len(l.del) > 0 {
			tags = append(tags, "tombstones")
		}
	}
	n := r.Range(6, 12)
	for i := 0; i < n; i++ {
		g, t := genGet(r, targets[r.Intn(len(targets))])
		script = append(script, getLine(g))
		tags = append(tags, t...)
	}
	return fw.Case{Script: script, Tags: dedup(tags), Nontrivial: true}
}

// shrinkCase: drop Get lines (never the loads), drop paths of a Get, drop loaded leaves.
func shrinkCase(c fw.Case) []fw.Case {
	var out []fw.Case
	mkc := func(s []string) {
		out = append(out, fw.Case{Script: s, Tags: c.Tags, Nontrivial: true, Origin: c.Origin})
	}
	for i, ln := range c.Script {
		if strings.HasPrefix(ln, "nbget.get") {
			mkc(append(append([]string{}, c.Script[:i]...), c.Script[i+1:]...))
		}
	}
	for i, ln := range c.Script {
		if g, ok := decGet(ln); ok && len(g.paths) > 1 {
			for j := range g.paths {
				ng := g
				ng.paths = append(append([][]*pb.PathElem{}, g.paths[:j]...), g.paths[j+1:]...)
				s := append([]string{}, c.Script...)
				s[i] = getLine(ng)
				mkc(s)
			}
		}
		if l, ok := decLoad(ln); ok {
			for k := range l.set {
				nl := loadReq{target: l.target, set: map[string]string{}, del: l.del}
				for k2, v2 := range l.set {
					if k2 != k {
						nl.set[k2] = v2
					}
				}
				s := append([]string{}, c.Script...)
				s[i] = loadLine(nl)
				mkc(s)
			}
			if len(l.del) > 0 {
				s := append([]string{}, c.Script...)
				s[i] = loadLine(loadReq{target: l.target, set: l.set})
				mkc(s)
			}
		}
	}
	return out
}

// Prop is the C03G correspondence stream.
var Prop = &fw.Prop{
	ID: "C03G",
	Rule: "one or two targets are configured through the real Set handler and controllers with 4-14 leaves of an adversarial path universe (sibling names that are textual prefixes of each other: /a/b /a/bc /a/b-c /ab /abc; " +
		"lists with one and two keys and key values that are textual prefixes: l[k=1] l[k=10], p[a=x][b=y] p[a=xy][b=y], box[id=r1] box[id=r10]; nested lists; some leaves deleted again so that tombstones are stored), " +
		"then 6-12 Get requests go through the real Get handler: encoding PROTO / JSON / JSON_IETF, the effective query (a container or leaf of the universe with elements or key values replaced by `*`, keys omitted, `...` inserted, or an absent path) " +
		"split at a random point into prefix and path (no prefix message, prefix only, both), the target in the prefix, in the paths or in both, 1-3 paths per request. " +
		"The monitor flattens every notification (PROTO updates; JSON documents with list keys folded into the path) and compares it with the stored live leaves selected element by element with gNMI wildcard semantics. Every case is non-trivial.",
	Quick: 260, Thorough: 4000,
	Gen:     gen,
	NewReal: newReal,
	Monitor: monitor,
	Shrink:  shrinkCase,
	Sigs:    sigs,
}

func init() { fw.Register(Prop) }
