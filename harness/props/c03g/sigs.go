package c03g

import (
	"strconv"
	"strings"

	"github.com/onosproject/onos-config/pkg/utils"
	"github.com/onosproject/onos-config/verifharness/internal/fw"
	pb "github.com/openconfig/gnmi/proto/gnmi"
)

// variant of the reference used by the signatures: which gNMI rule is dropped
type variant struct {
	ellipsisNeedsOne bool // `...` must stand for at least one element
	keysRequired     bool // a list element of the query must name every key
	starKeyless      bool // a `*` element only stands for elements without keys
	looseLast        bool // the last element of the query also selects elements whose name merely starts with its name
}

func vElemMatch(v variant, q, p *pb.PathElem, last bool) bool {
	if q.Name == "*" {
		if v.starKeyless && len(p.Key) > 0 {
			return false
		}
	} else if q.Name != p.Name {
		if !(v.looseLast && last && len(q.Key) == 0 && strings.HasPrefix(p.Name, q.Name)) {
			return false
		}
	} else if v.keysRequired && len(q.Key) != len(p.Key) {
		return false
	}
	for k, qv := range q.Key {
		pv, ok := p.Key[k]
		if !ok || (qv != "*" && qv != pv) {
			return false
		}
	}
	return true
}

func vMatch(v variant, q, p []*pb.PathElem) bool {
	if len(q) == 0 {
		return true
	}
	if q[0].Name == "..." {
		from := 0
		if v.ellipsisNeedsOne {
			from = 1
		}
		for k := from; k <= len(p); k++ {
			if vMatch(v, q[1:], p[k:]) {
				return true
			}
		}
		return false
	}
	if len(p) == 0 {
		return false
	}
	return vElemMatch(v, q[0], p[0], len(q) == 1) && vMatch(v, q[1:], p[1:])
}

// about: the kind of a monitor message, the request it is about, the effective query of the
// notification and the leaf.
func about(c fw.Case, msg string) (kind string, g getReq, q []*pb.PathElem, lf leaf, ok bool) {
	head, rest, found := strings.Cut(msg, ": ")
	if !found {
		return
	}
	kind, pos, found := strings.Cut(head, "@")
	if !found {
		return
	}
	ls, ns, found := strings.Cut(pos, "#")
	if !found {
		return
	}
	i, err1 := strconv.Atoi(ls)
	j, err2 := strconv.Atoi(ns)
	if err1 != nil || err2 != nil || i < 0 || i >= len(c.Script) {
		return
	}
	g, ok = decGet(c.Script[i])
	if !ok {
		return
	}
	if len(g.paths) == 0 {
		j = -1
	} else if j >= len(g.paths) {
		ok = false
		return
	}
	q = effective(g, j)
	lf, ok = byText[strings.Fields(rest)[0]]
	return
}

// textual prefix: the last element of the query is a bare name and the leaf is selected only
// because an element NAME starts with it (`/a/b` selects `/a/bc`, `/ab` selects `/abc`): the
// query expression is anchored at its start only.
func sigTextualPrefix(c fw.Case, out []string, msg string) bool {
	kind, _, q, lf, ok := about(c, msg)
	return ok && kind == "unexpected" && !vMatch(variant{}, q, lf.elems) && vMatch(variant{looseLast: true}, q, lf.elems)
}

// why a selected leaf is missing: "ellipsis" (`...` standing for no element: `/a/.../b` becomes
// `^/a/.*/b`, which needs a second slash), "keys" (a list element of the query that does not name
// all its keys selects nothing), "star" (a `*` element does not stand for a list element:
// `[legalChars]*?` has no brackets), or "" when none of these explains it.  When every way of
// selecting the leaf needs two of the unsupported features at once, the first one the query uses
// is named.
func missingBecause(q []*pb.PathElem, lf leaf) string {
	if !vMatch(variant{}, q, lf.elems) {
		return ""
	}
	switch {
	case !vMatch(variant{ellipsisNeedsOne: true}, q, lf.elems):
		return "ellipsis"
	case !vMatch(variant{keysRequired: true}, q, lf.elems):
		return "keys"
	case !vMatch(variant{starKeyless: true}, q, lf.elems):
		return "star"
	case vMatch(variant{ellipsisNeedsOne: true, keysRequired: true, starKeyless: true}, q, lf.elems):
		return ""
	}
	for _, e := range q {
		switch {
		case e.Name == "...":
			return "ellipsis"
		case e.Name == "*":
			return "star"
		}
	}
	return "keys"
}

func sigEllipsisZero(c fw.Case, out []string, msg string) bool {
	kind, _, q, lf, ok := about(c, msg)
	return ok && kind == "missing" && missingBecause(q, lf) == "ellipsis"
}

func sigOmittedKeys(c fw.Case, out []string, msg string) bool {
	kind, _, q, lf, ok := about(c, msg)
	return ok && kind == "missing" && missingBecause(q, lf) == "keys"
}

func sigStarElementKeyed(c fw.Case, out []string, msg string) bool {
	kind, _, q, lf, ok := about(c, msg)
	return ok && kind == "missing" && missingBecause(q, lf) == "star"
}

// PROTO only: createUpdate skips a selected value whose path text is shorter than the text of
// the request prefix (`len(prefixPath) > len(cv.Path)`), which happens when a wildcard of the
// prefix is longer than what it stands for (`/a/...` against `/a/b`).
func sigProtoPrefixLength(c fw.Case, out []string, msg string) bool {
	kind, g, q, lf, ok := about(c, msg)
	return ok && kind == "missing" && g.enc == "P" && g.hasPfx && vMatch(variant{}, q, lf.elems) &&
		len(utils.StrPathElem(g.pfx)) > len(lf.text)
}

var sigs = map[string]func(fw.Case, []string, string) bool{
	"getTextualPrefix":    sigTextualPrefix,
	"getEllipsisZero":     sigEllipsisZero,
	"getOmittedKeys":      sigOmittedKeys,
	"getStarElementKeyed": sigStarElementKeyed,
	"getProtoPrefixLen":   sigProtoPrefixLength,
}
