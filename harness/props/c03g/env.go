package c03g

// The environment: the real gNMI server (Set and Get handlers) over the real stores on the
// atomix in-memory test client, with the real transaction / proposal / configuration
// controllers running, a fake topo and a fake model plugin whose read-write table makes the
// path universe writable.  One environment serves many cases (fresh targets per case) and is
// replaced after envLife Sets.

import (
	"context"
	"sync"

	"github.com/atomix/go-sdk/pkg/test"
	adminapi "github.com/onosproject/onos-api/go/onos/config/admin"
	configv2 "github.com/onosproject/onos-api/go/onos/config/v2"
	topoapi "github.com/onosproject/onos-api/go/onos/topo"
	configurationcontroller "github.com/onosproject/onos-config/pkg/controller/v2/configuration"
	proposalcontroller "github.com/onosproject/onos-config/pkg/controller/v2/proposal"
	transactioncontroller "github.com/onosproject/onos-config/pkg/controller/v2/transaction"
	gnmiv2 "github.com/onosproject/onos-config/pkg/northbound/gnmi/v2"
	"github.com/onosproject/onos-config/pkg/pluginregistry"
	sb "github.com/onosproject/onos-config/pkg/southbound/gnmi"
	"github.com/onosproject/onos-config/pkg/store/v2/configuration"
	"github.com/onosproject/onos-config/pkg/store/v2/proposal"
	"github.com/onosproject/onos-config/pkg/store/v2/transaction"
	pathutils "github.com/onosproject/onos-config/pkg/utils/path"
	"github.com/onosproject/onos-lib-go/pkg/logging"
	pb "github.com/openconfig/gnmi/proto/gnmi"
)

func init() { logging.SetLevel(logging.FatalLevel) }

const modelName, modelVersion = "m", "1.0.0"

type fakeTopo struct{}

func (fakeTopo) Create(ctx context.Context, object *topoapi.Object) error { return nil }
func (fakeTopo) Update(ctx context.Context, object *topoapi.Object) error { return nil }
func (fakeTopo) Delete(ctx context.Context, object *topoapi.Object) error { return nil }
func (fakeTopo) List(ctx context.Context, filters *topoapi.Filters) ([]topoapi.Object, error) {
	return nil, nil
}
func (fakeTopo) Watch(ctx context.Context, ch chan<- topoapi.Event, filters *topoapi.Filters) error {
	return nil
}
func (fakeTopo) Get(ctx context.Context, id topoapi.ID) (*topoapi.Object, error) {
	entity := &topoapi.Object{ID: id, Type: topoapi.Object_ENTITY, Obj: &topoapi.Object_Entity{Entity: &topoapi.Entity{}}}
	_ = entity.SetAspect(&topoapi.Configurable{Type: modelName, Target: string(id), Version: modelVersion})
	return entity, nil
}

type fakePlugin struct{ rw pathutils.ReadWritePathMap }

func (p *fakePlugin) GetInfo() *pluginregistry.ModelPluginInfo {
	return &pluginregistry.ModelPluginInfo{Info: adminapi.ModelInfo{Name: modelName, Version: modelVersion}, ReadWritePaths: p.rw}
}
func (p *fakePlugin) Capabilities(ctx context.Context) *pb.CapabilityResponse {
	return &pb.CapabilityResponse{}
}
func (p *fakePlugin) Validate(ctx context.Context, jsonData []byte) error { return nil }
func (p *fakePlugin) GetPathValues(ctx context.Context, pathPrefix string, jsonData []byte) ([]*configv2.PathValue, error) {
	return nil, nil
}
func (p *fakePlugin) LeafValueSelection(ctx context.Context, selectionPath string, jsonData []byte) ([]string, error) {
	return nil, nil
}

type fakeRegistry struct{ p *fakePlugin }

func (fakeRegistry) Start() {}
func (fakeRegistry) Stop()  {}
func (r fakeRegistry) GetPlugin(model configv2.TargetType, version configv2.TargetVersion) (pluginregistry.ModelPlugin, bool) {
	return r.p, string(model) == modelName && string(version) == modelVersion
}
func (r fakeRegistry) GetPlugins() []pluginregistry.ModelPlugin {
	return []pluginregistry.ModelPlugin{r.p}
}
func (fakeRegistry) NewClientFn(func(endpoint string) (adminapi.ModelPluginServiceClient, error)) {}

type env struct {
	mu      sync.Mutex // one request at a time
	server  *gnmiv2.Server
	cfgs    configuration.Store
	sets    int
	active  int
	retired bool
	stopAll func()
}

var (
	envMu  sync.Mutex
	theEnv *env
	nextID int
)

const envLife = 60

type startStopper interface {
	Start() error
	Stop()
}

func newEnv() (*env, error) {
	cluster := test.NewClient()
	cfgs, err := configuration.NewAtomixStore(cluster)
	if err != nil {
		return nil, err
	}
	props, err := proposal.NewAtomixStore(cluster)
	if err != nil {
		return nil, err
	}
	txs, err := transaction.NewAtomixStore(cluster)
	if err != nil {
		return nil, err
	}
	rw := pathutils.ReadWritePathMap{}
	for _, l := range universe {
		rw[pathutils.AnonymizePathIndices(l.text)] = adminapi.ReadWritePath{ValueType: configv2.ValueType_STRING}
	}
	reg := fakeRegistry{p: &fakePlugin{rw: rw}}
	topo := fakeTopo{}
	conns := sb.NewConnManager()
	ctrls := []startStopper{
		configurationcontroller.NewController(topo, conns, cfgs),
		proposalcontroller.NewController(topo, conns, props, cfgs, reg),
		transactioncontroller.NewController(txs, props),
	}
	for _, c := range ctrls {
		if err := c.Start(); err != nil {
			return nil, err
		}
	}
	return &env{server: gnmiv2.NewServerForVerif(topo, txs, props, cfgs, reg, conns, 0), cfgs: cfgs,
		stopAll: func() {
			for _, c := range ctrls {
				c.Stop()
			}
			_ = txs.Close(context.Background())
			_ = props.Close(context.Background())
			_ = cfgs.Close(context.Background())
			cluster.Close()
		}}, nil
}

// acquire gives a case its environment: the current one, or a new one when the current one
// has served envLife Sets (it is stopped when its last case ends).
func acquire() (*env, error) {
	envMu.Lock()
	defer envMu.Unlock()
	if theEnv != nil && theEnv.sets >= envLife {
		theEnv.retired = true
		if theEnv.active == 0 {
			theEnv.stopAll()
		}
		theEnv = nil
	}
	if theEnv == nil {
		e, err := newEnv()
		if err != nil {
			return nil, err
		}
		theEnv = e
	}
	theEnv.active++
	return theEnv, nil
}

func release(e *env) {
	envMu.Lock()
	defer envMu.Unlock()
	e.active--
	if e.retired && e.active == 0 {
		e.stopAll()
	}
}

func freshTargetID() string {
	envMu.Lock()
	defer envMu.Unlock()
	nextID++
	return "g" + itoa(nextID)
}

func itoa(n int) string {
	if n == 0 {
		return "0"
	}
	var b []byte
	for n > 0 {
		b = append([]byte{byte('0' + n%10)}, b...)
		n /= 10
	}
	return string(b)
}
