// Package c13 ties the Lean twin of the Set pre-store phase (OnosVerif/NB) to the real gNMI
// server (NewServerForVerif on the real stores, fake topo/plugin with a generated model table),
// and evaluates C13's own statement on the real answers: a refused Set creates no transaction and
// changes no configuration; listed causes are refused; the prefix target wins; operations land on
// exactly the (target, prefix+path) they name.
package c13

import (
	"fmt"
	"sort"
	"strconv"
	"strings"

	gogoproto "github.com/gogo/protobuf/proto"
	configapi "github.com/onosproject/onos-api/go/onos/config/v2"
	"github.com/onosproject/onos-config/pkg/utils"
	"github.com/onosproject/onos-config/verifharness/internal/fw"
	"github.com/onosproject/onos-config/verifharness/internal/nbenv"
	"github.com/onosproject/onos-config/verifharness/internal/nbgen"
	"github.com/onosproject/onos-config/verifharness/internal/nbreal"
	"github.com/onosproject/onos-config/verifharness/internal/nbwire"
	"github.com/onosproject/onos-config/verifharness/internal/rng"
	pb "github.com/openconfig/gnmi/proto/gnmi"
)

// ---------------------------------------------------------------------------------------------
// generation

var rawAlphabet = []string{"a", "b", "1", "/", "[", "]", "=", "k", "*", "-", ".", ":", "\n", "\\", " ", "é", "("}

func genRaw(r *rng.R) string {
	n := r.Range(0, 12)
	var b strings.Builder
	for i := 0; i < n; i++ {
		b.WriteString(r.Pick(rawAlphabet))
	}
	return b.String()
}

func rwTok(spec nbenv.Spec) string {
	if len(spec.Plugins) == 0 {
		return "rw="
	}
	var rws []string
	for _, e := range spec.Plugins[0].RW {
		k := "0"
		if e.IsAKey {
			k = "1"
		}
		rws = append(rws, fw.EncStr(e.Path)+";"+k+";"+fw.EncStr(e.AttrName))
	}
	return "rw=" + strings.Join(rws, ",")
}

func pureLines(r *rng.R, spec nbenv.Spec, texts []string) []string {
	var out []string
	texts = append(texts, genRaw(r), genRaw(r))
	rw := rwTok(spec)
	for _, t := range texts {
		h := fw.EncStr(t)
		out = append(out, "nb.rmidx "+h, "nb.anon "+h, "nb.idx "+h, "nb.valid "+h, "nb.find "+h+" 1 "+rw, "nb.find "+h+" 0 "+rw)
	}
	out = append(out, "nb.idxok "+fw.EncStr(genRaw(r)), "nb.idxok "+fw.EncStr(r.Pick([]string{"a", "1-2", "x.y", "*", "a b", ""})))
	return out
}

func reqTexts(rq *nbwire.Req) []string {
	var out []string
	add := func(p *nbwire.PathMsg) {
		full := utils.StrPath(nbwire.GPath(p))
		if pp := utils.StrPath(nbwire.GPath(rq.Prefix)); pp != "/" {
			full = pp + full
		}
		out = append(out, full)
	}
	for _, p := range rq.Delete {
		add(p)
	}
	for _, u := range rq.Update {
		add(u.Path)
	}
	if len(out) > 2 {
		out = out[:2]
	}
	return out
}

func gen(r *rng.R, tier string) fw.Case {
	spec, tables := nbgen.GenSpec(r)
	script := []string{nbwire.EncEnv(spec), "obs"}
	var tags []string
	tags = append(tags, "limit-"+limitTag(spec.Limit))
	n := r.Range(1, 4)
	nontrivial := false
	var texts []string
	for i := 0; i < n; i++ {
		mode := "mixed"
		switch k := r.Intn(10); {
		case k < 3:
			mode = "valid"
		case k < 8:
			mode = "mixed"
		default:
			mode = "wild"
		}
		rq, t := nbgen.GenSet(r, spec, tables, mode, true)
		tags = append(tags, "mode-"+mode)
		tags = append(tags, t...)
		if mode == "mixed" || rq.Prefix != nil {
			nontrivial = true
		}
		script = append(script, strings.Join(append([]string{"nb.set"}, rq.Toks()...), " "), "nb.log", "obs")
		texts = append(texts, reqTexts(rq)...)
	}
	if len(texts) > 3 {
		texts = texts[:3]
	}
	script = append(script, pureLines(r, spec, texts)...)
	return fw.Case{Script: script, Tags: dedup(tags), Nontrivial: nontrivial}
}

func limitTag(l int) string {
	switch {
	case l < 0:
		return "negative"
	case l == 0:
		return "off"
	}
	return strconv.Itoa(l)
}

func dedup(xs []string) []string {
	seen := map[string]bool{}
	var out []string
	for _, x := range xs {
		if !seen[x] {
			seen[x] = true
			out = append(out, x)
		}
	}
	return out
}

// enumerate: every prefix/path split of every pool path (valid update and delete), on a full
// table, limits 0 and 1; and every single-operation request over a small set of odd paths.
func enumerate(tier string) []fw.Case {
	var out []fw.Case
	r := rng.New(99)
	spec := nbenv.Spec{
		Targets: []nbenv.TargetSpec{{ID: "t1", HasAspect: true, Type: "model1", Version: "1.0"}, {ID: "t2", HasAspect: true, Type: "model1", Version: "1.0"}, {ID: "tna"}},
	}
	ps := nbenv.PluginSpec{RegType: "model1", RegVersion: "1.0", Name: "model1", Version: "1.0"}
	for _, m := range nbgen.Pool {
		ps.RW = append(ps.RW, nbenv.RWSpec{Path: m.Text(), IsAKey: m.IsAKey, AttrName: m.Attr})
	}
	spec.Plugins = []nbenv.PluginSpec{ps}
	for _, limit := range []int{0, 1} {
		spec.Limit = limit
		for _, m := range nbgen.Pool {
			in := nbgen.Instantiate(r, m, false)
			for cut := 0; cut <= len(in.Elems); cut++ {
				for _, pt := range []string{"", "t1"} {
					for _, del := range []bool{false, true} {
						rq := &nbwire.Req{}
						if cut > 0 || pt != "" {
							rq.Prefix = &nbwire.PathMsg{Target: pt, Elem: in.Elems[:cut]}
						}
						p := &nbwire.PathMsg{Target: "t2", Elem: in.Elems[cut:]}
						if del {
							rq.Delete = []*nbwire.PathMsg{p}
						} else {
							want := "v"
							if m.IsAKey {
								want = nbgen.KeyLeafValue(in)
							}
							rq.Update = []nbwire.Update{{Path: p, Val: nbwire.Val{Kind: "S", Str: want}}}
						}
						c := fw.Case{Script: []string{nbwire.EncEnv(spec), "obs", strings.Join(append([]string{"nb.set"}, rq.Toks()...), " "), "nb.log", "obs"},
							Tags: []string{"enum-split"}, Nontrivial: true}
						out = append(out, c)
					}
				}
			}
		}
	}
	// every kind of effective target x every kind of overrides extension, one valid update each
	spec.Limit = 0
	spec.Targets = append(spec.Targets, nbenv.TargetSpec{ID: "tnp", HasAspect: true, Type: "nomodel", Version: "9"})
	ttv := func(ty, ver string) *configapi.TargetTypeVersion {
		return &configapi.TargetTypeVersion{TargetType: configapi.TargetType(ty), TargetVersion: configapi.TargetVersion(ver)}
	}
	for _, tg := range []string{"t1", "tx", "tna", "tnp", ""} {
		for _, viaPrefix := range []bool{false, true} {
			ovs := []map[string]*configapi.TargetTypeVersion{
				nil,
				{tg: ttv("model1", "1.0")},
				{tg: ttv("nomodel", "0")},
				{tg: nil},
				{"other": ttv("model1", "1.0")},
				{tg: ttv("model1", "1.0"), "t2": ttv("nomodel", "0")},
			}
			for _, ov := range ovs {
				rq := &nbwire.Req{}
				p := &nbwire.PathMsg{Target: tg, Elem: []*pb.PathElem{{Name: "foo"}}}
				if viaPrefix {
					rq.Prefix = &nbwire.PathMsg{Target: tg}
					p.Target = "t2"
				}
				rq.Update = []nbwire.Update{{Path: p, Val: nbwire.Val{Kind: "S", Str: "v"}}}
				if ov != nil {
					rq.Exts = []nbwire.Ext{nbgen.OverridesExt(ov)}
				}
				out = append(out, fw.Case{Script: []string{nbwire.EncEnv(spec), "obs", strings.Join(append([]string{"nb.set"}, rq.Toks()...), " "), "nb.log", "obs"},
					Tags: []string{"enum-target-override"}, Nontrivial: true})
			}
		}
	}
	return out
}

// ---------------------------------------------------------------------------------------------
// the monitor: C13's statement, evaluated from the request structure and the real answers only

type realAns struct {
	accepted bool
	respOK   bool
	targets  map[string]bool
	pairs    map[[2]string]string // (target, path) -> value token
	raw      string
}

func parseAns(line string) realAns {
	a := realAns{raw: line, targets: map[string]bool{}, pairs: map[[2]string]string{}}
	toks := strings.Fields(line)
	if len(toks) == 0 || toks[0] != "ok" {
		return a
	}
	a.accepted = true
	for _, t := range toks[1:] {
		switch {
		case t == "resp=ok":
			a.respOK = true
		case strings.HasPrefix(t, "t:"):
			s, _ := fw.DecStr(t[2:])
			a.targets[s] = true
		case strings.HasPrefix(t, "c:"):
			f := strings.SplitN(t[2:], ":", 3)
			if len(f) == 3 {
				tg, _ := fw.DecStr(f[0])
				p, _ := fw.DecStr(f[1])
				a.pairs[[2]string{tg, p}] = f[2]
			}
		}
	}
	return a
}

func isIdent(s string) bool {
	if s == "" {
		return false
	}
	for i, c := range s {
		switch {
		case c >= 'a' && c <= 'z', c >= 'A' && c <= 'Z', c == '_':
		case i > 0 && (c >= '0' && c <= '9' || c == '-' || c == '.'):
		default:
			return false
		}
	}
	return true
}

func isName(s string) bool {
	if m, n, ok := strings.Cut(s, ":"); ok {
		return isIdent(m) && isIdent(n)
	}
	return isIdent(s)
}

// plain: a path the monitor reasons about structurally — v0.4 elements only, identifier names
// and key names, key values without characters that need escaping.
func plain(p *nbwire.PathMsg) bool {
	if p == nil {
		return true
	}
	if len(p.Element) > 0 {
		return false
	}
	for _, e := range p.Elem {
		if !isName(e.Name) {
			return false
		}
		for k, v := range e.Key {
			if !isName(k) || v == "" || strings.ContainsAny(v, "/[]\\=\n") {
				return false
			}
		}
	}
	return true
}

func elemsOf(p *nbwire.PathMsg) []*pb.PathElem {
	if p == nil {
		return nil
	}
	return p.Elem
}

// modelText renders the model path a structured path stands for: keys wildcarded, sorted.
func modelText(es []*pb.PathElem) string {
	var b strings.Builder
	for _, e := range es {
		b.WriteString("/" + e.Name)
		ks := make([]string, 0, len(e.Key))
		for k := range e.Key {
			ks = append(ks, k)
		}
		sort.Strings(ks)
		for _, k := range ks {
			b.WriteString("[" + k + "=*]")
		}
	}
	if b.Len() == 0 {
		return "/"
	}
	return b.String()
}

type melem struct {
	name string
	keys []string
}

func parseModel(text string) []melem {
	var out []melem
	for _, part := range strings.Split(strings.TrimPrefix(text, "/"), "/") {
		name, rest, _ := strings.Cut(part, "[")
		e := melem{name: name}
		for rest != "" {
			kv, r2, _ := strings.Cut(rest, "]")
			k, _, _ := strings.Cut(kv, "=")
			e.keys = append(e.keys, k)
			rest = strings.TrimPrefix(r2, "[")
		}
		out = append(out, e)
	}
	return out
}

// structuralPrefix: es names a node of the model tree above (or at) the model path m: names equal
// element by element, and every key es gives is a key of that list (keys left out are wildcards).
func structuralPrefix(es []*pb.PathElem, m []melem) bool {
	if len(es) > len(m) {
		return false
	}
	for i, e := range es {
		if e.Name != m[i].name {
			return false
		}
		for k := range e.Key {
			found := false
			for _, mk := range m[i].keys {
				if mk == k {
					found = true
				}
			}
			if !found {
				return false
			}
		}
	}
	return true
}

func valString(v nbwire.Val) (string, bool) {
	switch v.Kind {
	case "S", "A":
		return v.Str, true
	case "I":
		return strconv.FormatInt(v.Int, 10), true
	case "U":
		return strconv.FormatUint(v.Uint, 10), true
	case "B":
		return strconv.FormatBool(v.Bool), true
	}
	return "", false
}

type opView struct {
	del   bool
	path  *nbwire.PathMsg
	val   nbwire.Val
	index int
}

func opsOf(rq *nbwire.Req) []opView {
	var out []opView
	for _, p := range rq.Delete {
		out = append(out, opView{del: true, path: p})
	}
	for _, u := range rq.Replace {
		out = append(out, opView{path: u.Path, val: u.Val})
	}
	for _, u := range rq.Update {
		out = append(out, opView{path: u.Path, val: u.Val})
	}
	for i := range out {
		out[i].index = i
	}
	return out
}

// firstExt returns the bytes of the first registered extension with the id.
func firstExt(rq *nbwire.Req, id uint32) ([]byte, bool) {
	for _, e := range rq.Exts {
		if !e.Other && e.ID == id {
			return e.Bytes, true
		}
	}
	return nil, false
}

// judge evaluates one Set: reasons why it must be refused (the property's list), and for an
// accepted one the expected landing.
func judge(spec nbenv.Spec, rq *nbwire.Req, ans realAns) []string {
	var fails []string
	var must []string // reasons for refusal
	// extensions
	overrides := map[string]*configapi.TargetTypeVersion{}
	if b, ok := firstExt(rq, 112); ok {
		var tv configapi.TargetVersionOverrides
		if err := gogoproto.Unmarshal(b, &tv); err != nil {
			must = append(must, "malformed-extension: the target-version-overrides extension does not decode")
		} else if tv.Overrides != nil {
			overrides = tv.Overrides
		}
	}
	if b, ok := firstExt(rq, 111); ok {
		var ts configapi.TransactionStrategy
		if err := gogoproto.Unmarshal(b, &ts); err != nil {
			must = append(must, "malformed-extension: the transaction-strategy extension does not decode")
		}
	}
	ops := opsOf(rq)
	if len(ops) == 0 {
		must = append(must, "no-operations")
	}
	prefixTarget := ""
	if rq.Prefix != nil {
		prefixTarget = rq.Prefix.Target
	}
	effTarget := func(o opView) string {
		if prefixTarget != "" {
			return prefixTarget
		}
		if o.path == nil {
			return ""
		}
		return o.path.Target
	}
	tableOf := func(t string) (map[string]nbenv.RWSpec, string) {
		var ts *nbenv.TargetSpec
		for i := range spec.Targets {
			if spec.Targets[i].ID == t {
				ts = &spec.Targets[i]
			}
		}
		if ts == nil || !ts.HasAspect {
			return nil, "unknown-target: " + strconv.Quote(t) + " is not a configurable topology entity"
		}
		ty, ver := ts.Type, ts.Version
		if ov, ok := overrides[t]; ok && ov != nil {
			ty, ver = string(ov.TargetType), string(ov.TargetVersion)
		}
		for _, p := range spec.Plugins {
			if p.RegType == ty && p.RegVersion == ver {
				tab := map[string]nbenv.RWSpec{}
				for _, e := range p.RW {
					tab[e.Path] = e
				}
				return tab, ""
			}
		}
		return nil, "unknown-model: no plugin for " + ty + " " + ver + " (target " + t + ")"
	}
	allPlain := plain(rq.Prefix)
	distinctTargets := map[string]bool{}
	type landing struct {
		target string
		paths  []string // any of these is acceptable
		what   string
	}
	var expect []landing
	for _, o := range ops {
		t := effTarget(o)
		distinctTargets[t] = true
		tab, why := tableOf(t)
		if tab == nil {
			must = append(must, why)
			continue
		}
		if !plain(o.path) || !plain(rq.Prefix) {
			allPlain = false
			continue
		}
		es := append(append([]*pb.PathElem{}, elemsOf(rq.Prefix)...), elemsOf(o.path)...)
		full := utils.StrPathElem(es)
		if len(es) == 0 {
			full = "/"
		}
		if o.del {
			ok := false
			for mt := range tab {
				if structuralPrefix(es, parseModel(mt)) {
					ok = true
				}
			}
			if !ok || len(es) == 0 {
				if len(es) > 0 {
					must = append(must, "not-a-model-path: delete "+full+" names no node of the model")
				} else {
					allPlain = false // delete of the root: not covered by the statement
				}
				continue
			}
			l := landing{target: t, paths: []string{full}, what: "delete " + full}
			if e, isLeaf := tab[modelText(es)]; isLeaf && e.IsAKey && len(es) > 1 {
				// documented: deleting the key leaf of a list entry deletes the entry
				l.paths = append(l.paths, utils.StrPathElem(es[:len(es)-1]))
			}
			expect = append(expect, l)
			continue
		}
		if o.val.Kind == "J" {
			if o.val.JSONBad {
				allPlain = false
				continue
			}
			for _, m := range o.val.JSON {
				base := full
				if base == "/" {
					base = ""
				}
				expect = append(expect, landing{target: t, paths: []string{base + m[0]}, what: "json member " + m[0] + " of update " + full})
			}
			continue
		}
		e, isLeaf := tab[modelText(es)]
		if !isLeaf {
			must = append(must, "not-a-writable-path: update "+full+" is not a read-write leaf of the model")
			continue
		}
		if e.IsAKey && len(es) > 1 {
			if vs, ok := valString(o.val); ok {
				if kv, has := es[len(es)-2].Key[e.AttrName]; has && kv != vs {
					must = append(must, "key-contradiction: update "+full+" = "+strconv.Quote(vs)+" but the entry's key "+e.AttrName+" is "+strconv.Quote(kv))
				}
			}
		}
		expect = append(expect, landing{target: t, paths: []string{full}, what: "update " + full})
	}
	if spec.Limit > 0 {
		if len(ops) > 0 && len(distinctTargets) != 1 {
			must = append(must, fmt.Sprintf("limit-targets: %d targets under GNMI_SET_SIZE_LIMIT=%d", len(distinctTargets), spec.Limit))
		}
		if len(ops) > spec.Limit {
			must = append(must, fmt.Sprintf("limit-operations: %d operations under GNMI_SET_SIZE_LIMIT=%d", len(ops), spec.Limit))
		}
	}

	if !ans.accepted {
		return nil // whether a refusal changed anything is checked by the caller on the observations
	}
	for _, m := range must {
		fails = append(fails, "refusal: accepted although "+m)
	}
	if !ans.respOK {
		fails = append(fails, "answer: the Set was answered with an error although its transaction was logged")
	}
	if len(must) > 0 {
		return fails
	}
	// prefix target wins; targets are exactly the named ones
	for t := range ans.targets {
		if !distinctTargets[t] {
			fails = append(fails, "target: the transaction changes target "+strconv.Quote(t)+" which no operation names (prefix target "+strconv.Quote(prefixTarget)+")")
		}
	}
	for t := range distinctTargets {
		if !ans.targets[t] {
			fails = append(fails, "target: no change recorded for the named target "+strconv.Quote(t))
		}
	}
	// every operation lands where it says
	used := map[[2]string]bool{}
	for _, l := range expect {
		hit := false
		for _, p := range l.paths {
			if _, ok := ans.pairs[[2]string{l.target, p}]; ok {
				hit = true
				used[[2]string{l.target, p}] = true
			}
		}
		if !hit {
			if strings.HasPrefix(l.what, "json member") {
				fails = append(fails, "effective-path: "+l.what+" did not land on "+l.paths[0]+" of "+l.target)
			} else {
				fails = append(fails, "lands: "+l.what+" did not land on "+strings.Join(l.paths, " or ")+" of "+l.target)
			}
		}
	}
	if allPlain {
		for k := range ans.pairs {
			if !used[k] {
				fails = append(fails, "lands: the transaction holds "+k[1]+" of "+k[0]+" which no operation names")
			}
		}
	}
	return fails
}

func obsFields(line string) (log, creates int, cfg string, ok bool) {
	f := strings.Fields(line)
	if len(f) != 4 || f[0] != "obs" {
		return
	}
	l, e1 := strconv.Atoi(strings.TrimPrefix(f[1], "log="))
	c, e2 := strconv.Atoi(strings.TrimPrefix(f[2], "creates="))
	return l, c, strings.TrimPrefix(f[3], "cfg="), e1 == nil && e2 == nil
}

func monitor(c fw.Case, out []string) []string {
	var fails []string
	var spec nbenv.Spec
	haveSpec := false
	lastObs := -1
	for i, ln := range c.Script {
		toks := strings.Fields(ln)
		if len(toks) == 0 {
			continue
		}
		switch toks[0] {
		case "nb.env":
			spec, haveSpec = nbwire.DecEnv(toks[1:])
			lastObs = -1
		case "obs":
			lastObs = i
		case "nb.set":
			if !haveSpec || i >= len(out) {
				continue
			}
			rq, ok := nbwire.DecReq(toks[1:])
			if !ok {
				continue
			}
			if strings.HasPrefix(out[i], "panic downstream") {
				continue // logged, then a controller crashed on it: C12's statement, not C13's
			}
			ans := parseAns(out[i])
			fails = append(fails, judge(spec, rq, ans)...)
			// observations around the request
			next := -1
			for j := i + 1; j < len(c.Script) && !strings.HasPrefix(c.Script[j], "nb.set"); j++ {
				if c.Script[j] == "obs" {
					next = j
					break
				}
			}
			if lastObs >= 0 && next >= 0 && next < len(out) {
				l0, c0, g0, ok0 := obsFields(out[lastObs])
				l1, c1, g1, ok1 := obsFields(out[next])
				if ok0 && ok1 {
					if !ans.accepted {
						if l1 != l0 || c1 != c0 {
							fails = append(fails, fmt.Sprintf("refused-no-effect: a refused Set (%s) created a transaction (log %d -> %d, create calls %d -> %d)", out[i], l0, l1, c0, c1))
						}
						if g1 != g0 {
							fails = append(fails, fmt.Sprintf("refused-no-effect: a refused Set (%s) changed the stored configuration", out[i]))
						}
					} else if l1 != l0+1 {
						fails = append(fails, fmt.Sprintf("accepted: the log grew by %d, not 1", l1-l0))
					}
				}
			}
		}
	}
	return fails
}

// ---------------------------------------------------------------------------------------------
// signatures of the listed findings

func setAt(c fw.Case, pred func(spec nbenv.Spec, rq *nbwire.Req) bool) bool {
	var spec nbenv.Spec
	for _, ln := range c.Script {
		toks := strings.Fields(ln)
		if len(toks) == 0 {
			continue
		}
		if toks[0] == "nb.env" {
			spec, _ = nbwire.DecEnv(toks[1:])
		}
		if toks[0] == "nb.set" {
			if rq, ok := nbwire.DecReq(toks[1:]); ok && pred(spec, rq) {
				return true
			}
		}
	}
	return false
}

// sigJSONPrefixOnly: a JSON-valued update whose own path is not the root.
func sigJSONPrefixOnly(c fw.Case, out []string, msg string) bool {
	if !strings.HasPrefix(msg, "effective-path: json member") && !(strings.HasPrefix(msg, "lands: the transaction holds") && hasJSONOp(c)) {
		return false
	}
	return hasJSONOp(c)
}

func hasJSONOp(c fw.Case) bool {
	return setAt(c, func(_ nbenv.Spec, rq *nbwire.Req) bool {
		for _, u := range append(append([]nbwire.Update{}, rq.Update...), rq.Replace...) {
			if u.Val.Kind == "J" && u.Path != nil && (len(u.Path.Elem) > 0 || len(u.Path.Element) > 0) {
				return true
			}
		}
		return false
	})
}

// sigDeleteLookup: a delete accepted through the non-exact lookup (indices stripped, textual
// prefix) although it names no node of the model.
func sigDeleteLookup(c fw.Case, out []string, msg string) bool {
	return strings.HasPrefix(msg, "refusal: accepted although not-a-model-path: delete")
}

// ---------------------------------------------------------------------------------------------

func shrinkCase(c fw.Case) []fw.Case {
	var out []fw.Case
	// drop one token (operation, extension, prefix) of one nb.set line
	for i, ln := range c.Script {
		toks := strings.Fields(ln)
		if len(toks) < 3 || toks[0] != "nb.set" {
			continue
		}
		for j := 1; j < len(toks); j++ {
			nt := append(append([]string{}, toks[:j]...), toks[j+1:]...)
			s := append([]string{}, c.Script...)
			s[i] = strings.Join(nt, " ")
			out = append(out, fw.Case{Script: s, Tags: c.Tags, Nontrivial: c.Nontrivial, Origin: c.Origin})
		}
	}
	// drop a whole request with its observation lines
	for i, ln := range c.Script {
		if strings.HasPrefix(ln, "nb.set") && i+2 < len(c.Script) && c.Script[i+1] == "nb.log" && c.Script[i+2] == "obs" {
			s := append(append([]string{}, c.Script[:i]...), c.Script[i+3:]...)
			out = append(out, fw.Case{Script: s, Tags: c.Tags, Nontrivial: c.Nontrivial, Origin: c.Origin})
		}
	}
	// drop the pure lines
	for i, ln := range c.Script {
		if strings.HasPrefix(ln, "nb.rmidx") {
			out = append(out, fw.Case{Script: append([]string{}, c.Script[:i]...), Tags: c.Tags, Nontrivial: c.Nontrivial, Origin: c.Origin})
			break
		}
	}
	return out
}

// outcomeTags: what the real handler answered (per Set), for the printed distribution.
func outcomeTags(c fw.Case, out []string) []string {
	var tags []string
	for i, ln := range c.Script {
		if !strings.HasPrefix(ln, "nb.set") || i >= len(out) {
			continue
		}
		f := strings.Fields(out[i])
		switch {
		case len(f) >= 1 && f[0] == "ok":
			tags = append(tags, "real:accepted")
		case len(f) >= 3 && f[0] == "err":
			tags = append(tags, "real:refused:"+f[1]+":"+f[2])
		case len(f) >= 2 && f[0] == "panic":
			tags = append(tags, "real:panic:"+f[1])
		default:
			tags = append(tags, "real:other")
		}
	}
	return tags
}

// Prop is the C13 correspondence check.
var Prop = &fw.Prop{
	ID: "C13",
	Rule: "1-4 Set requests per case against a generated environment (3 configurable targets, one without aspect, one without plugin, one unknown; 1-2 plugins with a shuffled sub-table of 16 model paths incl. lists, two-key and nested lists, key leaves; GNMI_SET_SIZE_LIMIT -3..6): " +
		"1-5 operations (update/replace/delete, JSON values, odd values), modes valid / mixed (invalid operations in every position among valid ones: unknown leaf, container, textual prefix, key contradiction, characters outside the index alphabet, wrong keys, brackets in names, v0.3 elements, no path, bad target) / wild, " +
		"prefix off / target / target+elements / elements / odd, extensions (strategy, overrides, malformed, other ids); every request goes through the real gnmi Set on real stores, accepted ones through the real transaction and proposal reconcilers; " +
		"plus differential lines for RemovePathIndices, AnonymizePathIndices, ExtractIndexNames, IsPathValid, CheckPathIndexIsValid, FindPathFromModel; plus the enumeration of every prefix/path split of every model path. Non-trivial = a mixed valid/invalid request or a prefix is present.",
	Quick: 3000, Thorough: 30000, Workers: 12,
	Gen: gen, Enumerate: enumerate,
	NewReal: func() fw.Real { return nbreal.New() },
	Monitor: monitor,
	Shrink:  shrinkCase,
	// the twin keeps its state between cases: the shrinker must keep the nb.env line, so line
	// dropping is done by shrinkCase (whole requests with their observation lines)
	FixedLayout: true,
	RealOnly:    func(line string) bool { return line == "obs" },
	OutcomeTags: outcomeTags,
	Sigs: map[string]func(fw.Case, []string, string) bool{
		"jsonPrefixOnly": sigJSONPrefixOnly,
		"deleteLookup":   sigDeleteLookup,
	},
}

func init() { fw.Register(Prop) }
