package v2proto

import (
	"encoding/hex"
	"fmt"
	"regexp"
	"sort"
	"strings"

	"github.com/onosproject/onos-config/verifharness/internal/fw"
)

// An independent reference for C03 and C06: gNMI semantics on the requests of the script, applied
// one after another in log order (the order in which the controllers merge them on a target,
// whatever the schedule), with element-boundary containment; a rollback restores the state its
// target change displaced and is legal only for the change a target's configuration currently
// reflects.  The reference never looks at how the implementation stores anything: it is compared
// with what a Get would return (the live values of `configurations.Get`) and with the device.

type chg struct {
	path string // decoded
	val  string // hex, as in the script
	del  bool
}

type request struct {
	rollback int           // 0: a Set; k: RollbackTransaction(k)
	changes  map[int][]chg // per target (Sets only)
	order    []int         // targets in request order
}

func unhex(h string) string {
	if h == "-" {
		return ""
	}
	b, _ := hex.DecodeString(h)
	return string(b)
}

// requests parses the Sets and rollbacks of a script (after its last reset) in log order.
func requests(c fw.Case) []request {
	var out []request
	for _, ln := range c.Script {
		f := strings.Fields(ln)
		if len(f) == 0 {
			continue
		}
		switch f[0] {
		case "v2.reset":
			out = nil
		case "v2.rollback":
			out = append(out, request{rollback: atoi(f[1])})
		case "v2.set":
			r := request{changes: map[int][]chg{}}
			for _, ch := range f[3:] {
				tt, vals, _ := strings.Cut(ch, "/")
				t := atoi(tt)
				r.order = append(r.order, t)
				for _, tok := range strings.Split(vals, ",") {
					hp, rest, _ := strings.Cut(tok, "=")
					v, _, _ := strings.Cut(rest, ":")
					r.changes[t] = append(r.changes[t], chg{path: unhex(hp), val: v, del: strings.Contains(rest, ":d:")})
				}
			}
			out = append(out, r)
		}
	}
	return out
}

type tstate struct {
	live map[string]string // decoded path -> hex value
	cur  int               // index of the change the configuration reflects
}

func (s tstate) clone() tstate {
	m := make(map[string]string, len(s.live))
	for k, v := range s.live {
		m[k] = v
	}
	return tstate{live: m, cur: s.cur}
}

// gnmiApply: deletes first (the addressed node and everything below it at element boundaries),
// then updates (gNMI 3.4.3); the order of the operations inside the request is irrelevant.
func gnmiApply(s tstate, chs []chg) {
	for _, c := range chs {
		if c.del {
			for p := range s.live {
				if elemPrefix(p, c.path) {
					delete(s.live, p)
				}
			}
		}
	}
	for _, c := range chs {
		if !c.del {
			s.live[c.path] = c.val
		}
	}
}

type refResult struct {
	state   map[int]tstate
	legal   map[int]bool   // rollback transactions: is the request legal?
	why     map[int]string // why not
	applied map[int]bool   // per target: every merged proposal also applied
}

// reference runs the requests against the final state's record of which proposals were merged.
func reference(reqs []request, st *State) refResult {
	res := refResult{state: map[int]tstate{}, legal: map[int]bool{}, why: map[int]string{}}
	pre := map[int]map[int]tstate{}
	get := func(t int) tstate {
		if s, ok := res.state[t]; ok {
			return s
		}
		s := tstate{live: map[string]string{}}
		res.state[t] = s
		return s
	}
	merged := func(t, i int) bool {
		p := st.Prop[fmt.Sprintf("%d-%d", t, i)]
		return p != nil && p.Commit == "d"
	}
	for n, r := range reqs {
		i := n + 1
		if r.rollback == 0 {
			for _, t := range r.order {
				if !merged(t, i) {
					continue
				}
				s := get(t)
				if pre[i] == nil {
					pre[i] = map[int]tstate{}
				}
				pre[i][t] = s.clone()
				gnmiApply(s, r.changes[t])
				s.cur = i
				res.state[t] = s
			}
			continue
		}
		k := r.rollback
		ok, why := true, ""
		switch {
		case k < 1 || k >= i:
			ok, why = false, "no such transaction"
		case reqs[k-1].rollback != 0:
			ok, why = false, "a rollback cannot be rolled back"
		default:
			for _, t := range reqs[k-1].order {
				if _, was := pre[k][t]; !was || get(t).cur != k {
					ok, why = false, fmt.Sprintf("not the most recent change of target %d", t)
				}
			}
		}
		res.legal[i], res.why[i] = ok, why
		if !ok {
			continue
		}
		for _, t := range reqs[k-1].order {
			if merged(t, i) {
				res.state[t] = pre[k][t].clone()
			}
		}
	}
	return res
}

func liveDecoded(vals map[string]PVS) map[string]string {
	out := map[string]string{}
	for hp, v := range vals {
		if !v.Deleted {
			out[unhex(hp)] = v.Value
		}
	}
	return out
}

func diffMaps(what string, t int, got, want map[string]string) []string {
	var fails []string
	var keys []string
	seen := map[string]bool{}
	for k := range got {
		keys, seen[k] = append(keys, k), true
	}
	for k := range want {
		if !seen[k] {
			keys = append(keys, k)
		}
	}
	sort.Strings(keys)
	for _, p := range keys {
		g, gok := got[p]
		w, wok := want[p]
		switch {
		case gok && !wok:
			fails = append(fails, fmt.Sprintf("%s: t=%d path=%s (%s) is readable with value %s; the gNMI-sequential effect of the committed requests has no such leaf", what, t, hx(p), p, unhex(g)))
		case !gok && wok:
			fails = append(fails, fmt.Sprintf("%s: t=%d path=%s (%s) is not readable; the gNMI-sequential effect of the committed requests holds %s there", what, t, hx(p), p, unhex(w)))
		case g != w:
			fails = append(fails, fmt.Sprintf("%s: t=%d path=%s (%s) reads %s; the gNMI-sequential effect of the committed requests holds %s", what, t, hx(p), p, unhex(g), unhex(w)))
		}
	}
	return fails
}

func finalState(outs []string) *State {
	sts := seq(outs)
	if len(sts) == 0 {
		return nil
	}
	return sts[len(sts)-1]
}

// monitorC03: at the quiescent end of the history the readable configuration of every target is
// the gNMI-sequential effect of its committed requests.
func monitorC03(c fw.Case, outs []string) []string {
	st := finalState(outs)
	if st == nil {
		return nil
	}
	ref := reference(requests(c), st)
	var fails []string
	var ts []int
	for t := range st.Cfg {
		ts = append(ts, t)
	}
	sort.Ints(ts)
	for _, t := range ts {
		want := map[string]string{}
		if s, ok := ref.state[t]; ok {
			want = s.live
		}
		fails = append(fails, diffMaps("stored", t, liveDecoded(st.Cfg[t].View), want)...)
	}
	return fails
}

// monitorC06: rollbacks are refused exactly when they do not name the most recent change of
// every target of that change; a refused rollback merges nothing; an accepted one restores the
// stored configuration (monitorC03's comparison, whose reference restores the displaced state) and,
// once applied, the device.
func monitorC06(c fw.Case, outs []string) []string {
	st := finalState(outs)
	if st == nil {
		return nil
	}
	reqs := requests(c)
	ref := reference(reqs, st)
	fails := monitorC03(c, outs)
	for n, r := range reqs {
		i := n + 1
		if r.rollback == 0 {
			continue
		}
		tx := st.Tx[i]
		if tx == nil {
			continue
		}
		anyMerged := false
		for k, p := range st.Prop {
			if p.Index == i && p.Commit == "d" {
				anyMerged = true
				_ = k
			}
		}
		if !ref.legal[i] {
			if anyMerged || tx.State != "FAILED" {
				fails = append(fails, fmt.Sprintf("refusal: rollback %d of transaction %d must be refused (%s) but ended %s (merged=%v)", i, r.rollback, ref.why[i], tx.State, anyMerged))
			}
			continue
		}
		if tx.State == "FAILED" && (tx.Failure == "FORBIDDEN" || tx.Failure == "NOT_FOUND") {
			fails = append(fails, fmt.Sprintf("refusal: rollback %d of transaction %d names the most recent change of its targets but was refused with %s", i, r.rollback, tx.Failure))
		}
	}
	// the device: where every merged proposal of a target was applied, the device holds the same leaves
	for t, cfg := range st.Cfg {
		allApplied := cfg.Master != 0 && cfg.State == "SYNCHRONIZED"
		for _, p := range st.Prop {
			if p.Target == t && p.Commit == "d" && p.Apply != "d" {
				allApplied = false
			}
		}
		if !allApplied {
			continue
		}
		want := map[string]string{}
		if s, ok := ref.state[t]; ok {
			want = s.live
		}
		got := map[string]string{}
		for hp, v := range st.Dev[t] {
			got[unhex(hp)] = v
		}
		fails = append(fails, diffMaps("device", t, got, want)...)
	}
	return fails
}

// ---- signatures of the known value-path findings (KNOWN_FINDINGS.txt), each tied to the path the
// monitor names and to the cause in the script

var msgRe = regexp.MustCompile(`t=(\d+) path=([0-9a-f-]+) `)

func msgPath(msg string) (int, string, bool) {
	m := msgRe.FindStringSubmatch(msg)
	if m == nil {
		return 0, "", false
	}
	return atoi(m[1]), unhex(m[2]), true
}

// textualPrefixSig: the path shares a textual, non-element-boundary prefix with a path deleted on
// that target (cascade / prune by strings.HasPrefix).
func textualPrefixSig(c fw.Case, outs []string, msg string) bool {
	t, p, ok := msgPath(msg)
	if !ok {
		return false
	}
	reqs := requests(c)
	for _, r := range reqs {
		for _, ch := range r.changes[t] {
			if ch.del && strings.HasPrefix(p, ch.path) && !elemPrefix(p, ch.path) {
				return true
			}
		}
		// a rollback deletes the leaves its change created (tombstones in the rollback values): the
		// payload is pruned by textual prefix as well
		if r.rollback >= 1 && r.rollback <= len(reqs) {
			for _, ch := range reqs[r.rollback-1].changes[t] {
				if strings.HasPrefix(p, ch.path) && !elemPrefix(p, ch.path) {
					return true
				}
			}
		}
	}
	return false
}

// recreateSig: the path was written after (or together with) a delete of one of its proper
// ancestors, or lies below a path that was (tombstone kept in the side map).
func recreateSig(c fw.Case, outs []string, msg string) bool {
	t, p, ok := msgPath(msg)
	if !ok {
		return false
	}
	var deleted []string
	for _, r := range requests(c) {
		for _, ch := range r.changes[t] {
			if ch.del {
				deleted = append(deleted, ch.path)
			}
		}
		for _, ch := range r.changes[t] {
			if ch.del {
				continue
			}
			for _, d := range deleted {
				// a write below an earlier (or same-request) tombstone: the tombstone stays in the side map and
				// hides, later removes, values below it - the written one or its siblings under the tombstone
				if strings.HasPrefix(ch.path, d) && ch.path != d && strings.HasPrefix(p, d) {
					return true
				}
			}
		}
	}
	return false
}

// rollbackSig: the script rolls back a change that deletes the path or an ancestor (textually).
func rollbackSig(c fw.Case, outs []string, msg string) bool {
	t, p, ok := msgPath(msg)
	if !ok {
		return false
	}
	reqs := requests(c)
	for _, r := range reqs {
		if r.rollback < 1 || r.rollback > len(reqs) {
			continue
		}
		for _, ch := range reqs[r.rollback-1].changes[t] {
			if ch.del && strings.HasPrefix(p, ch.path) && p != ch.path {
				return true
			}
		}
	}
	return false
}

// deviceReference: what a device must hold once everything that can be applied has been applied - the
// gNMI-sequential effect, in log order, of the requests whose proposal on that target was APPLIED (a
// refused or unapplied change leaves the device alone; an applied rollback puts back what its change
// displaced).  Independent of the controller's own record of applied values.
func deviceReference(reqs []request, st *State) map[int]map[string]string {
	state := map[int]tstate{}
	pre := map[int]map[int]tstate{}
	get := func(t int) tstate {
		if s, ok := state[t]; ok {
			return s
		}
		s := tstate{live: map[string]string{}}
		state[t] = s
		return s
	}
	applied := func(t, i int) bool {
		p := st.Prop[fmt.Sprintf("%d-%d", t, i)]
		return p != nil && p.Apply == "d"
	}
	for n, r := range reqs {
		i := n + 1
		if r.rollback == 0 {
			for _, t := range r.order {
				s := get(t)
				if pre[i] == nil {
					pre[i] = map[int]tstate{}
				}
				pre[i][t] = s.clone()
				if applied(t, i) {
					gnmiApply(s, r.changes[t])
					state[t] = s
				}
			}
			continue
		}
		k := r.rollback
		if k < 1 || k >= i || reqs[k-1].rollback != 0 {
			continue
		}
		for _, t := range reqs[k-1].order {
			if p, ok := pre[k][t]; ok && applied(t, i) {
				state[t] = p.clone()
			}
		}
	}
	out := map[int]map[string]string{}
	for t, s := range state {
		out[t] = s.live
	}
	return out
}
