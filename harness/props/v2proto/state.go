package v2proto

import (
	"regexp"
	"strconv"
	"strings"
)

// TxS, PropS, CfgS are the parsed projections of one state line.
type TxS struct {
	Index                                int
	Init, Validate, Commit, Apply, Abort string
	State, Failure                       string
	Props                                []string // "t-i"
	HasProps                             bool
}

// PropS is one proposal.
type PropS struct {
	Target, Index                        int
	Prev, Next, RbIndex                  int
	Init, Validate, Commit, Apply, Abort string
	VFail, AFail                         string
	Term                                 int
	Rb                                   string
}

// CfgS is one configuration.
type CfgS struct {
	Target                                   int
	Index, Proposed, Committed, Applied      int
	Master, Term, AppliedMaster, AppliedTerm int
	State                                    string
	Vals, View                               map[string]PVS
}

// PVS is one stored path value.
type PVS struct {
	Value   string
	Deleted bool
	Index   int
}

// ReqS is one southbound request.
type ReqS struct {
	Target, Conn, Term int
	Accepted           bool
	Items              []string
}

// State is one parsed state line.
type State struct {
	Tx   map[int]*TxS
	Prop map[string]*PropS
	Cfg  map[int]*CfgS
	Dev  map[int]map[string]string
	Log  []ReqS
	Head string
}

var segRe = regexp.MustCompile(`(TX|PR|CF|DEV|LOG)\[(.*?)\](?: |$)`)

func atoi(s string) int { n, _ := strconv.Atoi(s); return n }

func parseVals(s string) map[string]PVS {
	out := map[string]PVS{}
	if s == "-" || s == "" {
		return out
	}
	for _, tok := range strings.Split(s, ",") {
		p, rest, _ := strings.Cut(tok, "=")
		f := strings.Split(rest, ":")
		if len(f) < 3 {
			continue
		}
		out[p] = PVS{Value: f[0], Deleted: f[1] == "d", Index: atoi(f[2])}
	}
	return out
}

// Parse parses an answer line carrying a state; ok is false for lines without one.
func Parse(line string) (*State, bool) {
	if !strings.Contains(line, "TX[") {
		return nil, false
	}
	st := &State{Tx: map[int]*TxS{}, Prop: map[string]*PropS{}, Cfg: map[int]*CfgS{}, Dev: map[int]map[string]string{}}
	st.Head = strings.TrimSpace(strings.Split(line, "TX[")[0])
	for _, m := range segRe.FindAllStringSubmatch(line, -1) {
		body := m[2]
		if body == "" {
			continue
		}
		switch m[1] {
		case "TX":
			for _, e := range strings.Split(body, ";") {
				k, v, _ := strings.Cut(e, ":")
				f := strings.Split(v, ",")
				if len(f) < 8 {
					continue
				}
				t := &TxS{Index: atoi(k), Init: f[0], Validate: f[1], Commit: f[2], Apply: f[3], Abort: f[4], State: f[5], Failure: f[6]}
				if f[7] != "nil" {
					t.HasProps = true
					inner := strings.Trim(f[7], "[]")
					if inner != "" {
						t.Props = strings.Split(inner, "+")
					}
				}
				st.Tx[t.Index] = t
			}
		case "PR":
			for _, e := range strings.Split(body, ";") {
				k, v, _ := strings.Cut(e, ":")
				ti := strings.Split(k, "-")
				f := strings.SplitN(v, ",", 12)
				if len(f) < 12 || len(ti) != 2 {
					continue
				}
				p := &PropS{Target: atoi(ti[0]), Index: atoi(ti[1]), Prev: atoi(f[0]), Next: atoi(f[1]), RbIndex: atoi(f[2]),
					Init: f[3], Validate: f[4], Commit: f[5], Apply: f[6], Abort: f[7], VFail: f[8], AFail: f[9], Term: atoi(f[10]),
					Rb: strings.TrimPrefix(f[11], "rb=")}
				st.Prop[k] = p
			}
		case "CF":
			for _, e := range strings.Split(body, ";") {
				k, v, _ := strings.Cut(e, ":")
				i := strings.Index(v, ",vals=")
				if i < 0 {
					continue
				}
				f := strings.Split(v[:i], ",")
				rest := v[i+6:]
				vals, view, _ := strings.Cut(rest, ",view=")
				if len(f) < 9 {
					continue
				}
				c := &CfgS{Target: atoi(k), Index: atoi(f[0]), Proposed: atoi(f[1]), Committed: atoi(f[2]), Applied: atoi(f[3]),
					Master: atoi(f[4]), Term: atoi(f[5]), AppliedMaster: atoi(f[6]), AppliedTerm: atoi(f[7]), State: f[8],
					Vals: parseVals(vals), View: parseVals(view)}
				st.Cfg[c.Target] = c
			}
		case "DEV":
			for _, e := range strings.Split(body, ";") {
				k, v, _ := strings.Cut(e, ":")
				d := map[string]string{}
				if v != "-" {
					for _, kv := range strings.Split(v, ",") {
						p, val, _ := strings.Cut(kv, "=")
						d[p] = val
					}
				}
				st.Dev[atoi(k)] = d
			}
		case "LOG":
			for _, e := range strings.Split(body, ";") {
				f := strings.SplitN(e, "/", 5)
				if len(f) < 5 {
					continue
				}
				r := ReqS{Target: atoi(f[0]), Conn: atoi(f[1]), Term: atoi(f[2]), Accepted: f[3] == "ok"}
				if f[4] != "" {
					r.Items = strings.Split(f[4], ",")
				}
				st.Log = append(st.Log, r)
			}
		}
	}
	return st, true
}

// States parses every state-carrying answer of a case (nil entries for the other lines).
func States(outs []string) []*State {
	res := make([]*State, len(outs))
	for i, o := range outs {
		if s, ok := Parse(o); ok {
			res[i] = s
		}
	}
	return res
}
