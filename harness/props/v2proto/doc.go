package v2proto

import (
	"encoding/hex"
	"encoding/json"
	"fmt"
	"regexp"
	"sort"
	"strings"

	"github.com/onosproject/onos-config/verifharness/internal/fw"
)

var docRe = regexp.MustCompile(` doc=([0-9a-f]*)`)

// flattenDoc turns the RFC 7951 document the plugin was handed into path -> value over the
// generator's path universe: members named j / k of a list item are its keys (canonical key order
// is by name), every other scalar is a leaf.
func flattenDoc(doc []byte) (map[string]string, error) {
	out := map[string]string{}
	if len(doc) == 0 {
		return out, nil
	}
	var v interface{}
	if err := json.Unmarshal(doc, &v); err != nil {
		return nil, err
	}
	var walk func(prefix string, v interface{})
	walk = func(prefix string, v interface{}) {
		switch x := v.(type) {
		case map[string]interface{}:
			for name, child := range x {
				if i := strings.LastIndex(name, ":"); i >= 0 {
					name = name[i+1:] // RFC 7951 module prefix
				}
				switch c := child.(type) {
				case []interface{}:
					for _, item := range c {
						m, ok := item.(map[string]interface{})
						if !ok {
							out[prefix+"/"+name] = fmt.Sprint(item) // leaf-list: not in the universe
							continue
						}
						var keys []string
						for k := range m {
							if k == "j" || k == "k" {
								keys = append(keys, k)
							}
						}
						sort.Strings(keys)
						p := prefix + "/" + name
						rest := map[string]interface{}{}
						for k, val := range m {
							rest[k] = val
						}
						for _, k := range keys {
							p += fmt.Sprintf("[%s=%v]", k, m[k])
							delete(rest, k)
						}
						walk(p, rest)
					}
				case map[string]interface{}:
					walk(prefix+"/"+name, c)
				default:
					out[prefix+"/"+name] = fmt.Sprint(c)
				}
			}
		}
	}
	walk("", v)
	return out, nil
}

// monitorC05: the document the plugin accepted for a proposal is, leaf for leaf, what becomes
// readable when that proposal is merged; a proposal that was not accepted is never merged.
func monitorC05(c fw.Case, outs []string) []string {
	var fails []string
	docs := map[string]map[string]string{} // proposal -> flattened accepted document
	clean := CleanHistory(c)
	for _, st := range steps(c, outs) {
		if !strings.HasPrefix(st.actor, "prop:") {
			continue
		}
		f := strings.Split(st.actor, ":")
		t, idx := atoi(f[1]), atoi(f[2])
		k := fmt.Sprintf("%d-%d", t, idx)
		pb, pa := st.before.Prop[k], st.after.Prop[k]
		if pb == nil || pa == nil {
			continue
		}
		if m := docRe.FindStringSubmatch(st.raw); m != nil && pb.Validate == "o" && pa.Validate == "d" {
			b, _ := hex.DecodeString(m[1])
			flat, err := flattenDoc(b)
			if err != nil {
				fails = append(fails, fmt.Sprintf("doc: the document validated for proposal %s does not parse: %v", k, err))
				continue
			}
			docs[k] = flat
		}
		ca, cb := st.before.Cfg[t], st.after.Cfg[t]
		if ca == nil || cb == nil || !(pb.Commit == "o" && ca.Committed != idx && cb.Committed == idx) {
			continue
		}
		// the merge of proposal k
		doc, ok := docs[k]
		if !ok {
			fails = append(fails, fmt.Sprintf("unvalidated-merge: proposal %s is merged into the configuration of target %d but the plugin never accepted a document for it", k, t))
			continue
		}
		if pa.Validate != "d" {
			fails = append(fails, fmt.Sprintf("unvalidated-merge: proposal %s is merged although its validation is %s", k, pa.Validate))
		}
		if !clean {
			continue // the known value-path defects make validation and commit differ (C03): not this property's subject
		}
		if mixedKeySets(c, t) {
			continue // entries of one list addressed with different key sets: no schema has such a list, BuildTree folds them together
		}
		got := map[string]string{}
		for p, v := range liveDecoded(cb.View) {
			got[p] = unhex(v)
		}
		for _, m := range diffMaps("doc-vs-stored", t, hexMap(got), hexMap(doc)) {
			fails = append(fails, strings.Replace(m, "the gNMI-sequential effect of the committed requests", fmt.Sprintf("the document the plugin accepted for proposal %s", k), 1))
		}
	}
	return fails
}

func hexMap(m map[string]string) map[string]string {
	out := map[string]string{}
	for k, v := range m {
		out[k] = hx(v)
	}
	return out
}

// mixedKeySets: the script addresses entries of the list /l of target t both by [k=..] alone and by [j=..][k=..].
func mixedKeySets(c fw.Case, t int) bool {
	one, two := false, false
	for _, r := range requests(c) {
		for _, ch := range r.changes[t] {
			if strings.HasPrefix(ch.path, "/l[k=") {
				one = true
			}
			if strings.HasPrefix(ch.path, "/l[j=") {
				two = true
			}
		}
	}
	return one && two
}
