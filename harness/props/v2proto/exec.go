// Package v2proto ties the Lean twin of the v2 control plane (OnosVerif/V2) to the real
// reconcilers: scripts of `v2.*` operations are executed on the real transaction, proposal,
// configuration and mastership reconcilers (one Reconcile at a time, on the real stores) and on the
// twin; every answer carries the canonical projection of the whole persistent state.  The
// protocol properties (C01 C02 C04 C07 C09 C10 C11) share this executor and generator and differ
// in their monitors and in what their histories emphasise.
package v2proto

import (
	"context"
	"encoding/hex"
	"fmt"
	"sort"
	"strconv"
	"strings"

	topoapi "github.com/onosproject/onos-api/go/onos/topo"
	"github.com/onosproject/onos-config/verifharness/internal/v2sys"
)

// real executes v2.* lines on a real system.
type real struct {
	s         *v2sys.Sys
	relTarget map[string]string
}

func newReal() *real { return &real{relTarget: map[string]string{}} }

func (r *real) Close() {
	if r.s != nil {
		r.s.Close()
		r.s = nil
	}
}

func (r *real) Exec(line string) string {
	out, _ := r.ExecHint(line)
	return out
}

func kv(args []string, key string) (string, bool) {
	for _, a := range args {
		if k, v, ok := strings.Cut(a, "="); ok && k == key {
			return v, true
		}
	}
	return "", false
}

// ExecHint runs the line and returns the answer and the line the twin gets (with hints).
func (r *real) ExecHint(line string) (out string, twinLine string) {
	twinLine = line
	defer func() {
		if p := recover(); p != nil {
			out = fmt.Sprintf("panic %v", p)
		}
	}()
	toks := strings.Fields(line)
	if len(toks) == 0 {
		return "bad-op", line
	}
	op, args := toks[0], toks[1:]
	if op == "v2.reset" {
		r.Close()
		s, err := v2sys.New()
		if err != nil {
			return "error " + err.Error(), line
		}
		r.s = s
		r.relTarget = map[string]string{}
		return "ok", line
	}
	if r.s == nil {
		return "bad-op", line
	}
	s := r.s
	switch op {
	case "v2.target":
		pers, _ := kv(args[1:], "persistent")
		s.Topo.AddTarget("t"+args[0], pers == "1")
		return "ok", line
	case "v2.fault":
		if !r.applyFault(args) {
			return "bad-op", line
		}
		// topology events as the topo watchers of the mastership and configuration controllers map them
		switch args[0] {
		case "relup":
			s.Wake("mast:"+args[2], "cfg:"+args[2])
		case "devrestart":
			s.Wake("mast:"+args[1], "cfg:"+args[1])
		case "reldown", "conndown", "connup":
			if t, ok := r.relTarget[args[1]]; ok {
				s.Wake("mast:"+t, "cfg:"+t)
			}
		}
		if args[0] == "relup" {
			r.relTarget[args[1]] = args[2]
		}
		return "ok", line
	case "v2.watch":
		// real-only: from here on the real store watchers feed a faithful work queue (v2.auto)
		if err := s.StartWatchers(); err != nil {
			return "error " + err.Error(), line
		}
		return "ok", line
	case "v2.auto":
		// real-only: process the faithful work queue until it stays empty
		o := v2sys.AutoOpts{Policy: "fifo", MaxSteps: 600, Bad: map[uint64]bool{}, Refuse: map[uint64]bool{}}
		if v, ok := kv(args, "policy"); ok {
			o.Policy = v
		}
		if v, ok := kv(args, "seed"); ok {
			o.Seed, _ = strconv.ParseInt(v, 10, 64)
		}
		if v, ok := kv(args, "max"); ok {
			o.MaxSteps, _ = strconv.Atoi(v)
		}
		for key, m := range map[string]map[uint64]bool{"bad": o.Bad, "refuse": o.Refuse} {
			if v, ok := kv(args, key); ok {
				for _, x := range strings.Split(v, ",") {
					n, _ := strconv.ParseUint(x, 10, 64)
					m[n] = true
				}
			}
		}
		n, q, trace := s.Auto(o)
		tr := strings.Join(trace, ",")
		if len(tr) > 1500 {
			tr = tr[:1500] + "..."
		}
		return fmt.Sprintf("auto steps=%d quiescent=%v trace=%s %s", n, q, tr, s.State()), line
	case "v2.set":
		changes := map[string][]v2sys.PV{}
		for _, c := range args[2:] {
			t, vals, _ := strings.Cut(c, "/")
			changes[t] = v2sys.DecVals(vals)
		}
		idx, err := s.Set(args[0] == "1", args[1] == "1", changes, nil)
		if err != nil {
			return "error " + err.Error(), line
		}
		return fmt.Sprintf("ok idx=%d", idx), line
	case "v2.rollback":
		i, _ := strconv.ParseUint(args[0], 10, 64)
		idx, err := s.Rollback(i)
		if err != nil {
			return "error " + err.Error(), line
		}
		return fmt.Sprintf("ok idx=%d", idx), line
	case "v2.run":
		o := v2sys.RunOpts{Plugin: "ok", Dev: "ok", SyncOK: 1000000, InjectAt: -1}
		if v, ok := kv(args[1:], "plugin"); ok {
			o.Plugin = v
		}
		if v, ok := kv(args[1:], "dev"); ok {
			o.Dev = v
		}
		if v, ok := kv(args[1:], "syncok"); ok {
			o.SyncOK, _ = strconv.Atoi(v)
		}
		if v, ok := kv(args[1:], "inject"); ok && v != "none" {
			k, n, _ := strings.Cut(v, ":")
			o.Inject = k
			o.InjectAt, _ = strconv.Atoi(n)
		}
		// pre-emption `inter=<k>:<id>`: before effect k of this invocation another reconciler (another
		// work-queue partition) runs one whole invocation on the stores as they are then
		var ires *v2sys.Result
		interHints, interMid := "", "-"
		if v, ok := kv(args[1:], "inter"); ok {
			kS, bid, _ := strings.Cut(v, ":")
			// `a<k>`: after the store call / request whose last effect is k has returned (the invocation may
			// read the stores again before its next write); `<k>`: just before effect k
			afterMode := strings.HasPrefix(kS, "a")
			k, _ := strconv.Atoi(strings.TrimPrefix(kS, "a"))
			hook := func(j int) {
				if j != k || ires != nil {
					return
				}
				// items joined by '+': environment faults (F.<kind>.<args>) and at most one reconcile id, last
				items := strings.Split(bid, "+")
				for _, it := range items[:len(items)-1] {
					if strings.HasPrefix(it, "F.") {
						r.applyFault(strings.Split(strings.TrimPrefix(it, "F."), "."))
					}
				}
				rid := items[len(items)-1]
				if strings.HasPrefix(rid, "F.") {
					r.applyFault(strings.Split(strings.TrimPrefix(rid, "F."), "."))
					ires = &v2sys.Result{Requeue: "-"}
					interMid = midState(s.State())
					return
				}
				r2 := s.Run(rid, v2sys.RunOpts{Plugin: "ok", Dev: "ok", SyncOK: 1000000, InjectAt: -1})
				ires = &r2
				interHints = hintsFor(s, rid, "i.")
				interMid = midState(s.State())
			}
			if afterMode {
				o.After = hook
			} else {
				o.Before = hook
			}
		}
		res := s.Run(args[0], o)
		if res.Panic != "" {
			return "panic " + res.Panic, line
		}
		if ires != nil && ires.Panic != "" {
			return "panic (pre-empting invocation) " + ires.Panic, line
		}
		errS := "0"
		if res.Err {
			errS = "1"
		}
		twinLine = line + hintsFor(s, args[0], "") + interHints
		iS := ""
		if ires != nil {
			e2 := "0"
			if ires.Err {
				e2 = "1"
			}
			iS = fmt.Sprintf(" ires=%s/%s/%d/%s", ires.Requeue, e2, ires.Effects, interMid)
		}
		doc := ""
		if res.Doc != nil {
			doc = " doc=" + hex.EncodeToString(res.Doc)
		}
		return fmt.Sprintf("res requeue=%s err=%s effects=%d att=%d%s%s %s", res.Requeue, errS, res.Effects, res.Attempts, doc, iS, s.State()), twinLine
	case "v2.state":
		return s.State(), line
	case "v2.drain":
		// real-only: drive the controllers to their fixed point (args: the targets)
		n, ok := s.Drain(args, 60)
		return fmt.Sprintf("drained sweeps=%d quiescent=%v %s", n, ok, s.State()), line
	}
	return "bad-op", line
}

// hintsFor returns the hints the twin needs to follow the choices Go left open in the last invocation
// of id (order of the per-target changes, resulting side map and rollback values, elected relation,
// order of the re-sync requests), each key prefixed with pfx.
func hintsFor(s *v2sys.Sys, id string, pfx string) string {
	f := strings.Split(id, ":")
	switch f[0] {
	case "tx":
		i, _ := strconv.ParseUint(f[1], 10, 64)
		if ord := s.ProposalOrder(i); ord != "" {
			return " " + pfx + "order=" + ord
		}
	case "prop":
		return " " + pfx + "vals=" + s.SideMap(f[1]) + " " + pfx + "rb=" + s.RollbackValues(f[1], f[2])
	case "mast":
		return " " + pfx + "master=" + s.Master(f[1])
	case "cfg":
		st := s.State()
		if i := strings.Index(st, " LOG["); i >= 0 {
			lg := strings.TrimSuffix(st[i+5:], "]")
			if lg != "" {
				return " " + pfx + "devlog=" + lg
			}
		}
	}
	return ""
}

// midState is the cursor/term projection of every configuration right after the pre-empting
// invocation ran: target.committed.applied.master.term.appliedTerm joined by '+', by target.
func midState(state string) string {
	st, ok := Parse(state)
	if !ok {
		return "-"
	}
	var ts []int
	for t := range st.Cfg {
		ts = append(ts, t)
	}
	sort.Ints(ts)
	var parts []string
	for _, t := range ts {
		c := st.Cfg[t]
		parts = append(parts, fmt.Sprintf("%d.%d.%d.%d.%d.%d", t, c.Committed, c.Applied, c.Master, c.Term, c.AppliedTerm))
	}
	if len(parts) == 0 {
		return "-"
	}
	return strings.Join(parts, "+")
}

// applyFault performs one environment fault (args as after `v2.fault`).
func (r *real) applyFault(args []string) bool {
	s := r.s
	switch args[0] {
	case "relup":
		s.Topo.AddRelation("rel-"+args[1], "t"+args[2])
		s.Devs.Conns["rel-"+args[1]] = "t" + args[2]
	case "reldown":
		s.Topo.RemoveObject("rel-" + args[1])
		delete(s.Devs.Conns, "rel-"+args[1])
	case "conndown":
		delete(s.Devs.Conns, "rel-"+args[1])
	case "connup":
		if o, err := s.Topo.Get(context.Background(), topoapi.ID("rel-"+args[1])); err == nil {
			s.Devs.Conns["rel-"+args[1]] = string(o.GetRelation().TgtEntityID)
		}
	case "devrestart":
		// the device restarts empty and every connection to it is lost
		s.Devs.State["t"+args[1]] = map[string]string{}
		for id, t := range s.Devs.Conns {
			if t == "t"+args[1] {
				delete(s.Devs.Conns, id)
			}
		}
		s.Topo.RemoveRelationsTo("t" + args[1])
	default:
		return false
	}
	return true
}

// NewRealForTools returns an executor of v2.* lines on the real system (developer tools).
func NewRealForTools() interface {
	Exec(string) string
	Close()
} {
	return newReal()
}
