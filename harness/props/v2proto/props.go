package v2proto

import (
	"regexp"
	"strings"

	"github.com/onosproject/onos-config/verifharness/internal/fw"
	"github.com/onosproject/onos-config/verifharness/internal/rng"
)

var attRe = regexp.MustCompile(` att=\d+( doc=[0-9a-f]*)?`)
var attOnlyRe = regexp.MustCompile(` att=\d+`)

func mk(id, rule string, p Profile, quick, thorough int, mon func(fw.Case, []string) []string) *fw.Prop {
	return &fw.Prop{
		ID: id, Rule: rule, Quick: quick, Thorough: thorough, Workers: 8, Subprocess: true, GenInWorker: true, DeterministicScripts: true,
		Gen:     func(r *rng.R, tier string) fw.Case { return Generate(r, p) },
		NewReal: func() fw.Real { return newReal() },
		Monitor: mon,
		Protected: func(line string) bool {
			return strings.HasPrefix(line, "v2.reset") || strings.HasPrefix(line, "v2.target") || strings.HasPrefix(line, "v2.state") ||
				strings.HasPrefix(line, "v2.drain") || p.Twice
		},
		RealOnly: func(line string) bool { return strings.HasPrefix(line, "v2.drain") },
		// `att=N` (southbound attempts) and `doc=<hex>` (the document the plugin saw) are observations of the real run for the monitors only
		Match: func(line, realOut, twinOut string) bool { return attRe.ReplaceAllString(realOut, "") == twinOut },
		OutcomeTags: func(c fw.Case, outs []string) []string {
			n := 0
			for _, o := range outs {
				if strings.Contains(o, " ires=") {
					n++
				}
			}
			switch {
			case n == 0:
				return nil
			case n < 4:
				return []string{"real:pre-emptions-executed:1-3"}
			}
			return []string{"real:pre-emptions-executed:4+"}
		},
		Sigs: map[string]func(fw.Case, []string, string) bool{"dirtyValueHistory": dirtySig,
			"textualPrefix": textualPrefixSig, "recreateUnderDeleted": recreateSig, "rollbackOfSubtreeDelete": rollbackSig, "refusalWriteLost": refusalWriteLostSig, "refusalUnrecorded": refusalUnrecordedSig},
	}
}

var base = Profile{Targets: 3, Sets: 5, Faults: true, Verdicts: true, DevErrors: true, Injections: true,
	Rollbacks: true, Serializable: true, Persistent: true, Deletes: true, MaxSteps: 150, Burst: true}

// C02 is the first protocol property wired; the others are registered in their own files.
var C02 = mk("C02",
	"histories of 1-5 Sets/rollbacks on 1-3 targets over an adversarial path universe, random work-set scheduling (FIFO/LIFO/random) of the real transaction, proposal, configuration and mastership reconcilers, connection/device faults, plugin verdicts, device error classes, failed and lost writes; "+
		"every step compares the whole persistent state of twin and implementation. Non-trivial = at least one write happened; distinct = distinct script.",
	base, 150, 5000, monitorC02)

var conv = Profile{Targets: 2, Sets: 5, Faults: true, Verdicts: true, DevErrors: true, Injections: false,
	Rollbacks: true, Serializable: false, Persistent: false, Deletes: true, MaxSteps: 150, Drain: true, CleanPct: 75, Inter: true}

// C04: histories with device/connection faults, driven to the fixed point with everything connected.
var C04 = mk("C04",
	"histories of 1-5 Sets/rollbacks on 1-2 targets with devices offline/online, restarting empty and connections replaced at any point, device error classes, random scheduling; at the end every target is connected and the real controllers are driven to their fixed point; "+
		"monitor: the simulated device holds exactly the live stored values of transactions whose apply did not fail. Non-trivial = at least one write; distinct = distinct script.",
	conv, 100, 3000, monitorC04)

var crash = Profile{Targets: 2, Sets: 4, Faults: false, Verdicts: false, DevErrors: false, Injections: true, RollbackBias: true, RollbackPct: 35,
	Rollbacks: true, Serializable: false, Persistent: false, Deletes: true, MaxSteps: 120, Drain: true, Twice: true, StartConn: true, CleanPct: 75}

// C07: every history is run twice on the real system: with failed/lost writes at random effect
// positions, and without; both are driven to the fixed point and must agree.
var C07 = mk("C07",
	"histories of 1-4 Sets on 1-2 connected targets in which about every sixth reconcile invocation loses or fails one of its persisted effects (transaction, proposal, configuration writes, side-map half and entry half separately, device Sets) - the unwound invocation stands for a process crash at that point; the same history is replayed without the failures; both runs are driven to the fixed point; "+
		"monitor: transaction outcomes, stored configurations, cursors and devices are equal. Non-trivial = at least one injected failure; distinct = distinct script.",
	crash, 100, 3000, monitorC07)

var strand = Profile{Targets: 3, Sets: 5, Faults: true, Verdicts: true, DevErrors: true, Injections: true,
	Rollbacks: true, Serializable: true, Persistent: true, Deletes: true, MaxSteps: 120, Drain: true}

// C09: any history, then idle: nothing that could make progress may be left behind.
var C09 = mk("C09",
	"histories of 1-5 Sets/rollbacks (default and serializable isolation, persistent targets) with verdicts, device errors, faults and lost writes under adversarial scheduling (FIFO/LIFO/random picks from the work set); then every target is connected and the real controllers are swept until a whole sweep writes nothing; "+
		"monitor: the fixed point is reached and every transaction is APPLIED or FAILED. Non-trivial = at least one write; distinct = distinct script.",
	strand, 100, 3000, monitorC09)

var master = Profile{Targets: 2, Sets: 4, Faults: true, Verdicts: false, DevErrors: true, Injections: true,
	Rollbacks: false, Serializable: false, Persistent: false, Deletes: false, MaxSteps: 150, FaultBias: true}

// C10: mastership under connection faults.
var C10 = mk("C10",
	"histories of 1-4 Sets on 1-2 targets with frequent connection loss/re-establishment, competing relations, device restarts and lost writes, random interleaving of the mastership, configuration and proposal reconcilers; "+
		"monitor: terms never decrease and grow by one per assignment, the master is a live relation or none, every southbound request carries the current term over the master's connection and changes are sent only after re-synchronisation in that term. Non-trivial = at least one write; distinct = distinct script.",
	master, 120, 4000, monitorC10)

var refuse = Profile{Targets: 2, Sets: 5, Faults: false, Verdicts: false, DevErrors: true, Injections: true,
	Rollbacks: false, Serializable: false, Persistent: false, Deletes: true, MaxSteps: 150, DevBias: true, StartConn: true}

// C11p is the protocol part of C11 (the tables are checked by props/c11): registered under the id C11P and
// run by ./check C11 as a second correspondence.
var C11P = mk("C11P",
	"histories of 1-5 Sets on 1-2 connected targets in which about half of the apply attempts meet a device error class (every refusal class, unavailable, superseded); "+
		"monitor: a refusal fails exactly that change with the device's class, advances the applied index, leaves the device and all other records alone; unavailable/superseded change nothing. Non-trivial = at least one write; distinct = distinct script.",
	refuse, 100, 3000, monitorC11)

var multi = Profile{Targets: 3, Sets: 4, Faults: false, Verdicts: true, DevErrors: false, Injections: true,
	Rollbacks: false, Serializable: true, Persistent: false, Deletes: true, MaxSteps: 200, MultiBias: true, VerdictBias: true, CleanPct: 70, Burst: true}

// C01: multi-target transactions with rejecting plugins, failed and lost writes.
var C01 = mk("C01",
	"histories of 1-4 Sets, mostly on 2-3 targets, plugin verdicts invalid/absent on about a third of the validations, failed and lost store writes (crash between two writes), random work-set scheduling of the real reconcilers; "+
		"monitor: a merge happens only while all proposals of the transaction are validated, a validation failure leaves no value of that transaction in any named target and is reported FAILED, a committed transaction is committed on every target. "+
		"Non-trivial = at least one write and a multi-target transaction or a rejecting verdict; distinct = distinct script.",
	multi, 120, 4000, monitorC01)

var vals = Profile{Targets: 2, Sets: 6, Faults: false, Verdicts: true, DevErrors: false, Injections: true,
	Rollbacks: false, Serializable: false, Persistent: false, Deletes: true, MaxSteps: 200, Drain: true, StartConn: true, CleanPct: 50, Burst: true}

// C03: histories of Sets, driven to the fixed point; the readable configuration must be the
// gNMI-sequential effect of the committed requests.
var C03 = mk("C03",
	"histories of 1-6 Sets on 1-2 connected targets over an adversarial path universe (sibling names that are textual prefixes of each other, containers, list entries with one and two keys, deletes of leaves / containers / lists / list entries, re-creation under deleted ancestors), some rejected by the plugin, failed and lost store writes, random and burst scheduling; driven to the fixed point; "+
		"monitor: an independent reference applies the committed requests in log order with gNMI semantics on element boundaries and compares with the live values configurations.Get returns. Non-trivial = at least one write; distinct = distinct script.",
	vals, 150, 5000, monitorC03)

var rb = Profile{Targets: 2, Sets: 6, Faults: false, Verdicts: false, DevErrors: false, Injections: true,
	Rollbacks: true, RollbackBias: true, Serializable: false, Persistent: false, Deletes: true, MaxSteps: 200, Drain: true, StartConn: true, CleanPct: 50}

// C06: histories of Sets and rollback requests for every index.
var C06 = mk("C06",
	"histories of 1-6 Sets and rollback requests (for the latest change, earlier changes, rollbacks, failed transactions and indices that do not exist; multi-target) on 1-2 connected targets, failed and lost store writes, random scheduling; driven to the fixed point; "+
		"monitor: an independent reference decides which rollbacks are legal (the most recent change of every target of that change) - the others must end FAILED and merge nothing - and restores the displaced state for the legal ones; stored configuration and, once applied, the device are compared with it. Non-trivial = at least one write and one rollback; distinct = distinct script.",
	rb, 150, 5000, monitorC06)

var queueP = Profile{Targets: 2, Sets: 5, Faults: true, Verdicts: true, DevErrors: true, Rollbacks: true, Serializable: true, Deletes: true}

// C09Q: the faithful work queue (real watchers + real Requeue results), monitor only.
var C09Q = &fw.Prop{
	ID: "C09Q",
	Rule: "histories of 1-5 Sets/rollbacks (multi-target, serializable, rejected by the plugin, refused by the device) on 1-2 targets with relations appearing/disappearing and device restarts, in which the controllers are handed exactly the ids the REAL store watchers of the four controllers emit, the ids Reconcile returns in Result.Requeue and the ids of failed invocations - nothing else - FIFO within a work-queue partition (all transactions; proposals per target; configuration; mastership), the next partition chosen at random or round robin; the last phase has every target connected; " +
		"monitor: every phase ends with the queue empty and at the end every transaction is APPLIED or FAILED (with its abort complete). Implementation only (the twin is not driven here). Non-trivial = at least one request; distinct = distinct script.",
	Quick: 120, Thorough: 3000, Workers: 8, Subprocess: true, GenInWorker: false,
	Gen:      func(r *rng.R, tier string) fw.Case { return GenerateQ(r, queueP) },
	NewReal:  func() fw.Real { return newReal() },
	Monitor:  monitorC09Q,
	RealOnly: func(line string) bool { return true },
	Protected: func(line string) bool {
		return strings.HasPrefix(line, "v2.reset") || strings.HasPrefix(line, "v2.watch") || strings.HasPrefix(line, "v2.target")
	},
	Sigs: map[string]func(fw.Case, []string, string) bool{"firstUnapplied": firstUnappliedSig, "serializableWait": serializableWaitSig, "applyFailedSibling": applyFailedSiblingSig, "lostProposalEvent": lostProposalEventSig},
}

var docP = Profile{Targets: 2, Sets: 5, Faults: false, Verdicts: true, DevErrors: false, Injections: true,
	Rollbacks: true, Serializable: true, Persistent: false, Deletes: true, MaxSteps: 220, MultiBias: true, VerdictBias: true, CleanPct: 80, Burst: true, StartConn: true}

// C05P is the protocol part of C05 (the chunking is checked by props/c05): registered under the id
// C05P and run by ./check C05 as a second correspondence.
var C05P = mk("C05P",
	"histories of 1-5 Sets/rollbacks, mostly issued in bursts so that several transactions are in flight on one target, on 1-2 targets, plugin verdicts invalid/absent on about a third of the validations (failing transactions aborted between their neighbours), failed and lost store writes, random / youngest-first / oldest-first scheduling; the fake model plugin records every document it is asked to validate; "+
		"monitor: when a proposal is merged the leaves that become readable are, leaf for leaf, the document the plugin accepted for that proposal; a proposal the plugin rejected (or with no plugin) is never merged and its transaction is FAILED. Non-trivial = at least one write and a multi-target transaction or a rejecting verdict; distinct = distinct script.",
	docP, 120, 4000, monitorC05)

var interP = Profile{Targets: 2, Sets: 4, Faults: true, Verdicts: true, DevErrors: true, Injections: true,
	Rollbacks: true, Serializable: true, Persistent: false, Deletes: true, MaxSteps: 150, Burst: true, Inter: true, FaultBias: true, CleanPct: 60}

// C02I / C10I: real interleavings.  About every third invocation is pre-empted just before one of its
// store writes or southbound requests by a whole invocation of another reconciler (another work-queue
// partition) - on the real stores, so that the pre-empted invocation goes on with a stale snapshot and
// its compare-and-set writes meet the versions the other one left; the twin interleaves the same two
// invocations effect by effect.
var C02I = mk("C02I",
	"histories of 1-4 Sets/rollbacks on 1-2 targets with connection faults, verdicts, device errors, lost writes, in which about every third reconcile invocation is PRE-EMPTED before its k-th write (k=0..2) by a whole invocation of another controller / partition on the real stores (stale snapshots, version conflicts); the twin interleaves the same invocations effect by effect and every step compares the whole persistent state; "+
		"monitor (state based): cursors never go back, merges in increasing index order, terms never decrease, a new master means term+1. Non-trivial = at least one write; distinct = distinct script.",
	interP, 120, 4000, monitorInter)

var C10I = mk("C10I",
	"as C02I, registered a second time under C10: mastership and configuration reconcilers pre-empting each other and the proposal reconciler around connection faults; monitor (state based): terms never decrease, a new master means term+1, cursors never go back.",
	interP, 100, 3000, monitorInter)

func init() {
	fw.Register(C02I)
	fw.Register(C10I)
	fw.Register(C05P)
	fw.Register(C09Q)
	fw.Register(C03)
	fw.Register(C06)
	fw.Register(C01)
	fw.Register(C02)
	fw.Register(C04)
	fw.Register(C07)
	fw.Register(C09)
	fw.Register(C10)
	fw.Register(C11P)
}
