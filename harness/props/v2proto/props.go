package v2proto

import (
	"strings"

	"github.com/onosproject/onos-config/verifharness/internal/fw"
	"github.com/onosproject/onos-config/verifharness/internal/rng"
)

func mk(id, rule string, p Profile, quick, thorough int, mon func(fw.Case, []string) []string) *fw.Prop {
	return &fw.Prop{
		ID: id, Rule: rule, Quick: quick, Thorough: thorough, Workers: 8, Subprocess: true, GenInWorker: true,
		Gen:     func(r *rng.R, tier string) fw.Case { return Generate(r, p) },
		NewReal: func() fw.Real { return newReal() },
		Monitor: mon,
		Protected: func(line string) bool {
			return strings.HasPrefix(line, "v2.reset") || strings.HasPrefix(line, "v2.target") || strings.HasPrefix(line, "v2.state")
		},
		Sigs: map[string]func(fw.Case, []string, string) bool{},
	}
}

var base = Profile{Targets: 3, Sets: 5, Faults: true, Verdicts: true, DevErrors: true, Injections: true,
	Rollbacks: true, Serializable: true, Persistent: true, Deletes: true, MaxSteps: 150}

// C02 is the first protocol property wired; the others are registered in their own files.
var C02 = mk("C02",
	"histories of 1-5 Sets/rollbacks on 1-3 targets over an adversarial path universe, random work-set scheduling (FIFO/LIFO/random) of the real transaction, proposal, configuration and mastership reconcilers, connection/device faults, plugin verdicts, device error classes, failed and lost writes; "+
		"every step compares the whole persistent state of twin and implementation. Non-trivial = at least one write happened; distinct = distinct script.",
	base, 150, 5000, nil)

var multi = Profile{Targets: 3, Sets: 4, Faults: false, Verdicts: true, DevErrors: false, Injections: true,
	Rollbacks: false, Serializable: true, Persistent: false, Deletes: true, MaxSteps: 160, MultiBias: true, VerdictBias: true}

// C01: multi-target transactions with rejecting plugins, failed and lost writes.
var C01 = mk("C01",
	"histories of 1-4 Sets, mostly on 2-3 targets, plugin verdicts invalid/absent on about a third of the validations, failed and lost store writes (crash between two writes), random work-set scheduling of the real reconcilers; "+
		"monitor: a merge happens only while all proposals of the transaction are validated, a validation failure leaves no value of that transaction in any named target and is reported FAILED, a committed transaction is committed on every target. "+
		"Non-trivial = at least one write and a multi-target transaction or a rejecting verdict; distinct = distinct script.",
	multi, 120, 4000, monitorC01)

func init() {
	fw.Register(C01)
	fw.Register(C02)
}
