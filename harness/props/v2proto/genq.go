package v2proto

import (
	"fmt"
	"regexp"
	"sort"
	"strconv"
	"strings"

	"github.com/onosproject/onos-config/verifharness/internal/fw"
	"github.com/onosproject/onos-config/verifharness/internal/rng"
)

// GenerateQ builds a history for the faithful work queue (C09Q): the real store watchers run from
// the start, Sets / rollbacks / faults alternate with `v2.auto` phases in which the controllers are
// handed exactly the ids the real watchers and the real Requeue results produce, under an
// adversarial queue discipline; the last phase runs with every target connected.
func GenerateQ(r *rng.R, p Profile) fw.Case {
	g := &sim{r: r, p: p, rels: map[int]int{}, tags: map[string]bool{}, deleted: map[int][]string{}, used: map[int][]string{}}
	g.clean = true // value-path defects are not the subject here
	add := func(ln string) { g.script = append(g.script, ln) }
	add("v2.reset")
	add("v2.watch")
	nT := r.Range(1, p.Targets)
	for t := 1; t <= nT; t++ {
		add(fmt.Sprintf("v2.target %d persistent=0", t))
		g.targets = append(g.targets, t)
	}
	connected := map[int]bool{}
	for _, t := range g.targets {
		if r.Chance(2, 3) {
			g.nextRel++
			g.rels[g.nextRel] = t
			connected[t] = true
			add(fmt.Sprintf("v2.fault relup %d %d", g.nextRel, t))
		}
	}
	var bad, refuse []string
	policy := func() string {
		if r.Chance(1, 4) {
			return "rr"
		}
		return "rand"
	}
	auto := func() {
		ln := fmt.Sprintf("v2.auto policy=%s seed=%d", policy(), r.Intn(1000))
		if len(bad) > 0 {
			ln += " bad=" + strings.Join(bad, ",")
		}
		if len(refuse) > 0 {
			ln += " refuse=" + strings.Join(refuse, ",")
		}
		add(ln)
	}
	phases := r.Range(1, 3)
	for ph := 0; ph < phases; ph++ {
		for k := r.Range(1, 3); k > 0 && g.nTx < p.Sets; k-- {
			if p.Rollbacks && g.nTx > 0 && r.Chance(1, 5) {
				add(fmt.Sprintf("v2.rollback %d", r.Range(1, g.nTx+1)))
				g.tags["rollback"] = true
			} else {
				// one Set: the script line is built like newSet but without executing anything
				kk := 1
				if len(g.targets) > 1 && r.Chance(1, 2) {
					kk = r.Range(2, len(g.targets))
					g.tags["multi-target"] = true
				}
				perm := append([]int{}, g.targets...)
				for i := len(perm) - 1; i > 0; i-- {
					j := r.Intn(i + 1)
					perm[i], perm[j] = perm[j], perm[i]
				}
				var parts []string
				for _, t := range perm[:kk] {
					parts = append(parts, fmt.Sprintf("%d/%s", t, g.genChange(t)))
				}
				ser := "0"
				if p.Serializable && r.Chance(1, 4) {
					ser = "1"
					g.tags["serializable"] = true
				}
				add(fmt.Sprintf("v2.set %d %s %s", r.Intn(2), ser, strings.Join(parts, " ")))
			}
			g.nTx++
			if p.Verdicts && r.Chance(1, 5) {
				bad = append(bad, strconv.Itoa(g.nTx))
				g.tags["verdict"] = true
			} else if p.DevErrors && r.Chance(1, 6) {
				refuse = append(refuse, strconv.Itoa(g.nTx))
				g.tags["dev-fail"] = true
			}
			if r.Chance(1, 3) {
				auto() // the controllers run between two requests
			}
		}
		if p.Faults && r.Chance(1, 2) {
			switch r.Intn(3) {
			case 0:
				t := g.targets[r.Intn(len(g.targets))]
				g.nextRel++
				g.rels[g.nextRel] = t
				connected[t] = true
				add(fmt.Sprintf("v2.fault relup %d %d", g.nextRel, t))
				g.tags["relup"] = true
			case 1:
				var ids []int
				for id := range g.rels {
					ids = append(ids, id)
				}
				sort.Ints(ids)
				if len(ids) > 0 {
					id := ids[r.Intn(len(ids))]
					add(fmt.Sprintf("v2.fault reldown %d", id))
					delete(g.rels, id)
					g.tags["reldown"] = true
				}
			case 2:
				t := g.targets[r.Intn(len(g.targets))]
				add(fmt.Sprintf("v2.fault devrestart %d", t))
				for id, rt := range g.rels {
					if rt == t {
						delete(g.rels, id)
					}
				}
				g.tags["devrestart"] = true
			}
		}
		auto()
	}
	// the end: every target gets a live relation, then the controllers run until nothing is queued
	has := map[int]bool{}
	for _, t := range g.rels {
		has[t] = true
	}
	for _, t := range g.targets {
		if !has[t] {
			g.nextRel++
			g.rels[g.nextRel] = t
			add(fmt.Sprintf("v2.fault relup %d %d", g.nextRel, t))
		}
	}
	auto()
	var tags []string
	for t := range g.tags {
		tags = append(tags, t)
	}
	return fw.Case{Script: g.script, Tags: tags, Nontrivial: g.nTx > 0}
}

// monitorC09Q: every faithful phase ends quiescent (the queue runs empty within the step bound); at the
// end, with every target connected and nothing queued, every transaction is APPLIED or FAILED.
func monitorC09Q(c fw.Case, outs []string) []string {
	var fails []string
	last := -1
	for i, ln := range c.Script {
		if !strings.HasPrefix(ln, "v2.auto") || i >= len(outs) {
			continue
		}
		last = i
		if strings.HasPrefix(outs[i], "panic") || strings.Contains(outs[i], "trace=panic:") || strings.Contains(outs[i], ",panic:") {
			fails = append(fails, fmt.Sprintf("panic: a reconciler panicked during %q (line %d)", ln, i))
		}
	}
	if last < 0 || len(fails) > 0 {
		return fails
	}
	// a phase that does not run empty within the step bound is inconclusive (proposals waiting for
	// each other re-queue one another without delay while the device is away: a hot loop, not a
	// stranded transaction); only the last phase, with every target connected, must terminate
	livelock := !strings.Contains(outs[last], "quiescent=true")
	// the end-of-history rule presupposes that every target has a live relation with a connection
	rel := map[string]string{} // relation -> target
	down := map[string]bool{}
	targets := map[string]bool{}
	for _, ln := range c.Script[:last] {
		f := strings.Fields(ln)
		if len(f) >= 2 && f[0] == "v2.target" {
			targets[f[1]] = true
		}
		if len(f) < 3 || f[0] != "v2.fault" {
			continue
		}
		switch f[1] {
		case "relup":
			rel[f[2]] = f[3]
		case "reldown":
			delete(rel, f[2])
		case "conndown":
			down[f[2]] = true
		case "connup":
			delete(down, f[2])
		case "devrestart":
			for id, t := range rel {
				if t == f[2] {
					delete(rel, id)
				}
			}
		}
	}
	live := map[string]bool{}
	for id, t := range rel {
		if !down[id] {
			live[t] = true
		}
	}
	for t := range targets {
		if !live[t] {
			return fails
		}
	}
	st, ok := Parse(outs[last])
	if !ok {
		return fails
	}
	var idx []int
	for i := range st.Tx {
		idx = append(idx, i)
	}
	sort.Ints(idx)
	for _, i := range idx {
		if tx := st.Tx[i]; livelock && tx.State != "APPLIED" && tx.State != "FAILED" {
			fails = append(fails, fmt.Sprintf("livelock: with every target connected the controllers keep re-queueing work for ever and transaction %d stays %s", i, tx.State))
			break
		}
		if livelock {
			continue
		}
		if tx := st.Tx[i]; tx.State != "APPLIED" && tx.State != "FAILED" {
			fails = append(fails, fmt.Sprintf("stranded: the work queue is empty, every target is connected, and transaction %d is %s (init=%s validate=%s commit=%s apply=%s abort=%s): nothing will ever examine it again",
				i, tx.State, tx.Init, tx.Validate, tx.Commit, tx.Apply, tx.Abort))
			break
		}
		if tx := st.Tx[i]; tx.State == "FAILED" && tx.Abort == "o" && abortBlocks(st, i) {
			fails = append(fails, fmt.Sprintf("stranded: transaction %d is FAILED but its abort never completes (abort=%s): later transactions of its targets wait for ever", i, tx.Abort))
			break
		}
	}
	return fails
}

var strandedRe = regexp.MustCompile(`transaction (\d+) is`)

func lastAuto(c fw.Case, outs []string) *State {
	for i := len(c.Script) - 1; i >= 0; i-- {
		if strings.HasPrefix(c.Script[i], "v2.auto") && i < len(outs) {
			if st, ok := Parse(outs[i]); ok {
				return st
			}
		}
	}
	return nil
}

// firstUnappliedSig (KF-C09-late-connect-first-unapplied): a proposal is ready to be applied (its
// predecessor is the applied index, the configuration is synchronized in the current term) but no
// configuration event can reach it: the proposal watcher maps a configuration event to the proposals
// <Configuration.Index> and <Applied.Index>, the applied index is still 0 (no such proposal) and
// Configuration.Index names another proposal.
func firstUnappliedSig(c fw.Case, outs []string, msg string) bool {
	st := lastAuto(c, outs)
	if st == nil {
		return false
	}
	for _, p := range st.Prop {
		cfg := st.Cfg[p.Target]
		if cfg == nil || p.Apply != "o" {
			continue
		}
		if cfg.Applied == 0 && p.Prev == 0 && cfg.Index != p.Index && cfg.Master != 0 && cfg.State == "SYNCHRONIZED" && cfg.AppliedTerm == cfg.Term {
			// the unchanged code does reach p when the proposal <Configuration.Index> is itself waiting to be
			// applied: each applying proposal re-queues its predecessor.  Only when that chain is broken
			// (no such proposal, or one on the way that is not in its apply phase) is this the listed finding.
			reached := false
			q := st.Prop[fmt.Sprintf("%d-%d", p.Target, cfg.Index)]
			for hops := 0; q != nil && q.Apply == "o" && hops < 1000; hops++ {
				if q.Index == p.Index {
					reached = true
					break
				}
				q = st.Prop[fmt.Sprintf("%d-%d", p.Target, q.Prev)]
			}
			if !reached {
				return true
			}
		}
	}
	return false
}

// lostProposalEventSig (KF-C09-lost-proposal-event): a proposal of the stranded transaction exists, none of its
// phases was ever opened, and no invocation of the proposal controller for it appears in any trace of the history:
// the event of its creation never reached the proposal controller (the proposal store registers its event stream in
// every Watch call and the atomix map acknowledges the registration after the first of its partitions:
// KF-C15-atomix-events-partial-registration), and nothing else ever enqueues a proposal that has not started.
func lostProposalEventSig(c fw.Case, outs []string, msg string) bool {
	st := lastAuto(c, outs)
	m := strandedRe.FindStringSubmatch(msg)
	if st == nil || m == nil {
		return false
	}
	idx := atoi(m[1])
	for _, p := range st.Prop {
		if p.Index != idx || p.Init != "-" || p.Validate != "-" || p.Commit != "-" || p.Apply != "-" || p.Abort != "-" {
			continue
		}
		actor := fmt.Sprintf("prop:%d:%d", p.Target, p.Index)
		seen := false
		for _, o := range outs {
			if i := strings.Index(o, "trace="); i >= 0 {
				tr := strings.Fields(o[i+6:])
				if len(tr) > 0 {
					for _, a := range strings.Split(tr[0], ",") {
						if a == actor {
							seen = true
						}
					}
				}
			}
		}
		if !seen {
			return true
		}
	}
	return false
}

// serializableWaitSig (KF-C09-serializable-wait): the stranded transaction waits for a SERIALIZABLE
// predecessor on one of its targets to be validated / applied, and that predecessor has got there.
func serializableWaitSig(c fw.Case, outs []string, msg string) bool {
	st := lastAuto(c, outs)
	m := strandedRe.FindStringSubmatch(msg)
	_ = m
	if st == nil {
		return false
	}
	ser := map[int]bool{}
	n := 0
	for _, ln := range c.Script {
		f := strings.Fields(ln)
		if len(f) == 0 {
			continue
		}
		switch f[0] {
		case "v2.reset":
			n, ser = 0, map[int]bool{}
		case "v2.rollback":
			n++
		case "v2.set":
			n++
			ser[n] = f[2] == "1"
		}
	}
	rank := map[string]int{"PENDING": 0, "VALIDATED": 1, "COMMITTED": 2, "APPLIED": 3, "FAILED": 3}
	// any transaction that is not final and has a serializable predecessor that is far enough
	for i, tx := range st.Tx {
		if tx.State == "APPLIED" || tx.State == "FAILED" {
			continue
		}
		for _, p := range st.Prop {
			if p.Index != i || p.Prev == 0 || !ser[p.Prev] {
				continue
			}
			prev := st.Tx[p.Prev]
			if prev == nil {
				continue
			}
			if tx.State == "PENDING" && tx.Init == "d" && tx.Validate == "-" && rank[prev.State] >= 1 {
				return true
			}
			if tx.State == "COMMITTED" && tx.Apply == "-" && rank[prev.State] >= 3 {
				return true
			}
		}
	}
	return false
}

// applyFailedSiblingSig (KF-C09-apply-failed-sibling): a transaction was marked FAILED because one of its
// proposals failed to apply before the transaction controller had opened the apply phase of another of
// its proposals: that proposal stays committed and never applied, and the applied index of its target
// never passes it.
func applyFailedSiblingSig(c fw.Case, outs []string, msg string) bool {
	st := lastAuto(c, outs)
	if st == nil {
		return false
	}
	for i, tx := range st.Tx {
		if tx.State != "FAILED" || tx.Apply != "f" {
			continue
		}
		for _, p := range st.Prop {
			if p.Index == i && p.Commit == "d" && p.Apply == "-" && p.Abort == "-" {
				return true
			}
		}
	}
	return false
}
