package v2proto

import (
	"encoding/hex"
	"fmt"
	"strconv"
	"strings"

	"github.com/onosproject/onos-config/verifharness/internal/fw"
	"github.com/onosproject/onos-config/verifharness/internal/rng"
)

// adversarial small path universe: sibling names that are textual prefixes of each other,
// containers, list entries whose keys are prefixes of each other
var leafPaths = []string{"/b", "/a/b", "/a/bc", "/a/b-c", "/a/d/c", "/x/y/z", "/x/y2/z",
	"/l[k=1]/x", "/l[k=1]/y", "/l[k=10]/x", "/l[j=2][k=1]/x"}
var deletePaths = []string{"/a", "/a/b", "/a/d", "/x", "/x/y", "/l", "/l[k=1]", "/l[k=1]/x", "/b", "/a/bc"}
var values = []string{"1", "2", "x"}

func hx(s string) string {
	if s == "" {
		return "-"
	}
	return hex.EncodeToString([]byte(s))
}

// Profile steers a generated history towards what a property needs.
type Profile struct {
	Targets      int  // max targets
	Sets         int  // max Sets
	Faults       bool // connection / device faults
	Verdicts     bool // invalid / missing plugin
	DevErrors    bool // device error classes
	Injections   bool // failed / lost writes
	Rollbacks    bool
	RollbackPct  int // > 0: rollbacks only in this percentage of the histories (0 = in all, if Rollbacks)
	Serializable bool
	Persistent   bool
	Deletes      bool
	MaxSteps     int
	MultiBias    bool // prefer multi-target Sets
	VerdictBias  bool // reject often
	Drain        bool // connect everything and drive to the fixed point at the end
	Twice        bool // replay the history without injections after a reset (C07)
	StartConn    bool // every target connected from the start
	FaultBias    bool // many connection faults
	DevBias      bool // many device errors
	CleanPct     int  // percentage of histories kept away from the known value-path defects
	Burst        bool // often issue all Sets before any controller runs (overlapping transactions)
	RollbackBias bool // about every second request is a rollback; clean histories may roll back too
	Inter        bool // about every fourth invocation is pre-empted before one of its writes by an invocation of another partition
}

type sim struct {
	r       *rng.R
	p       Profile
	real    *real
	script  []string
	queue   []string
	nTx     int
	targets []int
	rels    map[int]int // rel id -> target
	nextRel int
	tags    map[string]bool
	clean   bool
	deleted map[int][]string // per target: paths deleted so far
	used    map[int][]string // per target: paths written so far
}

func (g *sim) do(line string) string {
	g.script = append(g.script, line)
	return g.real.Exec(line)
}

func (g *sim) enqueue(ids ...string) {
	for _, id := range ids {
		dup := false
		for _, q := range g.queue {
			if q == id {
				dup = true
			}
		}
		if !dup {
			g.queue = append(g.queue, id)
		}
	}
}

// elemPrefix: d addresses p itself or an ancestor of p at a path-element boundary
func elemPrefix(p, d string) bool {
	if !strings.HasPrefix(p, d) {
		return false
	}
	return len(p) == len(d) || p[len(d)] == '/' || p[len(d)] == '['
}

// admissible keeps "clean" histories away from the known value-path defects: no write below a
// path deleted earlier (or in the same request), no delete that is a textual but not an
// element-boundary prefix of another path of the target.
func (g *sim) admissible(t int, p string, del bool, inReq []string, inReqDel []bool) bool {
	if !g.clean {
		return true
	}
	for _, d := range g.deleted[t] {
		if strings.HasPrefix(p, d) && p != d {
			return false
		}
		if del && strings.HasPrefix(d, p) && d != p {
			return false // deleting an ancestor of an earlier tombstone nests tombstones
		}
	}
	for i, q := range inReq {
		if inReqDel[i] && strings.HasPrefix(p, q) {
			return false
		}
		if del && strings.HasPrefix(q, p) {
			return false
		}
	}
	if del {
		for _, q := range append(append([]string{}, g.used[t]...), inReq...) {
			if strings.HasPrefix(q, p) && !elemPrefix(q, p) {
				return false
			}
		}
	} else {
		for _, d := range g.deleted[t] {
			if strings.HasPrefix(p, d) && !elemPrefix(p, d) {
				return false
			}
		}
	}
	return true
}

func (g *sim) genChange(t int) string {
	n := g.r.Range(1, 3)
	seen := map[string]bool{}
	var parts, inReq []string
	var inReqDel []bool
	if g.p.Deletes && !g.clean && g.r.Chance(1, 6) {
		// a node and a node beneath it deleted by one request (the order in which the change map is
		// walked must not matter)
		pairs := [][2]string{{"/a", "/a/b"}, {"/a", "/a/d"}, {"/a", "/a/bc"}, {"/x", "/x/y"}, {"/l", "/l[k=1]"}, {"/l", "/l[k=1]/x"}, {"/l[k=1]", "/l[k=1]/x"}}
		pr := pairs[g.r.Intn(len(pairs))]
		for _, p := range pr {
			seen[p] = true
			inReq, inReqDel = append(inReq, p), append(inReqDel, true)
			parts = append(parts, fmt.Sprintf("%s=-:d:0", hx(p)))
		}
		g.tags["nested-deletes"] = true
		n = len(parts) + g.r.Intn(2)
	}
	for i := 0; i < n*3 && len(parts) < n; i++ {
		del := g.p.Deletes && g.r.Chance(1, 3)
		var p string
		if del {
			p = g.r.Pick(deletePaths)
		} else {
			p = g.r.Pick(leafPaths)
		}
		if seen[p] || !g.admissible(t, p, del, inReq, inReqDel) {
			continue
		}
		seen[p] = true
		inReq = append(inReq, p)
		inReqDel = append(inReqDel, del)
		if del {
			parts = append(parts, fmt.Sprintf("%s=-:d:0", hx(p)))
			g.tags["delete"] = true
		} else {
			parts = append(parts, fmt.Sprintf("%s=%s:l:0", hx(p), hx(g.r.Pick(values))))
		}
	}
	if len(parts) == 0 {
		p := "/zz"
		inReq, inReqDel = append(inReq, p), append(inReqDel, false)
		parts = append(parts, fmt.Sprintf("%s=%s:l:0", hx(p), hx(g.r.Pick(values))))
	}
	for i, p := range inReq {
		if inReqDel[i] {
			g.deleted[t] = append(g.deleted[t], p)
		}
		g.used[t] = append(g.used[t], p)
	}
	return strings.Join(parts, ",")
}

func (g *sim) newSet() {
	k := 1
	if len(g.targets) > 1 && (g.r.Chance(1, 2) || (g.p.MultiBias && g.r.Chance(2, 3))) {
		k = g.r.Range(2, len(g.targets))
		g.tags["multi-target"] = true
	}
	perm := append([]int{}, g.targets...)
	for i := len(perm) - 1; i > 0; i-- {
		j := g.r.Intn(i + 1)
		perm[i], perm[j] = perm[j], perm[i]
	}
	var parts []string
	for _, t := range perm[:k] {
		parts = append(parts, fmt.Sprintf("%d/%s", t, g.genChange(t)))
	}
	ser := "0"
	if g.p.Serializable && g.r.Chance(1, 4) {
		ser = "1"
		g.tags["serializable"] = true
	}
	g.do(fmt.Sprintf("v2.set %d %s %s", g.r.Intn(2), ser, strings.Join(parts, " ")))
	g.nTx++
	g.enqueue(fmt.Sprintf("tx:%d", g.nTx))
}

func (g *sim) runOne(id string) {
	args := []string{"v2.run", id}
	if strings.HasPrefix(id, "prop:") {
		if g.p.Verdicts && (g.r.Chance(1, 8) || (g.p.VerdictBias && g.r.Chance(1, 4))) {
			args = append(args, "plugin="+g.r.Pick([]string{"bad", "none"}))
			g.tags["verdict"] = true
		}
		if g.p.DevErrors && (g.r.Chance(1, 5) || (g.p.DevBias && g.r.Chance(1, 2))) {
			d := g.r.Pick([]string{"retry", "retry:CANCELED", "retry:TIMEOUT", "wait", "fail:INVALID", "fail:INTERNAL", "fail:UNKNOWN", "fail:NOT_FOUND", "fail:CONFLICT", "fail:NOT_SUPPORTED", "fail:ALREADY_EXISTS", "fail:UNAUTHORIZED"})
			args = append(args, "dev="+d)
			g.tags["dev-"+strings.Split(d, ":")[0]] = true
		}
	}
	if strings.HasPrefix(id, "cfg:") && g.p.DevErrors && g.r.Chance(1, 5) {
		// a re-synchronisation request answered with a transient error, a superseded-master refusal, or a
		// plain refusal (the configuration stays SYNCHRONIZING and is retried; it must not be reported
		// synchronized with a request missing)
		d := g.r.Pick([]string{"retry", "wait", "fail:INTERNAL", "fail:INVALID"})
		args = append(args, "dev="+d, fmt.Sprintf("syncok=%d", g.r.Intn(2)))
		g.tags["sync-error"] = true
		if strings.HasPrefix(d, "fail") {
			g.tags["sync-refused"] = true
		}
	}
	if g.p.Injections && g.r.Chance(1, 6) {
		kind := g.r.Pick([]string{"fail", "conflict"})
		args = append(args, fmt.Sprintf("inject=%s:%d", kind, g.r.Intn(4)))
		g.tags["inject-"+kind] = true
	}
	injected := false
	for _, a := range args {
		if strings.HasPrefix(a, "inject=") {
			injected = true
		}
	}
	// (an injected write failure and a pre-emption are not combined on one invocation: where the
	// invocation ends at the failed write, "after its k-th effect" names no point the twin and the
	// decorators agree on - a disagreement of the harness with itself, met at seed 3)
	if injected {
	} else if g.p.Inter && strings.HasPrefix(id, "cfg:") && g.r.Chance(1, 3) {
		// the device restarts empty, comes back over a new connection and a new master is elected while
		// the configuration reconciler is between two requests of a re-synchronisation, or between the last
		// one and its status write
		t := atoi(strings.TrimPrefix(id, "cfg:"))
		for rid, rt := range g.rels {
			if rt == t {
				delete(g.rels, rid)
			}
		}
		g.nextRel++
		g.rels[g.nextRel] = t
		args = append(args, fmt.Sprintf("inter=%s%d:F.devrestart.%d+F.relup.%d.%d+mast:%d", g.mode(), g.r.Intn(5), t, g.nextRel, t, t))
		g.tags["pre-empted"], g.tags["restart-inside-resync"] = true, true
	} else if g.p.Inter && g.r.Chance(1, 3) {
		// pre-emption: another reconciler (a different work-queue partition) runs one whole invocation
		// just before the k-th write of this one
		var cands []string
		for _, q := range g.queue {
			if partitionOf(q) != partitionOf(id) {
				cands = append(cands, q)
			}
		}
		for _, t := range g.targets {
			for _, q := range []string{fmt.Sprintf("mast:%d", t), fmt.Sprintf("cfg:%d", t)} {
				if partitionOf(q) != partitionOf(id) {
					cands = append(cands, q)
				}
			}
		}
		if len(cands) > 0 {
			args = append(args, fmt.Sprintf("inter=%s%d:%s", g.mode(), g.r.Intn(3), cands[g.r.Intn(len(cands))]))
			g.tags["pre-empted"] = true
		}
	}
	out := g.do(strings.Join(args, " "))
	// wake-ups: anything a write could have touched (a superset of the real watcher mapping)
	f := strings.Fields(out)
	effects := 0
	for _, x := range f {
		if strings.HasPrefix(x, "effects=") {
			effects, _ = strconv.Atoi(strings.TrimPrefix(x, "effects="))
		}
		if strings.HasPrefix(x, "requeue=") && x != "requeue=-" {
			g.enqueue(strings.TrimPrefix(x, "requeue="))
		}
		if x == "err=1" {
			g.enqueue(id)
		}
	}
	if effects > 0 {
		g.tags["write"] = true
		for i := 1; i <= g.nTx; i++ {
			g.enqueue(fmt.Sprintf("tx:%d", i))
			for _, t := range g.targets {
				g.enqueue(fmt.Sprintf("prop:%d:%d", t, i))
			}
		}
		for _, t := range g.targets {
			g.enqueue(fmt.Sprintf("cfg:%d", t), fmt.Sprintf("mast:%d", t))
		}
	}
}

func (g *sim) fault() (target int) {
	switch g.r.Intn(5) {
	case 0, 1:
		t := g.targets[g.r.Intn(len(g.targets))]
		g.nextRel++
		g.rels[g.nextRel] = t
		g.do(fmt.Sprintf("v2.fault relup %d %d", g.nextRel, t))
		g.enqueue(fmt.Sprintf("mast:%d", t), fmt.Sprintf("cfg:%d", t))
		g.tags["relup"] = true
		target = t
	case 2:
		for id, t := range g.rels {
			g.do(fmt.Sprintf("v2.fault reldown %d", id))
			delete(g.rels, id)
			g.enqueue(fmt.Sprintf("mast:%d", t))
			g.tags["reldown"] = true
			target = t
			break
		}
	case 3:
		for id := range g.rels {
			g.do(fmt.Sprintf("v2.fault %s %d", g.r.Pick([]string{"conndown", "connup"}), id))
			g.tags["conn-flap"] = true
			break
		}
	case 4:
		// a device restart loses its configuration and every connection to it
		t := g.targets[g.r.Intn(len(g.targets))]
		g.do(fmt.Sprintf("v2.fault devrestart %d", t))
		for id, rt := range g.rels {
			if rt == t {
				delete(g.rels, id)
			}
		}
		g.enqueue(fmt.Sprintf("mast:%d", t))
		g.tags["devrestart"] = true
		target = t
	}
	return target
}

// Generate builds one history by driving a real system with random scheduling; the recorded
// script is then replayed on a fresh real system and on the twin.
func Generate(r *rng.R, p Profile) fw.Case {
	g := &sim{r: r, p: p, real: newReal(), rels: map[int]int{}, tags: map[string]bool{},
		deleted: map[int][]string{}, used: map[int][]string{}}
	g.clean = p.CleanPct > 0 && r.Intn(100) < p.CleanPct
	if g.clean {
		g.tags["clean"] = true
	}
	defer g.real.Close()
	g.do("v2.reset")
	nT := r.Range(1, p.Targets)
	if p.MultiBias && p.Targets > 1 {
		nT = r.Range(2, p.Targets)
	}
	for t := 1; t <= nT; t++ {
		pers := "0"
		if p.Persistent && r.Chance(1, 6) {
			pers = "1"
			g.tags["persistent"] = true
		}
		g.do(fmt.Sprintf("v2.target %d persistent=%s", t, pers))
		g.targets = append(g.targets, t)
	}
	// most histories start connected
	for _, t := range g.targets {
		if !p.Faults || p.StartConn || r.Chance(3, 4) {
			g.nextRel++
			g.rels[g.nextRel] = t
			g.do(fmt.Sprintf("v2.fault relup %d %d", g.nextRel, t))
			g.enqueue(fmt.Sprintf("mast:%d", t))
		}
	}
	sets := r.Range(1, p.Sets)
	steps := 0
	if p.Burst && r.Chance(1, 2) {
		for g.nTx < sets {
			g.newSet()
		}
		g.tags["burst"] = true
	}
	policy := r.Intn(4) // 0,3: mixed random/FIFO/LIFO; 1: youngest transaction first; 2: oldest first
	rollbacks := p.Rollbacks
	if p.RollbackPct > 0 {
		rollbacks = rollbacks && r.Intn(100) < p.RollbackPct
	}
	if policy == 1 {
		g.tags["youngest-first"] = true
	} else if policy == 2 {
		g.tags["oldest-first"] = true
	}
	for steps < p.MaxSteps {
		steps++
		switch {
		case g.nTx < sets && (len(g.queue) == 0 || r.Chance(1, 6)):
			if rollbacks && (!g.clean || p.RollbackBias) && g.nTx > 0 && (r.Chance(1, 4) || (p.RollbackBias && r.Chance(1, 3))) {
				k := r.Range(1, g.nTx+1)
				if p.RollbackBias && r.Chance(1, 2) {
					k = g.nTx // the latest transaction: the legal case most of the time
				}
				g.do(fmt.Sprintf("v2.rollback %d", k))
				g.nTx++
				g.enqueue(fmt.Sprintf("tx:%d", g.nTx))
				g.tags["rollback"] = true
			} else {
				g.newSet()
			}
		case p.Inter && p.Drain && g.nTx > 0 && r.Chance(1, 12):
			// a re-synchronisation that is itself overtaken: the device restarts, a new master is elected,
			// the configuration reconciler starts to re-send - and the device restarts again (new connection,
			// new election) right after one of the re-sent requests / before the status write
			t := g.targets[r.Intn(len(g.targets))]
			restart := func() string {
				for rid, rt := range g.rels {
					if rt == t {
						delete(g.rels, rid)
					}
				}
				g.nextRel++
				g.rels[g.nextRel] = t
				return fmt.Sprintf("F.devrestart.%d+F.relup.%d.%d", t, g.nextRel, t)
			}
			for _, f := range strings.Split(restart(), "+") {
				g.do("v2.fault " + strings.ReplaceAll(strings.TrimPrefix(f, "F."), ".", " "))
			}
			g.do(fmt.Sprintf("v2.run mast:%d", t))
			g.do(fmt.Sprintf("v2.run cfg:%d", t))
			g.do(fmt.Sprintf("v2.run cfg:%d inter=%s%d:%s+mast:%d", t, g.mode(), r.Intn(3), restart(), t))
			g.tags["pre-empted"], g.tags["resync-overtaken"] = true, true
			g.enqueue(fmt.Sprintf("mast:%d", t), fmt.Sprintf("cfg:%d", t))
		case p.Faults && (r.Chance(1, 12) || (p.FaultBias && r.Chance(1, 6))):
			t := g.fault()
			if p.Inter && t > 0 && r.Chance(1, 2) {
				// the mastership reconciler reacts to the fault while a configuration (or proposal) invocation
				// that read the old term is between its snapshot and one of its writes
				a := fmt.Sprintf("cfg:%d", t)
				if r.Chance(1, 3) && g.nTx > 0 {
					a = fmt.Sprintf("prop:%d:%d", t, r.Range(1, g.nTx))
				}
				out := g.do(fmt.Sprintf("v2.run %s inter=%s%d:mast:%d", a, g.mode(), r.Intn(2), t))
				g.tags["pre-empted"] = true
				if strings.Contains(out, "effects=") && !strings.Contains(out, "effects=0 ") {
					g.tags["write"] = true
				}
				g.enqueue(a, fmt.Sprintf("mast:%d", t), fmt.Sprintf("cfg:%d", t))
			}
		case len(g.queue) > 0:
			i := r.Intn(len(g.queue))
			switch r.Intn(4) {
			case 0:
				i = 0 // FIFO
			case 1:
				i = len(g.queue) - 1 // LIFO
			}
			if policy == 1 || policy == 2 {
				// youngest-first / oldest-first: prefer the work of the latest / earliest transaction
				best, bestIdx := -1, -1
				for k, q := range g.queue {
					f := strings.Split(q, ":")
					idx := -1
					if f[0] == "tx" {
						idx = atoi(f[1])
					} else if f[0] == "prop" {
						idx = atoi(f[2])
					}
					if idx < 0 {
						continue
					}
					if bestIdx < 0 || (policy == 1 && idx > bestIdx) || (policy == 2 && idx < bestIdx) {
						best, bestIdx = k, idx
					}
				}
				if best >= 0 && r.Chance(4, 5) {
					i = best
				}
			}
			id := g.queue[i]
			g.queue = append(g.queue[:i], g.queue[i+1:]...)
			g.runOne(id)
		default:
			steps = p.MaxSteps
		}
	}
	if p.Drain {
		// reconnect everything, then let the controllers run to their fixed point
		hasRel := map[int]bool{}
		for id, t := range g.rels {
			hasRel[t] = true
			g.do(fmt.Sprintf("v2.fault connup %d", id))
		}
		var ts []string
		for _, t := range g.targets {
			if !hasRel[t] {
				g.nextRel++
				g.rels[g.nextRel] = t
				g.do(fmt.Sprintf("v2.fault relup %d %d", g.nextRel, t))
			}
			ts = append(ts, strconv.Itoa(t))
		}
		g.do("v2.drain " + strings.Join(ts, " "))
		if p.Twice {
			first := append([]string{}, g.script...)
			for _, ln := range first {
				f := strings.Fields(ln)
				var keep []string
				for _, x := range f {
					if !strings.HasPrefix(x, "inject=") {
						keep = append(keep, x)
					}
				}
				g.do(strings.Join(keep, " "))
			}
		}
	} else {
		g.do("v2.state")
	}
	var tags []string
	for t := range g.tags {
		tags = append(tags, t)
	}
	nt := g.tags["write"] && g.nTx > 0
	if p.MultiBias {
		nt = nt && (g.tags["multi-target"] || g.tags["verdict"])
	}
	if p.RollbackBias && p.RollbackPct == 0 {
		nt = nt && g.tags["rollback"]
	}
	return fw.Case{Script: g.script, Tags: tags, Nontrivial: nt}
}

// partitionOf is the work-queue partition an id is processed in: invocations of one partition never overlap.
func partitionOf(id string) string {
	f := strings.Split(id, ":")
	switch f[0] {
	case "tx":
		return "tx"
	case "prop":
		return "prop:" + f[1]
	}
	return id
}

// mode: a pre-emption lands just before an effect ("") or right after one has completed ("a"): the
// two differ exactly when the real code reads the stores again between two of its writes.
func (g *sim) mode() string {
	if g.r.Chance(1, 2) {
		return "a"
	}
	return ""
}
