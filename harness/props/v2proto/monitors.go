package v2proto

import (
	"encoding/hex"
	"fmt"
	"regexp"
	"strings"

	"github.com/onosproject/onos-config/verifharness/internal/fw"
)

// seq returns the parsed states in order, skipping lines without a state.
func seq(outs []string) []*State {
	var out []*State
	for _, s := range States(outs) {
		if s != nil {
			out = append(out, s)
		}
	}
	return out
}

// monitorC01: a change is merged into a target's configuration only while every proposal of its
// transaction is validated; a transaction whose validation failed leaves no trace in any named
// target's stored configuration and is reported FAILED; a committed transaction is committed on
// every target it names.
// changedPaths returns the hex paths transaction i changes on target t (change transactions only).
func changedPaths(c fw.Case, i, t int) []string {
	n := 0
	for _, ln := range c.Script {
		f := strings.Fields(ln)
		if len(f) == 0 {
			continue
		}
		switch f[0] {
		case "v2.reset":
			n = 0
		case "v2.rollback":
			n++
		case "v2.set":
			n++
			if n != i {
				continue
			}
			for _, ch := range f[3:] {
				tt, vals, _ := strings.Cut(ch, "/")
				if atoi(tt) != t {
					continue
				}
				var out []string
				for _, tok := range strings.Split(vals, ",") {
					p, _, _ := strings.Cut(tok, "=")
					out = append(out, p)
				}
				return out
			}
		}
	}
	return nil
}

// laterDeleteCovers: a transaction after i deletes the path or one of its ancestors on target t.
func laterDeleteCovers(c fw.Case, i, t int, hexPath string) bool {
	b, _ := hex.DecodeString(hexPath)
	path := string(b)
	n := 0
	for _, ln := range c.Script {
		f := strings.Fields(ln)
		if len(f) == 0 {
			continue
		}
		switch f[0] {
		case "v2.reset":
			n = 0
		case "v2.rollback":
			n++
		case "v2.set":
			n++
			if n <= i {
				continue
			}
			for _, ch := range f[3:] {
				tt, vals, _ := strings.Cut(ch, "/")
				if atoi(tt) != t {
					continue
				}
				for _, tok := range strings.Split(vals, ",") {
					hp, rest, _ := strings.Cut(tok, "=")
					if !strings.Contains(rest, ":d:") {
						continue
					}
					d, _ := hex.DecodeString(hp)
					if elemPrefix(path, string(d)) {
						return true
					}
				}
			}
		}
	}
	return false
}

// requestTargets returns, per transaction index, the targets its request names (rollbacks: the
// targets of the transaction rolled back).
func requestTargets(c fw.Case) map[int][]int {
	res := map[int][]int{}
	n := 0
	for _, ln := range c.Script {
		f := strings.Fields(ln)
		if len(f) == 0 {
			continue
		}
		switch f[0] {
		case "v2.reset":
			res, n = map[int][]int{}, 0
		case "v2.set":
			n++
			for _, ch := range f[3:] {
				t, _, _ := strings.Cut(ch, "/")
				res[n] = append(res[n], atoi(t))
			}
		case "v2.rollback":
			n++
			res[n] = append([]int{}, res[atoi(f[1])]...)
		}
	}
	return res
}

func monitorC01(c fw.Case, outs []string) []string {
	var fails []string
	sts := seq(outs)
	want := requestTargets(c)
	for _, st := range sts {
		for i, tx := range st.Tx {
			if !tx.HasProps || tx.Init == "f" {
				continue
			}
			have := map[int]bool{}
			for _, pid := range tx.Props {
				t, _, _ := strings.Cut(pid, "-")
				have[atoi(t)] = true
			}
			for _, t := range want[i] {
				if !have[t] {
					fails = append(fails, fmt.Sprintf("targets: transaction %d names target %d but its proposal list %v does not: it can commit without that target", i, t, tx.Props))
				}
			}
		}
	}
	for k := 1; k < len(sts); k++ {
		a, b := sts[k-1], sts[k]
		for t, cb := range b.Cfg {
			before := 0
			if ca, ok := a.Cfg[t]; ok {
				before = ca.Committed
			}
			if cb.Committed == before {
				continue
			}
			p := b.Prop[fmt.Sprintf("%d-%d", t, cb.Committed)]
			if p == nil || p.Commit == "-" {
				continue // the commit cursor was advanced by an abort
			}
			tx := b.Tx[cb.Committed]
			if tx == nil {
				fails = append(fails, fmt.Sprintf("merge: target %d merged index %d of no transaction", t, cb.Committed))
				continue
			}
			for _, pid := range tx.Props {
				q := b.Prop[pid]
				if q == nil || q.Validate != "d" {
					fails = append(fails, fmt.Sprintf("merge: target %d merged transaction %d while proposal %s is not validated", t, cb.Committed, pid))
				}
			}
		}
	}
	if len(sts) > 0 {
		f := sts[len(sts)-1]
		for i, tx := range f.Tx {
			if tx.Validate == "f" {
				if tx.State != "FAILED" {
					fails = append(fails, fmt.Sprintf("report: transaction %d failed validation but is %s", i, tx.State))
				}
				for _, pid := range tx.Props {
					p := f.Prop[pid]
					if p == nil {
						continue
					}
					if cfg := f.Cfg[p.Target]; cfg != nil {
						for path, pv := range cfg.View {
							if pv.Index == i {
								fails = append(fails, fmt.Sprintf("none: transaction %d failed validation yet target %d stores %s from it", i, p.Target, path))
							}
						}
					}
				}
			}
			if tx.Commit == "d" {
				for _, pid := range tx.Props {
					p := f.Prop[pid]
					if p == nil || p.Commit != "d" {
						fails = append(fails, fmt.Sprintf("all: transaction %d is committed but proposal %s is not", i, pid))
						continue
					}
					// the change must really be in the target's stored configuration: every path of the
					// request carries this or a later transaction's index there
					if cfg := f.Cfg[p.Target]; cfg != nil && CleanHistory(c) {
						for _, path := range changedPaths(c, i, p.Target) {
							pv, ok := cfg.View[path]
							if (!ok && !laterDeleteCovers(c, i, p.Target, path)) || (ok && pv.Index < i) {
								fails = append(fails, fmt.Sprintf("all: transaction %d is committed but target %d does not store its change of %s", i, p.Target, path))
							}
						}
					}
				}
			}
		}
	}
	return fails
}

// stepInfo pairs each `v2.run` line with the states before and after it.
type stepInfo struct {
	line          string
	actor         string
	before, after *State
	raw           string // the implementation's whole answer line
}

func steps(c fw.Case, outs []string) []stepInfo {
	var res []stepInfo
	var prev *State
	sts := States(outs)
	for i, ln := range c.Script {
		if i >= len(sts) {
			break
		}
		if strings.HasPrefix(ln, "v2.reset") {
			prev = &State{Tx: map[int]*TxS{}, Prop: map[string]*PropS{}, Cfg: map[int]*CfgS{}, Dev: map[int]map[string]string{}}
			continue
		}
		if sts[i] == nil {
			continue
		}
		if strings.HasPrefix(ln, "v2.run ") && prev != nil {
			f := strings.Fields(ln)
			res = append(res, stepInfo{line: ln, actor: f[1], before: prev, after: sts[i], raw: outs[i]})
		}
		prev = sts[i]
	}
	return res
}

func chainDone(s *State, target, idx int) bool {
	// every chained proposal of the target with a smaller index has finished applying or was aborted
	for _, p := range s.Prop {
		if p.Target == target && p.Index < idx {
			if !(p.Apply == "d" || p.Apply == "f" || p.Abort == "d" || p.Validate == "f") {
				return false
			}
		}
	}
	return true
}

// monitorC02: cursors never go back; merges happen in increasing index order; a change is sent to
// the device only after it was merged and after every earlier proposal of the target finished.
func monitorC02(c fw.Case, outs []string) []string {
	var fails []string
	lastMerge := map[int]int{}
	merged := map[string]bool{} // proposals whose own commit step advanced the committed index to them
	sent := map[string]bool{}   // proposals one of whose own steps reached the device with a request
	for _, st := range steps(c, outs) {
		if strings.HasPrefix(st.actor, "prop:") {
			f := strings.Split(st.actor, ":")
			t, idx := atoi(f[1]), atoi(f[2])
			k := fmt.Sprintf("%d-%d", t, idx)
			pb, pa := st.before.Prop[k], st.after.Prop[k]
			if ca, cb := st.before.Cfg[t], st.after.Cfg[t]; ca != nil && cb != nil && pb != nil &&
				pb.Commit == "o" && ca.Committed != idx && cb.Committed == idx {
				merged[k] = true
			}
			for _, r := range st.after.Log[len(st.before.Log):] {
				if r.Target == t {
					sent[k] = true // accepted or refused: the device was sent the change
				}
			}
			if pb != nil && pa != nil {
				if pb.Commit != "d" && pa.Commit == "d" && !merged[k] {
					fails = append(fails, fmt.Sprintf("commit-without-merge: proposal %s is marked COMMITTED but none of its steps merged it into the configuration (committed index %d)", k, st.after.Cfg[t].Committed))
				}
				if pb.Apply != "d" && pa.Apply == "d" && !sent[k] {
					fails = append(fails, fmt.Sprintf("applied-never-sent: proposal %s is marked APPLIED but no request of it ever reached the device", k))
				}
			}
		}
		for t, cb := range st.after.Cfg {
			ca := st.before.Cfg[t]
			if ca == nil {
				continue
			}
			if cb.Committed < ca.Committed {
				fails = append(fails, fmt.Sprintf("cursor: committed index of target %d went back %d -> %d at %q", t, ca.Committed, cb.Committed, st.line))
			}
			if cb.Applied < ca.Applied {
				fails = append(fails, fmt.Sprintf("cursor: applied index of target %d went back %d -> %d at %q", t, ca.Applied, cb.Applied, st.line))
			}
			if cb.Committed != ca.Committed {
				if p := st.after.Prop[fmt.Sprintf("%d-%d", t, cb.Committed)]; p != nil && p.Commit != "-" {
					if cb.Committed <= lastMerge[t] {
						fails = append(fails, fmt.Sprintf("merge-order: target %d merged %d after %d", t, cb.Committed, lastMerge[t]))
					}
					lastMerge[t] = cb.Committed
				}
			}
		}
		// new southbound requests of a proposal step
		if strings.HasPrefix(st.actor, "prop:") && len(st.after.Log) > len(st.before.Log) {
			f := strings.Split(st.actor, ":")
			t, idx := atoi(f[1]), atoi(f[2])
			cfg := st.before.Cfg[t]
			p := st.before.Prop[fmt.Sprintf("%d-%d", t, idx)]
			if cfg == nil || p == nil {
				fails = append(fails, fmt.Sprintf("apply: request for %s without configuration/proposal", st.actor))
				continue
			}
			if cfg.Committed < idx {
				fails = append(fails, fmt.Sprintf("apply-before-merge: change %d of target %d sent while committed index is %d", idx, t, cfg.Committed))
			}
			if !merged[fmt.Sprintf("%d-%d", t, idx)] {
				fails = append(fails, fmt.Sprintf("apply-unmerged: change %d of target %d sent although it was never merged into the stored configuration", idx, t))
			}
			if !chainDone(st.before, t, idx) {
				fails = append(fails, fmt.Sprintf("apply-order: change %d of target %d sent before an earlier proposal finished", idx, t))
			}
			if cfg.Applied >= idx {
				fails = append(fails, fmt.Sprintf("apply-repeat: change %d of target %d sent although applied index is %d", idx, t, cfg.Applied))
			}
		}
	}
	return fails
}

// monitorC10: terms never decrease and grow by one on every new assignment; the master is a live
// relation of the target or none; every request carries the configuration's current term over the
// master's connection, and is sent only when the applied term equals the term (re-synchronised).
func monitorC10(c fw.Case, outs []string) []string {
	var fails []string
	live := map[int]int{} // relation -> target
	sts := States(outs)
	var prev *State
	for i, ln := range c.Script {
		if i >= len(sts) {
			break
		}
		f := strings.Fields(ln)
		if len(f) >= 3 && f[0] == "v2.fault" {
			switch f[1] {
			case "relup":
				live[atoi(f[2])] = atoi(f[3])
			case "reldown":
				delete(live, atoi(f[2]))
			}
		}
		if strings.HasPrefix(ln, "v2.reset") {
			live = map[int]int{}
			prev = nil
		}
		st := sts[i]
		if st == nil {
			continue
		}
		if prev != nil && f[0] == "v2.run" {
			for t, cb := range st.Cfg {
				ca := prev.Cfg[t]
				if ca == nil {
					continue
				}
				if cb.Term < ca.Term {
					fails = append(fails, fmt.Sprintf("term: target %d term went back %d -> %d", t, ca.Term, cb.Term))
				}
				if cb.Master != ca.Master {
					if cb.Master != 0 {
						if cb.Term != ca.Term+1 {
							fails = append(fails, fmt.Sprintf("term: target %d master %d -> %d but term %d -> %d", t, ca.Master, cb.Master, ca.Term, cb.Term))
						}
						if tg, ok := live[cb.Master]; !ok || tg != t {
							fails = append(fails, fmt.Sprintf("master: target %d elected relation %d which is not a live relation of it", t, cb.Master))
						}
					} else if cb.Term != ca.Term {
						fails = append(fails, fmt.Sprintf("term: target %d resigned but term changed %d -> %d", t, ca.Term, cb.Term))
					}
				} else if cb.Term != ca.Term {
					fails = append(fails, fmt.Sprintf("term: target %d term changed %d -> %d without a new master", t, ca.Term, cb.Term))
				}
			}
			for k := len(prev.Log); k < len(st.Log); k++ {
				r := st.Log[k]
				cfg := prev.Cfg[r.Target]
				if cfg == nil {
					fails = append(fails, "write: request to a target without configuration")
					continue
				}
				if r.Term != cfg.Term {
					fails = append(fails, fmt.Sprintf("write-term: request to target %d carries term %d, current term %d", r.Target, r.Term, cfg.Term))
				}
				if r.Conn != cfg.Master {
					fails = append(fails, fmt.Sprintf("write-conn: request to target %d over %d, master is %d", r.Target, r.Conn, cfg.Master))
				}
				if strings.HasPrefix(f[1], "prop:") && cfg.AppliedTerm != cfg.Term {
					fails = append(fails, fmt.Sprintf("resync-first: change sent to target %d in term %d before re-synchronisation (applied term %d)", r.Target, cfg.Term, cfg.AppliedTerm))
				}
			}
		}
		prev = st
	}
	return fails
}

func txEq(a, b *State) bool {
	if len(a.Tx) != len(b.Tx) {
		return false
	}
	for i, x := range a.Tx {
		y := b.Tx[i]
		if y == nil || fmt.Sprint(*x) != fmt.Sprint(*y) {
			return false
		}
	}
	return true
}

func propEq(a, b *State) bool {
	if len(a.Prop) != len(b.Prop) {
		return false
	}
	for i, x := range a.Prop {
		y := b.Prop[i]
		if y == nil || *x != *y {
			return false
		}
	}
	return true
}

// cfgEq compares configurations, skipping target `skip`.
func cfgEq(a, b *State, skip int) bool {
	for t, x := range a.Cfg {
		if t == skip {
			continue
		}
		y := b.Cfg[t]
		if y == nil || fmt.Sprint(*x) != fmt.Sprint(*y) {
			return false
		}
	}
	return len(a.Cfg) == len(b.Cfg)
}

// liveOf is what a Get returns: the values that are not tombstones.
func liveOf(m map[string]PVS) map[string]string {
	out := map[string]string{}
	for p, v := range m {
		if !v.Deleted {
			out[p] = v.Value
		}
	}
	return out
}

func devEq(a, b map[string]string) bool {
	if len(a) != len(b) {
		return false
	}
	for k, v := range a {
		if b[k] != v {
			return false
		}
	}
	return true
}

// monitorC11: a device refusal fails exactly that change (recorded class, applied index advanced,
// device and every other record untouched); an unreachable device or a superseded master changes
// nothing at all.
func monitorC11(c fw.Case, outs []string) []string {
	var fails []string
	refused, accepted := map[string]bool{}, map[string]bool{}
	for _, st := range steps(c, outs) {
		// a change the device refused is never reported APPLIED, whatever writes are lost afterwards
		if strings.HasPrefix(st.actor, "prop:") {
			f := strings.Split(st.actor, ":")
			t, idx := atoi(f[1]), atoi(f[2])
			k := fmt.Sprintf("%d-%d", t, idx)
			for _, r := range st.after.Log[len(st.before.Log):] {
				if r.Target == t && r.Accepted {
					accepted[k] = true
				} else if r.Target == t {
					refused[k] = true
				}
			}
			if pb, pa := st.before.Prop[k], st.after.Prop[k]; pb != nil && pa != nil && pb.Apply != "d" && pa.Apply == "d" && refused[k] && !accepted[k] {
				fails = append(fails, fmt.Sprintf("refusal-lost: proposal %s is marked APPLIED by %q although the device refused every request of it", k, st.line))
			}
		}
		// whenever a proposal is recorded as apply-FAILED, the applied index has passed it: later
		// transactions of the target proceed (this holds after every step, failed writes included)
		for key, p := range st.after.Prop {
			if p.Apply == "f" {
				if cfg := st.after.Cfg[p.Target]; cfg == nil || cfg.Applied < p.Index {
					fails = append(fails, fmt.Sprintf("refusal-blocks: proposal %s is apply-FAILED but the applied index of its target is behind it after %q: later changes of the target are stuck", key, st.line))
				}
			}
		}
		if !strings.HasPrefix(st.actor, "prop:") || strings.Contains(st.line, "inject=") {
			continue
		}
		dev := ""
		for _, a := range strings.Fields(st.line) {
			if strings.HasPrefix(a, "dev=") {
				dev = strings.TrimPrefix(a, "dev=")
			}
		}
		f := strings.Split(st.actor, ":")
		t, idx := atoi(f[1]), atoi(f[2])
		key := fmt.Sprintf("%d-%d", t, idx)
		pb, pa := st.before.Prop[key], st.after.Prop[key]
		if pb == nil || pa == nil || pb.Apply != "o" {
			continue
		}
		attempted := true
		att := 0
		if m := attOnlyRe.FindString(outsHead(st.after)); m != "" {
			att = atoi(strings.TrimPrefix(m, " att="))
		}
		switch {
		case strings.HasPrefix(dev, "retry") || dev == "wait":
			if att > 0 && strings.HasPrefix(dev, "retry") && !strings.Contains(st.after.Head, "err=1") {
				fails = append(fails, fmt.Sprintf("transient-dropped: %q reached the device, got a transient answer, and returned no error: nothing re-queues the change", st.line))
			}
			if att > 0 && (!txEq(st.before, st.after) || !propEq(st.before, st.after) || !cfgEq(st.before, st.after, -1) ||
				!devEq(st.before.Dev[t], st.after.Dev[t])) {
				fails = append(fails, fmt.Sprintf("transient: %q changed a record or the device", st.line))
			}
			if pa.Apply == "f" {
				fails = append(fails, fmt.Sprintf("transient-failed: %q failed the change", st.line))
			}
		case strings.HasPrefix(dev, "fail:") && len(st.after.Log) > len(st.before.Log) && attempted:
			class := strings.TrimPrefix(dev, "fail:")
			if pa.Apply != "f" || pa.AFail != class {
				fails = append(fails, fmt.Sprintf("refusal: %q: proposal apply=%s failure=%s, want FAILED/%s", st.line, pa.Apply, pa.AFail, class))
			}
			if !devEq(st.before.Dev[t], st.after.Dev[t]) {
				fails = append(fails, fmt.Sprintf("refusal: %q changed the device", st.line))
			}
			if !cfgEq(st.before, st.after, t) {
				fails = append(fails, fmt.Sprintf("refusal: %q touched another target's configuration", st.line))
			}
			if ca := st.after.Cfg[t]; ca == nil || ca.Applied != idx {
				fails = append(fails, fmt.Sprintf("refusal: %q did not advance the applied index to %d", st.line, idx))
			}
		}
	}
	return fails
}

func outsHead(s *State) string { return " " + s.Head + " " }

// drained returns the state of every `v2.drain` answer.
func drained(c fw.Case, outs []string) []*State {
	var res []*State
	for i, ln := range c.Script {
		if strings.HasPrefix(ln, "v2.drain") && i < len(outs) {
			if s, ok := Parse(outs[i]); ok {
				if strings.Contains(outs[i], "quiescent=false") {
					s.Head = "not-quiescent"
				}
				res = append(res, s)
			}
		}
	}
	return res
}

// monitorC09: once the controllers are idle with every target connected, every transaction is
// final (APPLIED or FAILED) — nothing that could make progress is stranded.
func monitorC09(c fw.Case, outs []string) []string {
	var fails []string
	for _, s := range drained(c, outs) {
		if s.Head == "not-quiescent" {
			fails = append(fails, "livelock: the controllers did not reach a fixed point within the sweep bound")
			continue
		}
		for i, tx := range s.Tx {
			// the statement's precondition: every target the transaction names is connected
			connected := tx.HasProps
			for _, pid := range tx.Props {
				p := s.Prop[pid]
				if p == nil {
					connected = false
					continue
				}
				if cfg := s.Cfg[p.Target]; cfg == nil || cfg.Master == 0 {
					connected = false
				}
			}
			if !connected && tx.State != "FAILED" {
				continue
			}
			if tx.State != "APPLIED" && tx.State != "FAILED" {
				fails = append(fails, fmt.Sprintf("stranded: transaction %d is %s at the fixed point with every target connected", i, tx.State))
			} else if tx.State == "FAILED" && tx.Abort == "o" && abortBlocks(s, i) {
				fails = append(fails, fmt.Sprintf("stranded: transaction %d is FAILED but its abort never completes: the indexes of a target stay behind it, later transactions of that target wait for ever", i))
			}
		}
	}
	return fails
}

// monitorC04: at the fixed point, connected and synchronized, the device holds exactly the live
// stored values of the transactions whose apply did not fail.
func monitorC04(c fw.Case, outs []string) []string {
	var fails []string
	live := liveRelations(c)
	clean := CleanHistory(c)
	reqs := requests(c)
	devRef := func(st *State) map[int]map[string]string { return deviceReference(reqs, st) }
	for _, s := range drained(c, outs) {
		if s.Head == "not-quiescent" {
			continue
		}
		for t, cfg := range s.Cfg {
			if cfg.State != "SYNCHRONIZED" || cfg.Master == 0 || !live[cfg.Master] {
				continue
			}
			// the master must be a relation whose connection is up (a connection that is down while the
			// relation stays listed keeps its master: nothing can be sent, nothing has to have converged)
			// what the device must hold: the live stored values, except where the device refused the change
			// that wrote (or deleted) them - there it keeps what the last applied change left (the applied
			// side map is the controller's own record of that), under a refused subtree delete too
			want := map[string]string{}
			failed := func(idx int) bool {
				p := s.Prop[fmt.Sprintf("%d-%d", t, idx)]
				return p != nil && p.Apply == "f"
			}
			for path, pv := range cfg.View {
				if !pv.Deleted && !failed(pv.Index) {
					want[path] = pv.Value
				}
			}
			for path, av := range cfg.Vals {
				if _, ok := want[path]; ok || av.Deleted {
					continue
				}
				for p2, pv2 := range cfg.View {
					if failed(pv2.Index) && elemPrefix(unhex(path), unhex(p2)) {
						want[path] = av.Value
						break
					}
				}
			}
			// second, independent reference (clean histories): the device holds the gNMI-sequential effect of
			// the requests that were APPLIED on it, whatever the controller recorded as applied
			if clean && !rolledBackAfterFailure(reqs, s, t) {
				ref := devRef(s)[t]
				for p, v := range ref {
					if hv, ok := s.Dev[t][hx(p)]; !ok || hv != v {
						fails = append(fails, fmt.Sprintf("converge: target %d device holds %q at %s, the requests applied on it leave %q there", t, unhex(hv), p, unhex(v)))
					}
				}
				for hp, v := range s.Dev[t] {
					if _, ok := ref[unhex(hp)]; !ok {
						fails = append(fails, fmt.Sprintf("converge: target %d device holds %s=%s which no request applied on it left there", t, unhex(hp), unhex(v)))
					}
				}
			}
			got := s.Dev[t]
			for path, v := range want {
				if got[path] != v {
					fails = append(fails, fmt.Sprintf("converge: target %d device lacks %s=%s (has %q)", t, path, v, got[path]))
				}
			}
			for path, v := range got {
				if _, ok := want[path]; !ok {
					fails = append(fails, fmt.Sprintf("converge: target %d device holds %s=%s which the stored configuration does not", t, path, v))
				}
			}
		}
	}
	return fails
}

// monitorC07: the outcome of a history with failed/lost writes (crashes between two writes) equals
// the outcome of the same history without them, once both are driven to the fixed point.
func monitorC07(c fw.Case, outs []string) []string {
	ds := drained(c, outs)
	if len(ds) != 2 || !CleanHistory(c) {
		// a history that writes below a path deleted in the same request has a map-order dependent
		// outcome even without crashes (C03's finding); the comparison needs a deterministic outcome
		return nil
	}
	a, b := ds[0], ds[1]
	var fails []string
	if a.Head == "not-quiescent" || b.Head == "not-quiescent" {
		return []string{"blocked: a run did not reach its fixed point"}
	}
	for i, x := range a.Tx {
		y := b.Tx[i]
		if y == nil || x.State != y.State || x.Failure != y.Failure {
			fails = append(fails, fmt.Sprintf("outcome: transaction %d ends %s/%s with crashes and %v without", i, x.State, x.Failure, y))
		}
	}
	for t, x := range a.Cfg {
		y := b.Cfg[t]
		if y == nil {
			fails = append(fails, fmt.Sprintf("outcome: target %d has a configuration only with crashes", t))
			continue
		}
		if fmt.Sprint(liveOf(x.View)) != fmt.Sprint(liveOf(y.View)) || x.Committed != y.Committed || x.Applied != y.Applied {
			fails = append(fails, fmt.Sprintf("outcome: target %d stored configuration differs with/without crashes: %v/%d/%d vs %v/%d/%d", t, x.View, x.Committed, x.Applied, y.View, y.Committed, y.Applied))
		}
		if !devEq(a.Dev[t], b.Dev[t]) {
			fails = append(fails, fmt.Sprintf("outcome: target %d device differs with/without crashes: %v vs %v", t, a.Dev[t], b.Dev[t]))
		}
	}
	return fails
}

// CleanHistory is the decidable signature shared by the known value-path findings: it is false
// iff the script writes below (textually) a path deleted earlier or in the same request, deletes a
// path that is a textual but not an element-boundary prefix of another path of the target, nests
// tombstones, or rolls anything back.
func CleanHistory(c fw.Case) bool {
	deleted := map[string][]string{}
	used := map[string][]string{}
	for _, ln := range c.Script {
		f := strings.Fields(ln)
		if len(f) == 0 {
			continue
		}
		if f[0] == "v2.reset" {
			deleted, used = map[string][]string{}, map[string][]string{}
		}
		if f[0] == "v2.rollback" {
			return false
		}
		if f[0] != "v2.set" {
			continue
		}
		for _, ch := range f[3:] {
			t, vals, _ := strings.Cut(ch, "/")
			var paths []string
			var dels []bool
			for _, tok := range strings.Split(vals, ",") {
				hp, rest, _ := strings.Cut(tok, "=")
				b, _ := hex.DecodeString(hp)
				paths = append(paths, string(b))
				dels = append(dels, strings.Contains(rest, ":d:"))
			}
			for i, p := range paths {
				for _, d := range deleted[t] {
					if strings.HasPrefix(p, d) && p != d {
						return false
					}
					if dels[i] && strings.HasPrefix(d, p) && d != p {
						return false
					}
				}
				for j, q := range paths {
					if i != j && dels[j] && strings.HasPrefix(p, q) {
						return false
					}
				}
				if dels[i] {
					for _, q := range append(append([]string{}, used[t]...), paths...) {
						if strings.HasPrefix(q, p) && !elemPrefix(q, p) {
							return false
						}
					}
				}
			}
			for i, p := range paths {
				if dels[i] {
					deleted[t] = append(deleted[t], p)
				}
				used[t] = append(used[t], p)
			}
		}
	}
	return true
}

func dirtySig(c fw.Case, outs []string, msg string) bool { return !CleanHistory(c) }

var refusalLostRe = regexp.MustCompile(`proposal (\d+)-(\d+) is marked APPLIED`)

// refusalWriteLostSig: the refused apply step of the proposal named in the message lost one of its writes
// (injected failed / lost write, i.e. a crash after the configuration's applied index was advanced).
func refusalWriteLostSig(c fw.Case, outs []string, msg string) bool {
	m := refusalLostRe.FindStringSubmatch(msg)
	if m == nil {
		return false
	}
	actor := "prop:" + m[1] + ":" + m[2]
	for _, ln := range c.Script {
		f := strings.Fields(ln)
		if len(f) >= 2 && f[0] == "v2.run" && f[1] == actor && strings.Contains(ln, "dev=fail:") && strings.Contains(ln, "inject=") {
			return true
		}
	}
	return false
}

// refusalUnrecordedSig (C02): the message names change K of target T sent before an earlier proposal finished, and an
// EARLIER proposal J < K of the same target had a refused apply step that lost one of its writes (injection) - the
// applied index was advanced, the FAILED status was not recorded (same defect as KF-C11-refusal-lost-on-crash, seen
// before the proposal is reconciled again).
var applyOrderRe = regexp.MustCompile(`apply-order: change (\d+) of target (\d+) sent before`)

func refusalUnrecordedSig(c fw.Case, outs []string, msg string) bool {
	m := applyOrderRe.FindStringSubmatch(msg)
	if m == nil {
		return false
	}
	k, t := atoi(m[1]), atoi(m[2])
	for _, ln := range c.Script {
		f := strings.Fields(ln)
		if len(f) >= 2 && f[0] == "v2.run" && strings.HasPrefix(f[1], "prop:") && strings.Contains(ln, "dev=fail:") && strings.Contains(ln, "inject=") {
			a := strings.Split(f[1], ":")
			if len(a) == 3 && atoi(a[1]) == t && atoi(a[2]) < k {
				return true
			}
		}
	}
	return false
}

// abortBlocks: an unfinished abort matters to the property only while it holds a target's indexes
// back (FAILED is final for the transaction itself): some proposal of the transaction is still
// ABORTING and the configuration's committed or applied index has not passed it.
func abortBlocks(s *State, tx int) bool {
	for _, p := range s.Prop {
		if p.Index != tx || p.Abort != "o" {
			continue
		}
		if cfg := s.Cfg[p.Target]; cfg == nil || cfg.Committed < p.Index || cfg.Applied < p.Index {
			return true
		}
	}
	return false
}

// monitorInter is the state-based part of the C02 and C10 monitors, valid when two invocations are
// interleaved inside one step (no attribution of writes or requests to the step's actor).
var iresRe = regexp.MustCompile(` ires=\S*/([0-9.+]+) `)

func monitorInter(c fw.Case, outs []string) []string {
	var fails []string
	lastMerge := map[int]int{}
	for _, st := range steps(c, outs) {
		// the state right after the pre-empting invocation: cursors and terms must be monotone from the
		// state before the step to it, and from it to the state after the step
		if m := iresRe.FindStringSubmatch(st.raw); m != nil {
			for _, part := range strings.Split(m[1], "+") {
				f := strings.Split(part, ".")
				if len(f) != 6 {
					continue
				}
				t := atoi(f[0])
				mid := [5]int{atoi(f[1]), atoi(f[2]), atoi(f[3]), atoi(f[4]), atoi(f[5])}
				names := []string{"committed index", "applied index", "", "mastership term", "applied term"}
				if ca := st.before.Cfg[t]; ca != nil {
					bef := [5]int{ca.Committed, ca.Applied, ca.Master, ca.Term, ca.AppliedTerm}
					for i, n := range names {
						if n != "" && mid[i] < bef[i] {
							fails = append(fails, fmt.Sprintf("%s of target %d went back %d -> %d in the pre-empting invocation of %q", n, t, bef[i], mid[i], st.line))
						}
					}
				}
				if cb := st.after.Cfg[t]; cb != nil {
					aft := [5]int{cb.Committed, cb.Applied, cb.Master, cb.Term, cb.AppliedTerm}
					for i, n := range names {
						if n != "" && aft[i] < mid[i] {
							fails = append(fails, fmt.Sprintf("%s of target %d went back %d -> %d when the pre-empted invocation %q went on with its stale snapshot", n, t, mid[i], aft[i], st.line))
						}
					}
					if aft[3] == mid[3] && aft[2] != mid[2] && mid[2] != 0 && aft[2] != 0 {
						fails = append(fails, fmt.Sprintf("term: target %d has master %d and then master %d in the same term %d (%q)", t, mid[2], aft[2], aft[3], st.line))
					}
				}
			}
		}
		for t, cb := range st.after.Cfg {
			ca := st.before.Cfg[t]
			if ca == nil {
				continue
			}
			if cb.Committed < ca.Committed {
				fails = append(fails, fmt.Sprintf("cursor: committed index of target %d went back %d -> %d at %q", t, ca.Committed, cb.Committed, st.line))
			}
			if cb.Applied < ca.Applied {
				fails = append(fails, fmt.Sprintf("cursor: applied index of target %d went back %d -> %d at %q", t, ca.Applied, cb.Applied, st.line))
			}
			if cb.Committed != ca.Committed {
				if p := st.after.Prop[fmt.Sprintf("%d-%d", t, cb.Committed)]; p != nil && p.Commit != "-" {
					if cb.Committed <= lastMerge[t] {
						fails = append(fails, fmt.Sprintf("merge-order: target %d merged %d after %d", t, cb.Committed, lastMerge[t]))
					}
					lastMerge[t] = cb.Committed
				}
			}
			if cb.Term < ca.Term {
				fails = append(fails, fmt.Sprintf("term: the mastership term of target %d went back %d -> %d at %q", t, ca.Term, cb.Term, st.line))
			}
			if cb.AppliedTerm < ca.AppliedTerm {
				fails = append(fails, fmt.Sprintf("term: the applied term of target %d went back %d -> %d at %q", t, ca.AppliedTerm, cb.AppliedTerm, st.line))
			}
			if cb.Master != ca.Master && cb.Master != 0 && cb.Term != ca.Term+1 {
				fails = append(fails, fmt.Sprintf("term: target %d master %d -> %d but term %d -> %d at %q", t, ca.Master, cb.Master, ca.Term, cb.Term, st.line))
			}
			if cb.AppliedTerm > cb.Term {
				fails = append(fails, fmt.Sprintf("term: target %d is synchronized in term %d which is ahead of its mastership term %d at %q", t, cb.AppliedTerm, cb.Term, st.line))
			}
		}
	}
	return fails
}

// liveRelations: the relations that are listed and whose connection is up at the end of the script
// (faults inside a pre-emption included).
func liveRelations(c fw.Case) map[int]bool {
	rel := map[string]int{}
	down := map[string]bool{}
	apply := func(f []string) {
		if len(f) < 2 {
			return
		}
		switch f[0] {
		case "relup":
			if len(f) >= 3 {
				rel[f[1]] = atoi(f[2])
				delete(down, f[1])
			}
		case "reldown":
			delete(rel, f[1])
		case "conndown":
			down[f[1]] = true
		case "connup":
			delete(down, f[1])
		case "devrestart":
			for id, t := range rel {
				if t == atoi(f[1]) {
					delete(rel, id)
				}
			}
		}
	}
	for _, ln := range c.Script {
		f := strings.Fields(ln)
		if len(f) == 0 {
			continue
		}
		if f[0] == "v2.reset" {
			rel, down = map[string]int{}, map[string]bool{}
		}
		if f[0] == "v2.fault" {
			apply(f[1:])
		}
		if f[0] == "v2.run" {
			for _, a := range f[2:] {
				if v, ok := strings.CutPrefix(a, "inter="); ok {
					_, items, _ := strings.Cut(v, ":")
					for _, it := range strings.Split(items, "+") {
						if x, ok := strings.CutPrefix(it, "F."); ok {
							apply(strings.Split(x, "."))
						}
					}
				}
			}
		}
	}
	out := map[int]bool{}
	for id := range rel {
		if !down[id] {
			out[atoi(id)] = true
		}
	}
	return out
}

// rolledBackAfterFailure: not used for clean histories (they have no rollbacks); kept for profiles that mix both.
func rolledBackAfterFailure(reqs []request, st *State, t int) bool {
	for _, r := range reqs {
		if r.rollback != 0 {
			return true
		}
	}
	return false
}
