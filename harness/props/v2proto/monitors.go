package v2proto

import (
	"fmt"

	"github.com/onosproject/onos-config/verifharness/internal/fw"
)

// seq returns the parsed states in order, skipping lines without a state.
func seq(outs []string) []*State {
	var out []*State
	for _, s := range States(outs) {
		if s != nil {
			out = append(out, s)
		}
	}
	return out
}

// monitorC01: a change is merged into a target's configuration only while every proposal of its
// transaction is validated; a transaction whose validation failed leaves no trace in any named
// target's stored configuration and is reported FAILED; a committed transaction is committed on
// every target it names.
func monitorC01(c fw.Case, outs []string) []string {
	var fails []string
	sts := seq(outs)
	for k := 1; k < len(sts); k++ {
		a, b := sts[k-1], sts[k]
		for t, cb := range b.Cfg {
			before := 0
			if ca, ok := a.Cfg[t]; ok {
				before = ca.Committed
			}
			if cb.Committed == before {
				continue
			}
			p := b.Prop[fmt.Sprintf("%d-%d", t, cb.Committed)]
			if p == nil || p.Commit == "-" {
				continue // the commit cursor was advanced by an abort
			}
			tx := b.Tx[cb.Committed]
			if tx == nil {
				fails = append(fails, fmt.Sprintf("merge: target %d merged index %d of no transaction", t, cb.Committed))
				continue
			}
			for _, pid := range tx.Props {
				q := b.Prop[pid]
				if q == nil || q.Validate != "d" {
					fails = append(fails, fmt.Sprintf("merge: target %d merged transaction %d while proposal %s is not validated", t, cb.Committed, pid))
				}
			}
		}
	}
	if len(sts) > 0 {
		f := sts[len(sts)-1]
		for i, tx := range f.Tx {
			if tx.Validate == "f" {
				if tx.State != "FAILED" {
					fails = append(fails, fmt.Sprintf("report: transaction %d failed validation but is %s", i, tx.State))
				}
				for _, pid := range tx.Props {
					p := f.Prop[pid]
					if p == nil {
						continue
					}
					if cfg := f.Cfg[p.Target]; cfg != nil {
						for path, pv := range cfg.View {
							if pv.Index == i {
								fails = append(fails, fmt.Sprintf("none: transaction %d failed validation yet target %d stores %s from it", i, p.Target, path))
							}
						}
					}
				}
			}
			if tx.Commit == "d" {
				for _, pid := range tx.Props {
					if p := f.Prop[pid]; p == nil || p.Commit != "d" {
						fails = append(fails, fmt.Sprintf("all: transaction %d is committed but proposal %s is not", i, pid))
					}
				}
			}
		}
	}
	return fails
}
