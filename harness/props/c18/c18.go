// Package c18 ties the Lean tree twin (OnosVerif/Tree) to pkg/utils/v2/tree and pkg/utils/v3/tree
// (BuildTree, PrunePathValues, PrunePathMap) and evaluates C18's statement on the real functions:
// the document built from a set of path/values, read back by an independent flattener, holds
// exactly the live leaves (and the key leaves of their list entries), and pruning removes exactly
// the deleted nodes and their descendants.
package c18

import (
	"bytes"
	"encoding/json"
	"fmt"
	"sort"
	"strconv"
	"strings"

	configv2 "github.com/onosproject/onos-api/go/onos/config/v2"
	configv3 "github.com/onosproject/onos-api/go/onos/config/v3"
	treev2 "github.com/onosproject/onos-config/pkg/utils/v2/tree"
	treev3 "github.com/onosproject/onos-config/pkg/utils/v3/tree"
	"github.com/onosproject/onos-config/verifharness/internal/fw"
)

// PV is one path/value of a case.
type PV struct {
	Path    string
	Kind    byte // 'e' empty, 's' string, 'i' int, 'u' uint, 'b' bool
	S       string
	I       int64
	U       uint64
	B       bool
	Wide    bool // width > 32
	Deleted bool
}

func flag(b bool) string {
	if b {
		return "1"
	}
	return "0"
}

func (p PV) valTok() string {
	switch p.Kind {
	case 's':
		return "s." + fw.EncStr(p.S)
	case 'i':
		return "i." + strconv.FormatInt(p.I, 10) + "." + flag(p.Wide)
	case 'u':
		return "u." + strconv.FormatUint(p.U, 10) + "." + flag(p.Wide)
	case 'b':
		return "b." + flag(p.B)
	}
	return "e"
}

// Tok is the wire form `<L|D>:<hex path>:<value>`.
func (p PV) Tok() string {
	d := "L:"
	if p.Deleted {
		d = "D:"
	}
	return d + fw.EncStr(p.Path) + ":" + p.valTok()
}

func decPV(tok string) (PV, bool) {
	parts := strings.Split(tok, ":")
	if len(parts) != 3 {
		return PV{}, false
	}
	var p PV
	switch parts[0] {
	case "D":
		p.Deleted = true
	case "L":
	default:
		return PV{}, false
	}
	var ok bool
	if p.Path, ok = fw.DecStr(parts[1]); !ok {
		return PV{}, false
	}
	v := strings.Split(parts[2], ".")
	switch {
	case len(v) == 1 && v[0] == "e":
		p.Kind = 'e'
	case len(v) == 2 && v[0] == "s":
		p.Kind = 's'
		if p.S, ok = fw.DecStr(v[1]); !ok {
			return PV{}, false
		}
	case len(v) == 3 && v[0] == "i":
		p.Kind = 'i'
		n, err := strconv.ParseInt(v[1], 10, 64)
		if err != nil {
			return PV{}, false
		}
		p.I, p.Wide = n, v[2] == "1"
	case len(v) == 3 && v[0] == "u":
		p.Kind = 'u'
		n, err := strconv.ParseUint(v[1], 10, 64)
		if err != nil {
			return PV{}, false
		}
		p.U, p.Wide = n, v[2] == "1"
	case len(v) == 2 && v[0] == "b":
		p.Kind = 'b'
		p.B = v[1] == "1"
	default:
		return PV{}, false
	}
	return p, true
}

func decPVs(toks []string) ([]PV, bool) {
	out := make([]PV, 0, len(toks))
	for _, t := range toks {
		p, ok := decPV(t)
		if !ok {
			return nil, false
		}
		out = append(out, p)
	}
	return out, true
}

func encPVs(pvs []PV) string {
	t := make([]string, len(pvs))
	for i, p := range pvs {
		t[i] = p.Tok()
	}
	return strings.Join(t, " ")
}

func width(w bool) int {
	if w {
		return 64
	}
	return 32
}

func toV2(p PV) *configv2.PathValue {
	var tv *configv2.TypedValue
	switch p.Kind {
	case 's':
		tv = configv2.NewTypedValueString(p.S)
	case 'i':
		tv = configv2.NewTypedValueInt(int(p.I), configv2.Width(width(p.Wide)))
	case 'u':
		tv = configv2.NewTypedValueUint(uint(p.U), configv2.Width(width(p.Wide)))
	case 'b':
		tv = configv2.NewTypedValueBool(p.B)
	default:
		tv = configv2.NewTypedValueEmpty()
	}
	return &configv2.PathValue{Path: p.Path, Value: *tv, Deleted: p.Deleted}
}

func toV3(p PV) configv3.PathValue {
	var tv *configv3.TypedValue
	switch p.Kind {
	case 's':
		tv = configv3.NewTypedValueString(p.S)
	case 'i':
		tv = configv3.NewTypedValueInt(int(p.I), configv3.Width(width(p.Wide)))
	case 'u':
		tv = configv3.NewTypedValueUint(uint(p.U), configv3.Width(width(p.Wide)))
	case 'b':
		tv = configv3.NewTypedValueBool(p.B)
	default:
		tv = configv3.NewTypedValueEmpty()
	}
	return configv3.PathValue{Path: p.Path, Value: *tv, Deleted: p.Deleted}
}

func fromV2(v *configv2.PathValue) PV {
	p := PV{Path: v.Path, Deleted: v.Deleted, Kind: 'e'}
	wide := len(v.Value.TypeOpts) > 0 && v.Value.TypeOpts[0] > 32
	switch v.Value.Type {
	case configv2.ValueType_STRING:
		p.Kind, p.S = 's', (*configv2.TypedString)(&v.Value).String()
	case configv2.ValueType_INT:
		p.Kind, p.I, p.Wide = 'i', int64((*configv2.TypedInt)(&v.Value).Int()), wide
	case configv2.ValueType_UINT:
		p.Kind, p.U, p.Wide = 'u', uint64((*configv2.TypedUint)(&v.Value).Uint()), wide
	case configv2.ValueType_BOOL:
		p.Kind, p.B = 'b', (*configv2.TypedBool)(&v.Value).Bool()
	}
	return p
}

func fromV3(v configv3.PathValue) PV {
	p := PV{Path: v.Path, Deleted: v.Deleted, Kind: 'e'}
	wide := len(v.Value.TypeOpts) > 0 && v.Value.TypeOpts[0] > 32
	switch v.Value.Type {
	case configv3.ValueType_STRING:
		p.Kind, p.S = 's', (*configv3.TypedString)(&v.Value).String()
	case configv3.ValueType_INT:
		p.Kind, p.I, p.Wide = 'i', int64((*configv3.TypedInt)(&v.Value).Int()), wide
	case configv3.ValueType_UINT:
		p.Kind, p.U, p.Wide = 'u', uint64((*configv3.TypedUint)(&v.Value).Uint()), wide
	case configv3.ValueType_BOOL:
		p.Kind, p.B = 'b', (*configv3.TypedBool)(&v.Value).Bool()
	}
	return p
}

// encJSON is the canonical one-line form of a decoded document (same syntax as the twin's encJson).
func encJSON(v interface{}) string {
	var b strings.Builder
	var rec func(v interface{})
	rec = func(v interface{}) {
		switch x := v.(type) {
		case map[string]interface{}:
			ks := make([]string, 0, len(x))
			for k := range x {
				ks = append(ks, k)
			}
			sort.Strings(ks)
			b.WriteString("{")
			for i, k := range ks {
				if i > 0 {
					b.WriteString(",")
				}
				b.WriteString(fw.EncStr(k))
				b.WriteString(":")
				rec(x[k])
			}
			b.WriteString("}")
		case []interface{}:
			b.WriteString("[")
			for i, e := range x {
				if i > 0 {
					b.WriteString(",")
				}
				rec(e)
			}
			b.WriteString("]")
		case string:
			b.WriteString("s" + fw.EncStr(x))
		case json.Number:
			b.WriteString("n" + x.String())
		case bool:
			if x {
				b.WriteString("t")
			} else {
				b.WriteString("f")
			}
		default:
			b.WriteString(fmt.Sprintf("?%T", v))
		}
	}
	rec(v)
	return b.String()
}

func decodeDoc(buf []byte) (interface{}, error) {
	d := json.NewDecoder(bytes.NewReader(buf))
	d.UseNumber()
	var v interface{}
	if err := d.Decode(&v); err != nil {
		return nil, err
	}
	return v, nil
}

func errClass(err error) string {
	m := err.Error()
	switch {
	case strings.Contains(m, "could not convert nodeif"):
		return "err notMap"
	case strings.Contains(m, "Failed to convert list slice"):
		return "err listConv"
	case strings.HasPrefix(m, "malformed list"):
		return "err malformed"
	}
	return "err other:" + m
}

// realBuild runs BuildTree of the chosen version; answer "", doc on success, else the answer line.
func realBuild(ver int, rfc bool, pvs []PV) (ans string, doc interface{}) {
	defer func() {
		if r := recover(); r != nil {
			ans, doc = "panic", nil
		}
	}()
	var buf []byte
	var err error
	if ver == 2 {
		vals := make([]*configv2.PathValue, len(pvs))
		for i, p := range pvs {
			vals[i] = toV2(p)
		}
		buf, err = treev2.BuildTree(vals, rfc)
	} else {
		vals := make([]configv3.PathValue, len(pvs))
		for i, p := range pvs {
			vals[i] = toV3(p)
		}
		buf, err = treev3.BuildTree(vals, rfc)
	}
	if err != nil {
		return errClass(err), nil
	}
	d, derr := decodeDoc(buf)
	if derr != nil {
		return "err json:" + derr.Error(), nil
	}
	return "", d
}

func realPrune(ver int, leaveTop bool, pvs []PV, asMap bool) (ans string) {
	defer func() {
		if r := recover(); r != nil {
			ans = "panic"
		}
	}()
	var out []PV
	if ver == 2 {
		vals := make([]*configv2.PathValue, len(pvs))
		for i, p := range pvs {
			vals[i] = toV2(p)
		}
		if asMap {
			m := map[string]*configv2.PathValue{}
			for _, v := range vals {
				m[v.Path] = v
			}
			res := treev2.PrunePathMap(m, leaveTop)
			ks := make([]string, 0, len(res))
			for k := range res {
				ks = append(ks, k)
			}
			sort.Strings(ks)
			for _, k := range ks {
				out = append(out, fromV2(res[k]))
			}
		} else {
			for _, v := range treev2.PrunePathValues(vals, leaveTop) {
				out = append(out, fromV2(v))
			}
		}
	} else {
		vals := make([]configv3.PathValue, len(pvs))
		for i, p := range pvs {
			vals[i] = toV3(p)
		}
		if asMap {
			m := map[string]configv3.PathValue{}
			for _, v := range vals {
				m[v.Path] = v
			}
			res := treev3.PrunePathMap(m, leaveTop)
			ks := make([]string, 0, len(res))
			for k := range res {
				ks = append(ks, k)
			}
			sort.Strings(ks)
			for _, k := range ks {
				out = append(out, fromV3(res[k]))
			}
		} else {
			for _, v := range treev3.PrunePathValues(vals, leaveTop) {
				out = append(out, fromV3(v))
			}
		}
	}
	return fw.Join("ok", encPVs(out))
}

func exec(line string) (out string) {
	defer func() {
		if r := recover(); r != nil {
			out = "panic"
		}
	}()
	toks := strings.Fields(line)
	if len(toks) < 2 {
		return "bad-op"
	}
	op, fl := toks[0], toks[1]
	if fl != "0" && fl != "1" {
		return "bad-op"
	}
	pvs, ok := decPVs(toks[2:])
	if !ok {
		return "bad-op"
	}
	ver := 2
	if strings.HasSuffix(op, "3") {
		ver = 3
	}
	switch op {
	case "tree.build2", "tree.build3", "tree.buildrev2", "tree.buildelems2", "tree.buildelems3":
		ans, doc := realBuild(ver, fl == "1", pvs)
		if ans != "" {
			return ans
		}
		return "ok " + encJSON(doc)
	case "tree.domain":
		if theoremDomain(pvs, fl == "1") {
			return "in"
		}
		return "out"
	case "tree.prune2", "tree.prune3":
		return realPrune(ver, fl == "1", pvs, false)
	case "tree.prunemap2", "tree.prunemap3":
		return realPrune(ver, fl == "1", pvs, true)
	case "tree.flat2", "tree.flat3":
		ans, doc := realBuild(ver, fl == "1", pvs)
		if ans != "" {
			return ans
		}
		leaves := flattenDoc(schemaOf(pvs), doc)
		t := make([]string, len(leaves))
		for i, l := range leaves {
			t[i] = fw.EncStr(l.Path) + "=" + l.JSON
		}
		return fw.Join("ok", strings.Join(t, " "))
	}
	return "bad-op"
}

// Prop is the C18 correspondence check.
var Prop = &fw.Prop{
	ID: "C18",
	Rule: "sets of 1-25 path/values sampled from a random schema (containers, single- and multi-key lists, nested lists, sibling names sharing textual prefixes: b bc b-c b.c, " +
		"numeric/boolean key values 1 10 2 true, key leaves typed as string/int/uint/bool, RFC7951 wide integers, EMPTY values, tombstones at leaves, containers, list entries and whole lists), " +
		"plus adversarial streams (non-uniform key sets, keys out of canonical order, leaf/container clashes, inconsistent key leaves, escaped key values, raw malformed path text); " +
		"each set is run through BuildTree (v2, v3, both JSON modes), PrunePathValues and PrunePathMap (v2, v3, both flags) and the flattener; " +
		"plus exhaustive enumeration of present/live/deleted over a fixed universe of prefix-sharing paths. " +
		"Non-trivial = a list with at least two entries or a tombstone above another path; distinct = distinct script.",
	Quick: 12000, Thorough: 300000,
	Gen: gen, Enumerate: enumerate,
	NewReal: func() fw.Real { return fw.RealFunc(exec) },
	Monitor: monitor, Shrink: shrinkCase, FixedLayout: true,
	Sigs: map[string]func(fw.Case, []string, string) bool{
		"textualPrefixTombstone": sigTextualPrefix,
	},
}

func init() { fw.Register(Prop) }
