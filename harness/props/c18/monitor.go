package c18

import (
	"fmt"
	"sort"
	"strconv"
	"strings"

	"encoding/json"

	"github.com/onosproject/onos-config/pkg/utils"
	"github.com/onosproject/onos-config/verifharness/internal/fw"
	pb "github.com/openconfig/gnmi/proto/gnmi"
)

// ---------------------------------------------------------------------------------------------
// the independent flattener: a document read as a list of (path, leaf) pairs, given the key names
// of every list node (a JSON array does not say which members of its items are keys).

type leaf struct {
	Path string
	JSON string
}

type schema map[string][]string // element names joined by 0x00 -> sorted key names

func npKey(np []string) string { return strings.Join(np, "\x00") }

func parseElems(path string) ([]*pb.PathElem, bool) {
	p, err := utils.ParseGNMIElements(utils.SplitPath(path))
	if err != nil {
		return nil, false
	}
	return p.Elem, true
}

func keyNames(e *pb.PathElem) []string {
	ks := make([]string, 0, len(e.Key))
	for k := range e.Key {
		ks = append(ks, k)
	}
	sort.Strings(ks)
	return ks
}

// schemaOf: first occurrence of a list node (in input order) fixes its key names.
func schemaOf(pvs []PV) schema {
	s := schema{}
	for _, p := range pvs {
		es, ok := parseElems(p.Path)
		if !ok {
			continue
		}
		var np []string
		for _, e := range es {
			np = append(np, e.Name)
			if len(e.Key) > 0 {
				if _, seen := s[npKey(np)]; !seen {
					s[npKey(np)] = keyNames(e)
				}
			}
		}
	}
	return s
}

// keyText is how a member of a list item reads as a key value.
func keyText(v interface{}, present bool) string {
	if !present {
		return ""
	}
	switch x := v.(type) {
	case string:
		return x
	case json.Number:
		return x.String()
	case bool:
		if x {
			return "true"
		}
		return "false"
	case map[string]interface{}:
		return "<map[string]interface {} Value>"
	case []interface{}:
		return "<[]interface {} Value>"
	}
	return fmt.Sprintf("%v", v)
}

func flattenDoc(sch schema, doc interface{}) []leaf {
	m, ok := doc.(map[string]interface{})
	if !ok {
		return nil
	}
	return flatM(sch, nil, nil, m)
}

func flatM(sch schema, np []string, pre []*pb.PathElem, m map[string]interface{}) []leaf {
	ks := make([]string, 0, len(m))
	for k := range m {
		ks = append(ks, k)
	}
	sort.Strings(ks)
	var out []leaf
	for _, k := range ks {
		out = append(out, flatJ(sch, np, pre, k, m[k])...)
	}
	return out
}

func ext(pre []*pb.PathElem, e *pb.PathElem) []*pb.PathElem {
	return append(append([]*pb.PathElem{}, pre...), e)
}

func flatJ(sch schema, np []string, pre []*pb.PathElem, name string, v interface{}) []leaf {
	np2 := append(append([]string{}, np...), name)
	switch x := v.(type) {
	case map[string]interface{}:
		return flatM(sch, np2, ext(pre, &pb.PathElem{Name: name}), x)
	case []interface{}:
		keys := sch[npKey(np2)]
		var out []leaf
		for _, it := range x {
			im, ok := it.(map[string]interface{})
			if !ok {
				continue
			}
			e := &pb.PathElem{Name: name}
			if len(keys) > 0 {
				e.Key = map[string]string{}
				for _, k := range keys {
					kv, present := im[k]
					e.Key[k] = keyText(kv, present)
				}
			}
			out = append(out, flatM(sch, np2, ext(pre, e), im)...)
		}
		return out
	}
	return []leaf{{Path: utils.StrPathElem(ext(pre, &pb.PathElem{Name: name})), JSON: encJSON(v)}}
}

// ---------------------------------------------------------------------------------------------
// decoding of the canonical one-line document back into Go values (the monitor only sees answers)

type canonParser struct {
	s string
	i int
}

func (p *canonParser) hexTok() (string, bool) {
	j := p.i
	for j < len(p.s) && (p.s[j] == '-' || (p.s[j] >= '0' && p.s[j] <= '9') || (p.s[j] >= 'a' && p.s[j] <= 'f')) {
		j++
	}
	s, ok := fw.DecStr(p.s[p.i:j])
	p.i = j
	return s, ok
}

func (p *canonParser) value() (interface{}, bool) {
	if p.i >= len(p.s) {
		return nil, false
	}
	c := p.s[p.i]
	p.i++
	switch c {
	case 's':
		return p.hexTok()
	case 'n':
		j := p.i
		for j < len(p.s) && (p.s[j] == '-' || p.s[j] == '.' || p.s[j] == 'e' || p.s[j] == 'E' || p.s[j] == '+' || (p.s[j] >= '0' && p.s[j] <= '9')) {
			j++
		}
		n := json.Number(p.s[p.i:j])
		p.i = j
		return n, true
	case 't':
		return true, true
	case 'f':
		return false, true
	case '{':
		m := map[string]interface{}{}
		if p.i < len(p.s) && p.s[p.i] == '}' {
			p.i++
			return m, true
		}
		for {
			k, ok := p.hexTok()
			if !ok || p.i >= len(p.s) || p.s[p.i] != ':' {
				return nil, false
			}
			p.i++
			v, ok := p.value()
			if !ok {
				return nil, false
			}
			m[k] = v
			if p.i < len(p.s) && p.s[p.i] == ',' {
				p.i++
				continue
			}
			if p.i < len(p.s) && p.s[p.i] == '}' {
				p.i++
				return m, true
			}
			return nil, false
		}
	case '[':
		a := []interface{}{}
		if p.i < len(p.s) && p.s[p.i] == ']' {
			p.i++
			return a, true
		}
		for {
			v, ok := p.value()
			if !ok {
				return nil, false
			}
			a = append(a, v)
			if p.i < len(p.s) && p.s[p.i] == ',' {
				p.i++
				continue
			}
			if p.i < len(p.s) && p.s[p.i] == ']' {
				p.i++
				return a, true
			}
			return nil, false
		}
	}
	return nil, false
}

func decCanon(s string) (interface{}, bool) {
	p := &canonParser{s: s}
	v, ok := p.value()
	return v, ok && p.i == len(s)
}

// ---------------------------------------------------------------------------------------------
// the property's domain

func isIdent(s string) bool {
	if s == "" {
		return false
	}
	for i, c := range s {
		switch {
		case c >= 'a' && c <= 'z', c >= 'A' && c <= 'Z', c == '_':
		case i > 0 && (c >= '0' && c <= '9' || c == '-' || c == '.'):
		default:
			return false
		}
	}
	return true
}

func isName(s string) bool {
	if m, n, ok := strings.Cut(s, ":"); ok {
		return isIdent(m) && isIdent(n)
	}
	return isIdent(s)
}

func isKeyVal(s string) bool {
	if s == "" {
		return false
	}
	for _, c := range s {
		switch {
		case c >= 'a' && c <= 'z', c >= 'A' && c <= 'Z', c >= '0' && c <= '9', c == '*', c == '-', c == '.', c == '_':
		default:
			return false
		}
	}
	return true
}

// wfPath: the text is the canonical text of a gNMI path with identifier names, identifier key
// names and key values over the alphabet a Set accepts.
func wfPath(path string) ([]*pb.PathElem, bool) {
	es, ok := parseElems(path)
	if !ok || len(es) == 0 || utils.StrPathElem(es) != path {
		return nil, false
	}
	for _, e := range es {
		if !isName(e.Name) {
			return nil, false
		}
		for k, v := range e.Key {
			if !isName(k) || !isKeyVal(v) {
				return nil, false
			}
		}
	}
	return es, true
}

func elemText(e *pb.PathElem) string { return utils.StrPathElem([]*pb.PathElem{e}) }

func valText(p PV) string {
	switch p.Kind {
	case 's':
		return p.S
	case 'i':
		return strconv.FormatInt(p.I, 10)
	case 'u':
		return strconv.FormatUint(p.U, 10)
	case 'b':
		if p.B {
			return "true"
		}
		return "false"
	}
	return ""
}

func leafJSON(p PV, rfc bool) string {
	switch p.Kind {
	case 's':
		return "s" + fw.EncStr(p.S)
	case 'i', 'u':
		if rfc && p.Wide {
			return "s" + fw.EncStr(valText(p))
		}
		return "n" + valText(p)
	case 'b':
		if p.B {
			return "t"
		}
		return "f"
	}
	return ""
}

// boundaryPrefix: d is p or an ancestor of p at an element boundary (the text of p continues
// with the next element, or with the keys of the list d names).
func boundaryPrefix(d, p string) bool {
	if !strings.HasPrefix(p, d) {
		return false
	}
	return len(p) == len(d) || p[len(d)] == '/' || p[len(d)] == '['
}

func textualPrefix(d, p string) bool { return strings.HasPrefix(p, d) }

// allWF: every path well-formed and all paths distinct.
func allWF(S []PV) bool {
	seen := map[string]bool{}
	for _, p := range S {
		if _, ok := wfPath(p.Path); !ok || seen[p.Path] {
			return false
		}
		seen[p.Path] = true
	}
	return true
}

// liveSet: the path/values that are not deleted and have no deleted ancestor.
func liveSet(S []PV, anc func(d, p string) bool) []PV {
	var out []PV
	for _, p := range S {
		if p.Deleted {
			continue
		}
		covered := false
		for _, d := range S {
			if d.Deleted && d.Path != p.Path && anc(d.Path, p.Path) {
				covered = true
				break
			}
		}
		if !covered {
			out = append(out, p)
		}
	}
	return out
}

func sameStrings(a, b []string) bool {
	if len(a) != len(b) {
		return false
	}
	for i := range a {
		if a[i] != b[i] {
			return false
		}
	}
	return true
}

// consistent: no path is both leaf and container/list, list nodes carry one set of key names,
// leaves never carry keys, key leaves agree with the keys of their entry.
func consistent(L []PV) (bool, string) {
	elems := make([][]*pb.PathElem, len(L))
	for i, p := range L {
		es, ok := wfPath(p.Path)
		if !ok {
			return false, "not wf"
		}
		elems[i] = es
		if len(es[len(es)-1].Key) > 0 {
			return false, "leaf with keys " + p.Path
		}
		for j := 0; j+1 < len(es); j++ {
			if kv, isKey := es[j].Key[es[j+1].Name]; isKey {
				if j+1 != len(es)-1 {
					return false, "key name used as container " + p.Path
				}
				if p.Kind != 'e' && valText(p) != kv {
					return false, "key leaf differs from key " + p.Path
				}
			}
		}
	}
	for i := range L {
		for j := i + 1; j < len(L); j++ {
			a, b := elems[i], elems[j]
			k := 0
			for k < len(a) && k < len(b) && elemText(a[k]) == elemText(b[k]) {
				k++
			}
			if k == len(a) || k == len(b) {
				return false, "one path is a prefix of another: " + L[i].Path + " " + L[j].Path
			}
			if a[k].Name == b[k].Name && !sameStrings(keyNames(a[k]), keyNames(b[k])) {
				return false, "different key names for one list: " + L[i].Path + " " + L[j].Path
			}
		}
	}
	return true, ""
}

// uniformKeys: a list node (by element names) has the same key names wherever it occurs.
func uniformKeys(S []PV) bool {
	s := map[string][]string{}
	for _, p := range S {
		es, ok := parseElems(p.Path)
		if !ok {
			return false
		}
		var np []string
		for _, e := range es {
			np = append(np, e.Name)
			if len(e.Key) > 0 {
				if old, seen := s[npKey(np)]; seen && !sameStrings(old, keyNames(e)) {
					return false
				} else if !seen {
					s[npKey(np)] = keyNames(e)
				}
			}
		}
	}
	return true
}

// buildMonitored: the set is in the domain of the "document = configuration" statement.
func buildMonitored(S []PV) bool {
	if !allWF(S) || !uniformKeys(S) {
		return false
	}
	ok, _ := consistent(liveSet(S, boundaryPrefix))
	return ok
}

// expectedLeaves: the live leaves plus the key leaves of every list entry a live path goes through.
func expectedLeaves(S []PV, rfc bool, anc func(d, p string) bool) map[string]string {
	L := liveSet(S, anc)
	m := map[string]string{}
	for _, p := range L {
		if p.Kind != 'e' {
			m[p.Path] = leafJSON(p, rfc)
		}
	}
	for _, p := range L {
		es, ok := parseElems(p.Path)
		if !ok {
			continue
		}
		for i := 0; i+1 < len(es); i++ {
			if len(es[i].Key) == 0 {
				continue
			}
			prefix := utils.StrPathElem(es[:i+1])
			for k, v := range es[i].Key {
				kp := prefix + "/" + k
				if _, explicit := m[kp]; !explicit {
					m[kp] = "s" + fw.EncStr(v)
				}
			}
		}
	}
	return m
}

func sortedByPath(S []PV) []PV {
	out := append([]PV{}, S...)
	sort.SliceStable(out, func(i, j int) bool { return out[i].Path < out[j].Path })
	return out
}

// expectedPrune: what is left when exactly the deleted nodes and their descendants are removed
// (leaveTop: the top-most deleted nodes stay as tombstones), in path order.
func expectedPrune(S []PV, leaveTop bool, anc func(d, p string) bool) []PV {
	var out []PV
	for _, p := range sortedByPath(S) {
		covered := false
		for _, d := range S {
			if d.Deleted && d.Path != p.Path && anc(d.Path, p.Path) {
				covered = true
				break
			}
		}
		if covered {
			continue
		}
		if p.Deleted && !leaveTop {
			continue
		}
		out = append(out, p)
	}
	return out
}

func caseSet(c fw.Case) ([]PV, bool) {
	if len(c.Script) == 0 {
		return nil, false
	}
	toks := strings.Fields(c.Script[0])
	if len(toks) < 2 {
		return nil, false
	}
	return decPVs(toks[2:])
}

// monitorWith evaluates C18's statement with the given ancestor relation.
func monitorWith(c fw.Case, out []string, anc func(d, p string) bool) []string {
	var fails []string
	for i, ln := range c.Script {
		toks := strings.Fields(ln)
		if len(toks) < 2 || i >= len(out) {
			continue
		}
		S, ok := decPVs(toks[2:])
		if !ok {
			continue
		}
		fl := toks[1] == "1"
		switch toks[0] {
		case "tree.build2", "tree.build3", "tree.buildrev2":
			if !buildMonitored(S) {
				continue
			}
			if !strings.HasPrefix(out[i], "ok ") {
				fails = append(fails, fmt.Sprintf("build: %s of a consistent set answered %q", toks[0], out[i]))
				continue
			}
			doc, ok := decCanon(strings.TrimPrefix(out[i], "ok "))
			if !ok {
				fails = append(fails, "build: undecodable document "+out[i])
				continue
			}
			want := expectedLeaves(S, fl, anc)
			got := map[string]string{}
			bad := ""
			for _, l := range flattenDoc(schemaOf(S), doc) {
				if _, dup := got[l.Path]; dup && bad == "" {
					bad = "the document holds " + l.Path + " twice (one list entry split in two)"
				}
				got[l.Path] = l.JSON
			}
			for p, j := range want {
				if g, ok := got[p]; !ok && bad == "" {
					bad = "live leaf " + p + " is missing from the document"
				} else if ok && g != j && bad == "" {
					bad = "leaf " + p + " reads " + g + ", configured " + j
				}
			}
			for p := range got {
				if _, ok := want[p]; !ok && bad == "" {
					bad = "the document holds " + p + " which is not a live leaf"
				}
			}
			if bad != "" {
				fails = append(fails, "build: "+toks[0]+": "+bad)
			}
		case "tree.prune2", "tree.prune3", "tree.prunemap2", "tree.prunemap3":
			if !allWF(S) {
				continue
			}
			want := fw.Join("ok", encPVs(expectedPrune(S, fl, anc)))
			if out[i] != want {
				fails = append(fails, fmt.Sprintf("prune: %s leaveTop=%v: got %s want %s", toks[0], fl, describe(out[i]), describe(want)))
			}
		}
	}
	return fails
}

// describe renders an answer of path/values readably (paths only, D: for tombstones).
func describe(ans string) string {
	toks := strings.Fields(ans)
	if len(toks) == 0 || toks[0] != "ok" {
		return ans
	}
	pvs, ok := decPVs(toks[1:])
	if !ok {
		return ans
	}
	var s []string
	for _, p := range pvs {
		if p.Deleted {
			s = append(s, "D:"+p.Path)
		} else {
			s = append(s, p.Path)
		}
	}
	return "[" + strings.Join(s, " ") + "]"
}

func monitor(c fw.Case, out []string) []string { return monitorWith(c, out, boundaryPrefix) }

// hasSiblingPrefixTombstone: some deleted path is a textual prefix of another path of the set
// without being its ancestor.
func hasSiblingPrefixTombstone(S []PV) bool {
	for _, d := range S {
		if !d.Deleted {
			continue
		}
		for _, p := range S {
			if p.Path != d.Path && textualPrefix(d.Path, p.Path) && !boundaryPrefix(d.Path, p.Path) {
				return true
			}
		}
	}
	return false
}

// sigTextualPrefix is the signature of KF-C18-prune-textual: the set holds a tombstone that is a
// textual prefix of a sibling, and the real answers are exactly what the statement demands once
// "ancestor" is read as "textual prefix" (so nothing else is wrong with the case).
func sigTextualPrefix(c fw.Case, out []string, msg string) bool {
	S, ok := caseSet(c)
	if !ok || !hasSiblingPrefixTombstone(S) {
		return false
	}
	return len(monitorWith(c, out, textualPrefix)) == 0
}

// ---------------------------------------------------------------------------------------------
// the preconditions of the Lean theorem C18_flatten_build, re-implemented in Go from their
// definitions in OnosVerif/Tree/Spec.lean; compared with the twin's own evaluation (tree.domain),
// so that the domain the theorem speaks about is the domain this harness thinks it is.

func nameSimple(s string) bool {
	return s != "" && !strings.ContainsAny(s, "/\\[]=")
}

func keyValSimple(s string) bool {
	return s != "" && !strings.ContainsAny(s, "]\\/")
}

func compatElems(a, b []*pb.PathElem) bool {
	for {
		if len(a) == 0 || len(b) == 0 {
			return false
		}
		if elemText(a[0]) == elemText(b[0]) && a[0].Name == b[0].Name && len(a[0].Key) == len(b[0].Key) {
			a, b = a[1:], b[1:]
			continue
		}
		return a[0].Name != b[0].Name || sameStrings(keyNames(a[0]), keyNames(b[0]))
	}
}

func theoremDomain(S []PV, rfc bool) bool {
	seen := map[string]bool{}
	for _, p := range S {
		if seen[p.Path] {
			return false
		}
		seen[p.Path] = true
	}
	var live []PV
	for _, p := range sortedByPath(S) {
		if p.Deleted && p.Path != "" {
			continue
		}
		covered := false
		for _, d := range S {
			if d.Deleted && d.Path != "" && d.Path != p.Path && strings.HasPrefix(p.Path, d.Path) {
				covered = true
			}
		}
		if !covered {
			live = append(live, p)
		}
	}
	elems := make([][]*pb.PathElem, len(live))
	for i, p := range live {
		if p.Deleted { // a deleted empty path survives pruning; the theorem's entries are not deleted
			return false
		}
		es, ok := parseElems(p.Path)
		if !ok || len(es) == 0 || utils.StrPathElem(es) != p.Path {
			return false
		}
		for _, e := range es {
			if !nameSimple(e.Name) {
				return false
			}
			for k, v := range e.Key {
				if !nameSimple(k) || !keyValSimple(v) {
					return false
				}
			}
		}
		if len(es[len(es)-1].Key) > 0 {
			return false
		}
		for j := 0; j+1 < len(es); j++ {
			if kv, isKey := es[j].Key[es[j+1].Name]; isKey {
				if j+1 != len(es)-1 {
					return false
				}
				if p.Kind != 'e' && valText(p) != kv {
					return false
				}
			}
		}
		elems[i] = es
	}
	for i := range live {
		for j := i + 1; j < len(live); j++ {
			if !compatElems(elems[i], elems[j]) {
				return false
			}
		}
	}
	return uniformKeys(live)
}
