package c18

import (
	"sort"
	"strings"

	"github.com/onosproject/onos-config/pkg/utils"
	"github.com/onosproject/onos-config/verifharness/internal/fw"
	"github.com/onosproject/onos-config/verifharness/internal/rng"
	pb "github.com/openconfig/gnmi/proto/gnmi"
)

var names = []string{"a", "b", "bc", "b-c", "b.c", "ab", "m:a", "c", "x", "l", "l2"}
var keyNamePool = []string{"k", "j", "name"}
var keyValPool = []string{"1", "10", "2", "true", "a", "x-1", "1.5", "false"}

type skid struct {
	name string
	kind int // 0 leaf, 1 container, 2 list
	keys []string
	sub  *snode
}

type snode struct{ kids []skid }

func genSchema(r *rng.R, depth int) *snode {
	n := &snode{}
	cnt := r.Range(2, 4)
	used := map[string]bool{}
	for i := 0; i < cnt; i++ {
		nm := r.Pick(names)
		if used[nm] {
			continue
		}
		used[nm] = true
		k := skid{name: nm}
		if depth > 0 {
			switch r.Intn(5) {
			case 0, 1:
				k.kind = 1
				k.sub = genSchema(r, depth-1)
			case 2, 3:
				k.kind = 2
				nk := 1
				if r.Chance(1, 3) {
					nk = 2
				}
				for _, kn := range keyNamePool {
					if len(k.keys) < nk && r.Chance(2, 3) {
						k.keys = append(k.keys, kn)
					}
				}
				if len(k.keys) == 0 {
					k.keys = []string{"k"}
				}
				k.sub = genSchema(r, depth-1)
				// the key leaves are children of the entry
				for _, kn := range k.keys {
					dup := false
					for _, kk := range k.sub.kids {
						if kk.name == kn {
							dup = true
						}
					}
					if !dup {
						k.sub.kids = append(k.sub.kids, skid{name: kn})
					}
				}
			}
		}
		n.kids = append(n.kids, k)
	}
	return n
}

func genLeafVal(r *rng.R, p *PV) {
	switch r.Intn(6) {
	case 0:
		p.Kind = 'e'
	case 1:
		p.Kind, p.S = 's', r.Pick([]string{"", "v", "1", "true", "10", "é\"<", "x y"})
	case 2:
		p.Kind, p.Wide = 'i', r.Bool()
		p.I = []int64{0, 1, -1, 10, 1 << 31, -(1 << 31), 1<<63 - 1, -(1 << 63)}[r.Intn(8)]
	case 3:
		p.Kind, p.Wide = 'u', r.Bool()
		p.U = []uint64{0, 1, 10, 2, 1 << 32, 1<<64 - 1}[r.Intn(6)]
	case 4:
		p.Kind, p.B = 'b', r.Bool()
	default:
		p.Kind, p.S = 's', "v"
	}
}

// keyLeafVal gives a key leaf a value that reads as the key text (mostly).
func keyLeafVal(r *rng.R, p *PV, text string) {
	if r.Chance(1, 10) {
		genLeafVal(r, p)
		return
	}
	p.Kind, p.S = 's', text
	switch text {
	case "1", "10", "2":
		n := map[string]int64{"1": 1, "10": 10, "2": 2}[text]
		switch r.Intn(4) {
		case 0:
			p.Kind, p.U, p.Wide = 'u', uint64(n), r.Bool()
		case 1:
			p.Kind, p.I, p.Wide = 'i', n, r.Bool()
		}
	case "true", "false":
		if r.Bool() {
			p.Kind, p.B = 'b', text == "true"
		}
	}
}

// genPath walks the schema; it may stop at a container, a list entry or a whole list (those
// become tombstones or EMPTY markers).
func genPath(r *rng.R, root *snode) PV {
	var es []*pb.PathElem
	n := root
	var p PV
	keyText := ""
	isKeyLeaf := false
	for {
		k := n.kids[r.Intn(len(n.kids))]
		e := &pb.PathElem{Name: k.name}
		switch k.kind {
		case 0:
			es = append(es, e)
			if len(es) >= 2 {
				if v, ok := es[len(es)-2].Key[k.name]; ok {
					isKeyLeaf, keyText = true, v
				}
			}
			if isKeyLeaf {
				keyLeafVal(r, &p, keyText)
			} else {
				genLeafVal(r, &p)
			}
			p.Deleted = r.Chance(1, 8)
			p.Path = utils.StrPathElem(es)
			return p
		case 1:
			es = append(es, e)
		case 2:
			if r.Chance(1, 25) { // the whole list, no keys
				es = append(es, e)
				p.Path, p.Kind, p.Deleted = utils.StrPathElem(es), 'e', r.Chance(5, 6)
				return p
			}
			e.Key = map[string]string{}
			for _, kn := range k.keys {
				e.Key[kn] = r.Pick(keyValPool[:4+r.Intn(5)])
			}
			es = append(es, e)
		}
		if r.Chance(1, 9) { // stop at the container / list entry
			p.Path, p.Kind, p.Deleted = utils.StrPathElem(es), 'e', r.Chance(5, 6)
			return p
		}
		n = k.sub
	}
}

var rawAlphabet = []string{"a", "b", "l", "1", "/", "[", "]", "\\", "=", "k", "-", "é"}
var rawTemplates = []string{"", "/", "//", "/a//", "/a=b/c", "/a=b[c]/x", "/a=b[c]/x/y", "a/b", "/l[k=1/x", "/l[k]/x", "/l[=1]/x", "/l[k=1]", "/l[k=1]/",
	"/l]k=1[/x", "/l[k=1]x/y", "/l[k=a\\]b]/x", "/l[k=a/b]/x", "/l[k=1][k=2]/x", "/l[k=]/x", "/a/l[k=1]/k/z", "/=/x", "/a/b=", "/a/b=/c"}

func genRawPath(r *rng.R) string {
	if r.Chance(1, 2) {
		return r.Pick(rawTemplates)
	}
	n := r.Range(1, 9)
	var b strings.Builder
	b.WriteString("/")
	for i := 0; i < n; i++ {
		b.WriteString(r.Pick(rawAlphabet))
	}
	return b.String()
}

// mutate makes a well-formed set adversarial in one of the ways the preconditions exclude.
func mutate(r *rng.R, S []PV) ([]PV, string) {
	if len(S) == 0 {
		return S, "unmutated"
	}
	i := r.Intn(len(S))
	es, ok := parseElems(S[i].Path)
	if !ok || len(es) == 0 {
		return S, "unmutated"
	}
	kind := r.Intn(7)
	switch kind {
	case 0: // a key dropped or added: entries of one list with different key names
		for _, e := range es {
			if len(e.Key) > 0 {
				if len(e.Key) > 1 && r.Bool() {
					for k := range e.Key {
						delete(e.Key, k)
						break
					}
				} else {
					e.Key[r.Pick([]string{"c", "j", "zz"})] = r.Pick(keyValPool)
				}
				break
			}
		}
		np := S[i]
		np.Path = utils.StrPathElem(es)
		return append(S, np), "nonuniform-keys"
	case 1: // keys written out of canonical order
		for j, e := range es {
			if len(e.Key) > 1 {
				ks := keyNames(e)
				txt := utils.StrPathElem(es[:j]) + "/" + e.Name
				for x := len(ks) - 1; x >= 0; x-- {
					txt += "[" + ks[x] + "=" + e.Key[ks[x]] + "]"
				}
				txt += utils.StrPathElem(es[j+1:])
				np := S[i]
				np.Path = txt
				if r.Bool() && len(es) > j+1 {
					np.Path = utils.StrPathElem(es[:j]) + "/" + e.Name
					for x := len(ks) - 1; x >= 0; x-- {
						np.Path += "[" + ks[x] + "=" + e.Key[ks[x]] + "]"
					}
					np.Path += "/" + r.Pick(names)
				}
				return append(S, np), "noncanonical-key-order"
			}
		}
		return S, "unmutated"
	case 2: // leaf and container at once
		np := S[i]
		np.Path = S[i].Path + "/" + r.Pick(names)
		np.Deleted = false
		genLeafVal(r, &np)
		return append(S, np), "leaf-container-clash"
	case 3: // key value with characters the textual key parser does not expect
		for _, e := range es {
			if len(e.Key) > 0 {
				for k := range e.Key {
					e.Key[k] = r.Pick([]string{"a]b", "a\\", "a/b", "a[b", "a=b", "x y", "]", "["})
					break
				}
				break
			}
		}
		np := S[i]
		np.Path = utils.StrPathElem(es)
		return append(S, np), "escaped-key-value"
	case 4: // a list name also used as a leaf or container
		for j, e := range es {
			if len(e.Key) > 0 {
				np := S[i]
				np.Path = utils.StrPathElem(es[:j]) + "/" + e.Name
				if r.Bool() {
					np.Path += "/" + r.Pick(names)
				}
				np.Deleted = false
				genLeafVal(r, &np)
				return append(S, np), "list-name-clash"
			}
		}
		return S, "unmutated"
	case 5: // raw text
		cnt := r.Range(1, 3)
		for x := 0; x < cnt; x++ {
			np := PV{Path: genRawPath(r), Deleted: r.Chance(1, 6)}
			genLeafVal(r, &np)
			S = append(S, np)
		}
		return S, "raw-text"
	default: // a leaf whose last element carries keys
		np := S[i]
		np.Path = S[i].Path + "/" + r.Pick(names) + "[k=" + r.Pick(keyValPool) + "]"
		np.Deleted = false
		genLeafVal(r, &np)
		return append(S, np), "leaf-with-keys"
	}
}

func dedupe(S []PV) []PV {
	seen := map[string]bool{}
	var out []PV
	for _, p := range S {
		if !seen[p.Path] {
			seen[p.Path] = true
			out = append(out, p)
		}
	}
	return out
}

func mkCase(S []PV, tags []string) fw.Case {
	s := encPVs(S)
	var script []string
	for _, op := range []string{"tree.build2 1", "tree.build3 1", "tree.build2 0", "tree.build3 0", "tree.buildrev2 1",
		"tree.prune2 0", "tree.prune2 1", "tree.prune3 0", "tree.prune3 1",
		"tree.prunemap2 0", "tree.prunemap2 1", "tree.prunemap3 0", "tree.prunemap3 1"} {
		script = append(script, fw.Join(op, s))
	}
	script = append(script, fw.Join("tree.domain 1", s))
	wf := allWF(S)
	if wf {
		script = append(script, fw.Join("tree.flat2 1", s), fw.Join("tree.flat3 0", s),
			fw.Join("tree.buildelems2 1", s), fw.Join("tree.buildelems3 0", s))
	}
	// classification
	nt := false
	entries := map[string]map[string]bool{}
	for _, p := range S {
		es, ok := parseElems(p.Path)
		if !ok {
			continue
		}
		for i, e := range es {
			if len(e.Key) > 0 {
				node := utils.StrPathElem(es[:i]) + "/" + e.Name
				if entries[node] == nil {
					entries[node] = map[string]bool{}
				}
				entries[node][elemText(e)] = true
			}
		}
	}
	for _, m := range entries {
		if len(m) >= 2 {
			nt = true
			tags = append(tags, "list>=2entries")
			break
		}
	}
	tomb := false
	for _, d := range S {
		if !d.Deleted {
			continue
		}
		for _, p := range S {
			if p.Path != d.Path && strings.HasPrefix(p.Path, d.Path) {
				tomb = true
			}
		}
	}
	if tomb {
		nt = true
		tags = append(tags, "tombstone-above-path")
	}
	if hasSiblingPrefixTombstone(S) {
		tags = append(tags, "sibling-prefix-tombstone")
	}
	if wf {
		tags = append(tags, "prune-monitored")
	}
	if buildMonitored(S) {
		tags = append(tags, "build-monitored")
	}
	if theoremDomain(S, true) {
		tags = append(tags, "in-theorem-domain")
	}
	return fw.Case{Script: script, Tags: tags, Nontrivial: nt}
}

func gen(r *rng.R, tier string) fw.Case {
	root := genSchema(r, 3)
	n := r.Range(1, 25)
	var S []PV
	for i := 0; i < n; i++ {
		S = append(S, genPath(r, root))
	}
	tags := []string{"wf-schema"}
	if r.Chance(3, 10) {
		var t string
		S, t = mutate(r, S)
		tags = []string{"mutated:" + t}
	}
	S = dedupe(S)
	// the order of the input must not matter: shuffle
	for i := len(S) - 1; i > 0; i-- {
		j := r.Intn(i + 1)
		S[i], S[j] = S[j], S[i]
	}
	return mkCase(S, tags)
}

var enumUniverse = []string{"/a/b", "/a/bc", "/a/b/x", "/a", "/a/l[k=1]/x", "/a/l[k=10]/x", "/a/l[k=1]", "/a/l", "/a/b-c", "/a/l[k=1]/k"}

// enumerate: every assignment absent/live/deleted over a universe of prefix-sharing paths
// (quick: the first 7 paths, 3^7 sets; thorough: all 10, 3^10 sets).
func enumerate(tier string) []fw.Case {
	u := enumUniverse[:7]
	if tier == "thorough" {
		u = enumUniverse
	}
	total := 1
	for range u {
		total *= 3
	}
	var out []fw.Case
	for code := 1; code < total; code++ {
		var S []PV
		x := code
		for _, p := range u {
			switch x % 3 {
			case 1:
				S = append(S, PV{Path: p, Kind: 's', S: "v"})
			case 2:
				S = append(S, PV{Path: p, Kind: 'e', Deleted: true})
			}
			x /= 3
		}
		for i := range S {
			if strings.HasSuffix(S[i].Path, "/k") && !S[i].Deleted {
				S[i].S = "1"
			}
		}
		out = append(out, mkCase(S, []string{"enum"}))
	}
	return out
}

// shrinkCase proposes the same case with one path/value less, or with a value replaced by "v".
func shrinkCase(c fw.Case) []fw.Case {
	S, ok := caseSet(c)
	if !ok {
		return nil
	}
	var out []fw.Case
	for i := range S {
		T := append(append([]PV{}, S[:i]...), S[i+1:]...)
		nc := mkCase(T, nil)
		nc.Tags, nc.Origin = c.Tags, c.Origin
		out = append(out, nc)
	}
	for i := range S {
		if S[i].Kind != 's' || S[i].S != "v" {
			T := append([]PV{}, S...)
			T[i].Kind, T[i].S = 's', "v"
			nc := mkCase(T, nil)
			nc.Tags, nc.Origin = c.Tags, c.Origin
			out = append(out, nc)
		}
	}
	sort.SliceStable(out, func(i, j int) bool { return len(out[i].Script[0]) < len(out[j].Script[0]) })
	return out
}
