// Package c12 runs every kind of northbound request — gNMI Capabilities, Get, Set, Subscribe and the
// admin RollbackTransaction / LeafSelectionQuery / GetTransaction — through the real handlers
// (NewServerForVerif for the gNMI and admin servers, real stores on the atomix test client) under
// recover(), pushes every created transaction through the real transaction and proposal
// reconcilers under recover(), compares the outcome class (panic? / refusal code and cause /
// reached) with the Lean twin (OnosVerif/NB), and evaluates C12's own statement: no request makes
// a handler or a controller panic.
package c12

import (
	"strconv"
	"strings"

	"github.com/onosproject/onos-config/verifharness/internal/fw"
	"github.com/onosproject/onos-config/verifharness/internal/nbenv"
	"github.com/onosproject/onos-config/verifharness/internal/nbgen"
	"github.com/onosproject/onos-config/verifharness/internal/nbreal"
	"github.com/onosproject/onos-config/verifharness/internal/nbwire"
	"github.com/onosproject/onos-config/verifharness/internal/rng"
)

var rawAlphabet = []string{"a", "b", "1", "/", "[", "]", "=", "k", "*", "-", ".", ":", "\n", "\\", " ", "é", "(", ")", "+", "?", "$", "^", "|", "{"}

func genRaw(r *rng.R, max int) string {
	n := r.Range(0, max)
	var b strings.Builder
	for i := 0; i < n; i++ {
		b.WriteString(r.Pick(rawAlphabet))
	}
	return b.String()
}

func line(op string, toks []string) string {
	return strings.TrimRight(op+" "+strings.Join(toks, " "), " ")
}

func genLeafSel(r *rng.R, spec nbenv.Spec, tables map[string][]nbgen.ModelPath) (string, []string) {
	t := r.Pick([]string{"c1", "c1", "c2", "c2", "t1", "t2", "tx"})
	ty, ver := "model1", "1.0"
	var tags []string
	if r.Chance(1, 8) {
		ty = r.Pick([]string{"nomodel", "", "model2"})
		tags = append(tags, "leafsel-odd-model")
	}
	toks := []string{fw.EncStr(t), fw.EncStr(ty), fw.EncStr(ver), fw.EncStr(r.Pick([]string{"/foo", "/l[k=1]/v", "", "/x!"}))}
	if r.Chance(3, 4) {
		mode := r.Pick([]string{"valid", "valid", "mixed", "wild"})
		cx, _ := nbgen.GenSet(r, spec, tables, mode, false)
		cx.Exts = nil
		if r.Chance(1, 4) {
			tags = append(tags, nbgen.Mutate(r, cx))
		}
		toks = append(toks, "ctx")
		toks = append(toks, cx.Toks()...)
		tags = append(tags, "leafsel-ctx-"+mode)
	} else {
		tags = append(tags, "leafsel-no-ctx")
	}
	return line("nb.leafsel", toks), tags
}

func gen(r *rng.R, tier string) fw.Case {
	spec, tables := nbgen.GenSpec12(r)
	script := []string{nbwire.EncEnv(spec)}
	var tags []string
	// populated and empty configurations
	if r.Chance(4, 5) {
		script = append(script, line("nb.cfg", []string{fw.EncStr("c1"), fw.EncStr("model1"), fw.EncStr("1.0"), "3"}))
	}
	if r.Chance(4, 5) {
		script = append(script, line("nb.cfg", []string{fw.EncStr("c2"), fw.EncStr("model1"), fw.EncStr("1.0"), "0"}))
	}
	n := r.Range(3, 9)
	nontrivial := false
	for i := 0; i < n; i++ {
		switch k := r.Intn(20); {
		case k < 7: // Set
			mode := r.Pick([]string{"valid", "mixed", "wild", "wild"})
			rq, t := nbgen.GenSet(r, spec, tables, mode, true)
			tags = append(tags, "set-"+mode)
			tags = append(tags, t...)
			for m := r.Intn(3); m > 0; m-- {
				tags = append(tags, nbgen.Mutate(r, rq))
			}
			if r.Chance(1, 6) {
				// sometimes aim at the directly created configurations
				for _, p := range rq.Delete {
					p.Target = "c2"
				}
				for _, u := range rq.Update {
					if u.Path != nil {
						u.Path.Target = "c2"
					}
				}
			}
			script = append(script, line("nb.set", rq.Toks()), "nb.log")
			nontrivial = true
		case k < 12: // Get
			rq, t := nbgen.GenGet(r, spec, tables, true)
			if r.Chance(1, 5) {
				rq, t = nbgen.GenSyncGet(r)
			}
			tags = append(tags, "get")
			tags = append(tags, t...)
			if r.Chance(1, 3) {
				tags = append(tags, nbgen.Mutate(r, rq))
			}
			script = append(script, line("nb.get", rq.Toks()))
			nontrivial = true
		case k < 14: // Subscribe
			ms, t := nbgen.GenSubStream(r)
			tags = append(tags, "subscribe")
			tags = append(tags, t...)
			toks := make([]string, len(ms))
			for j, m := range ms {
				toks[j] = "m=" + nbwire.EncSubMsg(m)
			}
			script = append(script, line("nb.sub", toks))
			nontrivial = true
		case k < 16:
			l, t := genLeafSel(r, spec, tables)
			tags = append(tags, "leafsel")
			tags = append(tags, t...)
			script = append(script, l)
			nontrivial = true
		case k == 16:
			script = append(script, line("nb.rollback", []string{r.Pick([]string{"0", "1", "2", "3", "99", "18446744073709551615"})}), "nb.log")
			tags = append(tags, "rollback")
		case k == 17:
			script = append(script, line("nb.gettx", []string{r.Pick([]string{"0", "1", "2", "7"})}))
			tags = append(tags, "gettx")
		case k == 18:
			script = append(script, "nb.cap")
			tags = append(tags, "capabilities")
		default: // the pure primitives on raw text
			h := fw.EncStr(genRaw(r, 14))
			script = append(script, "nb.wild "+h+" 0", "nb.wild "+h+" 1", "nb.idx "+h, "nb.rmidx "+h, "nb.anon "+h, "nb.find "+h+" 0 rw="+fw.EncStr("/foo")+";0;"+fw.EncStr("foo"))
			tags = append(tags, "primitives")
		}
	}
	return fw.Case{Script: script, Tags: dedupe(tags), Nontrivial: nontrivial}
}

func dedupe(xs []string) []string {
	seen := map[string]bool{}
	var out []string
	for _, x := range xs {
		if x != "" && x != "mut-none" && !seen[x] {
			seen[x] = true
			out = append(out, x)
		}
	}
	return out
}

// enumerate: every string of length <= 3 (thorough: 4) over a small alphabet of regular-expression
// and bracket metacharacters through the text primitives (exhaustive for that space).
func enumerate(tier string) []fw.Case {
	alpha := []string{"a", "*", ".", "\\", "[", "]", "=", "(", "$"}
	depth := 3
	if tier == "thorough" {
		depth = 4
	}
	var words []string
	var rec func(p string, d int)
	rec = func(p string, d int) {
		words = append(words, p)
		if d == 0 {
			return
		}
		for _, a := range alpha {
			rec(p+a, d-1)
		}
	}
	rec("", depth)
	var out []fw.Case
	const per = 40
	for i := 0; i < len(words); i += per {
		end := i + per
		if end > len(words) {
			end = len(words)
		}
		var s []string
		for _, w := range words[i:end] {
			h := fw.EncStr("/" + w)
			s = append(s, "nb.wild "+h+" 0", "nb.wild "+h+" 1", "nb.idx "+h, "nb.rmidx "+h, "nb.anon "+h, "nb.valid "+h)
		}
		out = append(out, fw.Case{Script: s, Tags: []string{"enum-primitives"}, Nontrivial: true})
	}
	return out
}

// monitor: C12's statement — every request is answered with a response or a status; nothing panics,
// neither a handler nor a controller fed with what a handler stored.
func monitor(c fw.Case, out []string) []string {
	var fails []string
	for i, ln := range c.Script {
		if i >= len(out) {
			break
		}
		if strings.HasPrefix(out[i], "panic ") || strings.Contains(out[i], " panic:") || strings.HasPrefix(out[i], "sub panic:") {
			op := strings.Fields(ln)[0]
			fails = append(fails, "crash: "+op+" -> "+out[i]+" (line "+strconv.Itoa(i)+")")
		}
	}
	return fails
}

func crashLine(c fw.Case, msg string) (string, bool) {
	i := strings.LastIndex(msg, "(line ")
	if i < 0 {
		return "", false
	}
	n, err := strconv.Atoi(strings.TrimSuffix(msg[i+6:], ")"))
	if err != nil || n >= len(c.Script) {
		return "", false
	}
	return c.Script[n], true
}

func outcomeTags(c fw.Case, out []string) []string {
	var tags []string
	for i, ln := range c.Script {
		if i >= len(out) {
			break
		}
		op := strings.Fields(ln)[0]
		f := strings.Fields(out[i])
		if len(f) == 0 {
			continue
		}
		switch op {
		case "nb.set", "nb.get", "nb.leafsel", "nb.rollback", "nb.gettx":
			switch f[0] {
			case "err":
				if len(f) >= 3 {
					tags = append(tags, "real:"+op+":refused:"+f[2])
				}
			case "panic":
				tags = append(tags, "real:"+op+":panic:"+f[1])
			default:
				tags = append(tags, "real:"+op+":"+f[0])
			}
		case "nb.sub":
			for _, t := range f[1:] {
				k, _, _ := strings.Cut(t, ":")
				if k == "err" {
					tags = append(tags, "real:nb.sub:"+t)
				} else {
					tags = append(tags, "real:nb.sub:"+k)
				}
			}
		}
	}
	return tags
}

func shrinkCase(c fw.Case) []fw.Case {
	var out []fw.Case
	// drop one line (never the environment: the twin keeps its state between cases)
	for i, ln := range c.Script {
		if strings.HasPrefix(ln, "nb.env") || len(c.Script) <= 2 {
			continue
		}
		s := append(append([]string{}, c.Script[:i]...), c.Script[i+1:]...)
		out = append(out, fw.Case{Script: s, Tags: c.Tags, Nontrivial: c.Nontrivial, Origin: c.Origin})
	}
	for i, ln := range c.Script {
		toks := strings.Fields(ln)
		if len(toks) < 3 || toks[0] == "nb.env" || toks[0] == "nb.cfg" {
			continue
		}
		for j := 1; j < len(toks); j++ {
			nt := append(append([]string{}, toks[:j]...), toks[j+1:]...)
			s := append([]string{}, c.Script...)
			s[i] = strings.Join(nt, " ")
			out = append(out, fw.Case{Script: s, Tags: c.Tags, Nontrivial: c.Nontrivial, Origin: c.Origin})
		}
	}
	return out
}

// agree: where the twin does not decide, it answers with a set of outcomes.  `maybe X`: the request consults a configuration written by the controllers, which may
// not exist at all (a transaction can stall behind an earlier one waiting for a master): X, or
// "no such configuration".
func agree(ln, real, twin string) bool {
	if strings.HasPrefix(twin, "maybe ") {
		x := strings.TrimPrefix(twin, "maybe ")
		if strings.HasPrefix(real, "err ") && strings.HasSuffix(real, " noConfig") {
			return true
		}
		return real == x
	}
	return false
}

// Prop is the C12 correspondence check.
var Prop = &fw.Prop{
	ID: "C12",
	Rule: "scripts of 3-9 requests against a generated environment (targets with/without aspect/plugin, configurations with and without values created directly, others through Sets): " +
		"Set (valid / mixed / wild, 0-2 structural mutations: nil path, no value, no elements, odd element names such as x[abc] and [k=, odd keys, odd targets, v0.3 elements, random extension bytes, overrides with a map entry without value), " +
		"Get (every encoding and data type, wildcards and regular-expression metacharacters in names and key values, prefix on/off, target *, no paths, extensions), Subscribe streams (no prefix, entries without path, poll before subscribe, duplicate, unknown message), " +
		"admin RollbackTransaction of any index, LeafSelectionQuery with/without change context, GetTransaction, Capabilities; plus the text primitives (MatchWildcardRegexp, ExtractIndexNames, RemovePathIndices, AnonymizePathIndices, FindPathFromModel, IsPathValid) on raw strings and, exhaustively, on every string of length <= 3 (thorough: 4) over {a * . \\ [ ] = ( $}. " +
		"Every handler call and every reconcile step runs under recover(). Non-trivial = the case holds at least one Set, Get, Subscribe or LeafSelectionQuery.",
	Quick: 4000, Thorough: 40000, Workers: 12,
	Gen: gen, Enumerate: enumerate,
	NewReal:     func() fw.Real { return nbreal.New() },
	Monitor:     monitor,
	Shrink:      shrinkCase,
	FixedLayout: true, // the shrinker above drops lines itself and keeps the nb.env line
	Agree:       agree,
	OutcomeTags: outcomeTags,
}

func init() { fw.Register(Prop) }
