// Package props gives access to every registered property check; the packages register
// themselves (fw.Register) and are imported by the generated all_gen.go.
package props

import "github.com/onosproject/onos-config/verifharness/internal/fw"

// All maps property ids to their checks.
var All = fw.Registry
