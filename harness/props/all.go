// Package props registers every property's correspondence check.
package props

import (
	"github.com/onosproject/onos-config/verifharness/internal/fw"
	"github.com/onosproject/onos-config/verifharness/props/c16"
)

// All maps property ids to their checks.
var All = map[string]*fw.Prop{
	"C16": c16.Prop,
}
