package c17

import (
	"encoding/hex"
	"fmt"
	"math"
	"strconv"
	"strings"

	pb "github.com/openconfig/gnmi/proto/gnmi"
)

// ---- the harness' own picture of a gNMI typed value (what the script lines carry) ----

type skind int

const (
	kStr skind = iota
	kAscii
	kInt
	kUint
	kBool
	kBytes
	kDec
	kDecNil
	kFloat
	kAnyNil
	kOther
)

// scalar is one member of the gnmi.TypedValue oneof.
type scalar struct {
	k    skind
	b    []byte // str, ascii, bytes
	i    int64  // int, dec digits
	u    uint64 // uint
	t    bool   // bool
	prec uint32 // dec
	bits uint32 // float
}

// gval is a scalar or a leaf-list of scalars.
type gval struct {
	ll bool
	s  scalar
	es []scalar
}

func encB(b []byte) string {
	if len(b) == 0 {
		return "-"
	}
	return hex.EncodeToString(b)
}

func decB(h string) ([]byte, bool) {
	if h == "-" {
		return []byte{}, true
	}
	b, err := hex.DecodeString(h)
	return b, err == nil
}

func encScalar(s scalar) string {
	switch s.k {
	case kStr:
		return "S:" + encB(s.b)
	case kAscii:
		return "A:" + encB(s.b)
	case kInt:
		return "I:" + strconv.FormatInt(s.i, 10)
	case kUint:
		return "U:" + strconv.FormatUint(s.u, 10)
	case kBool:
		if s.t {
			return "B:1"
		}
		return "B:0"
	case kBytes:
		return "Y:" + encB(s.b)
	case kDec:
		return "D:" + strconv.FormatInt(s.i, 10) + ":" + strconv.FormatUint(uint64(s.prec), 10)
	case kDecNil:
		return "DN"
	case kFloat:
		return "F:" + strconv.FormatUint(uint64(s.bits), 10)
	case kAnyNil:
		return "N"
	}
	return "X"
}

func decScalar(tok string) (scalar, bool) {
	p := strings.Split(tok, ":")
	switch {
	case len(p) == 2 && (p[0] == "S" || p[0] == "A" || p[0] == "Y"):
		b, ok := decB(p[1])
		k := map[string]skind{"S": kStr, "A": kAscii, "Y": kBytes}[p[0]]
		return scalar{k: k, b: b}, ok
	case len(p) == 2 && p[0] == "I":
		i, err := strconv.ParseInt(p[1], 10, 64)
		return scalar{k: kInt, i: i}, err == nil
	case len(p) == 2 && p[0] == "U":
		u, err := strconv.ParseUint(p[1], 10, 64)
		return scalar{k: kUint, u: u}, err == nil
	case len(p) == 2 && p[0] == "B":
		return scalar{k: kBool, t: p[1] == "1"}, p[1] == "0" || p[1] == "1"
	case len(p) == 3 && p[0] == "D":
		i, err := strconv.ParseInt(p[1], 10, 64)
		pr, err2 := strconv.ParseUint(p[2], 10, 32)
		return scalar{k: kDec, i: i, prec: uint32(pr)}, err == nil && err2 == nil
	case len(p) == 1 && p[0] == "DN":
		return scalar{k: kDecNil}, true
	case len(p) == 2 && p[0] == "F":
		u, err := strconv.ParseUint(p[1], 10, 32)
		return scalar{k: kFloat, bits: uint32(u)}, err == nil
	case len(p) == 1 && p[0] == "N":
		return scalar{k: kAnyNil}, true
	case len(p) == 1 && p[0] == "X":
		return scalar{k: kOther}, true
	}
	return scalar{}, false
}

func encGVal(g gval) string {
	if !g.ll {
		return encScalar(g.s)
	}
	parts := make([]string, len(g.es))
	for i, e := range g.es {
		parts[i] = encScalar(e)
	}
	return "L:" + strings.Join(parts, ",")
}

func decGVal(tok string) (gval, bool) {
	if strings.HasPrefix(tok, "L:") {
		g := gval{ll: true}
		body := tok[2:]
		if body == "" {
			return g, true
		}
		for _, t := range strings.Split(body, ",") {
			s, ok := decScalar(t)
			if !ok {
				return g, false
			}
			g.es = append(g.es, s)
		}
		return g, true
	}
	s, ok := decScalar(tok)
	return gval{s: s}, ok
}

// model path type options: nil model path, empty options, or a list
type mopts struct {
	nilPath bool
	opts    []uint64
}

func encOpts(o mopts) string {
	if o.nilPath {
		return "o:nil"
	}
	if len(o.opts) == 0 {
		return "o:-"
	}
	parts := make([]string, len(o.opts))
	for i, v := range o.opts {
		parts[i] = strconv.FormatUint(v, 10)
	}
	return "o:" + strings.Join(parts, ",")
}

func decOpts(tok string) (mopts, bool) {
	switch {
	case tok == "o:nil":
		return mopts{nilPath: true}, true
	case tok == "o:-":
		return mopts{opts: []uint64{}}, true
	case strings.HasPrefix(tok, "o:"):
		var o mopts
		for _, t := range strings.Split(tok[2:], ",") {
			v, err := strconv.ParseUint(t, 10, 64)
			if err != nil {
				return o, false
			}
			o.opts = append(o.opts, v)
		}
		return o, true
	}
	return mopts{}, false
}

// ---- native typed value, version independent ----

type ntv struct {
	Bytes []byte
	Type  int32
	Opts  []int32
}

func encTV(t ntv) string {
	o := "-"
	if len(t.Opts) > 0 {
		parts := make([]string, len(t.Opts))
		for i, v := range t.Opts {
			parts[i] = strconv.FormatInt(int64(v), 10)
		}
		o = strings.Join(parts, ",")
	}
	return fmt.Sprintf("T:%d:%s:%s", t.Type, encB(t.Bytes), o)
}

func decTV(tok string) (ntv, bool) {
	p := strings.Split(tok, ":")
	if len(p) != 4 || p[0] != "T" {
		return ntv{}, false
	}
	ty, err := strconv.ParseInt(p[1], 10, 32)
	if err != nil {
		return ntv{}, false
	}
	b, ok := decB(p[2])
	if !ok {
		return ntv{}, false
	}
	// exact capacity: the twin models slices whose capacity equals their length
	bb := make([]byte, len(b))
	copy(bb, b)
	t := ntv{Type: int32(ty), Bytes: bb}
	if p[3] != "-" {
		for _, s := range strings.Split(p[3], ",") {
			v, err := strconv.ParseInt(s, 10, 32)
			if err != nil {
				return ntv{}, false
			}
			t.Opts = append(t.Opts, int32(v))
		}
	}
	return t, true
}

// ---- conversion to and from the real gNMI messages ----

func scalarToPb(s scalar) *pb.TypedValue {
	switch s.k {
	case kStr:
		return &pb.TypedValue{Value: &pb.TypedValue_StringVal{StringVal: string(s.b)}}
	case kAscii:
		return &pb.TypedValue{Value: &pb.TypedValue_AsciiVal{AsciiVal: string(s.b)}}
	case kInt:
		return &pb.TypedValue{Value: &pb.TypedValue_IntVal{IntVal: s.i}}
	case kUint:
		return &pb.TypedValue{Value: &pb.TypedValue_UintVal{UintVal: s.u}}
	case kBool:
		return &pb.TypedValue{Value: &pb.TypedValue_BoolVal{BoolVal: s.t}}
	case kBytes:
		b := make([]byte, len(s.b))
		copy(b, s.b)
		return &pb.TypedValue{Value: &pb.TypedValue_BytesVal{BytesVal: b}}
	case kDec:
		return &pb.TypedValue{Value: &pb.TypedValue_DecimalVal{DecimalVal: &pb.Decimal64{Digits: s.i, Precision: s.prec}}}
	case kDecNil:
		return &pb.TypedValue{Value: &pb.TypedValue_DecimalVal{}}
	case kFloat:
		return &pb.TypedValue{Value: &pb.TypedValue_FloatVal{FloatVal: math.Float32frombits(s.bits)}}
	case kAnyNil:
		return &pb.TypedValue{Value: &pb.TypedValue_AnyVal{}}
	}
	// "other": a member of the oneof the conversion does not know
	return &pb.TypedValue{Value: &pb.TypedValue_JsonVal{JsonVal: []byte("{}")}}
}

func gvalToPb(g gval) *pb.TypedValue {
	if !g.ll {
		return scalarToPb(g.s)
	}
	es := make([]*pb.TypedValue, 0, len(g.es))
	for _, e := range g.es {
		es = append(es, scalarToPb(e))
	}
	return &pb.TypedValue{Value: &pb.TypedValue_LeaflistVal{LeaflistVal: &pb.ScalarArray{Element: es}}}
}

func pbToScalar(v *pb.TypedValue) scalar {
	switch x := v.GetValue().(type) {
	case *pb.TypedValue_StringVal:
		return scalar{k: kStr, b: []byte(x.StringVal)}
	case *pb.TypedValue_AsciiVal:
		return scalar{k: kAscii, b: []byte(x.AsciiVal)}
	case *pb.TypedValue_IntVal:
		return scalar{k: kInt, i: x.IntVal}
	case *pb.TypedValue_UintVal:
		return scalar{k: kUint, u: x.UintVal}
	case *pb.TypedValue_BoolVal:
		return scalar{k: kBool, t: x.BoolVal}
	case *pb.TypedValue_BytesVal:
		return scalar{k: kBytes, b: x.BytesVal}
	case *pb.TypedValue_DecimalVal:
		if x.DecimalVal == nil {
			return scalar{k: kDecNil}
		}
		return scalar{k: kDec, i: x.DecimalVal.Digits, prec: x.DecimalVal.Precision}
	case *pb.TypedValue_FloatVal:
		return scalar{k: kFloat, bits: math.Float32bits(x.FloatVal)}
	case *pb.TypedValue_AnyVal:
		if x.AnyVal == nil {
			return scalar{k: kAnyNil}
		}
	}
	return scalar{k: kOther}
}

func pbToGVal(v *pb.TypedValue) gval {
	if l, ok := v.GetValue().(*pb.TypedValue_LeaflistVal); ok {
		g := gval{ll: true}
		for _, e := range l.LeaflistVal.GetElement() {
			g.es = append(g.es, pbToScalar(e))
		}
		return g
	}
	return gval{s: pbToScalar(v)}
}
