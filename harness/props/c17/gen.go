package c17

import (
	"math"
	"strconv"
	"strings"
	"unicode/utf8"

	"github.com/onosproject/onos-config/verifharness/internal/fw"
	"github.com/onosproject/onos-config/verifharness/internal/rng"
)

// ---- the value universe: small and adversarial, every type and width with its extremes ----

var intExtremes = []int64{0, 1, -1, 127, -128, 128, 255, 256, -129, 32767, -32768, 65535, 65536,
	math.MaxInt32, math.MinInt32, 1 << 31, 1 << 32, -(1 << 32), math.MaxInt64, math.MinInt64, math.MinInt64 + 1,
	1 << 62, 72057594037927936 /* 2^56 */, 72057594037927935, 5, -5, 10, -10, 99, -99, 100, -100, 123456, -123456}

var uintExtremes = []uint64{0, 1, 127, 128, 255, 256, 65535, 65536, math.MaxUint32, 1 << 32, 1 << 63, 1<<63 - 1,
	math.MaxUint64, math.MaxUint64 - 1, 1 << 56, 1<<56 - 1, 29 /* 0x1D */, 0x1D00}

var stringUniverse = []string{"", "a", "abc", "Hello world!", "a\x1db", "\x1d", "\x1d\x1d", "x\x1d", "\x1dy",
	"\"", "\\", "<a>&", "line\nbreak\r\t", "\x01\x02", "\b\f", "\x7f", "é", "日本", "\u2028", "a b", "â\u0080",
	"0", "-1", "true", "null", "1.5", "a,b", " ", "[x]", "{", "\U0001F600"}

var bytesUniverse = [][]byte{{}, {0}, {1}, {0x1D}, {255}, {0, 0}, {1, 2}, {1, 2, 3}, {0x1D, 0x1D}, {0, 1, 0}, {255, 254, 253, 252},
	{1, 2, 3, 4, 5}, {0x3E, 0x3F, 0xFB, 0xFF}, {'a'}, {'a', 'b', 'c', 'd', 'e', 'f'}}

var precisions = []uint32{0, 1, 2, 3, 6, 9, 17, 18}
var badPrecisions = []uint32{19, 20, 63, 64, 65, 100, 255, 256, 257, 258, 320, 1 << 31}

var floatBits = []uint32{0, 0x80000000, 0x3F800000 /*1*/, 0xBF800000, 0x3DCCCCCD /*0.1*/, 0x3DFCD6DE, /*0.1234567*/
	0x33D6BF95 /*1e-7*/, 1, 5, 0x007FFFFF, 0x00800000, 0x7F7FFFFF, 0xFF7FFFFF, 0x7F800000, 0xFF800000,
	0x40490FDB /*pi*/, 0xC0200000 /*-2.5*/, 0x4B800000 /*2^24*/, 0x00400000, 0x80000001, 0x3F000000, 0x7F000000}

var nanBits = []uint32{0x7FC00000, 0xFFC00000, 0x7F800001, 0x7FFFFFFF, 0x7FA00000}

var widthOpts = []mopts{
	{nilPath: true}, {opts: []uint64{}}, {opts: []uint64{8}}, {opts: []uint64{16}}, {opts: []uint64{32}}, {opts: []uint64{64}},
	{opts: []uint64{64}}, {opts: []uint64{64}}, {opts: []uint64{8}}, {opts: []uint64{32}},
}

var oddOpts = []mopts{
	{opts: []uint64{0}}, {opts: []uint64{4}}, {opts: []uint64{33}}, {opts: []uint64{31}}, {opts: []uint64{300}}, {opts: []uint64{256}},
	{opts: []uint64{1<<32 + 64}}, {opts: []uint64{1<<31 + 8}}, {opts: []uint64{math.MaxUint64}}, {opts: []uint64{1 << 63}},
	{opts: []uint64{64, 5}}, {opts: []uint64{2}}, {opts: []uint64{18}}, {opts: []uint64{255}}, {opts: []uint64{65}},
}

func genInt(r *rng.R) int64 {
	switch r.Intn(4) {
	case 0:
		return int64(r.U64())
	case 1:
		return int64(r.U64()) >> uint(r.Intn(64))
	}
	return intExtremes[r.Intn(len(intExtremes))]
}

func genUint(r *rng.R) uint64 {
	switch r.Intn(4) {
	case 0:
		return r.U64()
	case 1:
		return r.U64() >> uint(r.Intn(64))
	}
	return uintExtremes[r.Intn(len(uintExtremes))]
}

func genString(r *rng.R) []byte {
	if r.Chance(1, 5) {
		n := r.Range(0, 6)
		var b strings.Builder
		for i := 0; i < n; i++ {
			b.WriteString(r.Pick([]string{"a", "b", "z", "0", "\x1d", "\"", "\\", "<", "\n", "é", "\u2028", " ", "/"}))
		}
		return []byte(b.String())
	}
	return []byte(stringUniverse[r.Intn(len(stringUniverse))])
}

func genBytes(r *rng.R) []byte {
	if r.Chance(1, 3) {
		n := r.Range(0, 7)
		b := make([]byte, n)
		for i := range b {
			if r.Chance(1, 4) {
				b[i] = []byte{0, 0x1D, 255, 1}[r.Intn(4)]
			} else {
				b[i] = byte(r.U64())
			}
		}
		return b
	}
	return append([]byte{}, bytesUniverse[r.Intn(len(bytesUniverse))]...)
}

func genFloat(r *rng.R, allowNaN bool) uint32 {
	for {
		var b uint32
		switch r.Intn(4) {
		case 0:
			b = uint32(r.U64())
		case 1:
			if allowNaN {
				b = nanBits[r.Intn(len(nanBits))]
			} else {
				b = floatBits[r.Intn(len(floatBits))]
			}
		default:
			b = floatBits[r.Intn(len(floatBits))]
		}
		if allowNaN || !isNaN(b) {
			return b
		}
	}
}

func isNaN(b uint32) bool { return b&0x7F800000 == 0x7F800000 && b&0x007FFFFF != 0 }

func genPrecision(r *rng.R, bad bool) uint32 {
	if bad {
		return badPrecisions[r.Intn(len(badPrecisions))]
	}
	return precisions[r.Intn(len(precisions))]
}

// genScalarOf returns a scalar of the given kind.
func genScalarOf(r *rng.R, k skind, prec uint32, allowNaN bool) scalar {
	switch k {
	case kStr, kAscii:
		return scalar{k: k, b: genString(r)}
	case kInt:
		return scalar{k: k, i: genInt(r)}
	case kUint:
		return scalar{k: k, u: genUint(r)}
	case kBool:
		return scalar{k: k, t: r.Bool()}
	case kBytes:
		return scalar{k: k, b: genBytes(r)}
	case kDec:
		return scalar{k: k, i: genInt(r), prec: prec}
	case kFloat:
		return scalar{k: k, bits: genFloat(r, allowNaN)}
	}
	return scalar{k: k}
}

var valueKinds = []skind{kStr, kAscii, kInt, kUint, kBool, kBytes, kDec, kFloat}

func genOpts(r *rng.R, odd bool) mopts {
	if odd {
		return oddOpts[r.Intn(len(oddOpts))]
	}
	return widthOpts[r.Intn(len(widthOpts))]
}

// genValue: mostly in-domain values (a supported scalar or a homogeneous leaf-list), with a
// separate malformed stream (mixed lists, nil members, unsupported oneof members, odd options).
func genValue(r *rng.R) (gval, mopts, []string) {
	var tags []string
	mal := r.Chance(1, 6)
	odd := mal || r.Chance(1, 10)
	o := genOpts(r, odd)
	if odd {
		tags = append(tags, "odd-type-opts")
	}
	k := valueKinds[r.Intn(len(valueKinds))]
	badPrec := r.Chance(1, 8)
	prec := genPrecision(r, badPrec)
	allowNaN := r.Chance(1, 10)
	if !r.Chance(2, 5) {
		// scalar
		s := genScalarOf(r, k, prec, allowNaN)
		if mal && r.Chance(1, 2) {
			s = scalar{k: []skind{kOther, kDecNil, kAnyNil}[r.Intn(3)]}
			tags = append(tags, "malformed")
		}
		return gval{s: s}, o, tags
	}
	n := r.Range(1, 5)
	if r.Chance(1, 12) {
		n = 0
	}
	g := gval{ll: true}
	for i := 0; i < n; i++ {
		g.es = append(g.es, genScalarOf(r, k, prec, allowNaN))
	}
	if mal {
		tags = append(tags, "malformed")
		for j := r.Range(1, 2); j > 0 && len(g.es) > 0; j-- {
			i := r.Intn(len(g.es))
			switch r.Intn(4) {
			case 0:
				g.es[i] = genScalarOf(r, valueKinds[r.Intn(len(valueKinds))], genPrecision(r, false), false)
			case 1:
				g.es[i] = scalar{k: kOther}
			case 2:
				g.es[i] = scalar{k: kDecNil}
			case 3:
				if g.es[i].k == kDec {
					g.es[i].prec = genPrecision(r, r.Bool())
				} else {
					g.es[i] = scalar{k: kAnyNil}
				}
			}
		}
	}
	return g, o, tags
}

func kindName(k skind) string {
	return [...]string{"string", "ascii", "int", "uint", "bool", "bytes", "decimal", "decimal-nil", "float", "any-nil", "other"}[k]
}

func isBoundaryInt(i int64) bool {
	for _, x := range []int64{math.MaxInt64, math.MinInt64, math.MinInt64 + 1, math.MaxInt32, math.MinInt32, 1 << 31, 1 << 32, -(1 << 32), 127, -128, 128, 255, 256, 32767, -32768, 65535, 65536} {
		if i == x {
			return true
		}
	}
	return false
}

func isBoundaryUint(u uint64) bool {
	for _, x := range []uint64{math.MaxUint64, 1 << 63, 1<<63 - 1, math.MaxUint32, 1 << 32, 255, 256, 65535, 65536} {
		if u == x {
			return true
		}
	}
	return false
}

func scalarBoundary(s scalar) bool {
	switch s.k {
	case kInt, kDec:
		return isBoundaryInt(s.i)
	case kUint:
		return isBoundaryUint(s.u)
	case kStr, kAscii, kBytes:
		return len(s.b) == 0
	case kFloat:
		e := s.bits >> 23 & 0xFF
		return e == 0 || e == 255 || s.bits&0x7FFFFFFF == 0x7F7FFFFF
	}
	return false
}

// describe returns the evidence tags of a value and whether it is non-trivial:
// a boundary value, a width above 32, or a leaf-list with an empty member.
func describe(g gval, o mopts) ([]string, bool) {
	var tags []string
	nt := false
	w := uint64(32)
	if !o.nilPath && len(o.opts) > 0 {
		w = o.opts[0]
	}
	if w > 32 {
		tags = append(tags, "width>32")
	}
	if !g.ll {
		tags = append(tags, "scalar-"+kindName(g.s.k))
		if scalarBoundary(g.s) {
			tags = append(tags, "boundary")
			nt = true
		}
		if w > 32 && (g.s.k == kInt || g.s.k == kUint) {
			nt = true
		}
		return tags, nt
	}
	if len(g.es) == 0 {
		return append(tags, "leaflist-empty"), false
	}
	tags = append(tags, "leaflist-"+kindName(g.es[0].k))
	for i, e := range g.es {
		if scalarBoundary(e) {
			nt = true
		}
		if (e.k == kStr || e.k == kAscii || e.k == kBytes) && len(e.b) == 0 {
			tags = append(tags, "empty-member")
			nt = true
			if i > 0 && e.k == kBytes {
				tags = append(tags, "empty-bytes-member-not-first")
			}
		}
		if (e.k == kStr || e.k == kAscii) && strings.Contains(string(e.b), "\x1d") {
			tags = append(tags, "member-with-0x1D")
		}
	}
	if w > 32 && (g.es[0].k == kInt || g.es[0].k == kUint) {
		nt = true
	}
	return dedup(tags), nt
}

func dedup(xs []string) []string {
	seen := map[string]bool{}
	var out []string
	for _, x := range xs {
		if !seen[x] {
			seen[x] = true
			out = append(out, x)
		}
	}
	return out
}

// mutateTV derives typed values near a valid one: the malformed stream of the native side
// (NativeTypeToGnmiTypedValue and handleLeafValue on values no constructor produces).
func mutateTV(r *rng.R, t ntv) ntv {
	m := ntv{Type: t.Type, Bytes: append([]byte{}, t.Bytes...), Opts: append([]int32{}, t.Opts...)}
	floaty := t.Type == 6 || t.Type == 13
	switch r.Intn(8) {
	case 0:
		if len(m.Opts) > 0 {
			m.Opts = m.Opts[:len(m.Opts)-1]
		}
	case 1:
		m.Opts = append(m.Opts, int32(r.Range(-1, 3)))
	case 2:
		if len(m.Opts) > 0 {
			m.Opts[r.Intn(len(m.Opts))] = []int32{-1, 0, 1, 2, 3, 8, 32, 33, 64, 9, 127, -128}[r.Intn(12)]
		}
	case 3:
		if !floaty && len(m.Bytes) > 0 {
			m.Bytes = m.Bytes[:len(m.Bytes)-1]
		}
	case 4:
		if !floaty {
			m.Bytes = append(m.Bytes, byte(r.U64()))
		}
	case 5:
		for {
			m.Type = int32(r.Intn(19))
			if m.Type != 6 && m.Type != 13 {
				break
			}
		}
	case 6:
		m.Opts = nil
	case 7:
		if !floaty {
			m.Bytes = nil
			n := r.Range(0, 12)
			for i := 0; i < n; i++ {
				m.Bytes = append(m.Bytes, byte(r.U64()))
			}
		}
	}
	if (m.Type == 6 || m.Type == 13) && !floaty {
		m.Type = 7
	}
	return m
}

var versions = []string{"v2", "v3"}

// valueLines is the block of script lines for one value and one set of type options.
func valueLines(g gval, o mopts) []string {
	var s []string
	gs, os := encGVal(g), encOpts(o)
	for _, v := range versions {
		s = append(s,
			fw.Join("value.tonative", v, gs, os),
			fw.Join("value.rt", v, gs, os),
			fw.Join("value.sentof", v, gs, os),
			fw.Join("value.jsonof", v, "1", "0", gs, os),
			fw.Join("value.jsonof", v, "1", "1", gs, os),
			fw.Join("value.rjson", v, "1", "0", gs, os),
			fw.Join("value.rjson", v, "1", "1", gs, os),
		)
	}
	s = append(s, fw.Join("value.jsonof", "v2", "0", "0", gs, os), fw.Join("value.jsonof", "v3", "0", "1", gs, os))
	return s
}

func tvLines(t ntv) []string {
	var s []string
	ts := encTV(t)
	for _, v := range versions {
		s = append(s, fw.Join("value.tognmi", v, ts), fw.Join("value.sent", v, ts),
			fw.Join("value.json", v, "1", "0", ts), fw.Join("value.json", v, "1", "1", ts))
	}
	s = append(s, fw.Join("value.json", "v2", "0", "1", ts), fw.Join("value.json", "v3", "0", "0", ts))
	return s
}

// e2eOK: values the end-to-end run may carry — nothing that panics inside a controller
// goroutine (which would take the whole harness process down, as it does the real server).
func e2eOK(g gval, o mopts) bool {
	if o.nilPath {
		return false
	}
	ok := func(s scalar) bool {
		switch s.k {
		case kDecNil:
			return false
		case kDec:
			return s.prec%256 <= 18
		case kFloat:
			return !isNaN(s.bits)
		case kStr, kAscii:
			return utf8.Valid(s.b)
		}
		return true
	}
	if !g.ll {
		// a scalar JsonVal takes the other branch of doUpdateOrReplace (the plugin extracts the values)
		return ok(g.s) && g.s.k != kOther
	}
	for _, e := range g.es {
		// a float leaf-list with an infinite member wedges its proposal (KF-C17-llfloat-inf-wedge):
		// only the corpus script exercises that, every such Set costs the full time-out
		if !ok(e) || (e.k == kFloat && !finite(e.bits)) {
			return false
		}
	}
	return true
}

func e2eLine(g gval, o mopts) string { return fw.Join("value.e2e", encGVal(g), encOpts(o)) }

func mkCase(g gval, o mopts, tvs []ntv, extra []string, tags []string) fw.Case {
	s := valueLines(g, o)
	for _, t := range tvs {
		s = append(s, tvLines(t)...)
	}
	s = append(s, extra...)
	dt, nt := describe(g, o)
	return fw.Case{Script: s, Tags: dedup(append(tags, dt...)), Nontrivial: nt}
}

// ---- several leaves in one Set, read back by one Get ----

func intOf(i int64) gval              { return gval{s: scalar{k: kInt, i: i}} }
func decOf(d int64, p uint32) gval    { return gval{s: scalar{k: kDec, i: d, prec: p}} }
func llOf(k skind, es ...scalar) gval { return gval{ll: true, es: es} }
func w(opts ...uint64) mopts          { return mopts{opts: append([]uint64{}, opts...)} }
func si(i int64) scalar               { return scalar{k: kInt, i: i} }
func su(u uint64) scalar              { return scalar{k: kUint, u: u} }
func sby(b ...byte) scalar            { return scalar{k: kBytes, b: b} }
func sd(d int64, p uint32) scalar     { return scalar{k: kDec, i: d, prec: p} }

// collidingGroup: values whose stored Bytes are equal although the values differ — the
// difference (sign, precision, member boundaries) lives in TypeOpts.
func collidingGroup(r *rng.R) []leafItem {
	mags := []int64{1, 5, 127, 128, 255, 258, 65535, 1 << 31, 1<<63 - 1, 123456}
	v := mags[r.Intn(len(mags))]
	wo := []mopts{w(), w(8), w(32), w(64)}[r.Intn(4)]
	switch r.Intn(8) {
	case 0: // sign of an int
		return []leafItem{{intOf(v), wo}, {intOf(-v), wo}}
	case 1: // sign and precision of a decimal
		p1, p2 := precisions[r.Intn(len(precisions))], precisions[r.Intn(len(precisions))]
		if p1 == p2 {
			p2 = (p1 + 2) % 19
		}
		return []leafItem{{decOf(v, p1), w()}, {decOf(v, p2), w()}, {decOf(-v, p1), w()}}
	case 2: // member boundaries of an int leaf-list: [1,2] / [258] / signs
		return []leafItem{{llOf(kInt, si(1), si(2)), wo}, {llOf(kInt, si(258)), wo}, {llOf(kInt, si(-1), si(2)), wo}, {llOf(kInt, si(1), si(-2)), wo}}
	case 3: // uint leaf-lists: [1,2] / [258]; [0,5] / [5] (a zero has no bytes)
		return []leafItem{{llOf(kUint, su(1), su(2)), wo}, {llOf(kUint, su(258)), wo}, {llOf(kUint, su(0), su(5)), wo}, {llOf(kUint, su(5)), wo}}
	case 4: // bytes leaf-lists: [ab,c] / [a,bc] / [abc]
		a, b, c := byte(r.U64()|1), byte(r.U64()), byte(r.U64()|1)
		return []leafItem{{llOf(kBytes, sby(a, b), sby(c)), w()}, {llOf(kBytes, sby(a), sby(b, c)), w()}, {llOf(kBytes, sby(a, b, c)), w()}}
	case 5: // decimal leaf-lists of one digit string at two precisions, and signs
		return []leafItem{{llOf(kDec, sd(v, 1), sd(7, 1)), w(1)}, {llOf(kDec, sd(v, 3), sd(7, 3)), w(3)}, {llOf(kDec, sd(-v, 1), sd(7, 1)), w(1)}}
	case 6: // an int leaf-list of random magnitudes cut at two places
		x, y, z := int64(r.Intn(255)+1), int64(r.Intn(256)), int64(r.Intn(255)+1)
		return []leafItem{{llOf(kInt, si(x*256+y), si(z)), wo}, {llOf(kInt, si(x), si(y*256+z)), wo}, {llOf(kInt, si(-(x*256 + y)), si(z)), wo}}
	}
	// the same value at several leaves (what a per-response cache is for)
	g, o, _ := genValue(r)
	for !e2eOK(g, o) || !inDomain(g) {
		g, o, _ = genValue(r)
	}
	return []leafItem{{g, o}, {g, o}, {intOf(v), wo}, {intOf(-v), wo}}
}

func multiLine(items []leafItem) string {
	toks := []string{"value.e2em"}
	for _, it := range items {
		toks = append(toks, encGVal(it.g), encOpts(it.o))
	}
	return fw.Join(toks...)
}

func decMulti(line string) ([]leafItem, bool) {
	toks := strings.Fields(line)
	if len(toks) < 3 || toks[0] != "value.e2em" || len(toks)%2 != 1 {
		return nil, false
	}
	var items []leafItem
	for i := 1; i < len(toks); i += 2 {
		g, ok1 := decGVal(toks[i])
		o, ok2 := decOpts(toks[i+1])
		if !ok1 || !ok2 {
			return nil, false
		}
		items = append(items, leafItem{g: g, o: o})
	}
	return items, true
}

func mkMultiCase(items []leafItem, tags []string) fw.Case {
	return fw.Case{Script: []string{multiLine(items)}, Tags: dedup(tags), Nontrivial: true}
}

func genMulti(r *rng.R) fw.Case {
	tags := []string{"end-to-end-multi"}
	var items []leafItem
	if r.Chance(4, 5) {
		items = collidingGroup(r)
		tags = append(tags, "colliding-bytes")
	}
	for n := r.Range(0, 2); n > 0 || len(items) < 2; n-- {
		g, o, _ := genValue(r)
		if o.nilPath {
			o = mopts{opts: []uint64{}}
		}
		if !e2eOK(g, o) || (!inDomain(g) && !r.Chance(1, 6)) {
			continue
		}
		items = append(items, leafItem{g, o})
	}
	// shuffle: which colliding value is converted first decides what a cache would return
	for i := len(items) - 1; i > 0; i-- {
		j := r.Intn(i + 1)
		items[i], items[j] = items[j], items[i]
	}
	if len(items) > 6 {
		items = items[:6]
	}
	mon := true
	for _, it := range items {
		mon = mon && inDomain(it.g)
	}
	if mon {
		tags = append(tags, "monitored")
	}
	c := mkMultiCase(items, tags)
	if len(items) >= 2 && r.Chance(1, 2) {
		// the same leaves were set before, each to its neighbour's value: with a colliding group the earlier
		// value has the same stored bytes and type as the new one and differs in the type options only
		// (sign, precision, member lengths) - the stores must still end up with the new value
		prev := make([]leafItem, len(items))
		for i := range items {
			j := i ^ 1
			if j >= len(items) {
				j = i
			}
			prev[i] = items[j]
		}
		ok := true
		if ok {
			c.Script = []string{strings.Replace(multiLine(prev), "value.e2em", "value.e2eprev", 1), c.Script[0]}
			c.Tags = append(c.Tags, "overwrites-earlier-set")
		}
	}
	return c
}

func gen(r *rng.R, tier string) fw.Case {
	multiDen := 12
	if tier == "thorough" {
		multiDen = 150
	}
	if r.Chance(1, multiDen) {
		return genMulti(r)
	}
	g, o, tags := genValue(r)
	var tvs []ntv
	var extra []string
	// the native value the real conversion produces, and neighbours of it
	if t, ok := realNative(g, o); ok {
		n := r.Range(0, 2)
		for i := 0; i < n; i++ {
			tvs = append(tvs, mutateTV(r, t))
		}
		if n > 0 {
			tags = append(tags, "mutated-native")
		}
	}
	if !g.ll && g.s.k == kDec && g.s.prec <= 255 {
		extra = append(extra, fw.Join("value.strdec", strconv.FormatInt(g.s.i, 10), uitoa(g.s.prec)))
	}
	if inDomain(g) {
		tags = append(tags, "monitored")
	}
	e2eDen := 8 // quick: ~300 end-to-end Sets; thorough: ~2000 of 120000 cases
	if tier == "thorough" {
		e2eDen = 80
	}
	if r.Chance(1, e2eDen) && e2eOK(g, o) {
		extra = append(extra, e2eLine(g, o))
		tags = append(tags, "end-to-end")
	}
	return mkCase(g, o, tvs, extra, tags)
}

func uitoa(u uint32) string {
	if u == 0 {
		return "0"
	}
	var b []byte
	for u > 0 {
		b = append([]byte{byte('0' + u%10)}, b...)
		u /= 10
	}
	return string(b)
}

func realNative(g gval, o mopts) (t ntv, ok bool) {
	defer func() {
		if recover() != nil {
			ok = false
		}
	}()
	t, err := apis["v2"].toNative(gvalToPb(g), o)
	return t, err == nil
}

// enumerate: exhaustive small spaces —
//
//	every scalar type at every width option with every extreme of the universe,
//	every bytes leaf-list of up to 3 members over {[], [1], [2,3]},
//	every string leaf-list of up to 3 members over {"", "a", 0x1D, "b\x1dc"},
//	every int/uint leaf-list of length 2 over the 64-bit extremes at width 8/32/64,
//	every decimal with digits in a signed window around 0 and ±10^p at every legal precision window.
func enumerate(tier string) []fw.Case {
	var out []fw.Case
	add := func(g gval, o mopts, tag string) {
		c := mkCase(g, o, nil, nil, []string{tag})
		c.Nontrivial = true
		if inDomain(g) {
			c.Tags = append(c.Tags, "monitored")
		}
		out = append(out, c)
	}
	ws := []mopts{{nilPath: true}, {opts: []uint64{8}}, {opts: []uint64{16}}, {opts: []uint64{32}}, {opts: []uint64{64}}}
	for _, o := range ws {
		for _, i := range intExtremes {
			add(gval{s: scalar{k: kInt, i: i}}, o, "enum-int")
		}
		for _, u := range uintExtremes {
			add(gval{s: scalar{k: kUint, u: u}}, o, "enum-uint")
		}
	}
	for _, s := range stringUniverse {
		add(gval{s: scalar{k: kStr, b: []byte(s)}}, mopts{nilPath: true}, "enum-string")
	}
	for _, b := range bytesUniverse {
		add(gval{s: scalar{k: kBytes, b: b}}, mopts{nilPath: true}, "enum-bytes")
	}
	for _, f := range floatBits {
		add(gval{s: scalar{k: kFloat, bits: f}}, mopts{nilPath: true}, "enum-float")
	}
	for _, f := range nanBits {
		add(gval{s: scalar{k: kFloat, bits: f}}, mopts{nilPath: true}, "enum-float-nan")
	}
	add(gval{s: scalar{k: kBool, t: true}}, mopts{nilPath: true}, "enum-bool")
	add(gval{s: scalar{k: kBool, t: false}}, mopts{opts: []uint64{}}, "enum-bool")
	// decimals around zero and around ±10^p
	for _, p := range []uint32{0, 1, 2, 3, 18} {
		pow := int64(1)
		for i := uint32(0); i < p; i++ {
			pow *= 10
		}
		ds := []int64{0, 1, -1, 5, -5, 9, -9, 10, -10, pow - 1, -(pow - 1), pow, -pow, pow + 1, -(pow + 1), 10*pow + 5, -(10*pow + 5),
			math.MaxInt64, math.MinInt64, 123456, -123456}
		for _, d := range ds {
			add(gval{s: scalar{k: kDec, i: d, prec: p}}, mopts{nilPath: true}, "enum-decimal")
		}
	}
	for _, p := range badPrecisions {
		add(gval{s: scalar{k: kDec, i: 1234, prec: p}}, mopts{nilPath: true}, "enum-decimal-bad-precision")
	}
	// bytes and string leaf-lists, all member combinations up to length 3
	bm := [][]byte{{}, {1}, {2, 3}}
	sm := []string{"", "a", "\x1d", "b\x1dc"}
	var rec func(n int, cur []int, base int, f func([]int))
	rec = func(n int, cur []int, base int, f func([]int)) {
		if len(cur) == n {
			f(cur)
			return
		}
		for i := 0; i < base; i++ {
			rec(n, append(append([]int{}, cur...), i), base, f)
		}
	}
	for n := 1; n <= 4; n++ {
		if n == 4 && tier != "thorough" {
			break
		}
		rec(n, nil, len(bm), func(ix []int) {
			g := gval{ll: true}
			for _, i := range ix {
				g.es = append(g.es, scalar{k: kBytes, b: bm[i]})
			}
			add(g, mopts{nilPath: true}, "enum-leaflist-bytes")
		})
		if n <= 3 {
			rec(n, nil, len(sm), func(ix []int) {
				g := gval{ll: true}
				for _, i := range ix {
					g.es = append(g.es, scalar{k: kStr, b: []byte(sm[i])})
				}
				add(g, mopts{nilPath: true}, "enum-leaflist-string")
			})
		}
	}
	ie := []int64{0, -1, 255, -256, math.MaxInt64, math.MinInt64}
	ue := []uint64{0, 1, 256, math.MaxUint64, 1 << 63}
	for _, o := range []mopts{{nilPath: true}, {opts: []uint64{8}}, {opts: []uint64{64}}} {
		for _, a := range ie {
			for _, b := range ie {
				add(gval{ll: true, es: []scalar{{k: kInt, i: a}, {k: kInt, i: b}}}, o, "enum-leaflist-int")
			}
		}
		for _, a := range ue {
			for _, b := range ue {
				add(gval{ll: true, es: []scalar{{k: kUint, u: a}, {k: kUint, u: b}}}, o, "enum-leaflist-uint")
			}
		}
	}
	for _, p := range []uint32{0, 2, 18} {
		add(gval{ll: true, es: []scalar{{k: kDec, i: -5, prec: p}, {k: kDec, i: 123456, prec: p}, {k: kDec, i: math.MinInt64, prec: p}}},
			mopts{opts: []uint64{uint64(p)}}, "enum-leaflist-decimal")
	}
	add(gval{ll: true, es: []scalar{{k: kFloat, bits: 0x3DCCCCCD}, {k: kFloat, bits: 0xC0200000}, {k: kFloat, bits: 1}, {k: kFloat, bits: 0x80000000}}},
		mopts{nilPath: true}, "enum-leaflist-float")
	add(gval{ll: true, es: []scalar{{k: kBool, t: true}, {k: kBool, t: false}, {k: kBool, t: true}}}, mopts{nilPath: true}, "enum-leaflist-bool")
	return out
}

// shrinkCase proposes smaller values: fewer members, shorter members, simpler numbers.
func shrinkCase(c fw.Case) []fw.Case {
	if len(c.Script) == 1 {
		if items, ok := decMulti(c.Script[0]); ok {
			var out []fw.Case
			for i := range items {
				if len(items) < 2 {
					break
				}
				rest := append(append([]leafItem{}, items[:i]...), items[i+1:]...)
				nc := mkMultiCase(rest, c.Tags)
				nc.Origin = c.Origin
				out = append(out, nc)
			}
			return out
		}
	}
	g, o, ok := caseValue(c)
	if !ok {
		return nil
	}
	var out []fw.Case
	hasE2E := false
	for _, ln := range c.Script {
		if strings.HasPrefix(ln, "value.e2e") {
			hasE2E = true
		}
	}
	add := func(ng gval, no mopts) {
		var extra []string
		if hasE2E && e2eOK(ng, no) {
			extra = []string{e2eLine(ng, no)}
		}
		nc := mkCase(ng, no, nil, extra, c.Tags)
		nc.Origin = c.Origin
		out = append(out, nc)
	}
	base := len(valueLines(g, o))
	if hasE2E {
		base++
	}
	if len(c.Script) > base {
		add(g, o) // drop the native-side and extra lines
	}
	if g.ll {
		for i := range g.es {
			ng := gval{ll: true, es: append(append([]scalar{}, g.es[:i]...), g.es[i+1:]...)}
			add(ng, o)
		}
		for i, e := range g.es {
			for _, ne := range shrinkScalar(e) {
				ng := gval{ll: true, es: append([]scalar{}, g.es...)}
				ng.es[i] = ne
				add(ng, o)
			}
		}
	} else {
		for _, ns := range shrinkScalar(g.s) {
			add(gval{s: ns}, o)
		}
	}
	if !o.nilPath {
		add(g, mopts{nilPath: true})
	}
	return out
}

func shrinkScalar(s scalar) []scalar {
	var out []scalar
	switch s.k {
	case kBytes:
		if len(s.b) > 0 {
			out = append(out, scalar{k: s.k, b: s.b[1:]}, scalar{k: s.k, b: s.b[:len(s.b)-1]})
		}
	case kStr, kAscii:
		// whole characters, so that a shrunk string stays a protobuf string
		if rs := []rune(string(s.b)); len(rs) > 0 && utf8.Valid(s.b) {
			out = append(out, scalar{k: s.k, b: []byte(string(rs[1:]))}, scalar{k: s.k, b: []byte(string(rs[:len(rs)-1]))})
		}
	case kInt:
		if s.i != 0 {
			out = append(out, scalar{k: kInt, i: 0}, scalar{k: kInt, i: s.i / 2}, scalar{k: kInt, i: s.i / 10})
		}
	case kUint:
		if s.u != 0 {
			out = append(out, scalar{k: kUint, u: 0}, scalar{k: kUint, u: s.u / 2})
		}
	case kDec:
		if s.i != 0 && s.i != -1 {
			out = append(out, scalar{k: kDec, i: s.i / 10, prec: s.prec}, scalar{k: kDec, i: -1, prec: s.prec})
		}
		if s.prec > 1 {
			out = append(out, scalar{k: kDec, i: s.i, prec: s.prec - 1})
		}
	}
	return out
}

// caseValue decodes the value and options a case is about (its first line).
func caseValue(c fw.Case) (gval, mopts, bool) {
	if len(c.Script) == 0 {
		return gval{}, mopts{}, false
	}
	toks := strings.Fields(c.Script[0])
	if len(toks) != 4 || toks[0] != "value.tonative" {
		return gval{}, mopts{}, false
	}
	g, ok1 := decGVal(toks[2])
	o, ok2 := decOpts(toks[3])
	return g, o, ok1 && ok2
}
