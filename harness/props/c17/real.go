package c17

import (
	"bytes"
	"encoding/json"
	"strings"

	gogoproto "github.com/gogo/protobuf/proto"
	adminapi "github.com/onosproject/onos-api/go/onos/config/admin"
	configv2 "github.com/onosproject/onos-api/go/onos/config/v2"
	configv3 "github.com/onosproject/onos-api/go/onos/config/v3"
	treev2 "github.com/onosproject/onos-config/pkg/utils/v2/tree"
	valuesv2 "github.com/onosproject/onos-config/pkg/utils/v2/values"
	treev3 "github.com/onosproject/onos-config/pkg/utils/v3/tree"
	valuesv3 "github.com/onosproject/onos-config/pkg/utils/v3/values"
	pb "github.com/openconfig/gnmi/proto/gnmi"
)

// api is one of the two (textually identical) value packages of the repository.
type api struct {
	toNative func(g *pb.TypedValue, o mopts) (ntv, error)
	toGnmi   func(t ntv) (*pb.TypedValue, error)
	// sent: the value PathValuesToGnmiChange puts in the southbound SetRequest for path /x
	sent func(t ntv) (*pb.TypedValue, error)
	// tree: BuildTree of the single path value /x; nilBytes = Bytes is a nil slice
	tree func(t ntv, rfc bool) ([]byte, error)
	// stored: the typed value after protobuf marshalling and unmarshalling (what a store returns)
	stored func(t ntv) (ntv, bool)
}

// items of an earlier Set on the leaves of the next value.e2em (see value.e2eprev)
// realState is the state of ONE script execution (fw calls NewReal per case; cases run concurrently in
// worker goroutines of one process, so none of this may be a package variable)
type realState struct {
	pendingPrev []leafItem
}

func (st *realState) Exec(line string) string { return st.exec(line) }

func (st *realState) Close() {}

func fromV2(tv *configv2.TypedValue) ntv {
	return ntv{Bytes: tv.Bytes, Type: int32(tv.Type), Opts: tv.TypeOpts}
}
func toV2(t ntv) configv2.TypedValue {
	return configv2.TypedValue{Bytes: t.Bytes, Type: configv2.ValueType(t.Type), TypeOpts: t.Opts}
}
func fromV3(tv *configv3.TypedValue) ntv {
	return ntv{Bytes: tv.Bytes, Type: int32(tv.Type), Opts: tv.TypeOpts}
}
func toV3(t ntv) configv3.TypedValue {
	return configv3.TypedValue{Bytes: t.Bytes, Type: configv3.ValueType(t.Type), TypeOpts: t.Opts}
}

var apis = map[string]*api{
	"v2": {
		toNative: func(g *pb.TypedValue, o mopts) (ntv, error) {
			var mp *adminapi.ReadWritePath
			if !o.nilPath {
				mp = &adminapi.ReadWritePath{TypeOpts: o.opts}
			}
			tv, err := valuesv2.GnmiTypedValueToNativeType(g, mp)
			if err != nil {
				return ntv{}, err
			}
			return fromV2(tv), nil
		},
		toGnmi: func(t ntv) (*pb.TypedValue, error) {
			tv := toV2(t)
			return valuesv2.NativeTypeToGnmiTypedValue(&tv)
		},
		sent: func(t ntv) (*pb.TypedValue, error) {
			req, err := valuesv2.PathValuesToGnmiChange([]*configv2.PathValue{{Path: "/x", Value: toV2(t)}}, "t")
			if err != nil {
				return nil, err
			}
			if len(req.Update) != 1 || len(req.Delete) != 0 || len(req.Replace) != 0 {
				return nil, errShape
			}
			return req.Update[0].Val, nil
		},
		tree: func(t ntv, rfc bool) ([]byte, error) {
			return treev2.BuildTree([]*configv2.PathValue{{Path: "/x", Value: toV2(t)}}, rfc)
		},
		stored: func(t ntv) (ntv, bool) {
			tv := toV2(t)
			b, err := gogoproto.Marshal(&tv)
			if err != nil {
				return ntv{}, false
			}
			var back configv2.TypedValue
			if err := gogoproto.Unmarshal(b, &back); err != nil {
				return ntv{}, false
			}
			return fromV2(&back), true
		},
	},
	"v3": {
		toNative: func(g *pb.TypedValue, o mopts) (ntv, error) {
			var mp *configv3.ReadWritePath
			if !o.nilPath {
				mp = &configv3.ReadWritePath{TypeOpts: o.opts}
			}
			tv, err := valuesv3.GnmiTypedValueToNativeType(g, mp)
			if err != nil {
				return ntv{}, err
			}
			return fromV3(tv), nil
		},
		toGnmi: func(t ntv) (*pb.TypedValue, error) {
			tv := toV3(t)
			return valuesv3.NativeTypeToGnmiTypedValue(&tv)
		},
		sent: func(t ntv) (*pb.TypedValue, error) {
			req, err := valuesv3.PathValuesToGnmiChange([]configv3.PathValue{{Path: "/x", Value: toV3(t)}}, "t")
			if err != nil {
				return nil, err
			}
			if len(req.Update) != 1 || len(req.Delete) != 0 || len(req.Replace) != 0 {
				return nil, errShape
			}
			return req.Update[0].Val, nil
		},
		tree: func(t ntv, rfc bool) ([]byte, error) {
			return treev3.BuildTree([]configv3.PathValue{{Path: "/x", Value: toV3(t)}}, rfc)
		},
		stored: func(t ntv) (ntv, bool) {
			tv := toV3(t)
			b, err := gogoproto.Marshal(&tv)
			if err != nil {
				return ntv{}, false
			}
			var back configv3.TypedValue
			if err := gogoproto.Unmarshal(b, &back); err != nil {
				return ntv{}, false
			}
			return fromV3(&back), true
		},
	},
}

type shapeErr struct{}

func (shapeErr) Error() string { return "unexpected SetRequest shape" }

var errShape = shapeErr{}

func errClass(err error) string {
	m := err.Error()
	switch {
	case strings.Contains(m, "leaf list type Not yet supported"):
		return "err llNotSupported"
	case strings.Contains(m, "not yet supported"):
		return "err notSupported"
	case strings.Contains(m, "empty leaf list given"):
		return "err emptyLeafList"
	case strings.Contains(m, "Unsupported type"):
		return "err unsupportedType"
	case strings.Contains(m, "decimal64 precision"):
		return "err decimalPrecision"
	case strings.Contains(m, "NaN is not supported"):
		return "err floatNaN"
	}
	return "err other:" + strings.ReplaceAll(m, " ", "_")
}

// floatText says that the JSON text of this typed value is a Go float (or a %f string), which
// the twin does not render: both sides answer `float` (the real text is checked by the monitor
// on the real-only `value.rjson` lines).
func floatText(t ntv, rfc bool) bool {
	switch configv2.ValueType(t.Type) {
	case configv2.ValueType_FLOAT, configv2.ValueType_LEAFLIST_FLOAT, configv2.ValueType_LEAFLIST_DECIMAL:
		return true
	case configv2.ValueType_DECIMAL:
		return !rfc
	}
	return false
}

// leafText extracts the compact JSON text of the leaf /x from a BuildTree document:
// "none" when the leaf is absent, otherwise the token.
func leafText(doc []byte) (string, bool) {
	var top map[string]json.RawMessage
	if err := json.Unmarshal(doc, &top); err != nil {
		return "", false
	}
	raw, ok := top["x"]
	if !ok {
		if len(top) == 0 {
			return "none", true
		}
		return "", false
	}
	var buf bytes.Buffer
	if err := json.Compact(&buf, raw); err != nil {
		return "", false
	}
	return "ok " + encB(buf.Bytes()), true
}

// decoy is rendered by a second BuildTree call while the first document is still held: a caller
// (Get with several paths, the validation of several targets) keeps the returned bytes, so they
// must not change when BuildTree is called again.
var decoy = ntv{Type: 1, Bytes: []byte("~~~~ decoy document rendered while the previous one is still in use ~~~~ 0123456789 0123456789 0123456789")}

func jsonAnswer(a *api, t ntv, rfc bool, hideFloat bool) string {
	doc, err := a.tree(t, rfc)
	if err == nil {
		snap := append([]byte{}, doc...)
		_, _ = a.tree(decoy, rfc)
		_, _ = a.tree(ntv{Type: 4, Bytes: []byte{1}}, rfc)
		if !bytes.Equal(snap, doc) {
			return "err document-changed-by-a-later-BuildTree:was=" + encB(snap) + ":now=" + encB(doc)
		}
	}
	if err != nil {
		if floatText(t, rfc) && hideFloat {
			return "float" // e.g. json: unsupported value: +Inf
		}
		return "err tree:" + strings.ReplaceAll(err.Error(), " ", "_")
	}
	if hideFloat && floatText(t, rfc) {
		return "float"
	}
	txt, ok := leafText(doc)
	if !ok {
		return "err doc:" + encB(doc)
	}
	return txt
}

func (st *realState) exec(line string) (out string) {
	defer func() {
		if r := recover(); r != nil {
			out = "panic"
		}
	}()
	toks := strings.Fields(line)
	if len(toks) < 2 {
		return "bad-op"
	}
	op, args := toks[0], toks[1:]
	if op == "value.strdec" {
		if len(args) != 2 {
			return "bad-op"
		}
		s, ok := decScalar("D:" + args[0] + ":" + args[1])
		if !ok || s.prec > 255 {
			return "bad-op"
		}
		str := (*configv2.TypedDecimal)(configv2.NewTypedValueDecimal(s.i, uint8(s.prec))).String()
		str3 := (*configv3.TypedDecimal)(configv3.NewTypedValueDecimal(s.i, uint8(s.prec))).String()
		if str != str3 {
			return "err v2-v3-differ"
		}
		return "ok " + encB([]byte(str))
	}
	if op == "value.e2eprev" {
		// value.e2eprev <gval> <opts> …: the NEXT value.e2em first sets these values on the same leaves of
		// the same target (an earlier Set that the one under test overwrites); implementation only
		var items []leafItem
		for i := 0; i+1 < len(args); i += 2 {
			g, ok1 := decGVal(args[i])
			o, ok2 := decOpts(args[i+1])
			if !ok1 || !ok2 || o.nilPath {
				return "bad-op"
			}
			items = append(items, leafItem{g: g, o: o})
		}
		st.pendingPrev = items
		return "ok"
	}
	if op == "value.e2em" {
		// value.e2em <gval> <opts> <gval> <opts> …: one Set of several leaves, read back together
		if len(args) < 2 || len(args)%2 != 0 {
			return "bad-op"
		}
		var items []leafItem
		for i := 0; i < len(args); i += 2 {
			g, ok1 := decGVal(args[i])
			o, ok2 := decOpts(args[i+1])
			if !ok1 || !ok2 || o.nilPath {
				return "bad-op"
			}
			items = append(items, leafItem{g: g, o: o})
		}
		prev := st.pendingPrev
		st.pendingPrev = nil
		return e2em(items, prev)
	}
	if op == "value.e2e" {
		if len(args) != 2 {
			return "bad-op"
		}
		g, ok1 := decGVal(args[0])
		o, ok2 := decOpts(args[1])
		if !ok1 || !ok2 || o.nilPath {
			return "bad-op"
		}
		return e2e(g, o)
	}
	a, ok := apis[args[0]]
	if !ok {
		return "bad-op"
	}
	args = args[1:]
	switch op {
	case "value.tonative", "value.rt", "value.sentof":
		if len(args) != 2 {
			return "bad-op"
		}
		g, ok1 := decGVal(args[0])
		o, ok2 := decOpts(args[1])
		if !ok1 || !ok2 {
			return "bad-op"
		}
		t, err := a.toNative(gvalToPb(g), o)
		if err != nil {
			return errClass(err)
		}
		if op == "value.tonative" {
			return "ok " + encTV(t)
		}
		var back *pb.TypedValue
		if op == "value.rt" {
			back, err = a.toGnmi(t)
		} else {
			st, ok := a.stored(t)
			if !ok {
				return "err proto"
			}
			back, err = a.sent(st)
		}
		if err != nil {
			return errClass(err)
		}
		return "ok " + encGVal(pbToGVal(back))
	case "value.tognmi", "value.sent":
		if len(args) != 1 {
			return "bad-op"
		}
		t, ok := decTV(args[0])
		if !ok {
			return "bad-op"
		}
		var back *pb.TypedValue
		var err error
		if op == "value.tognmi" {
			back, err = a.toGnmi(t)
		} else {
			back, err = a.sent(t)
		}
		if err != nil {
			return errClass(err)
		}
		return "ok " + encGVal(pbToGVal(back))
	case "value.json":
		if len(args) != 3 {
			return "bad-op"
		}
		t, ok := decTV(args[2])
		if !ok {
			return "bad-op"
		}
		if args[1] == "1" && len(t.Bytes) == 0 {
			t.Bytes = nil
		}
		return jsonAnswer(a, t, args[0] == "1", true)
	case "value.jsonof", "value.rjson":
		// value.jsonof <rfc> <stored> <gval> <opts>; value.rjson is the same, real side only,
		// and never hides a float text
		if len(args) != 4 {
			return "bad-op"
		}
		g, ok1 := decGVal(args[2])
		o, ok2 := decOpts(args[3])
		if !ok1 || !ok2 {
			return "bad-op"
		}
		t, err := a.toNative(gvalToPb(g), o)
		if err != nil {
			return errClass(err)
		}
		if args[1] == "1" {
			st, ok := a.stored(t)
			if !ok {
				return "err proto"
			}
			t = st
		}
		return jsonAnswer(a, t, args[0] == "1", op == "value.jsonof")
	}
	return "bad-op"
}
