// Package c17 ties the Lean value twin (OnosVerif/Value) to pkg/utils/v{2,3}/values/gnmi_value.go,
// gnmi_change.go, the onos-api typed-value code they call and the leaf rendering of
// pkg/utils/v{2,3}/tree/tree.go, and evaluates C17's statement ("values survive the journey
// unchanged") on the real functions.
package c17

import (
	"encoding/base64"
	"encoding/json"
	"fmt"
	"math"
	"math/big"
	"strconv"
	"strings"
	"unicode/utf8"

	"github.com/onosproject/onos-config/verifharness/internal/fw"
)

// ---- the property's own domain and expectations (independent of the twin) ----

func scalarInDomain(s scalar) bool {
	switch s.k {
	case kStr, kAscii:
		return utf8.Valid(s.b) // a protobuf string field is valid UTF-8
	case kInt, kUint, kBool, kBytes:
		return true
	case kDec:
		return s.prec <= 18
	case kFloat:
		return !isNaN(s.bits)
	}
	return false
}

// inDomain: a supported scalar, or a non-empty homogeneous leaf-list of supported scalars
// (decimals of one precision).
func inDomain(g gval) bool {
	if !g.ll {
		return scalarInDomain(g.s)
	}
	if len(g.es) == 0 {
		return false
	}
	for _, e := range g.es {
		if !scalarInDomain(e) || e.k != g.es[0].k || (e.k == kDec && e.prec != g.es[0].prec) {
			return false
		}
	}
	return true
}

// wireDecodable: the value can arrive in a gNMI request (a DecimalVal member always carries a
// message once it went through protobuf decoding).
func wireDecodable(g gval) bool {
	if !g.ll {
		return g.s.k != kDecNil
	}
	for _, e := range g.es {
		if e.k == kDecNil {
			return false
		}
	}
	return true
}

// canon: the value a client reads back is the value it set; an AsciiVal is delivered as the
// StringVal with the same text (same value, the only string member the code emits).
func canon(g gval) gval {
	c := func(s scalar) scalar {
		if s.k == kAscii {
			s.k = kStr
		}
		return s
	}
	if !g.ll {
		return gval{s: c(g.s)}
	}
	out := gval{ll: true}
	for _, e := range g.es {
		out.es = append(out.es, c(e))
	}
	return out
}

// exactDecimal is the decimal64 lexical form: sign, integer part, '.', exactly `prec` digits.
func exactDecimal(digits int64, prec uint32) string {
	n := big.NewInt(digits)
	neg := n.Sign() < 0
	n.Abs(n)
	s := n.String()
	if prec > 0 {
		for uint32(len(s)) <= prec {
			s = "0" + s
		}
		s = s[:uint32(len(s))-prec] + "." + s[uint32(len(s))-prec:]
	}
	if neg {
		s = "-" + s
	}
	return s
}

func jsonWidth(o mopts) (uint64, bool) {
	if o.nilPath || len(o.opts) == 0 {
		return 32, true
	}
	switch o.opts[0] {
	case 8, 16, 32, 64:
		return o.opts[0], true
	}
	return 0, false
}

// checkScalarToken: the RFC 7951 token of one scalar (inArray: member of a leaf-list array).
func checkScalarToken(s scalar, w uint64, tok string, inArray bool) string {
	quoted := func(x string) string { return "\"" + x + "\"" }
	switch s.k {
	case kStr, kAscii:
		var back string
		if len(tok) == 0 || tok[0] != '"' || json.Unmarshal([]byte(tok), &back) != nil {
			return "string rendered as " + tok
		}
		if back != string(s.b) {
			return fmt.Sprintf("string %q reads back as %q", string(s.b), back)
		}
	case kInt:
		want := strconv.FormatInt(s.i, 10)
		if w > 32 {
			want = quoted(want)
		}
		if tok != want {
			return fmt.Sprintf("int%d %d rendered as %s, want %s", w, s.i, tok, want)
		}
	case kUint:
		want := strconv.FormatUint(s.u, 10)
		if w > 32 {
			want = quoted(want)
		}
		if tok != want {
			return fmt.Sprintf("uint%d %d rendered as %s, want %s", w, s.u, tok, want)
		}
	case kBool:
		if tok != strconv.FormatBool(s.t) {
			return "bool rendered as " + tok
		}
	case kBytes:
		if want := quoted(base64.StdEncoding.EncodeToString(s.b)); tok != want {
			return fmt.Sprintf("bytes %x rendered as %s, want %s", s.b, tok, want)
		}
	case kDec:
		if want := quoted(exactDecimal(s.i, s.prec)); tok != want {
			return fmt.Sprintf("decimal64 digits=%d precision=%d rendered as %s, want %s", s.i, s.prec, tok, want)
		}
	case kFloat:
		txt := tok
		if len(txt) >= 2 && txt[0] == '"' {
			txt = txt[1 : len(txt)-1]
		}
		f, err := strconv.ParseFloat(txt, 32)
		if err != nil || math.Float32bits(float32(f)) != s.bits {
			return fmt.Sprintf("float32 %v (bits %#x) rendered as %s, which does not read back as that value", math.Float32frombits(s.bits), s.bits, tok)
		}
	}
	return ""
}

func finite(bits uint32) bool { return bits&0x7F800000 != 0x7F800000 }

// checkJSON: the document leaf for value g under RFC 7951.
func checkJSON(g gval, o mopts, ans string) string {
	w, ok := jsonWidth(o)
	if !ok {
		return ""
	}
	if !strings.HasPrefix(ans, "ok ") {
		if g.ll && g.es[0].k == kFloat {
			for _, e := range g.es {
				if !finite(e.bits) {
					return "" // JSON has no number for an infinity: not in the property's domain
				}
			}
		}
		return "no leaf in the document: " + ans
	}
	b, okb := decB(ans[3:])
	if !okb {
		return "undecodable answer " + ans
	}
	tok := string(b)
	if !g.ll {
		return checkScalarToken(g.s, w, tok, false)
	}
	var arr []json.RawMessage
	if len(tok) == 0 || tok[0] != '[' || json.Unmarshal(b, &arr) != nil {
		return "leaf-list rendered as " + tok
	}
	if len(arr) != len(g.es) {
		return fmt.Sprintf("leaf-list of %d members rendered with %d members: %s", len(g.es), len(arr), tok)
	}
	for i, e := range g.es {
		if m := checkScalarToken(e, w, string(arr[i]), true); m != "" {
			return fmt.Sprintf("member %d: %s", i, m)
		}
	}
	return ""
}

// monitor evaluates C17 line by line on the real answers.  Messages are `<rule>@<line>: text`.
func monitor(c fw.Case, out []string) []string {
	var fails []string
	for i, ln := range c.Script {
		if i >= len(out) {
			break
		}
		toks := strings.Fields(ln)
		if toks[0] == "value.e2eprev" {
			continue
		}
		if toks[0] == "value.e2em" {
			fails = append(fails, monitorMulti(i, ln, out[i])...)
			continue
		}
		var g gval
		var o mopts
		var ok1, ok2 bool
		switch toks[0] {
		case "value.tonative", "value.rt", "value.sentof":
			if len(toks) != 4 {
				continue
			}
			g, ok1 = decGVal(toks[2])
			o, ok2 = decOpts(toks[3])
		case "value.jsonof", "value.rjson":
			if len(toks) != 6 {
				continue
			}
			g, ok1 = decGVal(toks[4])
			o, ok2 = decOpts(toks[5])
		case "value.e2e":
			if len(toks) != 3 {
				continue
			}
			g, ok1 = decGVal(toks[1])
			o, ok2 = decOpts(toks[2])
		default:
			continue
		}
		if !ok1 || !ok2 {
			continue
		}
		if out[i] == "panic" && wireDecodable(g) {
			fails = append(fails, fmt.Sprintf("panic@%d: %s panics on a value a gNMI request can carry (%s)", i, toks[0], encGVal(g)))
			continue
		}
		if !inDomain(g) {
			continue
		}
		switch toks[0] {
		case "value.rt":
			if want := "ok " + encGVal(canon(g)); out[i] != want {
				fails = append(fails, fmt.Sprintf("roundtrip@%d: the value read back (PROTO) is not the value set: got %s want %s", i, out[i], want))
			}
		case "value.sentof":
			if want := "ok " + encGVal(canon(g)); out[i] != want {
				fails = append(fails, fmt.Sprintf("sent@%d: the value sent to the device is not the value set: got %s want %s", i, out[i], want))
			}
		case "value.rjson":
			if toks[2] != "1" {
				continue
			}
			if m := checkJSON(g, o, out[i]); m != "" {
				fails = append(fails, fmt.Sprintf("json@%d: %s", i, m))
			}
		case "value.e2e":
			// Set -> stored -> validated by the plugin -> committed -> Get
			if !strings.HasPrefix(out[i], "ok ") {
				fails = append(fails, fmt.Sprintf("roundtrip@%d: a Set of a supported value is not accepted end to end: %s", i, out[i]))
				continue
			}
			f := e2eFields(out[i])
			if want := encGVal(canon(g)); f["proto"] != want {
				fails = append(fails, fmt.Sprintf("roundtrip@%d: Get (PROTO) after Set returns %s, the value set is %s", i, f["proto"], want))
			}
			for _, k := range []string{"json", "plugin"} {
				if f[k] == "float" {
					continue // text of a Go float: checked on the value.rjson lines
				}
				ans := "ok " + f[k]
				if f[k] == "none" || f[k] == "absent" {
					ans = f[k]
				}
				if m := checkJSON(g, o, ans); m != "" {
					what := "the document Get (JSON) returns"
					if k == "plugin" {
						what = "the document the model plugin validated"
					}
					fails = append(fails, fmt.Sprintf("json@%d: %s: %s", i, what, m))
				}
			}
		}
	}
	return fails
}

// monitorMulti: one Set of several leaves; every value one Get returns is the value set at that
// leaf, in PROTO encoding, in the JSON document of the container, in the documents of a Get that
// names every leaf, and in the document the plugin validated.  Messages are `<rule>@<line>#<leaf>`.
func monitorMulti(i int, line, ans string) []string {
	items, ok := decMulti(line)
	if !ok {
		return nil
	}
	for _, it := range items {
		if ans == "panic" && wireDecodable(it.g) && !inDomain(it.g) {
			return []string{fmt.Sprintf("panic@%d#0: a Set panics on values a gNMI request can carry", i)}
		}
		if !inDomain(it.g) {
			return nil
		}
	}
	var fails []string
	if !strings.HasPrefix(ans, "ok ") {
		k := 0
		for j, it := range items { // point at the member a known finding is about, if any
			if it.g.ll && len(it.g.es) > 0 && it.g.es[0].k == kFloat {
				k = j
			}
		}
		return []string{fmt.Sprintf("roundtrip@%d#%d: a Set of supported values is not accepted end to end: %s", i, k, ans)}
	}
	f := e2eFields(ans)
	proto := strings.Split(f["proto"], ";")
	if len(proto) != len(items) {
		return []string{fmt.Sprintf("roundtrip@%d#0: one Get (PROTO) of %d leaves returns %s", i, len(items), f["proto"])}
	}
	for k, it := range items {
		if want := encGVal(canon(it.g)); proto[k] != want {
			fails = append(fails, fmt.Sprintf("roundtrip@%d#%d: leaf /c/x%d: one Get (PROTO) of all leaves returns %s, the value set is %s", i, k, k, proto[k], want))
		}
	}
	for _, field := range []string{"json", "jsonm", "plugin"} {
		what := map[string]string{"json": "the document Get (JSON) returns for the container",
			"jsonm": "the document for this leaf in a Get (JSON_IETF) naming every leaf", "plugin": "the document the model plugin validated"}[field]
		toks := strings.Split(f[field], ";")
		if len(toks) != len(items) {
			fails = append(fails, fmt.Sprintf("json@%d#0: %s: %s", i, what, f[field]))
			continue
		}
		for k, it := range items {
			if toks[k] == "float" {
				continue
			}
			a := "ok " + toks[k]
			if !isHex(toks[k]) {
				a = toks[k]
			}
			if m := checkJSON(it.g, it.o, a); m != "" {
				fails = append(fails, fmt.Sprintf("json@%d#%d: leaf /c/x%d: %s: %s", i, k, k, what, m))
			}
		}
	}
	return fails
}

func isHex(s string) bool {
	if s == "-" {
		return true
	}
	if len(s) == 0 || len(s)%2 != 0 {
		return false
	}
	for _, c := range s {
		if !(c >= '0' && c <= '9' || c >= 'a' && c <= 'f') {
			return false
		}
	}
	return true
}

// ---- signatures of the listed known findings ----

// failing returns the rule and the decoded script line a monitor message is about.
func failing(c fw.Case, msg string) (rule string, op string, stored bool, g gval, o mopts, ok bool) {
	head, _, found := strings.Cut(msg, ":")
	if !found {
		return
	}
	rule, idx, found := strings.Cut(head, "@")
	if !found {
		return
	}
	leaf := 0
	if a, b, has := strings.Cut(idx, "#"); has {
		idx = a
		leaf, _ = strconv.Atoi(b)
	}
	i, err := strconv.Atoi(idx)
	if err != nil || i < 0 || i >= len(c.Script) {
		return
	}
	toks := strings.Fields(c.Script[i])
	op = toks[0]
	if op == "value.e2em" {
		items, okm := decMulti(c.Script[i])
		if !okm || leaf < 0 || leaf >= len(items) {
			return
		}
		return rule, "value.e2e", true, items[leaf].g, items[leaf].o, true
	}
	var ok1, ok2 bool
	switch len(toks) {
	case 3: // value.e2e: the value went through the stores
		stored = true
		g, ok1 = decGVal(toks[1])
		o, ok2 = decOpts(toks[2])
	case 4:
		g, ok1 = decGVal(toks[2])
		o, ok2 = decOpts(toks[3])
	case 6:
		stored = toks[3] == "1"
		g, ok1 = decGVal(toks[4])
		o, ok2 = decOpts(toks[5])
	}
	ok = ok1 && ok2
	return
}

func sigBytesLeafListEmptyMember(c fw.Case, out []string, msg string) bool {
	rule, _, _, g, _, ok := failing(c, msg)
	if !ok || !g.ll || (rule != "roundtrip" && rule != "sent" && rule != "json") {
		return false
	}
	for i, e := range g.es {
		if e.k != kBytes {
			return false
		}
		if i > 0 && len(e.b) == 0 {
			return true
		}
	}
	return false
}

func sigStringLeafList1D(c fw.Case, out []string, msg string) bool {
	rule, _, _, g, _, ok := failing(c, msg)
	if !ok || !g.ll || (rule != "roundtrip" && rule != "sent" && rule != "json") {
		return false
	}
	for _, e := range g.es {
		if (e.k == kStr || e.k == kAscii) && strings.Contains(string(e.b), "\x1d") {
			return true
		}
	}
	return false
}

func sigDecimalSignLost(c fw.Case, out []string, msg string) bool {
	rule, _, _, g, _, ok := failing(c, msg)
	if !ok || g.ll || rule != "json" || g.s.k != kDec || g.s.i >= 0 {
		return false
	}
	pow := new(big.Int).Exp(big.NewInt(10), big.NewInt(int64(g.s.prec)), nil)
	return new(big.Int).Abs(big.NewInt(g.s.i)).Cmp(pow) < 0
}

func sigFloatPercentF(c fw.Case, out []string, msg string) bool {
	rule, _, _, g, _, ok := failing(c, msg)
	return ok && !g.ll && rule == "json" && g.s.k == kFloat
}

func sigDecimalLeafListFloat(c fw.Case, out []string, msg string) bool {
	rule, _, _, g, _, ok := failing(c, msg)
	return ok && g.ll && rule == "json" && len(g.es) > 0 && g.es[0].k == kDec
}

func sigEmptyBytesNull(c fw.Case, out []string, msg string) bool {
	rule, _, stored, g, _, ok := failing(c, msg)
	return ok && !g.ll && rule == "json" && stored && g.s.k == kBytes && len(g.s.b) == 0
}

func sigLeafListFloatInfWedge(c fw.Case, out []string, msg string) bool {
	rule, op, _, g, _, ok := failing(c, msg)
	if !ok || !g.ll || rule != "roundtrip" || op != "value.e2e" || !strings.Contains(msg, "wedged") {
		return false
	}
	for _, e := range g.es {
		if e.k == kFloat && !finite(e.bits) {
			return true
		}
	}
	return false
}

// Prop is the C17 correspondence check.
var Prop = &fw.Prop{
	ID: "C17",
	Rule: "one gNMI typed value per case (a scalar of every type: string/ascii/int/uint/bool/bytes/decimal64/float, or a leaf-list of 0-5 members) with the model's type options " +
		"(none, empty, width 8/16/32/64, and odd ones: 0, 33, 300, 2^32+64, 2^64-1); integers from the extremes of every width (0, ±1, ±2^7.., ±2^31, 2^32, ±2^63, 2^64-1) and random bit patterns; " +
		"strings/bytes incl. empty, 0x1D, quotes, control and multi-byte characters; decimals at precision 0-18 (and a bad-precision stream); float32 bit patterns incl. ±0, subnormals, max, ±Inf, NaN; " +
		"a malformed stream (mixed lists, nil members, unsupported oneof members) and native typed values mutated around the real conversion result; both API versions (v2, v3) on every line; " +
		"one case in 8 (quick) also sends the value through the real Set handler, transaction/proposal/configuration controllers and stores, records the document the plugin validated and reads it back with Get in PROTO, JSON and JSON_IETF encoding; " +
		"one case in 12 is ONE Set of 2-6 leaves — mostly groups whose stored Bytes are equal although the values differ (sign, precision, leaf-list member boundaries live in TypeOpts: 5/-5, 1234 p=2/p=4, [1,2]/[258], [ab,c]/[a,bc]) — read back by one Get (PROTO) and one Get (JSON) of the container and one Get (JSON_IETF) naming every leaf, every returned value and document compared with what was set; " +
		"every BuildTree document is held across two further BuildTree calls before it is read; " +
		"plus exhaustive enumeration of the extremes × widths, decimals around 0 and ±10^p, and all bytes/string leaf-lists up to 3 members over a universe with empty and 0x1D members. " +
		"Non-trivial = a boundary value, a width above 32, or a leaf-list with an empty member; distinct = distinct script.",
	Quick: 3000, Thorough: 120000,
	Gen: gen, Enumerate: enumerate,
	NewReal:  func() fw.Real { return &realState{} },
	Monitor:  monitor,
	Shrink:   shrinkCase,
	RealOnly: func(line string) bool {
		return strings.HasPrefix(line, "value.rjson") || strings.HasPrefix(line, "value.e2eprev")
	},
	// the monitor addresses lines by their index in the script
	FixedLayout: true,
	Sigs: map[string]func(fw.Case, []string, string) bool{
		"bytesLeafListEmptyMember": sigBytesLeafListEmptyMember,
		"stringLeafList1D":         sigStringLeafList1D,
		"decimalSignLost":          sigDecimalSignLost,
		"floatPercentF":            sigFloatPercentF,
		"decimalLeafListFloat":     sigDecimalLeafListFloat,
		"emptyBytesNull":           sigEmptyBytesNull,
		"leafListFloatInfWedge":    sigLeafListFloatInfWedge,
	},
}

func init() { fw.Register(Prop) }
