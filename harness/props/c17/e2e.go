package c17

// End-to-end observation: a gNMI Set goes through the real northbound server (model lookup,
// GnmiTypedValueToNativeType, CheckKeyValue, transaction creation), the real transaction and
// proposal controllers (validation: the RFC 7951 document handed to the model plugin; commit into
// the configuration store) over the in-memory atomix test client, and is read back with the
// real Get in PROTO and JSON encoding.  Fakes (topo, plugin registry, plugin) live here.

import (
	"bytes"
	"context"
	"encoding/json"
	"fmt"
	"strings"
	"sync"
	"time"

	"github.com/atomix/go-sdk/pkg/test"
	gogoproto "github.com/gogo/protobuf/proto"
	adminapi "github.com/onosproject/onos-api/go/onos/config/admin"
	configv2 "github.com/onosproject/onos-api/go/onos/config/v2"
	topoapi "github.com/onosproject/onos-api/go/onos/topo"
	configurationcontroller "github.com/onosproject/onos-config/pkg/controller/v2/configuration"
	proposalcontroller "github.com/onosproject/onos-config/pkg/controller/v2/proposal"
	transactioncontroller "github.com/onosproject/onos-config/pkg/controller/v2/transaction"
	gnmiv2 "github.com/onosproject/onos-config/pkg/northbound/gnmi/v2"
	"github.com/onosproject/onos-config/pkg/pluginregistry"
	sb "github.com/onosproject/onos-config/pkg/southbound/gnmi"
	"github.com/onosproject/onos-config/pkg/store/v2/configuration"
	"github.com/onosproject/onos-config/pkg/store/v2/proposal"
	"github.com/onosproject/onos-config/pkg/store/v2/transaction"
	"github.com/onosproject/onos-config/pkg/utils"
	pathutils "github.com/onosproject/onos-config/pkg/utils/path"
	"github.com/onosproject/onos-lib-go/pkg/logging"
	pb "github.com/openconfig/gnmi/proto/gnmi"
)

func init() {
	logging.SetLevel(logging.FatalLevel)
}

const modelName, modelVersion = "m", "1.0.0"

type fakeTopo struct{}

func (fakeTopo) Create(ctx context.Context, object *topoapi.Object) error { return nil }
func (fakeTopo) Update(ctx context.Context, object *topoapi.Object) error { return nil }
func (fakeTopo) Delete(ctx context.Context, object *topoapi.Object) error { return nil }
func (fakeTopo) List(ctx context.Context, filters *topoapi.Filters) ([]topoapi.Object, error) {
	return nil, nil
}
func (fakeTopo) Watch(ctx context.Context, ch chan<- topoapi.Event, filters *topoapi.Filters) error {
	return nil
}
func (fakeTopo) Get(ctx context.Context, id topoapi.ID) (*topoapi.Object, error) {
	entity := &topoapi.Object{ID: id, Type: topoapi.Object_ENTITY, Obj: &topoapi.Object_Entity{Entity: &topoapi.Entity{}}}
	_ = entity.SetAspect(&topoapi.Configurable{Type: modelName, Target: string(id), Version: modelVersion})
	return entity, nil
}

type fakePlugin struct {
	mu      sync.Mutex
	rw      pathutils.ReadWritePathMap
	lastDoc []byte
	docs    int
}

func (p *fakePlugin) GetInfo() *pluginregistry.ModelPluginInfo {
	p.mu.Lock()
	defer p.mu.Unlock()
	rw := pathutils.ReadWritePathMap{}
	for k, v := range p.rw {
		rw[k] = v
	}
	return &pluginregistry.ModelPluginInfo{Info: adminapi.ModelInfo{Name: modelName, Version: modelVersion}, ReadWritePaths: rw}
}
func (p *fakePlugin) Capabilities(ctx context.Context) *pb.CapabilityResponse {
	return &pb.CapabilityResponse{}
}
func (p *fakePlugin) Validate(ctx context.Context, jsonData []byte) error {
	p.mu.Lock()
	defer p.mu.Unlock()
	p.lastDoc = append([]byte{}, jsonData...)
	p.docs++
	return nil
}
func (p *fakePlugin) GetPathValues(ctx context.Context, pathPrefix string, jsonData []byte) ([]*configv2.PathValue, error) {
	return nil, nil
}
func (p *fakePlugin) LeafValueSelection(ctx context.Context, selectionPath string, jsonData []byte) ([]string, error) {
	return nil, nil
}

type fakeRegistry struct{ p *fakePlugin }

func (fakeRegistry) Start() {}
func (fakeRegistry) Stop()  {}
func (r fakeRegistry) GetPlugin(model configv2.TargetType, version configv2.TargetVersion) (pluginregistry.ModelPlugin, bool) {
	return r.p, string(model) == modelName && string(version) == modelVersion
}
func (r fakeRegistry) GetPlugins() []pluginregistry.ModelPlugin {
	return []pluginregistry.ModelPlugin{r.p}
}
func (fakeRegistry) NewClientFn(func(endpoint string) (adminapi.ModelPluginServiceClient, error)) {}

type env struct {
	server  *gnmiv2.Server
	txs     transaction.Store
	plugin  *fakePlugin
	n       int
	stopAll func()
}

var (
	envMu  sync.Mutex
	theEnv *env
)

// envLife: Sets served by one set of stores and controllers before it is replaced (the stores
// keep every transaction and proposal, so a long-lived environment slows down).
const envLife = 60

type startStopper interface {
	Start() error
	Stop()
}

func newEnv() (*env, error) {
	cluster := test.NewClient()
	cfgs, err := configuration.NewAtomixStore(cluster)
	if err != nil {
		return nil, err
	}
	props, err := proposal.NewAtomixStore(cluster)
	if err != nil {
		return nil, err
	}
	txs, err := transaction.NewAtomixStore(cluster)
	if err != nil {
		return nil, err
	}
	plugin := &fakePlugin{rw: pathutils.ReadWritePathMap{}}
	reg := fakeRegistry{p: plugin}
	topo := fakeTopo{}
	conns := sb.NewConnManager()
	ctrls := []startStopper{
		configurationcontroller.NewController(topo, conns, cfgs),
		proposalcontroller.NewController(topo, conns, props, cfgs, reg),
		transactioncontroller.NewController(txs, props),
	}
	for _, c := range ctrls {
		if err := c.Start(); err != nil {
			return nil, err
		}
	}
	return &env{server: gnmiv2.NewServerForVerif(topo, txs, props, cfgs, reg, conns, 0), txs: txs, plugin: plugin,
		stopAll: func() {
			for _, c := range ctrls {
				c.Stop()
			}
			_ = txs.Close(context.Background())
			_ = props.Close(context.Background())
			_ = cfgs.Close(context.Background())
			cluster.Close()
		}}, nil
}

// getEnv returns the current environment; the caller holds envMu.
func getEnv() (*env, error) {
	if theEnv != nil && theEnv.n >= envLife {
		theEnv.stopAll()
		theEnv = nil
	}
	if theEnv == nil {
		e, err := newEnv()
		if err != nil {
			return nil, err
		}
		theEnv = e
	}
	return theEnv, nil
}

func leafPath(target string) *pb.Path {
	return &pb.Path{Target: target, Elem: []*pb.PathElem{{Name: "x"}}}
}

// e2e runs one Set of /x = g on a fresh target whose model gives /x the type options o, and
// reports what is stored, what the plugin validated, and what Get returns.
// answered runs an end-to-end Set; a Set that is not answered within a short deadline is tried
// once more on a fresh environment with a long deadline, so that a loaded machine is not
// mistaken for a proposal that never leaves its phase.
func answered(run func(timeout time.Duration) string) string {
	envMu.Lock()
	defer envMu.Unlock()
	out := run(3 * time.Second)
	if out == "wedged" {
		if theEnv != nil {
			theEnv.stopAll()
			theEnv = nil
		}
		out = run(15 * time.Second)
	}
	return out
}

func e2e(g gval, o mopts) string {
	return answered(func(timeout time.Duration) string { return e2eOnce(g, o, timeout) })
}

func e2eOnce(g gval, o mopts, timeout time.Duration) (out string) {
	e, err := getEnv()
	if err != nil {
		return "err env:" + strings.ReplaceAll(err.Error(), " ", "_")
	}
	defer func() {
		if r := recover(); r != nil {
			out = "panic"
		}
	}()
	e.n++
	target := fmt.Sprintf("t%d", e.n)
	e.plugin.mu.Lock()
	e.plugin.rw = pathutils.ReadWritePathMap{"/x": adminapi.ReadWritePath{TypeOpts: o.opts}}
	e.plugin.lastDoc = nil
	e.plugin.mu.Unlock()

	ctx, cancel := context.WithTimeout(context.Background(), timeout)
	defer cancel()
	resp, err := e.server.Set(ctx, &pb.SetRequest{Update: []*pb.Update{{Path: leafPath(target), Val: gvalToPb(g)}}})
	if err != nil {
		if ctx.Err() != nil {
			return "wedged" // never answered: the harness' own deadline expired
		}
		return "refused " + strings.TrimPrefix(errClass(err), "err ")
	}
	info := &configv2.TransactionInfo{}
	if len(resp.Extension) != 1 || gogoproto.Unmarshal(resp.Extension[0].GetRegisteredExt().GetMsg(), info) != nil {
		return "err no-transaction-info"
	}
	tx, err := e.txs.Get(ctx, info.ID)
	if err != nil {
		return "err tx:" + strings.ReplaceAll(err.Error(), " ", "_")
	}
	pv, ok := tx.GetChange().Values[configv2.TargetID(target)].Values["/x"]
	if !ok {
		return "err value-not-in-transaction"
	}
	stored := fromV2(&pv.Value)

	e.plugin.mu.Lock()
	doc := e.plugin.lastDoc
	e.plugin.mu.Unlock()
	pluginTxt := "absent"
	if doc != nil {
		if floatText(stored, true) {
			pluginTxt = "float"
		} else if t, ok := leafText(doc); ok {
			pluginTxt = strings.TrimPrefix(t, "ok ")
		} else {
			pluginTxt = "bad:" + encB(doc)
		}
	}

	getLeaf := func(enc pb.Encoding) (*pb.TypedValue, string) {
		r, err := e.server.Get(ctx, &pb.GetRequest{Path: []*pb.Path{leafPath(target)}, Encoding: enc})
		if err != nil {
			return nil, "err:" + strings.ReplaceAll(err.Error(), " ", "_")
		}
		if len(r.Notification) != 1 || len(r.Notification[0].Update) != 1 {
			return nil, fmt.Sprintf("shape:%d", len(r.Notification))
		}
		return r.Notification[0].Update[0].Val, ""
	}
	protoTxt := ""
	if v, bad := getLeaf(pb.Encoding_PROTO); bad != "" {
		protoTxt = bad
	} else {
		protoTxt = encGVal(pbToGVal(v))
	}
	jsonTxt := ""
	for _, enc := range []pb.Encoding{pb.Encoding_JSON, pb.Encoding_JSON_IETF} {
		t := ""
		if v, bad := getLeaf(enc); bad != "" {
			t = bad
		} else if floatText(stored, true) {
			t = "float"
		} else if lt, ok := leafText(v.GetJsonVal()); ok {
			t = strings.TrimPrefix(lt, "ok ")
		} else {
			t = "bad:" + encB(v.GetJsonVal())
		}
		if jsonTxt != "" && t != jsonTxt {
			t = "json-and-json-ietf-differ:" + jsonTxt + "/" + t
		}
		jsonTxt = t
	}
	return fmt.Sprintf("ok stored=%s proto=%s json=%s plugin=%s", encTV(stored), protoTxt, jsonTxt, pluginTxt)
}

type leafItem struct {
	g gval
	o mopts
}

func leafName(i int) string { return fmt.Sprintf("x%d", i) }

func multiPath(target string, i int) *pb.Path {
	p := &pb.Path{Target: target, Elem: []*pb.PathElem{{Name: "c"}}}
	if i >= 0 {
		p.Elem = append(p.Elem, &pb.PathElem{Name: leafName(i)})
	}
	return p
}

// docLeaves extracts the compact texts of the leaves /c/x0 … /c/x(n-1) of a document.
func docLeaves(doc []byte, n int, stored []ntv) string {
	var top map[string]json.RawMessage
	parts := make([]string, n)
	if err := json.Unmarshal(doc, &top); err != nil {
		return "bad:" + encB(doc)
	}
	var c map[string]json.RawMessage
	if raw, ok := top["c"]; ok {
		if err := json.Unmarshal(raw, &c); err != nil {
			return "bad:" + encB(doc)
		}
	}
	for i := 0; i < n; i++ {
		raw, ok := c[leafName(i)]
		switch {
		case !ok:
			parts[i] = "none"
		case floatText(stored[i], true):
			parts[i] = "float"
		default:
			var buf bytes.Buffer
			if err := json.Compact(&buf, raw); err != nil {
				return "bad:" + encB(doc)
			}
			parts[i] = encB(buf.Bytes())
		}
	}
	return strings.Join(parts, ";")
}

// e2em: one Set of the leaves /c/x0 … on a fresh target (each with its own model type options),
// then: the stored values, the document the plugin validated, ONE Get (PROTO) of the container —
// every value of the response is reported —, one Get (JSON) of the container, and one Get
// (JSON_IETF) naming every leaf separately, whose documents are all held until the response is
// complete.
func e2em(items, prev []leafItem) string {
	return answered(func(timeout time.Duration) string { return e2emOnce(items, prev, timeout) })
}

func e2emOnce(items, prev []leafItem, timeout time.Duration) (out string) {
	e, err := getEnv()
	if err != nil {
		return "err env:" + strings.ReplaceAll(err.Error(), " ", "_")
	}
	defer func() {
		if r := recover(); r != nil {
			out = "panic"
		}
	}()
	e.n++
	target := fmt.Sprintf("t%d", e.n)
	rw := pathutils.ReadWritePathMap{}
	req := &pb.SetRequest{}
	for i, it := range items {
		rw["/c/"+leafName(i)] = adminapi.ReadWritePath{TypeOpts: it.o.opts}
		req.Update = append(req.Update, &pb.Update{Path: multiPath(target, i), Val: gvalToPb(it.g)})
	}
	e.plugin.mu.Lock()
	e.plugin.rw = rw
	e.plugin.lastDoc = nil
	e.plugin.mu.Unlock()

	ctx, cancel := context.WithTimeout(context.Background(), timeout)
	defer cancel()
	if prev != nil {
		// an earlier Set on the same leaves: what is read back below must be the values of the Set under
		// test, whatever the stores held before (same bytes with other type options included)
		preq := &pb.SetRequest{}
		for i, it := range prev {
			if i < len(items) {
				preq.Update = append(preq.Update, &pb.Update{Path: multiPath(target, i), Val: gvalToPb(it.g)})
			}
		}
		if _, err := e.server.Set(ctx, preq); err != nil {
			if ctx.Err() != nil {
				return "wedged"
			}
			// refused (the neighbour's value does not fit this leaf's type options, or is itself a value
			// the server refuses): nothing of it is stored, the Set under test runs on the untouched target
		}
		e.plugin.mu.Lock()
		e.plugin.lastDoc = nil
		e.plugin.mu.Unlock()
	}
	resp, err := e.server.Set(ctx, req)
	if err != nil {
		if ctx.Err() != nil {
			return "wedged"
		}
		return "refused " + strings.TrimPrefix(errClass(err), "err ")
	}
	info := &configv2.TransactionInfo{}
	if len(resp.Extension) != 1 || gogoproto.Unmarshal(resp.Extension[0].GetRegisteredExt().GetMsg(), info) != nil {
		return "err no-transaction-info"
	}
	tx, err := e.txs.Get(ctx, info.ID)
	if err != nil {
		return "err tx:" + strings.ReplaceAll(err.Error(), " ", "_")
	}
	n := len(items)
	stored := make([]ntv, n)
	storedTxt := make([]string, n)
	for i := range items {
		pv, ok := tx.GetChange().Values[configv2.TargetID(target)].Values["/c/"+leafName(i)]
		if !ok {
			return "err value-not-in-transaction"
		}
		stored[i] = fromV2(&pv.Value)
		storedTxt[i] = encTV(stored[i])
	}
	e.plugin.mu.Lock()
	doc := e.plugin.lastDoc
	e.plugin.mu.Unlock()
	pluginTxt := "absent"
	if doc != nil {
		pluginTxt = docLeaves(doc, n, stored)
	}

	// one PROTO Get of the container: every update of the response, by path
	protoTxt := ""
	if r, err := e.server.Get(ctx, &pb.GetRequest{Path: []*pb.Path{multiPath(target, -1)}, Encoding: pb.Encoding_PROTO}); err != nil {
		protoTxt = "err:" + strings.ReplaceAll(err.Error(), " ", "_")
	} else if len(r.Notification) != 1 {
		protoTxt = fmt.Sprintf("shape:%d", len(r.Notification))
	} else {
		got := map[string]string{}
		for _, u := range r.Notification[0].Update {
			got[utils.StrPath(u.Path)] = encGVal(pbToGVal(u.Val))
		}
		parts := make([]string, n)
		for i := range items {
			v, ok := got["/c/"+leafName(i)]
			if !ok {
				v = "missing"
			}
			parts[i] = v
		}
		if len(got) != n {
			parts = append(parts, fmt.Sprintf("updates:%d", len(got)))
		}
		protoTxt = strings.Join(parts, ";")
	}

	// one JSON Get of the container
	jsonTxt := ""
	if r, err := e.server.Get(ctx, &pb.GetRequest{Path: []*pb.Path{multiPath(target, -1)}, Encoding: pb.Encoding_JSON}); err != nil {
		jsonTxt = "err:" + strings.ReplaceAll(err.Error(), " ", "_")
	} else if len(r.Notification) != 1 || len(r.Notification[0].Update) != 1 {
		jsonTxt = fmt.Sprintf("shape:%d", len(r.Notification))
	} else {
		jsonTxt = docLeaves(r.Notification[0].Update[0].Val.GetJsonVal(), n, stored)
	}

	// one JSON_IETF Get naming every leaf: n notifications, all inspected after the call returned
	var paths []*pb.Path
	for i := range items {
		paths = append(paths, multiPath(target, i))
	}
	jsonmTxt := ""
	if r, err := e.server.Get(ctx, &pb.GetRequest{Path: paths, Encoding: pb.Encoding_JSON_IETF}); err != nil {
		jsonmTxt = "err:" + strings.ReplaceAll(err.Error(), " ", "_")
	} else if len(r.Notification) != n {
		jsonmTxt = fmt.Sprintf("shape:%d", len(r.Notification))
	} else {
		parts := make([]string, n)
		for i := range items {
			us := r.Notification[i].Update
			if len(us) != 1 {
				parts[i] = fmt.Sprintf("updates:%d", len(us))
				continue
			}
			// the document of notification i must hold leaf i (and only what matches its path)
			all := strings.Split(docLeaves(us[0].Val.GetJsonVal(), n, stored), ";")
			if len(all) != n {
				parts[i] = strings.Join(all, ";")
				continue
			}
			parts[i] = all[i]
			for j, t := range all {
				if j != i && t != "none" {
					parts[i] += fmt.Sprintf("+x%d", j)
				}
			}
		}
		jsonmTxt = strings.Join(parts, ";")
	}
	return fmt.Sprintf("ok stored=%s proto=%s json=%s jsonm=%s plugin=%s", strings.Join(storedTxt, ";"), protoTxt, jsonTxt, jsonmTxt, pluginTxt)
}

// e2eReal is the same run without hiding float texts: the monitor's view (real side only).
func e2eFields(ans string) map[string]string {
	m := map[string]string{}
	for _, f := range strings.Fields(ans) {
		if k, v, ok := strings.Cut(f, "="); ok {
			m[k] = v
		}
	}
	return m
}
