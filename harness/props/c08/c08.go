// Package c08 ties the Lean wait-loop twin (OnosVerif/NB/Wait) to the real handlers `Set`
// (pkg/northbound/gnmi/v2) and `RollbackTransaction` (pkg/northbound/admin), invoked in-process on the real v2
// transaction store (atomix test client) behind a decorator that moves the transaction's status along a
// scripted path: the first j writes inside Create (before the handler subscribes), the rest once the replayed
// event has been handed to the handler.  The monitor evaluates C08's statement on the real answers.
package c08

import (
	"context"
	"fmt"
	"sort"
	"strconv"
	"strings"
	"sync"
	"time"

	"github.com/atomix/go-sdk/pkg/test"
	"github.com/gogo/protobuf/proto"
	"github.com/golang/mock/gomock"
	adminapi "github.com/onosproject/onos-api/go/onos/config/admin"
	configapi "github.com/onosproject/onos-api/go/onos/config/v2"
	topoapi "github.com/onosproject/onos-api/go/onos/topo"
	pluginmock "github.com/onosproject/onos-config/internal/pluginregistry"
	topomock "github.com/onosproject/onos-config/internal/store/topo"
	"github.com/onosproject/onos-config/pkg/northbound/admin"
	gnmisrv "github.com/onosproject/onos-config/pkg/northbound/gnmi/v2"
	"github.com/onosproject/onos-config/pkg/pluginregistry"
	txstore "github.com/onosproject/onos-config/pkg/store/v2/transaction"
	"github.com/onosproject/onos-config/pkg/utils"
	"github.com/onosproject/onos-config/pkg/utils/path"
	"github.com/onosproject/onos-config/verifharness/internal/fw"
	"github.com/onosproject/onos-config/verifharness/internal/rng"
	"github.com/onosproject/onos-config/verifharness/internal/worker"
	"github.com/onosproject/onos-lib-go/pkg/errors"
	"github.com/onosproject/onos-lib-go/pkg/logging"
	"github.com/openconfig/gnmi/proto/gnmi"
	"github.com/openconfig/gnmi/proto/gnmi_ext"
)

func init() {
	logging.SetLevel(logging.FatalLevel)
	worker.Serve("c08", func() fw.Real { return &real{} })
	fw.Register(Prop)
}

var pool = &worker.Pool{Name: "c08", CasesPerWorker: 120}

// ---- status paths -------------------------------------------------------------------------------

type stat struct {
	state   configapi.TransactionStatus_State
	failure *configapi.Failure
	tok     string
}

func decStat(tok string) (stat, bool) {
	switch tok {
	case "P":
		return stat{configapi.TransactionStatus_PENDING, nil, tok}, true
	case "V":
		return stat{configapi.TransactionStatus_VALIDATED, nil, tok}, true
	case "C":
		return stat{configapi.TransactionStatus_COMMITTED, nil, tok}, true
	case "A":
		return stat{configapi.TransactionStatus_APPLIED, nil, tok}, true
	case "F":
		return stat{configapi.TransactionStatus_FAILED, nil, tok}, true
	}
	if strings.HasPrefix(tok, "F") {
		n, err := strconv.Atoi(tok[1:])
		if err != nil {
			return stat{}, false
		}
		return stat{configapi.TransactionStatus_FAILED, &configapi.Failure{Type: configapi.Failure_Type(n), Description: "scripted"}, tok}, true
	}
	return stat{}, false
}

// ---- the decorator around the real transaction store ---------------------------------------------

type decor struct {
	txstore.Store
	mu   sync.Mutex
	plan []stat
	j    int
	win  int // writes made after Watch has returned and before the consumer side takes the replayed event
	id   configapi.TransactionID
	wg   sync.WaitGroup
}

func (d *decor) apply(id configapi.TransactionID, s stat) {
	ctx := context.Background()
	for attempt := 0; attempt < 5; attempt++ {
		t, err := d.Store.Get(ctx, id)
		if err != nil {
			return
		}
		t.Status.State = s.state
		t.Status.Failure = s.failure
		if err := d.Store.UpdateStatus(ctx, t); err == nil || !errors.IsConflict(err) {
			return
		}
	}
}

// Create: the real Create, then the first j status writes — they are in the store before the handler subscribes.
func (d *decor) Create(ctx context.Context, tx *configapi.Transaction) error {
	if err := d.Store.Create(ctx, tx); err != nil {
		return err
	}
	d.mu.Lock()
	d.id = tx.ID
	plan, j := d.plan, d.j
	d.mu.Unlock()
	for i := 0; i < j && i < len(plan); i++ {
		d.apply(tx.ID, plan[i])
	}
	return nil
}

// Watch: the real Watch; the remaining status writes start once the first (replayed) event has been handed over.
func (d *decor) Watch(ctx context.Context, ch chan<- configapi.TransactionEvent, opts ...txstore.WatchOption) error {
	inner := make(chan configapi.TransactionEvent)
	if err := d.Store.Watch(ctx, inner, opts...); err != nil {
		return err
	}
	d.mu.Lock()
	plan, j, win, id := d.plan, d.j, d.win, d.id
	d.mu.Unlock()
	if j+win > len(plan) {
		win = len(plan) - j
	}
	d.wg.Add(1)
	go func() {
		defer d.wg.Done()
		defer close(ch)
		if win > 0 {
			// a slow consumer: Watch has returned (the store's goroutine reads the replay and parks on handing it over),
			// the controllers write on, only then does the consumer start taking events.  Nothing written after Watch
			// returned may be lost — in particular not the write that finishes the transaction.
			time.Sleep(15 * time.Millisecond)
			for i := j; i < j+win; i++ {
				d.apply(id, plan[i])
			}
			time.Sleep(15 * time.Millisecond)
			j += win
		}
		first := true
		for e := range inner {
			select {
			case ch <- e:
			case <-ctx.Done():
				for range inner {
				}
				return
			}
			if first {
				first = false
				d.wg.Add(1)
				go func() {
					defer d.wg.Done()
					for i := j; i < len(plan); i++ {
						d.apply(id, plan[i])
					}
				}()
			}
		}
	}()
	return nil
}

// ---- the executor --------------------------------------------------------------------------------

type reporter struct{}

func (reporter) Errorf(format string, args ...interface{}) {}
func (reporter) Fatalf(format string, args ...interface{}) { panic(fmt.Sprintf(format, args...)) }

type real struct {
	client *test.Client
	inner  txstore.Store
	d      *decor
	gnmi   *gnmisrv.Server
	admin  *admin.Server
	lastID configapi.TransactionID
}

var rwPaths = []string{"/a", "/b", "/c/d", "/e"}

func (r *real) setup() error {
	r.client = test.NewClient()
	s, err := txstore.NewAtomixStore(r.client)
	if err != nil {
		return err
	}
	r.inner = s
	r.d = &decor{Store: s}
	mctl := gomock.NewController(reporter{})
	topo := topomock.NewMockStore(mctl)
	registry := pluginmock.NewMockPluginRegistry(mctl)
	plugin := pluginmock.NewMockModelPlugin(mctl)
	rw := path.ReadWritePathMap{}
	for _, p := range rwPaths {
		rw[p] = adminapi.ReadWritePath{ValueType: configapi.ValueType_STRING}
	}
	plugin.EXPECT().GetInfo().AnyTimes().Return(&pluginregistry.ModelPluginInfo{
		Info: adminapi.ModelInfo{Name: "devicesim", Version: "1.0.0"}, ReadWritePaths: rw})
	registry.EXPECT().GetPlugin(gomock.Any(), gomock.Any()).AnyTimes().Return(plugin, true)
	topo.EXPECT().Get(gomock.Any(), gomock.Any()).AnyTimes().DoAndReturn(func(_ context.Context, id topoapi.ID) (*topoapi.Object, error) {
		e := &topoapi.Object{ID: id, Type: topoapi.Object_ENTITY, Obj: &topoapi.Object_Entity{Entity: &topoapi.Entity{}}}
		_ = e.SetAspect(&topoapi.Configurable{Type: "devicesim", Target: string(id), Version: "1.0.0"})
		return e, nil
	})
	r.gnmi = gnmisrv.NewServerForVerif(topo, r.d, nil, nil, registry, nil, 0)
	r.admin = admin.NewServerForVerif(r.d, nil, registry)
	return nil
}

func (r *real) Close() {
	if r.d != nil {
		r.d.wg.Wait()
	}
	if r.inner != nil {
		_ = r.inner.Close(context.Background())
	}
	if r.client != nil {
		r.client.Close()
	}
}

func argOf(args []string, key string) (string, bool) {
	for _, a := range args {
		if strings.HasPrefix(a, key+"=") {
			return a[len(key)+1:], true
		}
	}
	return "", false
}

type item struct {
	target, path string
	del          bool
}

func decChange(s string) ([]item, bool) {
	if s == "-" {
		return nil, true
	}
	var out []item
	for _, it := range strings.Split(s, ";") {
		f := strings.Split(it, ":")
		if len(f) != 3 {
			return nil, false
		}
		t, ok1 := fw.DecStr(f[0])
		p, ok2 := fw.DecStr(f[1])
		if !ok1 || !ok2 {
			return nil, false
		}
		out = append(out, item{t, p, f[2] == "1"})
	}
	return out, true
}

func gnmiPath(target, p string) (*gnmi.Path, error) {
	gp, err := utils.ParseGNMIElements(utils.SplitPath(p))
	if err != nil {
		return nil, err
	}
	gp.Target = target
	return gp, nil
}

func errText(err error) string {
	if err == context.DeadlineExceeded || err == context.Canceled {
		return "ctx"
	}
	te, ok := errors.FromGRPC(err).(*errors.TypedError)
	if !ok {
		return "err untyped"
	}
	names := map[errors.Type]string{errors.Unknown: "Unknown", errors.Canceled: "Canceled", errors.NotFound: "NotFound",
		errors.AlreadyExists: "AlreadyExists", errors.Unauthorized: "Unauthorized", errors.Forbidden: "Forbidden",
		errors.Conflict: "Conflict", errors.Invalid: "Invalid", errors.Unavailable: "Unavailable",
		errors.NotSupported: "NotSupported", errors.Timeout: "Timeout", errors.Internal: "Internal"}
	if n, ok := names[te.Type]; ok {
		return "err " + n
	}
	return "err other"
}

// Exec runs one script line.
func (r *real) Exec(line string) (out string) {
	defer func() {
		if p := recover(); p != nil {
			out = "panic " + strings.ReplaceAll(fmt.Sprint(p), " ", "_")
		}
	}()
	toks := strings.Fields(line)
	if len(toks) == 0 {
		return "bad-op"
	}
	switch toks[0] {
	case "wait.run":
		if r.d == nil {
			if err := r.setup(); err != nil {
				return "setup-error " + err.Error()
			}
		}
		r.d.wg.Wait()
		args := toks[1:]
		h, _ := argOf(args, "h")
		syncS, _ := argOf(args, "sync")
		jS, _ := argOf(args, "j")
		pathS, ok1 := argOf(args, "path")
		chS, ok2 := argOf(args, "change")
		dlS, _ := argOf(args, "deadline")
		if !ok1 || !ok2 {
			return "bad-op"
		}
		j, err := strconv.Atoi(jS)
		if err != nil {
			return "bad-op"
		}
		var plan []stat
		if pathS != "" {
			for _, t := range strings.Split(pathS, ",") {
				s, ok := decStat(t)
				if !ok {
					return "bad-op"
				}
				plan = append(plan, s)
			}
		}
		items, ok := decChange(chS)
		if !ok {
			return "bad-op"
		}
		dl, err := strconv.Atoi(dlS)
		if err != nil || dl <= 0 {
			dl = 300
		}
		win := 0
		if ws, ok := argOf(args, "win"); ok {
			win, _ = strconv.Atoi(ws)
		}
		r.d.mu.Lock()
		r.d.plan, r.d.j, r.d.win = plan, j, win
		r.d.mu.Unlock()
		ctx, cancel := context.WithTimeout(context.Background(), time.Duration(dl)*time.Millisecond)
		defer cancel()
		switch h {
		case "set":
			req := &gnmi.SetRequest{}
			for _, it := range items {
				gp, err := gnmiPath(it.target, it.path)
				if err != nil {
					return "bad-op"
				}
				if it.del {
					req.Delete = append(req.Delete, gp)
				} else {
					req.Update = append(req.Update, &gnmi.Update{Path: gp,
						Val: &gnmi.TypedValue{Value: &gnmi.TypedValue_StringVal{StringVal: "v"}}})
				}
			}
			strategy := configapi.TransactionStrategy{Synchronicity: configapi.TransactionStrategy_ASYNCHRONOUS}
			if syncS == "1" {
				strategy.Synchronicity = configapi.TransactionStrategy_SYNCHRONOUS
			}
			b, _ := strategy.Marshal()
			req.Extension = []*gnmi_ext.Extension{{Ext: &gnmi_ext.Extension_RegisteredExt{
				RegisteredExt: &gnmi_ext.RegisteredExtension{Id: configapi.TransactionStrategyExtensionID, Msg: b}}}}
			// other extensions a client may legitimately send along, BEFORE the strategy: the strategy
			// asked for is the one to be honoured wherever it stands in the list
			switch pre, _ := argOf(args, "pre"); pre {
			case "arb":
				req.Extension = append([]*gnmi_ext.Extension{{Ext: &gnmi_ext.Extension_MasterArbitration{
					MasterArbitration: &gnmi_ext.MasterArbitration{ElectionId: &gnmi_ext.Uint128{Low: 1}}}}}, req.Extension...)
			case "hist":
				req.Extension = append([]*gnmi_ext.Extension{{Ext: &gnmi_ext.Extension_History{History: &gnmi_ext.History{}}}}, req.Extension...)
			case "reg":
				req.Extension = append([]*gnmi_ext.Extension{{Ext: &gnmi_ext.Extension_RegisteredExt{
					RegisteredExt: &gnmi_ext.RegisteredExtension{Id: 999, Msg: []byte{1}}}}}, req.Extension...)
			}
			resp, err := r.gnmi.Set(ctx, req)
			if err != nil {
				if ctx.Err() != nil {
					// the caller's own deadline expired: whether the handler noticed it in its wait loop (a context
					// error) or inside a store call (atomix turns it into a typed Timeout) is timing, not an answer
					// about the transaction
					return "ctx"
				}
				return errText(err)
			}
			var rs []string
			for _, ur := range resp.Response {
				op := "U"
				if ur.Op == gnmi.UpdateResult_DELETE {
					op = "D"
				}
				rs = append(rs, fw.EncStr(ur.Path.Target)+"|"+fw.EncStr(utils.StrPath(ur.Path))+"|"+op)
			}
			sort.Strings(rs)
			info := &configapi.TransactionInfo{}
			for _, ex := range resp.Extension {
				if re := ex.GetRegisteredExt(); re != nil && re.Id == configapi.TransactionInfoExtensionID {
					_ = proto.Unmarshal(re.Msg, info)
				}
			}
			r.lastID = info.ID
			return "ok idx=" + strconv.FormatUint(uint64(info.Index), 10) + " results=" + strings.Join(rs, ",")
		case "rollback":
			resp, err := r.admin.RollbackTransaction(ctx, &adminapi.RollbackRequest{Index: 1})
			if err != nil {
				if ctx.Err() != nil {
					return "ctx"
				}
				return errText(err)
			}
			r.lastID = resp.ID
			return "ok idx=" + strconv.FormatUint(uint64(resp.Index), 10) + " results="
		}
		return "bad-op"
	case "wait.real.depart":
		// a request that gave up while the store's dispatcher still held it in a snapshot of the listeners: an
		// all-transactions watcher whose consumer is not reading yet, a transaction with a one-transaction watcher
		// (what a waiting Set handler is to the store), three status writes pile up behind the slow watcher, the
		// handler's context is cancelled, the slow consumer starts reading.  Whatever request comes next must still
		// be answered when its transaction finishes: a departed handler never blocks the dispatcher.
		if r.d == nil {
			if err := r.setup(); err != nil {
				return "setup-error " + err.Error()
			}
		}
		r.d.wg.Wait()
		bg := context.Background()
		slow := make(chan configapi.TransactionEvent)
		if err := r.inner.Watch(bg, slow); err != nil {
			return "err watch"
		}
		tx := &configapi.Transaction{ID: "departed", Details: &configapi.Transaction_Change{Change: &configapi.ChangeTransaction{}}}
		if err := r.inner.Create(bg, tx); err != nil {
			return "err create"
		}
		wctx, wcancel := context.WithCancel(bg)
		own := make(chan configapi.TransactionEvent)
		if err := r.inner.Watch(wctx, own, txstore.WithTransactionID(tx.ID)); err != nil {
			wcancel()
			return "err watch"
		}
		go func() {
			for range own {
			}
		}()
		for _, st := range []configapi.TransactionStatus_State{configapi.TransactionStatus_VALIDATED, configapi.TransactionStatus_COMMITTED, configapi.TransactionStatus_APPLIED} {
			r.d.apply(tx.ID, stat{state: st})
		}
		time.Sleep(40 * time.Millisecond)
		wcancel()
		time.Sleep(40 * time.Millisecond)
		go func() {
			for range slow {
			}
		}()
		time.Sleep(60 * time.Millisecond)
		return "ok"
	case "wait.real.stored":
		// what is stored under the identifier the last successful answer carried
		if r.d == nil || r.lastID == "" {
			return "none"
		}
		r.d.wg.Wait()
		t, err := r.inner.Get(context.Background(), r.lastID)
		if err != nil {
			return "err " + err.Error()
		}
		var rs []string
		if ch := t.GetChange(); ch != nil {
			for target, pvs := range ch.Values {
				for p, pv := range pvs.Values {
					op := "U"
					if pv.Deleted {
						op = "D"
					}
					rs = append(rs, fw.EncStr(string(target))+"|"+fw.EncStr(p)+"|"+op)
				}
			}
		}
		sort.Strings(rs)
		kind := "change"
		if t.GetRollback() != nil {
			kind = "rollback"
		}
		return "stored idx=" + strconv.FormatUint(uint64(t.Index), 10) + " kind=" + kind + " state=" + t.Status.State.String() + " results=" + strings.Join(rs, ",")
	}
	return "bad-op"
}

// ---- generators ----------------------------------------------------------------------------------

// canonical status paths of the transaction state machine, and arbitrary ones
var failNums = []int{0, 1, 2, 3, 4, 5, 6, 7, 8, 9, 10, 11, 99}

func genPath(r *rng.R) []string {
	f := func() string {
		if r.Chance(1, 8) {
			return "F"
		}
		return "F" + strconv.Itoa(failNums[r.Intn(len(failNums))])
	}
	var p []string
	rep := func(tok string) {
		p = append(p, tok)
		for r.Chance(1, 4) { // phase writes that do not change the state
			p = append(p, tok)
		}
	}
	switch k := r.Intn(10); {
	case k < 3:
		rep("V")
		rep("C")
		rep("A")
	case k < 4:
		rep("V")
		rep("C")
		p = append(p, f())
	case k < 6:
		if r.Bool() {
			rep("P")
		}
		p = append(p, f())
	case k < 7: // stuck before the end
		full := []string{"V", "C"}
		p = full[:r.Range(0, 2)]
	case k < 8:
		rep("V")
		p = append(p, f())
	default: // arbitrary
		n := r.Range(0, 5)
		for i := 0; i < n; i++ {
			p = append(p, r.Pick([]string{"P", "V", "C", "A", f()}))
		}
	}
	return p
}

func stateOf(tok string) string {
	if strings.HasPrefix(tok, "F") {
		return "F"
	}
	return tok
}

func awaited(sync bool, st string) bool {
	if sync {
		return st == "A"
	}
	return st == "C" || st == "A"
}

func finished(sync bool, st string) bool { return awaited(sync, st) || st == "F" }

func genChange(r *rng.R) string {
	n := r.Range(1, 4)
	seen := map[string]bool{}
	var items []string
	for i := 0; i < n; i++ {
		t := r.Pick([]string{"t1", "t2"})
		p := r.Pick(rwPaths)
		if seen[t+p] {
			continue
		}
		seen[t+p] = true
		d := "0"
		if r.Chance(1, 3) {
			d = "1"
		}
		items = append(items, fw.EncStr(t)+":"+fw.EncStr(p)+":"+d)
	}
	return strings.Join(items, ";")
}

func runLine(h string, sync bool, j int, p []string, change string, idx int, wins ...int) string {
	s := "0"
	if sync {
		s = "1"
	}
	effSync := sync || h == "rollback"
	last := "P"
	if len(p) > 0 {
		last = stateOf(p[len(p)-1])
	}
	dl := 250
	if finished(effSync, last) {
		dl = 2500
	}
	win := 0
	if len(wins) > 0 {
		win = wins[0]
	}
	return fmt.Sprintf("wait.run h=%s sync=%s j=%d win=%d path=%s change=%s idx=%d deadline=%d", h, s, j, win, strings.Join(p, ","), change, idx, dl)
}

func gen(r *rng.R, tier string) fw.Case {
	n := r.Range(1, 3)
	var s []string
	var tags []string
	nt := false
	for i := 0; i < n; i++ {
		h := "set"
		change := genChange(r)
		if r.Chance(1, 4) {
			h, change = "rollback", "-"
		}
		sync := r.Bool()
		p := genPath(r)
		j := r.Range(0, len(p))
		if j > 0 {
			nt = true
		}
		win := 0
		if j < len(p) && r.Chance(2, 5) {
			// the remaining writes (often: up to and including the one that finishes the transaction) race the subscribe step
			win = r.Range(1, len(p)-j)
			if r.Bool() {
				win = len(p) - j
			}
			tags = append(tags, "writes-during-subscribe")
			nt = true
		}
		ln := runLine(h, sync, j, p, change, i+1, win)
		if h == "set" && r.Chance(1, 3) {
			pre := r.Pick([]string{"arb", "hist", "reg"})
			ln += " pre=" + pre
			tags = append(tags, "other-extension-first:"+pre)
		}
		s = append(s, ln, "wait.real.stored")
		tags = append(tags, "h:"+h, map[bool]string{true: "sync", false: "async"}[sync])
		switch {
		case j == 0:
			tags = append(tags, "subscribed-before-any-write")
		case j == len(p):
			tags = append(tags, "subscribed-after-all-writes")
		default:
			tags = append(tags, "subscribed-in-between")
		}
	}
	return fw.Case{Script: s, Tags: tags, Nontrivial: nt}
}

// enumerate: both handlers x sync/async x every canonical path of the state machine (success, failure at
// initialize/validate/apply with every failure class, nil failure, unknown class) x every j.
func enumerate(tier string) []fw.Case {
	var paths [][]string
	paths = append(paths, []string{"V", "C", "A"}, []string{"V", "C"}, []string{"V"}, []string{})
	for _, n := range failNums {
		f := "F" + strconv.Itoa(n)
		paths = append(paths, []string{f}, []string{"V", "C", f})
	}
	paths = append(paths, []string{"F"}, []string{"V", "F3"}, []string{"V", "C", "F"})
	change := fw.EncStr("t1") + ":" + fw.EncStr("/a") + ":0;" + fw.EncStr("t1") + ":" + fw.EncStr("/b") + ":1;" + fw.EncStr("t2") + ":" + fw.EncStr("/c/d") + ":0"
	var out []fw.Case
	for _, h := range []string{"set", "rollback"} {
		for _, sync := range []bool{false, true} {
			if h == "rollback" && sync {
				continue
			}
			for _, p := range paths {
				if h == "rollback" && len(p) > 0 && strings.HasPrefix(p[len(p)-1], "F") && p[len(p)-1] != "F7" && p[len(p)-1] != "F" && len(p) > 1 {
					continue // keep the rollback enumeration small: one failure class per shape
				}
				for j := 0; j <= len(p); j++ {
					ch := change
					if h == "rollback" {
						ch = "-"
					}
					out = append(out, fw.Case{Script: []string{runLine(h, sync, j, p, ch, 1), "wait.real.stored"},
						Tags: []string{"enum", "h:" + h}, Nontrivial: j > 0})
					if j < len(p) && (len(p) < 3 || p[len(p)-1] == "A" || p[len(p)-1] == "F7") {
						// every remaining write, the finishing one included, lands between the replay read and the consumer's first read
						out = append(out, fw.Case{Script: []string{runLine(h, sync, j, p, ch, 1, len(p)-j), "wait.real.stored"},
							Tags: []string{"enum-writes-during-subscribe", "h:" + h}, Nontrivial: true})
					}
				}
			}
		}
	}
	// a departed handler first (wait.real.depart), then a synchronous and an asynchronous Set whose transactions
	// run to the end: they must be answered (the departed transaction took log index 1)
	for _, sync := range []bool{true, false} {
		for _, p := range [][]string{{"V", "C", "A"}, {"V", "C", "F7"}} {
			out = append(out, fw.Case{Script: []string{"wait.real.depart", runLine("set", sync, 0, p, change, 2), "wait.real.stored"},
				Tags: []string{"enum-departed-handler", "h:set"}, Nontrivial: true})
		}
	}
	return out
}

// ---- monitor --------------------------------------------------------------------------------------

func norm(s string) string { return strings.ToLower(strings.ReplaceAll(s, "_", "")) }

var failNames = map[int]string{0: "UNKNOWN", 1: "CANCELED", 2: "NOT_FOUND", 3: "ALREADY_EXISTS", 4: "UNAUTHORIZED", 5: "FORBIDDEN",
	6: "CONFLICT", 7: "INVALID", 8: "UNAVAILABLE", 9: "NOT_SUPPORTED", 10: "TIMEOUT", 11: "INTERNAL"}

// classOf: the failure class recorded with a FAILED status token.
func classOf(tok string) string {
	if tok == "F" {
		return "unknown"
	}
	n, _ := strconv.Atoi(tok[1:])
	if name, ok := failNames[n]; ok {
		return norm(name)
	}
	return "unknown"
}

func changePairs(s string) string {
	items, _ := decChange(s)
	var rs []string
	for _, it := range items {
		op := "U"
		if it.del {
			op = "D"
		}
		rs = append(rs, fw.EncStr(it.target)+"|"+fw.EncStr(it.path)+"|"+op)
	}
	sort.Strings(rs)
	return strings.Join(rs, ",")
}

func monitor(c fw.Case, out []string) []string {
	var fails []string
	add := func(format string, a ...interface{}) { fails = append(fails, fmt.Sprintf(format, a...)) }
	lastOK := false
	lastIdx, lastWant, lastH := "", "", ""
	for i, ln := range c.Script {
		if i >= len(out) {
			break
		}
		toks := strings.Fields(ln)
		ans := strings.Fields(out[i])
		if len(toks) == 0 || len(ans) == 0 {
			continue
		}
		switch toks[0] {
		case "wait.run":
			args := toks[1:]
			h, _ := argOf(args, "h")
			syncS, _ := argOf(args, "sync")
			pathS, _ := argOf(args, "path")
			chS, _ := argOf(args, "change")
			idxS, _ := argOf(args, "idx")
			sync := syncS == "1" || h == "rollback"
			var p []string
			if pathS != "" {
				p = strings.Split(pathS, ",")
			}
			full := append([]string{"P"}, p...)
			lastOK = false
			switch ans[0] {
			case "ok":
				reached := false
				for _, t := range full {
					if awaited(sync, stateOf(t)) {
						reached = true
					}
				}
				if !reached {
					add("untruthful-success: %s answered OK, but the transaction never reached the awaited stage (status path %v, synchronous=%v)", h, full, sync)
				}
				got := map[string]string{}
				for _, a := range ans[1:] {
					k, v, _ := strings.Cut(a, "=")
					got[k] = v
				}
				if got["idx"] != idxS {
					add("wrong-index: %s answered with log index %s, the request is transaction number %s of this store", h, got["idx"], idxS)
				}
				want := ""
				if h == "set" {
					want = changePairs(chS)
					if got["results"] != want {
						add("inexact-response: Set answered with results [%s], the request changed [%s]", got["results"], want)
					}
				}
				lastOK, lastIdx, lastWant, lastH = true, got["idx"], want, h
			case "err":
				kind := ""
				if len(ans) > 1 {
					kind = norm(ans[1])
				}
				ok := false
				for _, t := range full {
					if stateOf(t) == "F" && classOf(t) == kind {
						ok = true
					}
				}
				if !ok {
					add("untruthful-error: %s answered with error class %s, no FAILED status of the transaction records that class (status path %v)", h, kind, full)
				}
			case "ctx":
				if finished(sync, stateOf(full[len(full)-1])) {
					add("kept-waiting: %s waited until its deadline although the transaction had finished (status path %v, synchronous=%v)", h, full, sync)
				}
			default:
				add("unexpected answer %q to %s", out[i], ln)
			}
		case "wait.real.stored":
			if !lastOK {
				continue
			}
			got := map[string]string{}
			for _, a := range ans[1:] {
				k, v, _ := strings.Cut(a, "=")
				got[k] = v
			}
			if ans[0] != "stored" {
				add("not-stored: the identifier carried by the successful answer does not name a stored transaction (%s)", out[i])
				continue
			}
			if got["idx"] != lastIdx {
				add("wrong-index: the answer carried index %s, the transaction stored under its identifier has index %s", lastIdx, got["idx"])
			}
			if lastH == "set" && (got["kind"] != "change" || got["results"] != lastWant) {
				add("inexact-response: the transaction stored under the answered identifier holds [%s], the request changed [%s]", got["results"], lastWant)
			}
			if lastH == "rollback" && got["kind"] != "rollback" {
				add("inexact-response: the transaction stored under the answered identifier is not a rollback")
			}
		}
	}
	return fails
}

// Prop is the C08 correspondence check.
var Prop = &fw.Prop{
	ID: "C08",
	Rule: "1-3 requests per case on one real v2 transaction store: Set (1-4 updates/deletes on 1-2 targets) or RollbackTransaction, synchronous/asynchronous, " +
		"optionally the next `win` writes — up to the finishing one — made after Watch has returned and before the consumer takes the replayed event (subscribe step racing the controllers), a scripted status path (canonical paths of the transaction state machine with repeated phase writes, failure at initialize/validate/apply with every failure class, " +
		"nil and out-of-range classes, stuck paths, arbitrary paths), the first j status writes performed inside Create (before the handler subscribes), the rest after the " +
		"replayed event; plus the enumeration of both handlers x sync/async x every canonical path x every j. Non-trivial = j > 0; distinct = distinct script.",
	Quick: 500, Thorough: 8000, Workers: 8,
	Gen: gen, Enumerate: enumerate,
	NewReal:  pool.NewReal,
	Monitor:  monitor,
	RealOnly: func(line string) bool { return strings.HasPrefix(line, "wait.real.") },
	// how far the store's dispatcher had got when the handler's listener registered is not under the harness's
	// control: for a status path on which that matters the twin answers `oneof a|b|…`
	Match: func(line, realOut, twinOut string) bool {
		if strings.HasPrefix(twinOut, "oneof ") {
			for _, alt := range strings.Split(strings.TrimPrefix(twinOut, "oneof "), " || ") {
				if strings.TrimSpace(alt) == strings.TrimSpace(realOut) {
					return true
				}
			}
		}
		return false
	},
	Sigs: map[string]func(fw.Case, []string, string) bool{},
	// the index a request must be answered with is its position in the script: lines are not dropped one by one
	FixedLayout: true,
	Shrink:      shrinkCase,
}

// shrinkCase: drop one request (renumbering the others), shorten a status path from its end, lower j.
func shrinkCase(c fw.Case) []fw.Case {
	type reqLine struct{ args map[string]string }
	var reqs []map[string]string
	for _, ln := range c.Script {
		toks := strings.Fields(ln)
		if len(toks) == 0 || toks[0] != "wait.run" {
			continue
		}
		m := map[string]string{}
		for _, a := range toks[1:] {
			k, v, _ := strings.Cut(a, "=")
			m[k] = v
		}
		reqs = append(reqs, m)
	}
	build := func(rs []map[string]string) fw.Case {
		var s []string
		for i, m := range rs {
			var p []string
			if m["path"] != "" {
				p = strings.Split(m["path"], ",")
			}
			j, _ := strconv.Atoi(m["j"])
			if j > len(p) {
				j = len(p)
			}
			win, _ := strconv.Atoi(m["win"])
			if j+win > len(p) {
				win = len(p) - j
			}
			s = append(s, runLine(m["h"], m["sync"] == "1", j, p, m["change"], i+1, win), "wait.real.stored")
		}
		return fw.Case{Script: s, Tags: c.Tags, Nontrivial: c.Nontrivial, Origin: c.Origin}
	}
	clone := func(m map[string]string) map[string]string {
		n := map[string]string{}
		for k, v := range m {
			n[k] = v
		}
		return n
	}
	var out []fw.Case
	if len(reqs) > 1 {
		for i := range reqs {
			out = append(out, build(append(append([]map[string]string{}, reqs[:i]...), reqs[i+1:]...)))
		}
	}
	for i, m := range reqs {
		if m["path"] != "" {
			p := strings.Split(m["path"], ",")
			n := clone(m)
			n["path"] = strings.Join(p[:len(p)-1], ",")
			rs := append([]map[string]string{}, reqs...)
			rs[i] = n
			out = append(out, build(rs))
		}
		if j, _ := strconv.Atoi(m["j"]); j > 0 {
			n := clone(m)
			n["j"] = strconv.Itoa(j - 1)
			rs := append([]map[string]string{}, reqs...)
			rs[i] = n
			out = append(out, build(rs))
		}
	}
	return out
}
