// Package c14 ties the Lean RBAC twin (OnosVerif/Rbac) to utils.TemporaryEvaluate, to the gnmi Set
// and Get handlers (through NewServerForVerif, with crafted incoming metadata, a counting topology /
// plugin registry and the real transaction store whose log is observed) and to onos-lib-go's
// AuthenticationInterceptor (real HS256 tokens), and evaluates C14's statement on the real answers.
package c14

import (
	"context"
	"fmt"
	"os"
	"sort"
	"strings"
	"sync"

	"github.com/atomix/go-sdk/pkg/test"
	"github.com/golang-jwt/jwt/v5"
	"github.com/grpc-ecosystem/go-grpc-middleware/util/metautils"
	adminapi "github.com/onosproject/onos-api/go/onos/config/admin"
	configapi "github.com/onosproject/onos-api/go/onos/config/v2"
	topoapi "github.com/onosproject/onos-api/go/onos/topo"
	gnmisrv "github.com/onosproject/onos-config/pkg/northbound/gnmi/v2"
	"github.com/onosproject/onos-config/pkg/pluginregistry"
	"github.com/onosproject/onos-config/pkg/store/v2/transaction"
	"github.com/onosproject/onos-config/pkg/utils"
	"github.com/onosproject/onos-config/pkg/utils/path"
	"github.com/onosproject/onos-config/verifharness/internal/fw"
	"github.com/onosproject/onos-config/verifharness/internal/quiet"
	"github.com/onosproject/onos-config/verifharness/internal/rng"
	"github.com/onosproject/onos-lib-go/pkg/grpc/auth"
	"github.com/openconfig/gnmi/proto/gnmi"
	"google.golang.org/grpc/metadata"
	"google.golang.org/grpc/status"
)

func init() { quiet.On() }

// ---------------------------------------------------------------- wire forms

type kv struct {
	key  string
	vals []string
}

type claim struct {
	key    string
	isList bool
	str    string
	list   []string
}

func encList(xs []string) string {
	e := make([]string, len(xs))
	for i, x := range xs {
		e[i] = fw.EncStr(x)
	}
	return strings.Join(e, ",")
}

func decList(s string) ([]string, bool) {
	if s == "" {
		return nil, true
	}
	var out []string
	for _, h := range strings.Split(s, ",") {
		v, ok := fw.DecStr(h)
		if !ok {
			return nil, false
		}
		out = append(out, v)
	}
	return out, true
}

func encMd(md []kv) string {
	t := make([]string, len(md))
	for i, e := range md {
		t[i] = "md:" + fw.EncStr(e.key) + "=" + encList(e.vals)
	}
	return strings.Join(t, " ")
}

func encClaims(cs []claim) string {
	t := make([]string, len(cs))
	for i, c := range cs {
		if c.isList {
			t[i] = "cl:" + fw.EncStr(c.key) + "=l:" + encList(c.list)
		} else {
			t[i] = "cl:" + fw.EncStr(c.key) + "=s:" + fw.EncStr(c.str)
		}
	}
	return strings.Join(t, " ")
}

type line struct {
	op      string
	setting string // eval/set/authset
	oidc    string // list/authlist
	roc     string // value of the AetherROCAdmin variable …
	rocSet  bool   // … when it is defined at all (defined-but-empty is a case of its own)
	ents    []string
	md      []kv
	claims  []claim
	a, b    string // split/fields
	ok      bool
}

func parseLine(ln string) line {
	toks := strings.Fields(ln)
	l := line{}
	if len(toks) == 0 {
		return l
	}
	l.op = strings.TrimPrefix(toks[0], "rbac.")
	rest := toks[1:]
	var ok bool
	switch l.op {
	case "eval", "set", "authset":
		if len(rest) < 1 {
			return l
		}
		if l.setting, ok = fw.DecStr(rest[0]); !ok {
			return l
		}
		rest = rest[1:]
	case "list", "authlist":
		if len(rest) < 3 || !strings.HasPrefix(rest[2], "ent:") {
			return l
		}
		if l.oidc, ok = fw.DecStr(rest[0]); !ok {
			return l
		}
		if rest[1] != "unset" {
			if l.roc, ok = fw.DecStr(rest[1]); !ok {
				return l
			}
			l.rocSet = true
		}
		if l.ents, ok = decList(rest[2][4:]); !ok {
			return l
		}
		rest = rest[3:]
	case "split", "fields":
		if len(rest) != 2 {
			return l
		}
		if l.a, ok = fw.DecStr(rest[0]); !ok {
			return l
		}
		if l.b, ok = fw.DecStr(rest[1]); !ok {
			return l
		}
		l.ok = true
		return l
	default:
		return l
	}
	for _, t := range rest {
		switch {
		case strings.HasPrefix(t, "md:"):
			k, vs, found := strings.Cut(t[3:], "=")
			if !found {
				return l
			}
			key, ok1 := fw.DecStr(k)
			vals, ok2 := decList(vs)
			if !ok1 || !ok2 {
				return l
			}
			l.md = append(l.md, kv{key, vals})
		case strings.HasPrefix(t, "cl:"):
			k, c, found := strings.Cut(t[3:], "=")
			if !found || len(c) < 2 {
				return l
			}
			key, ok1 := fw.DecStr(k)
			if !ok1 {
				return l
			}
			switch c[:2] {
			case "s:":
				s, ok := fw.DecStr(c[2:])
				if !ok {
					return l
				}
				l.claims = append(l.claims, claim{key: key, str: s})
			case "l:":
				xs, ok := decList(c[2:])
				if !ok {
					return l
				}
				l.claims = append(l.claims, claim{key: key, isList: true, list: xs})
			default:
				return l
			}
		default:
			return l
		}
	}
	l.ok = true
	return l
}

func (l line) rocTok() string {
	if !l.rocSet {
		return "unset"
	}
	return fw.EncStr(l.roc)
}

func (l line) String() string {
	switch l.op {
	case "eval", "set":
		return fw.Join("rbac."+l.op, fw.EncStr(l.setting), encMd(l.md))
	case "authset":
		return fw.Join("rbac.authset", fw.EncStr(l.setting), encClaims(l.claims), encMd(l.md))
	case "list":
		return fw.Join("rbac.list", fw.EncStr(l.oidc), l.rocTok(), "ent:"+encList(l.ents), encMd(l.md))
	case "authlist":
		return fw.Join("rbac.authlist", fw.EncStr(l.oidc), l.rocTok(), "ent:"+encList(l.ents), encClaims(l.claims), encMd(l.md))
	case "split", "fields":
		return "rbac." + l.op + " " + fw.EncStr(l.a) + " " + fw.EncStr(l.b)
	}
	return "rbac." + l.op
}

// ---------------------------------------------------------------- the real side

// Everything that reads process-wide state (environment variables, the shared store) runs under mu.
var mu sync.Mutex

// defined marks a variable that must be defined even when its value is empty.
const defined = "\x00defined:"

func withEnv(env map[string]string, f func()) {
	for k, v := range env {
		switch {
		case strings.HasPrefix(v, defined):
			_ = os.Setenv(k, strings.TrimPrefix(v, defined))
		case v == "":
			_ = os.Unsetenv(k)
		default:
			_ = os.Setenv(k, v)
		}
	}
	defer func() {
		for k := range env {
			_ = os.Unsetenv(k)
		}
	}()
	f()
}

type fakeTopo struct {
	calls *int
	ents  []string
}

func entity(id string) *topoapi.Object {
	o := &topoapi.Object{ID: topoapi.ID(id), Type: topoapi.Object_ENTITY, Obj: &topoapi.Object_Entity{Entity: &topoapi.Entity{}}}
	_ = o.SetAspect(&topoapi.Configurable{Type: "devicesim", Version: "1.0.0", Target: id})
	return o
}

func (t *fakeTopo) Create(ctx context.Context, o *topoapi.Object) error { *t.calls++; return nil }
func (t *fakeTopo) Update(ctx context.Context, o *topoapi.Object) error { *t.calls++; return nil }
func (t *fakeTopo) Delete(ctx context.Context, o *topoapi.Object) error { *t.calls++; return nil }
func (t *fakeTopo) Get(ctx context.Context, id topoapi.ID) (*topoapi.Object, error) {
	*t.calls++
	return entity(string(id)), nil
}
func (t *fakeTopo) List(ctx context.Context, f *topoapi.Filters) ([]topoapi.Object, error) {
	*t.calls++
	out := make([]topoapi.Object, 0, len(t.ents))
	for _, e := range t.ents {
		out = append(out, *entity(e))
	}
	return out, nil
}
func (t *fakeTopo) Watch(ctx context.Context, ch chan<- topoapi.Event, f *topoapi.Filters) error {
	*t.calls++
	return nil
}

type fakePlugin struct{}

func (fakePlugin) GetInfo() *pluginregistry.ModelPluginInfo {
	return &pluginregistry.ModelPluginInfo{Info: adminapi.ModelInfo{Name: "devicesim", Version: "1.0.0"},
		ReadWritePaths: path.ReadWritePathMap{"/foo": adminapi.ReadWritePath{ValueType: configapi.ValueType_STRING}}}
}
func (fakePlugin) Capabilities(ctx context.Context) *gnmi.CapabilityResponse {
	return &gnmi.CapabilityResponse{}
}
func (fakePlugin) Validate(ctx context.Context, jsonData []byte) error { return nil }
func (fakePlugin) GetPathValues(ctx context.Context, pathPrefix string, jsonData []byte) ([]*configapi.PathValue, error) {
	return nil, nil
}
func (fakePlugin) LeafValueSelection(ctx context.Context, selectionPath string, jsonData []byte) ([]string, error) {
	return nil, nil
}

type fakeRegistry struct{ calls *int }

func (r fakeRegistry) Start() {}
func (r fakeRegistry) Stop()  {}
func (r fakeRegistry) GetPlugin(model configapi.TargetType, version configapi.TargetVersion) (pluginregistry.ModelPlugin, bool) {
	*r.calls++
	return fakePlugin{}, true
}
func (r fakeRegistry) GetPlugins() []pluginregistry.ModelPlugin { *r.calls++; return nil }
func (r fakeRegistry) NewClientFn(func(endpoint string) (adminapi.ModelPluginServiceClient, error)) {
}

// txStore wraps the real transaction store: it counts the handler's calls and answers the watch
// with the created transaction marked APPLIED (no controllers run here).
type txStore struct {
	transaction.Store
	calls *int
	last  *configapi.Transaction
}

func (s *txStore) Create(ctx context.Context, tx *configapi.Transaction) error {
	*s.calls++
	err := s.Store.Create(ctx, tx)
	if err == nil {
		s.last = tx
	}
	return err
}

func (s *txStore) Watch(ctx context.Context, ch chan<- configapi.TransactionEvent, opts ...transaction.WatchOption) error {
	*s.calls++
	if s.last != nil {
		ev := configapi.TransactionEvent{Type: configapi.TransactionEvent_CREATED, Transaction: *s.last}
		ev.Transaction.Status.State = configapi.TransactionStatus_APPLIED
		go func() { ch <- ev }()
	}
	return nil
}

var (
	storeOnce sync.Once
	realStore transaction.Store
	lastIndex configapi.Index
	storeErr  error
)

func theStore() (transaction.Store, error) {
	storeOnce.Do(func() {
		client := test.NewClient()
		realStore, storeErr = transaction.NewAtomixStore(client)
	})
	return realStore, storeErr
}

const secret = "c14-shared-secret"

func rawMD(md []kv) metadata.MD {
	m := metadata.MD{}
	for _, e := range md {
		m[e.key] = append([]string{}, e.vals...)
	}
	return m
}

// authenticate runs the real interceptor on a context carrying the client's metadata and a signed token.
func authenticate(md []kv, claims []claim) (context.Context, error) {
	mc := jwt.MapClaims{}
	for _, c := range claims {
		if c.isList {
			xs := make([]interface{}, len(c.list))
			for i, x := range c.list {
				xs[i] = x
			}
			mc[c.key] = xs
		} else {
			mc[c.key] = c.str
		}
	}
	tok, err := jwt.NewWithClaims(jwt.SigningMethodHS256, mc).SignedString([]byte(secret))
	if err != nil {
		return nil, err
	}
	m := rawMD(md)
	m["authorization"] = []string{"bearer " + tok}
	return auth.AuthenticationInterceptor(metadata.NewIncomingContext(context.Background(), m))
}

func doSet(ctx context.Context, setting string) string {
	store, err := theStore()
	if err != nil {
		return "store-error " + err.Error()
	}
	calls := 0
	ts := &txStore{Store: store, calls: &calls}
	srv := gnmisrv.NewServerForVerif(&fakeTopo{calls: &calls}, ts, nil, nil, fakeRegistry{&calls}, nil, 0)
	req := &gnmi.SetRequest{Update: []*gnmi.Update{{
		Path: &gnmi.Path{Target: "t1", Elem: []*gnmi.PathElem{{Name: "foo"}}},
		Val:  &gnmi.TypedValue{Value: &gnmi.TypedValue_StringVal{StringVal: "v"}},
	}}}
	var out string
	withEnv(map[string]string{"ADMINGROUPS": setting}, func() {
		_, err := srv.Set(ctx, req)
		// the log: is there an entry behind the last one we know?
		delta := 0
		if tx, gerr := store.GetByIndex(context.Background(), lastIndex+1); gerr == nil && tx != nil {
			delta = 1
			lastIndex++
			if _, gerr2 := store.GetByIndex(context.Background(), lastIndex+1); gerr2 == nil {
				delta = 2 // more than one entry: never expected
				lastIndex++
			}
		}
		if err != nil {
			out = fmt.Sprintf("refused %s calls=%d log=%d", status.Code(err).String(), calls, delta)
			return
		}
		user := ""
		if ts.last != nil {
			if tx, gerr := store.Get(context.Background(), ts.last.ID); gerr == nil {
				user = tx.Username
			}
		}
		out = fmt.Sprintf("passed user=%s calls=%d log=%d", fw.EncStr(user), calls, delta)
	})
	return out
}

func doList(ctx context.Context, oidc string, roc string, rocSet bool, ents []string) string {
	if rocSet {
		roc = defined + roc
	} else {
		roc = ""
	}
	calls := 0
	srv := gnmisrv.NewServerForVerif(&fakeTopo{calls: &calls, ents: ents}, nil, nil, nil, fakeRegistry{&calls}, nil, 0)
	req := &gnmi.GetRequest{Path: []*gnmi.Path{{Target: "*"}}, Encoding: gnmi.Encoding_PROTO}
	var out string
	withEnv(map[string]string{"OIDC_SERVER_URL": oidc, "AetherROCAdmin": roc}, func() {
		resp, err := srv.Get(ctx, req)
		if err != nil {
			out = "err " + status.Code(err).String()
			return
		}
		toks := []string{"ok"}
		for _, n := range resp.Notification {
			for _, u := range n.Update {
				for _, e := range u.GetVal().GetLeaflistVal().GetElement() {
					toks = append(toks, fw.EncStr(e.GetStringVal()))
				}
			}
		}
		out = strings.Join(toks, " ")
	})
	return out
}

func exec(ln string) (out string) {
	mu.Lock()
	defer mu.Unlock()
	defer func() {
		if r := recover(); r != nil {
			out = "panic"
		}
	}()
	l := parseLine(ln)
	if !l.ok {
		return "bad-op"
	}
	switch l.op {
	case "eval":
		withEnv(map[string]string{"ADMINGROUPS": l.setting}, func() {
			err := utils.TemporaryEvaluate(metautils.NiceMD(rawMD(l.md)))
			if err == nil {
				out = "permit"
			} else {
				out = "refuse " + status.Code(err).String()
			}
		})
		return out
	case "set":
		return doSet(metadata.NewIncomingContext(context.Background(), rawMD(l.md)), l.setting)
	case "authset":
		var ctx context.Context
		var err error
		withEnv(map[string]string{"SHARED_SECRET_KEY": secret}, func() { ctx, err = authenticate(l.md, l.claims) })
		if err != nil {
			return "auth-error " + err.Error()
		}
		return doSet(ctx, l.setting)
	case "list":
		return doList(metadata.NewIncomingContext(context.Background(), rawMD(l.md)), l.oidc, l.roc, l.rocSet, l.ents)
	case "authlist":
		var ctx context.Context
		var err error
		withEnv(map[string]string{"SHARED_SECRET_KEY": secret}, func() { ctx, err = authenticate(l.md, l.claims) })
		if err != nil {
			return "auth-error " + err.Error()
		}
		return doList(ctx, l.oidc, l.roc, l.rocSet, l.ents)
	case "split":
		parts := strings.Split(l.b, l.a)
		e := make([]string, len(parts))
		for i, p := range parts {
			e[i] = fw.EncStr(p)
		}
		return fw.Join("ok", strings.Join(e, " "))
	case "fields":
		parts := strings.FieldsFunc(l.b, func(r rune) bool { return strings.ContainsRune(l.a, r) })
		e := make([]string, len(parts))
		for i, p := range parts {
			e[i] = fw.EncStr(p)
		}
		return fw.Join("ok", strings.Join(e, " "))
	}
	return "bad-op"
}

// ---------------------------------------------------------------- the property's own reading

// adminSet: the configured administrator groups — the entries of the setting, separated by
// comma, semicolon or blank (written independently of the code: a plain scanner).
func adminSet(setting string) map[string]bool {
	out := map[string]bool{}
	cur := ""
	flush := func() {
		if cur != "" {
			out[cur] = true
		}
		cur = ""
	}
	for _, r := range setting {
		if r == ',' || r == ';' || r == ' ' {
			flush()
		} else {
			cur += string(r)
		}
	}
	flush()
	return out
}

func semis(v string) []string {
	var out []string
	cur := ""
	for _, r := range v {
		if r == ';' {
			out = append(out, cur)
			cur = ""
		} else {
			cur += string(r)
		}
	}
	return append(out, cur)
}

// identity of crafted metadata: every value counts (the property does not know about "first value").
// fold: keys are matched case-insensitively (metadata that crosses gRPC) or exactly (a NiceMD).
func mdIdentity(md []kv, fold bool) (present bool, named bool, groups []string) {
	for _, e := range md {
		k := e.key
		if fold {
			k = strings.ToLower(k)
		}
		for _, v := range e.vals {
			switch k {
			case "name":
				if v != "" {
					present, named = true, true
				}
			case "preferred_username":
				if v != "" {
					present = true
				}
			case "groups":
				if v != "" {
					present = true
				}
				groups = append(groups, semis(v)...)
			}
		}
	}
	return
}

// identity named by a verified token.
func tokenIdentity(cs []claim) (present bool, named bool, groups []string) {
	for _, c := range cs {
		switch strings.ToLower(c.key) {
		case "name":
			if !c.isList && c.str != "" {
				present, named = true, true
			}
		case "preferred_username":
			if !c.isList && c.str != "" {
				present = true
			}
		case "groups":
			vals := c.list
			if !c.isList {
				vals = []string{c.str}
			}
			for _, v := range vals {
				if v != "" {
					present = true
				}
				groups = append(groups, semis(v)...)
			}
		}
	}
	return
}

func monitor(c fw.Case, out []string) []string {
	var fails []string
	for i, ln := range c.Script {
		if i >= len(out) {
			break
		}
		l := parseLine(ln)
		if !l.ok {
			continue
		}
		o := out[i]
		switch l.op {
		case "eval", "set", "authset":
			var present bool
			var groups []string
			if l.op == "authset" {
				present, _, groups = tokenIdentity(l.claims)
			} else {
				present, _, groups = mdIdentity(l.md, l.op == "set")
			}
			admins := adminSet(l.setting)
			permitted := o == "permit" || strings.HasPrefix(o, "passed")
			refused := strings.HasPrefix(o, "refuse")
			member := false
			for _, g := range groups {
				if admins[g] {
					member = true
				}
			}
			if present && permitted && !member {
				fails = append(fails, fmt.Sprintf("line=%d permit-nonmember: identity present, groups %q, administrator groups %q (ADMINGROUPS=%q), yet the answer is %q", i, groups, keys(admins), l.setting, o))
			}
			if refused && l.op != "eval" && !strings.HasSuffix(o, "calls=0 log=0") {
				fails = append(fails, fmt.Sprintf("line=%d refused-but-touched: a refused Set made store calls or appended to the transaction log: %q", i, o))
			}
			if refused && !strings.Contains(o, "Unauthenticated") {
				fails = append(fails, fmt.Sprintf("line=%d refusal-status: refused with %q, not Unauthenticated", i, o))
			}
			if strings.HasPrefix(o, "passed") && !strings.HasSuffix(o, "log=1") {
				fails = append(fails, fmt.Sprintf("line=%d passed-log: an accepted Set must append exactly one transaction: %q", i, o))
			}
		case "list", "authlist":
			if l.oidc == "" || !strings.HasPrefix(o, "ok") {
				continue
			}
			var groups []string
			if l.op == "authlist" {
				_, _, groups = tokenIdentity(l.claims)
			} else {
				_, _, groups = mdIdentity(l.md, true)
			}
			roc := l.roc
			if roc == "" {
				roc = "AetherROCAdmin"
			}
			own := map[string]bool{}
			holdsRoc := false
			for _, g := range groups {
				if g == "" {
					continue // the empty piece of an absent / empty value or a trailing ';' is not a group
				}
				own[g] = true
				if g == roc {
					holdsRoc = true
				}
			}
			listed := strings.Fields(o)[1:]
			for _, h := range listed {
				id, _ := fw.DecStr(h)
				if !holdsRoc && !own[id] {
					fails = append(fails, fmt.Sprintf("line=%d listed-foreign-target: caller groups %q (ROC admin group %q) is shown target %q", i, groups, roc, id))
					break
				}
			}
			// and nothing but configurable entities, in their order
			j := 0
			for _, h := range listed {
				id, _ := fw.DecStr(h)
				for j < len(l.ents) && l.ents[j] != id {
					j++
				}
				if j == len(l.ents) {
					fails = append(fails, fmt.Sprintf("line=%d listed-unknown: %q is not (or not in order) among the entities %q", i, id, l.ents))
					break
				}
				j++
			}
		}
	}
	return fails
}

func keys(m map[string]bool) []string {
	var out []string
	for k := range m {
		out = append(out, k)
	}
	sort.Strings(out)
	return out
}

// sigFirstValue: the listed finding — handlers read only the first value of a metadata key, and the
// interceptor appends the token's groups after whatever the client sent.  Signature: on the failing
// line an identity key ends up with more than one value, the first of which is not the caller's
// whole identity: the client's own metadata carries a `groups` key or a list claim under an identity
// key has several members (interceptor lines), or an identity key carries more than one value
// (crafted-metadata lines).
func sigFirstValue(c fw.Case, out []string, msg string) bool {
	var i int
	if _, err := fmt.Sscanf(msg, "line=%d", &i); err != nil || i < 0 || i >= len(c.Script) {
		return false
	}
	if !strings.Contains(msg, "permit-nonmember") && !strings.Contains(msg, "listed-foreign-target") {
		return false
	}
	l := parseLine(c.Script[i])
	for _, cl := range l.claims {
		k := strings.ToLower(cl.key)
		if (k == "groups" || k == "name" || k == "preferred_username") && cl.isList && len(cl.list) > 1 {
			return true
		}
	}
	for _, e := range l.md {
		k := strings.ToLower(e.key)
		switch l.op {
		case "authset", "authlist":
			if k == "groups" {
				return true
			}
		default:
			if (k == "groups" || k == "name" || k == "preferred_username") && len(e.vals) > 1 {
				return true
			}
		}
	}
	return false
}

// ---------------------------------------------------------------- generators

var settingsPool = []string{
	"AetherROCAdmin", "AetherROCAdmin,EnterpriseAdmin", "AetherROCAdmin;EnterpriseAdmin", "AetherROCAdmin EnterpriseAdmin",
	"AetherROCAdmin, EnterpriseAdmin", "", " ", ",", "admin", "Admin,admin", "a,b;c d", "ops,", ",ops", "a,,b", "ab,abc", "x y,z",
}
var settingSyms = []string{"a", "b", "A", "Admin", "ROC", ",", " ", ";", "-", "é", "\t", "ab"}
var noiseKeys = []string{"email", "at_hash", "x-trace", "client", "sub", "user-agent"}
var entsPool = []string{"acme", "starbucks", "AetherROCAdmin", "a", "b", "ab", "users", "Acme", "acme;b"} // topology ids are never empty

func genSetting(r *rng.R) string {
	if r.Chance(3, 5) {
		return r.Pick(settingsPool)
	}
	n := r.Range(0, 6)
	var b strings.Builder
	for i := 0; i < n; i++ {
		b.WriteString(r.Pick(settingSyms))
	}
	return b.String()
}

// a group derived from the setting: an entry, or something that merely resembles one
func genGroup(r *rng.R, setting string, extra []string) string {
	entries := keys(adminSet(setting))
	entries = append(entries, extra...)
	if len(entries) == 0 || r.Chance(1, 8) {
		return r.Pick([]string{"", "users", "a", "Admin", "ROC", "x", " ", ","})
	}
	e := r.Pick(entries)
	rs := []rune(e)
	switch r.Intn(12) {
	case 0, 1, 2:
		return e
	case 3:
		if len(rs) > 1 {
			return string(rs[:r.Range(1, len(rs)-1)]) // proper prefix
		}
	case 4:
		if len(rs) > 1 {
			return string(rs[r.Range(1, len(rs)-1):]) // proper suffix
		}
	case 5:
		if len(rs) > 2 {
			a := r.Range(1, len(rs)-2)
			return string(rs[a:r.Range(a+1, len(rs)-1)]) // infix
		}
	case 6:
		return e + r.Pick([]string{"x", "2", " ", ",", "s"})
	case 7:
		return r.Pick([]string{"x", " ", ",", "Not"}) + e
	case 8:
		return strings.ToLower(e)
	case 9:
		return strings.ToUpper(e)
	case 10:
		return setting // the whole setting text
	case 11:
		return ""
	}
	return e
}

func genGroupsValue(r *rng.R, setting string, extra []string) string {
	n := 1
	if r.Chance(1, 3) {
		n = r.Range(2, 4)
	}
	gs := make([]string, n)
	for i := range gs {
		gs[i] = genGroup(r, setting, extra)
	}
	return strings.Join(gs, ";")
}

func caseKey(r *rng.R, k string, allowUpper bool) string {
	if allowUpper && r.Chance(1, 8) {
		return r.Pick([]string{strings.ToUpper(k), strings.ToUpper(k[:1]) + k[1:]})
	}
	return k
}

func genMd(r *rng.R, setting string, extra []string, upper bool, malformed bool) []kv {
	var md []kv
	add := func(k string, v string) {
		e := kv{caseKey(r, k, upper), []string{v}}
		if r.Chance(1, 10) {
			e.vals = append(e.vals, genGroupsValue(r, setting, extra))
		}
		if r.Chance(1, 25) {
			e.vals = append([]string{""}, e.vals...)
		}
		if malformed && r.Chance(1, 4) {
			e.vals = nil
		}
		md = append(md, e)
	}
	shape := r.Intn(10)
	if shape < 6 {
		add("name", r.Pick([]string{"bob", "alice", "", "x"}))
	}
	if shape%3 == 0 {
		add("preferred_username", r.Pick([]string{"bob@x", "svc", ""}))
	}
	if shape != 7 && r.Chance(5, 6) {
		add("groups", genGroupsValue(r, setting, extra))
	}
	for i := r.Intn(3); i > 0; i-- {
		add(r.Pick(noiseKeys), r.Pick([]string{"1", "", "bob@x.org"}))
	}
	// no duplicate keys after lower-casing (a Go map cannot hold them / their order would be random)
	seen := map[string]bool{}
	var outMd []kv
	for _, e := range md {
		k := strings.ToLower(e.key)
		if !seen[k] {
			seen[k] = true
			outMd = append(outMd, e)
		}
	}
	return outMd
}

func genClaims(r *rng.R, setting string, extra []string) []claim {
	var cs []claim
	if r.Chance(4, 5) {
		cs = append(cs, claim{key: "name", str: r.Pick([]string{"bob", "alice", "x"})})
	}
	if r.Chance(1, 3) {
		cs = append(cs, claim{key: "preferred_username", str: r.Pick([]string{"bob@x", "svc"})})
	}
	if r.Chance(1, 2) {
		cs = append(cs, claim{key: "email", str: "bob@x.org"})
	}
	switch r.Intn(6) {
	case 0:
	case 1:
		cs = append(cs, claim{key: "groups", str: genGroupsValue(r, setting, extra)})
	case 2:
		cs = append(cs, claim{key: "groups", isList: true})
	default:
		n := r.Range(1, 3)
		c := claim{key: "groups", isList: true}
		for i := 0; i < n; i++ {
			c.list = append(c.list, genGroup(r, setting, extra))
		}
		cs = append(cs, c)
	}
	if r.Chance(1, 4) {
		cs = append(cs, claim{key: "roles", isList: true, list: []string{"r1", "r2"}})
	}
	return cs
}

func nontrivialLine(l line) bool {
	var present bool
	var groups []string
	switch l.op {
	case "eval", "set":
		present, _, groups = mdIdentity(l.md, true)
	case "authset":
		present, _, groups = tokenIdentity(l.claims)
		for _, e := range l.md {
			if strings.ToLower(e.key) == "groups" {
				return true
			}
		}
	case "list", "authlist":
		return l.oidc != "" && len(l.ents) > 0
	default:
		return false
	}
	if !present {
		return false
	}
	admins := adminSet(l.setting)
	for _, g := range groups {
		if g != "" && !admins[g] {
			return true
		}
	}
	return false
}

func mkCase(ls []line, tags []string) fw.Case {
	c := fw.Case{Tags: tags}
	for _, l := range ls {
		c.Script = append(c.Script, l.String())
		if nontrivialLine(l) {
			c.Nontrivial = true
		}
	}
	return c
}

func gen(r *rng.R, tier string) fw.Case {
	setting := genSetting(r)
	var tags []string
	var ls []line
	malformed := r.Chance(1, 12)
	if malformed {
		tags = append(tags, "malformed-empty-value-list")
	}
	md := genMd(r, setting, nil, false, malformed)
	ls = append(ls, line{op: "eval", setting: setting, md: md})
	tags = append(tags, "eval")
	ls = append(ls, line{op: "fields", a: ",; ", b: setting})
	for _, e := range md {
		if e.key == "groups" && len(e.vals) > 0 {
			ls = append(ls, line{op: "split", a: ";", b: e.vals[0]})
		}
	}
	if r.Chance(2, 5) {
		ls = append(ls, line{op: "set", setting: setting, md: genMd(r, setting, nil, true, malformed)})
		tags = append(tags, "set")
	}
	if r.Chance(1, 4) {
		var client []kv
		if r.Chance(1, 3) {
			client = genMd(r, setting, nil, true, false)
		} else if r.Chance(1, 2) {
			client = []kv{{r.Pick(noiseKeys), []string{"1"}}}
		}
		ls = append(ls, line{op: "authset", setting: setting, md: client, claims: genClaims(r, setting, nil)})
		tags = append(tags, "authset")
	}
	if r.Chance(1, 3) {
		n := r.Range(0, 4)
		var ents []string
		for i := 0; i < n; i++ {
			ents = append(ents, r.Pick(entsPool))
		}
		oidc := r.Pick([]string{"", "http://dex:5556", "x"})
		// the override variable: unset, defined but empty, or naming a group
		rocSet := r.Chance(3, 5)
		roc := ""
		if rocSet {
			roc = r.Pick([]string{"", "", "RocAdmins", "a"})
		}
		extra := append([]string{"AetherROCAdmin"}, ents...)
		if roc != "" {
			extra = append(extra, roc)
		}
		if r.Chance(1, 3) {
			var client []kv
			if r.Chance(1, 3) {
				client = genMd(r, "", extra, true, false)
			}
			ls = append(ls, line{op: "authlist", oidc: oidc, roc: roc, rocSet: rocSet, ents: ents, md: client, claims: genClaims(r, "", extra)})
			tags = append(tags, "authlist")
		} else {
			md := genMd(r, "", extra, true, malformed)
			if r.Chance(1, 4) {
				// callers without real groups: no groups value, an empty one, separators only, a trailing ';'
				var keep []kv
				for _, e := range md {
					if strings.ToLower(e.key) != "groups" && strings.ToLower(e.key) != "name" {
						keep = append(keep, e)
					}
				}
				md = append(keep, kv{"name", []string{"bob"}})
				switch r.Intn(4) {
				case 0:
				case 1:
					md = append(md, kv{"groups", []string{r.Pick([]string{"", ";", ";;"})}})
				default:
					if len(ents) > 0 {
						md = append(md, kv{"groups", []string{r.Pick(ents) + r.Pick([]string{";", ";;", ""})}})
					}
				}
			}
			ls = append(ls, line{op: "list", oidc: oidc, roc: roc, rocSet: rocSet, ents: ents, md: md})
			tags = append(tags, "list")
		}
	}
	c := mkCase(ls, tags)
	if c.Nontrivial {
		c.Tags = append(c.Tags, "nontrivial")
	}
	return c
}

// enumerate: every (ADMINGROUPS, groups value) pair over the alphabet {a b , ;} up to length 3,
// with a name present (exhaustive for that space): 85 x 85 evaluations.
func enumerate(tier string) []fw.Case {
	alpha := []string{"a", "b", ",", ";"}
	vals := []string{""}
	var rec func(p string, d int)
	rec = func(p string, d int) {
		if d == 0 {
			return
		}
		for _, a := range alpha {
			vals = append(vals, p+a)
			rec(p+a, d-1)
		}
	}
	rec("", 3)
	var out []fw.Case
	for _, s := range vals {
		for _, g := range vals {
			l := line{op: "eval", setting: s, md: []kv{{"name", []string{"x"}}, {"groups", []string{g}}}}
			c := mkCase([]line{l}, []string{"enum-pair"})
			out = append(out, c)
		}
	}
	return out
}

// shrinkCase: drop metadata entries / claims / values, shorten the setting and the values.
func shrinkCase(c fw.Case) []fw.Case {
	var out []fw.Case
	for i, ln := range c.Script {
		l := parseLine(ln)
		if !l.ok {
			continue
		}
		emit := func(nl line) {
			s := append([]string{}, c.Script...)
			s[i] = nl.String()
			out = append(out, fw.Case{Script: s, Tags: c.Tags, Nontrivial: c.Nontrivial, Origin: c.Origin})
		}
		for j := range l.md {
			nl := l
			nl.md = append(append([]kv{}, l.md[:j]...), l.md[j+1:]...)
			emit(nl)
			if len(l.md[j].vals) > 1 {
				for k := range l.md[j].vals {
					nl := l
					nl.md = append([]kv{}, l.md...)
					nl.md[j] = kv{l.md[j].key, append(append([]string{}, l.md[j].vals[:k]...), l.md[j].vals[k+1:]...)}
					emit(nl)
				}
			}
			for k, v := range l.md[j].vals {
				if rs := []rune(v); len(rs) > 1 {
					for _, nv := range []string{string(rs[1:]), string(rs[:len(rs)-1])} {
						nl := l
						nl.md = append([]kv{}, l.md...)
						vals := append([]string{}, l.md[j].vals...)
						vals[k] = nv
						nl.md[j] = kv{l.md[j].key, vals}
						emit(nl)
					}
				}
			}
		}
		for j := range l.claims {
			nl := l
			nl.claims = append(append([]claim{}, l.claims[:j]...), l.claims[j+1:]...)
			emit(nl)
		}
		if rs := []rune(l.setting); len(rs) > 1 {
			for _, ns := range []string{string(rs[1:]), string(rs[:len(rs)-1])} {
				nl := l
				nl.setting = ns
				emit(nl)
			}
		}
		for j := range l.ents {
			nl := l
			nl.ents = append(append([]string{}, l.ents[:j]...), l.ents[j+1:]...)
			emit(nl)
		}
	}
	return out
}

// Prop is the C14 correspondence check.
var Prop = &fw.Prop{
	ID: "C14",
	Rule: "ADMINGROUPS settings (realistic lists with , ; blank separators, empty, separators only, random strings over a small alphabet) x metadata " +
		"(name / preferred_username / groups present, absent, empty, several values, upper-case keys, empty value lists in a malformed stream; groups = exact entries, proper prefixes/suffixes/infixes, " +
		"super-strings, other case, the whole setting, several joined by ;) through TemporaryEvaluate, through gnmi Set (fixed valid request, real transaction store, counting topology/registry), " +
		"through AuthenticationInterceptor + Set with real HS256 tokens (string and list claims, client-supplied metadata), and Get of target * (listing filter, OIDC on/off, ROC override); " +
		"plus exhaustive (setting, groups) pairs over {a b , ;}^0..3. Non-trivial = identity present and some non-empty caller group is not an administrator group, a client-supplied groups header, or a filtered listing.",
	Quick: 6000, Thorough: 120000,
	Gen: gen, Enumerate: enumerate,
	NewReal: func() fw.Real { return fw.RealFunc(exec) },
	Monitor: monitor, Shrink: shrinkCase,
	Sigs: map[string]func(fw.Case, []string, string) bool{
		"firstValueOnly": sigFirstValue,
	},
}

func init() { fw.Register(Prop) }
