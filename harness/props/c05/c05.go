// Package c05 ties the chunking twin (OnosVerif/Tree/Chunks.lean) to (*ModelPluginInfo).Validate of
// pkg/pluginregistry/registry.go and evaluates the pure part of C05 on the real function: a fake
// model-plugin client records every chunk it receives; the document the plugin saw must be, byte
// for byte and leaf for leaf, the document handed to Validate, whatever its size, and a verdict
// other than "valid" (or a transport failure anywhere) must never be reported as success.
//
// The protocol part of C05 (validation on the predecessor's committed result, a rejected change
// alters nothing) is checked by the V2 protocol model, not here.
package c05

import (
	"bytes"
	"context"
	"encoding/json"
	"errors"
	"fmt"
	"strconv"
	"strings"

	api "github.com/onosproject/onos-api/go/onos/config/admin"
	configapi "github.com/onosproject/onos-api/go/onos/config/v2"
	"github.com/onosproject/onos-config/pkg/pluginregistry"
	treev2 "github.com/onosproject/onos-config/pkg/utils/v2/tree"
	"github.com/onosproject/onos-config/verifharness/internal/fw"
	"github.com/onosproject/onos-config/verifharness/internal/rng"
	"google.golang.org/grpc"
)

// the chunk limit named by the property ("the 100 kB chunk boundary")
const propertyChunkLimit = 100000

type behaviour struct {
	kind string // open | send | recv | valid | invalid
	k    int
}

func parseBehaviour(s string) (behaviour, bool) {
	switch {
	case s == "open" || s == "recv" || s == "valid" || s == "invalid":
		return behaviour{kind: s}, true
	case strings.HasPrefix(s, "send."):
		k, err := strconv.Atoi(s[5:])
		if err != nil || k < 0 {
			return behaviour{}, false
		}
		return behaviour{kind: "send", k: k}, true
	}
	return behaviour{}, false
}

type fakeStream struct {
	grpc.ClientStream
	b      behaviour
	chunks [][]byte
	sends  int
	limit  int
}

func (s *fakeStream) Send(c *api.ValidateConfigRequestChunk) error {
	n := s.sends
	s.sends++
	if s.b.kind == "send" && n == s.b.k {
		return errors.New("injected send failure")
	}
	if n > s.limit {
		return errors.New("runaway sender")
	}
	s.chunks = append(s.chunks, append([]byte{}, c.Json...))
	return nil
}

func (s *fakeStream) CloseAndRecv() (*api.ValidateConfigResponse, error) {
	switch s.b.kind {
	case "recv":
		return nil, errors.New("injected receive failure")
	case "invalid":
		return &api.ValidateConfigResponse{Valid: false, Message: "rejected by the fake plugin"}, nil
	}
	return &api.ValidateConfigResponse{Valid: true}, nil
}

type fakeClient struct {
	api.ModelPluginServiceClient
	stream *fakeStream
}

func (c *fakeClient) ValidateConfigChunked(ctx context.Context, opts ...grpc.CallOption) (api.ModelPluginService_ValidateConfigChunkedClient, error) {
	if c.stream.b.kind == "open" {
		return nil, errors.New("injected open failure")
	}
	return c.stream, nil
}

// synthetic document: position-dependent bytes, so a shifted, repeated or dropped chunk shows
func synthDoc(n int) []byte {
	d := make([]byte, n)
	for i := range d {
		d[i] = byte((i*131 + i/251 + 7) % 256)
	}
	return d
}

func runValidate(doc []byte, b behaviour) (res string, st *fakeStream) {
	st = &fakeStream{b: b, limit: len(doc) + 2}
	p := &pluginregistry.ModelPluginInfo{Client: &fakeClient{stream: st}}
	err := p.Validate(context.Background(), doc)
	switch {
	case err == nil:
		res = "ok"
	case strings.Contains(err.Error(), "configuration is not valid"):
		res = "invalid"
	default:
		res = "err"
	}
	return res, st
}

// jsonDoc builds, with the real BuildTree, a document of exactly n bytes (n >= 40): two leaves
// under a list entry, one of them padded.
func jsonDoc(n int) ([]byte, map[string]string, bool) {
	mk := func(pad int) ([]byte, map[string]string) {
		leaves := map[string]string{"/a/l[k=1]/v": strings.Repeat("x", pad), "/a/l[k=1]/w": "é<&>", "/b": "1"}
		var vals []*configapi.PathValue
		for p, v := range leaves {
			vals = append(vals, &configapi.PathValue{Path: p, Value: *configapi.NewTypedValueString(v)})
		}
		buf, err := treev2.BuildTree(vals, true)
		if err != nil {
			return nil, nil
		}
		return buf, leaves
	}
	base, _ := mk(0)
	if base == nil || n < len(base) {
		return nil, nil, false
	}
	buf, leaves := mk(n - len(base))
	return buf, leaves, buf != nil && len(buf) == n
}

func exec(line string) (out string) {
	defer func() {
		if r := recover(); r != nil {
			out = "panic"
		}
	}()
	toks := strings.Fields(line)
	if len(toks) < 2 {
		return "bad-op"
	}
	n, err := strconv.Atoi(toks[1])
	if err != nil || n < 0 {
		return "bad-op"
	}
	switch toks[0] {
	case "tree.validate", "real.validateobs":
		if len(toks) != 3 {
			return "bad-op"
		}
		b, ok := parseBehaviour(toks[2])
		if !ok {
			return "bad-op"
		}
		doc := synthDoc(n)
		res, st := runValidate(doc, b)
		if toks[0] == "tree.validate" {
			parts := []string{res}
			for _, c := range st.chunks {
				parts = append(parts, strconv.Itoa(len(c)))
			}
			return strings.Join(parts, " ")
		}
		concat := bytes.Join(st.chunks, nil)
		min, max := -1, 0
		for _, c := range st.chunks {
			if min < 0 || len(c) < min {
				min = len(c)
			}
			if len(c) > max {
				max = len(c)
			}
		}
		same := "differs"
		if bytes.Equal(concat, doc) {
			same = "same"
		}
		return fmt.Sprintf("%s concat=%s chunks=%d min=%d max=%d", res, same, len(st.chunks), min, max)
	case "real.validatedoc":
		doc, leaves, ok := jsonDoc(n)
		if !ok {
			return "no-doc"
		}
		res, st := runValidate(doc, behaviour{kind: "valid"})
		// what the plugin saw, parsed
		var seen struct {
			A struct {
				L []map[string]string `json:"l"`
			} `json:"a"`
			B string `json:"b"`
		}
		if err := json.Unmarshal(bytes.Join(st.chunks, nil), &seen); err != nil {
			return res + " plugin-saw-unparseable-json"
		}
		if len(seen.A.L) != 1 || seen.A.L[0]["v"] != leaves["/a/l[k=1]/v"] || seen.A.L[0]["w"] != leaves["/a/l[k=1]/w"] ||
			seen.A.L[0]["k"] != "1" || seen.B != leaves["/b"] {
			return res + " leaves=differ"
		}
		return fmt.Sprintf("%s leaves=same bytes=%d chunks=%d", res, len(doc), len(st.chunks))
	}
	return "bad-op"
}

func mkCase(n int, beh string, tags []string) fw.Case {
	s := []string{
		fmt.Sprintf("tree.validate %d %s", n, beh),
		fmt.Sprintf("real.validateobs %d %s", n, beh),
	}
	if beh == "valid" && n >= 100 {
		s = append(s, fmt.Sprintf("real.validatedoc %d", n))
	}
	switch {
	case n == 0:
		tags = append(tags, "empty-doc")
	case n <= propertyChunkLimit:
		tags = append(tags, "1-chunk")
	default:
		tags = append(tags, fmt.Sprintf("%d-chunks", (n+propertyChunkLimit-1)/propertyChunkLimit))
	}
	if n%propertyChunkLimit == 0 && n > 0 {
		tags = append(tags, "exact-multiple")
	}
	tags = append(tags, "plugin:"+strings.Split(beh, ".")[0])
	return fw.Case{Script: s, Tags: tags, Nontrivial: n > propertyChunkLimit}
}

var behaviours = []string{"valid", "invalid", "open", "recv", "send.0", "send.1", "send.2", "send.3", "send.4"}

func boundarySizes() []int {
	var out []int
	for k := 0; k <= 3; k++ {
		for _, d := range []int{-1, 0, 1} {
			if n := k*propertyChunkLimit + d; n >= 0 {
				out = append(out, n)
			}
		}
	}
	return append(out, 350000, 1, 2, 99, 100, 199998, 250000)
}

func enumerate(tier string) []fw.Case {
	var out []fw.Case
	for _, n := range boundarySizes() {
		for _, b := range behaviours {
			out = append(out, mkCase(n, b, []string{"enum-boundary"}))
		}
	}
	return out
}

func gen(r *rng.R, tier string) fw.Case {
	var n int
	switch r.Intn(4) {
	case 0:
		n = r.Range(0, 350000)
	case 1:
		n = r.Range(0, 3)*propertyChunkLimit + r.Range(-3, 3)
	case 2:
		n = r.Range(100001, 350000)
	default:
		n = r.Range(0, 2000)
	}
	if n < 0 {
		n = 0
	}
	b := "valid"
	if r.Chance(1, 2) {
		b = behaviours[r.Intn(len(behaviours))]
	}
	return mkCase(n, b, []string{"random-size"})
}

func field(ans, key string) string {
	for _, t := range strings.Fields(ans) {
		if strings.HasPrefix(t, key+"=") {
			return t[len(key)+1:]
		}
	}
	return ""
}

// monitor: the pure part of C05 on the real answers.
func monitor(c fw.Case, out []string) []string {
	var fails []string
	for i, ln := range c.Script {
		if i >= len(out) {
			break
		}
		toks := strings.Fields(ln)
		switch toks[0] {
		case "real.validateobs":
			n, _ := strconv.Atoi(toks[1])
			b, _ := parseBehaviour(toks[2])
			res := strings.Fields(out[i])[0]
			nchunks, _ := strconv.Atoi(field(out[i], "chunks"))
			min, _ := strconv.Atoi(field(out[i], "min"))
			max, _ := strconv.Atoi(field(out[i], "max"))
			same := field(out[i], "concat") == "same"
			if res == "ok" && !same {
				fails = append(fails, fmt.Sprintf("Validate accepted a %d-byte document although the plugin did not receive exactly that document (%s)", n, out[i]))
			}
			if b.kind == "valid" {
				if res != "ok" {
					fails = append(fails, fmt.Sprintf("a valid %d-byte document was reported as %s", n, res))
				}
				if !same {
					fails = append(fails, fmt.Sprintf("the plugin did not see the %d-byte document byte for byte (%s)", n, out[i]))
				}
			}
			if nchunks > 0 && min < 1 {
				fails = append(fails, fmt.Sprintf("an empty chunk was sent for a %d-byte document", n))
			}
			if max > propertyChunkLimit {
				fails = append(fails, fmt.Sprintf("a chunk of %d bytes exceeds the 100 kB chunk limit", max))
			}
			expectedSends := (n + propertyChunkLimit - 1) / propertyChunkLimit
			rejected := b.kind == "invalid" || b.kind == "open" || b.kind == "recv" || (b.kind == "send" && b.k < expectedSends)
			if rejected && res == "ok" {
				fails = append(fails, fmt.Sprintf("plugin behaviour %s on a %d-byte document was reported as success", toks[2], n))
			}
		case "real.validatedoc":
			if out[i] == "no-doc" {
				continue
			}
			if !strings.HasPrefix(out[i], "ok leaves=same") {
				fails = append(fails, "the JSON document the plugin saw does not hold the leaves it was built from: "+out[i])
			}
		}
	}
	return fails
}

// Prop is the C05 (pure part) correspondence check.
var Prop = &fw.Prop{
	ID: "C05",
	Rule: "PURE PART: (*ModelPluginInfo).Validate is run against a recording fake model-plugin client on position-dependent synthetic documents and on real BuildTree documents " +
		"of 0 B to 350 kB: exhaustively every size k*100000+{-1,0,1} (k=0..3), 350000 and a few small sizes, under every plugin behaviour " +
		"(valid, invalid, open failure, receive failure, failure of send 0..4), plus random sizes (uniform, near the boundaries, small). " +
		"Compared with the twin: result and the chunk lengths the plugin received. Non-trivial = the document needs at least two chunks.",
	Quick: 400, Thorough: 20000,
	Gen: gen, Enumerate: enumerate,
	NewReal:     func() fw.Real { return fw.RealFunc(exec) },
	Monitor:     monitor,
	FixedLayout: true,
	RealOnly:    func(line string) bool { return strings.HasPrefix(line, "real.") },
	Sigs:        map[string]func(fw.Case, []string, string) bool{},
}

func init() { fw.Register(Prop) }
