package c15

// The real stores run in WORKER PROCESSES (this binary re-executed with VERIF_C15_CHILD=worker), one per
// harness worker, replaced after a bounded number of cases:
//   * the atomix in-memory test client does not release its gRPC connections and partition clients on Close
//     (about 35 goroutines and 4 MB per case stay behind), so a long run in one process exhausts memory;
//   * a panic in a store goroutine (the v3 transaction store's double close on cancel) takes the whole process
//     down: in a worker that is an observation ("panic close-of-closed-channel"), not the end of the check.
// Protocol on the worker's stdin/stdout: `\x02begin`, script lines, `\x02end`; every answer line starts with \x01
// (anything else on stdout is ignored).

import (
	"bufio"
	"bytes"
	"fmt"
	"io"
	"os"
	"os/exec"
	"strings"
	"sync"

	"github.com/onosproject/onos-config/verifharness/internal/fw"
)

const casesPerWorker = 150

type child struct {
	cmd    *exec.Cmd
	in     io.WriteCloser
	out    *bufio.Reader
	mu     sync.Mutex
	stderr bytes.Buffer
	cases  int
}

var pool = make(chan *child, 64)

func spawn() (*child, error) {
	cmd := exec.Command(os.Args[0])
	cmd.Env = append(os.Environ(), "VERIF_C15_CHILD=worker")
	in, err := cmd.StdinPipe()
	if err != nil {
		return nil, err
	}
	out, err := cmd.StdoutPipe()
	if err != nil {
		return nil, err
	}
	errp, err := cmd.StderrPipe()
	if err != nil {
		return nil, err
	}
	if err := cmd.Start(); err != nil {
		return nil, err
	}
	c := &child{cmd: cmd, in: in, out: bufio.NewReaderSize(out, 1<<20)}
	go func() {
		buf := make([]byte, 4096)
		for {
			n, err := errp.Read(buf)
			if n > 0 {
				c.mu.Lock()
				if c.stderr.Len() > 1<<16 {
					c.stderr.Reset()
				}
				c.stderr.Write(buf[:n])
				c.mu.Unlock()
			}
			if err != nil {
				return
			}
		}
	}()
	return c, nil
}

func (c *child) ask(line string) (string, error) {
	if _, err := io.WriteString(c.in, line+"\n"); err != nil {
		return "", err
	}
	for {
		ans, err := c.out.ReadString('\n')
		if err != nil {
			return "", err
		}
		if strings.HasPrefix(ans, "\x01") {
			return strings.TrimRight(ans[1:], "\n"), nil
		}
	}
}

func (c *child) kill() {
	_ = c.in.Close()
	_ = c.cmd.Process.Kill()
	_ = c.cmd.Wait()
}

func (c *child) crashText() string {
	_ = c.cmd.Wait() // let the stderr copier finish
	c.mu.Lock()
	s := c.stderr.String()
	c.mu.Unlock()
	switch {
	case strings.Contains(s, "close of closed channel"):
		return "close-of-closed-channel"
	case strings.Contains(s, "panic:"):
		i := strings.Index(s, "panic:")
		ln := s[i:]
		if j := strings.IndexByte(ln, '\n'); j > 0 {
			ln = ln[:j]
		}
		return strings.ReplaceAll(ln, " ", "_")
	}
	return "worker-process-died"
}

type proxy struct {
	c    *child
	dead bool
}

func newReal() fw.Real {
	var c *child
	select {
	case c = <-pool:
	default:
		var err error
		c, err = spawn()
		if err != nil {
			return fw.RealFunc(func(string) string { return "worker-spawn-error " + err.Error() })
		}
	}
	if _, err := c.ask("\x02begin"); err != nil {
		c.kill()
		return fw.RealFunc(func(string) string { return "worker-begin-error" })
	}
	return &proxy{c: c}
}

func (p *proxy) Exec(line string) string {
	if p.dead {
		return "crashed"
	}
	ans, err := p.c.ask(line)
	if err != nil {
		p.dead = true
		msg := p.c.crashText()
		p.c.kill()
		return "panic " + msg
	}
	return ans
}

func (p *proxy) Close() {
	if p.dead {
		return
	}
	if _, err := p.c.ask("\x02end"); err != nil {
		p.c.kill()
		return
	}
	p.c.cases++
	if p.c.cases >= casesPerWorker {
		p.c.kill()
		return
	}
	select {
	case pool <- p.c:
	default:
		p.c.kill()
	}
}

// runWorker is the worker process.
func runWorker() {
	in := bufio.NewReaderSize(os.Stdin, 1<<20)
	out := bufio.NewWriter(os.Stdout)
	var r *real
	reply := func(s string) {
		fmt.Fprintf(out, "\x01%s\n", s)
		out.Flush()
	}
	for {
		line, err := in.ReadString('\n')
		if err != nil {
			os.Exit(0)
		}
		line = strings.TrimRight(line, "\n")
		switch line {
		case "\x02begin":
			if r != nil {
				r.Close()
			}
			r = newLocalReal()
			reply("ok")
		case "\x02end":
			if r != nil {
				r.Close()
				r = nil
			}
			reply("ok")
		default:
			if r == nil {
				reply("bad-op")
			} else {
				reply(r.Exec(line))
			}
		}
	}
}
