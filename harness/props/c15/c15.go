// Package c15 ties the Lean store twin (OnosVerif/Store) to the five real stores running on the atomix
// in-memory test client, and evaluates C15's own statement on the real answers:
// two writers carrying the same read version never both succeed; versions and log indexes only
// grow and an index is never reused; a refused write changes nothing; a live watcher (with or
// without replay, for all records or one) has been shown the latest state of every record at
// quiescence; cancelling a watch disturbs neither the store nor the other watchers.
package c15

import (
	"fmt"
	"sort"
	"strconv"
	"strings"

	"github.com/onosproject/onos-config/verifharness/internal/fw"
	"github.com/onosproject/onos-config/verifharness/internal/rng"
	"github.com/onosproject/onos-config/verifharness/internal/worker"
	"github.com/onosproject/onos-lib-go/pkg/logging"
)

func init() {
	logging.SetLevel(logging.FatalLevel)
	worker.Serve("c15", func() fw.Real { return newLocalReal() })
	fw.Register(Prop)
}

var kinds = []string{"tx2", "prop2", "cfg2", "tx3", "cfg3"}

func hx(s string) string { return fw.EncStr(s) }

// identity returns the edits that make a local record address record number i of the kind's universe.
func identity(kind string, i int) string {
	switch kind {
	case "tx2":
		return "id=" + hx([]string{"a", "b", "c"}[i])
	case "prop2":
		return "id=" + hx([]string{"t1-1", "t1-2", "t2-1"}[i]) + " tgt=" + hx([]string{"t1", "t1", "t2"}[i]) + " txi=" + []string{"1", "2", "1"}[i]
	case "cfg2":
		return "id=" + hx([]string{"t1", "t2", "t3"}[i]) + " tgt=" + hx([]string{"t1", "t2", "t3"}[i])
	case "tx3":
		return "id=" + hx([]string{"t1", "t1", "t2"}[i]) + " ty=" + hx("ty") + " tv=" + hx("1") + " key=" + hx([]string{"ka", "kb", "kc"}[i])
	case "cfg3":
		return "id=" + hx([]string{"t1", "t2", "t3"}[i]) + " ty=" + hx("ty") + " tv=" + hx("1")
	}
	return ""
}

// evKey is the watch key of record i (for tx3 it needs the index the record got: position in its target's log).
func evKey(kind string, i int, tx3idx int) string {
	switch kind {
	case "tx2":
		return []string{"a", "b", "c"}[i]
	case "prop2":
		return []string{"t1-1", "t1-2", "t2-1"}[i]
	case "cfg2":
		return []string{"t1", "t2", "t3"}[i]
	case "tx3":
		return []string{"t1", "t1", "t2"}[i] + "-ty-1#" + strconv.Itoa(tx3idx)
	case "cfg3":
		return []string{"t1", "t2", "t3"}[i] + "-ty-1"
	}
	return ""
}

// fetch returns the lines by which client c reads record i.  A writing client starts from a fresh local record
// (so that a failed read leaves it with version 0, not with the version of ANOTHER record: atomix versions of
// different keys may coincide — they are positions of different partition logs — and the twin cannot know
// when); the observer keeps its record and only changes the identity.
func fetch(kind, c string, i int) []string {
	op := "store.get "
	if kind == "tx3" {
		op = "store.getalt "
	}
	edit := "store.new "
	if c == "o" {
		edit = "store.set "
	}
	return []string{edit + c + " " + identity(kind, i), op + c}
}

var paths = []string{"/a", "/b", "/c"}

func isCfg(kind string) bool { return kind == "cfg2" || kind == "cfg3" }

// valueEdit: configuration stores only — put one path value into the local record (v3: at most one
// value per write, because its store() aliases the range variable; see real.multival).
func valueEdit(r *rng.R, kind string, n *int) string {
	*n++
	which := "val"
	if r.Chance(1, 3) {
		which = "aval"
	}
	return which + "=" + hx(r.Pick(paths)) + ":" + strconv.Itoa(*n)
}

// genOps: sequential scripts by several logical clients.
func genOps(r *rng.R, tier string) fw.Case {
	kind := r.Pick(kinds)
	s := []string{"store.init " + kind}
	tags := []string{"ops", "kind:" + kind}
	nrec := r.Range(1, 3)
	clients := []string{"c1", "c2", "c3", "c4"}[:r.Range(2, 4)]
	steps := r.Range(5, 16)
	if tier == "thorough" {
		steps = r.Range(5, 30)
	}
	nontrivial := false
	valn := 0
	probe := func(i int) { s = append(s, fetch(kind, "o", i)...) }
	clearVals := func(c string) {
		if kind == "cfg3" {
			s = append(s, "store.set "+c+" novals noavals")
		}
	}
	for st := 0; st < steps; st++ {
		c := r.Pick(clients)
		i := r.Intn(nrec)
		switch k := r.Intn(100); {
		case k < 22 || st == 0: // create
			line := "store.new " + c + " " + identity(kind, i)
			if isCfg(kind) && r.Chance(1, 3) {
				line += " " + valueEdit(r, kind, &valn)
				tags = append(tags, "create-with-values")
			}
			if r.Chance(1, 10) {
				line += " " + r.Pick([]string{"rev=1", "idx=7", "pl=3"})
			}
			s = append(s, line, "store.create "+c)
			tags = append(tags, "create")
			probe(i)
		case k < 40: // read
			s = append(s, fetch(kind, c, i)...)
			tags = append(tags, "read")
		case k < 65: // write with whatever the client holds
			edits := "pl=" + strconv.Itoa(r.Range(1, 9))
			clearVals(c)
			if isCfg(kind) && r.Chance(1, 2) {
				edits += " " + valueEdit(r, kind, &valn)
				tags = append(tags, "write-with-values")
			}
			s = append(s, "store.set "+c+" "+edits)
			if r.Bool() {
				s = append(s, "store.update "+c)
				tags = append(tags, "update")
			} else {
				s = append(s, "store.updatestatus "+c)
				tags = append(tags, "updatestatus")
			}
			probe(i)
		case k < 85: // two clients read the same version, both write
			c2 := clients[(indexOf(clients, c)+1)%len(clients)]
			s = append(s, fetch(kind, c, i)...)
			s = append(s, "store.copy "+c+" "+c2)
			for _, cc := range []string{c, c2} {
				edits := "pl=" + strconv.Itoa(r.Range(1, 9))
				clearVals(cc)
				if isCfg(kind) && r.Chance(1, 2) {
					edits += " " + valueEdit(r, kind, &valn)
					tags = append(tags, "stale-write-with-values")
				}
				s = append(s, "store.set "+cc+" "+edits)
				if r.Bool() {
					s = append(s, "store.update "+cc)
				} else {
					s = append(s, "store.updatestatus "+cc)
				}
				probe(i)
			}
			tags = append(tags, "same-version-pair")
			nontrivial = true
		case k < 93: // malformed / fabricated
			m := r.Pick([]string{"ver0", "rev0", "verfar", "id=-", "tgt=-", "txi=0", "key=-", "ty=-", "tv=-", "key=" + hx("nokey")})
			clearVals(c)
			s = append(s, "store.set "+c+" "+m)
			s = append(s, r.Pick([]string{"store.update ", "store.updatestatus ", "store.create "})+c)
			tags = append(tags, "malformed:"+strings.SplitN(m, "=", 2)[0])
			probe(i)
		case k < 97:
			if kind == "tx3" {
				s = append(s, "store.listset")
			} else {
				s = append(s, "store.list")
			}
			tags = append(tags, "list")
		default:
			if kind == "tx2" {
				s = append(s, "store.set "+c+" idx="+strconv.Itoa(r.Range(0, 4)), "store.getalt "+c)
			} else if kind == "tx3" {
				s = append(s, "store.set "+c+" "+identity(kind, i)+" idx="+strconv.Itoa(r.Range(0, 3)), "store.get "+c)
			} else {
				s = append(s, fetch(kind, c, i)...)
			}
			tags = append(tags, "read-by-index")
		}
	}
	if kind == "tx3" {
		s = append(s, "store.listset")
	} else {
		s = append(s, "store.list")
	}
	return fw.Case{Script: s, Tags: tags, Nontrivial: nontrivial}
}

func indexOf(xs []string, x string) int {
	for i, y := range xs {
		if x == y {
			return i
		}
	}
	return 0
}

// writer: client "w" re-reads record i and writes it (always with the fresh version).
func freshWrite(kind string, i int, pl int, create bool) []string {
	if create {
		return []string{"store.new w " + identity(kind, i), "store.create w"}
	}
	s := fetch(kind, "w", i)
	s = append(s, "store.set w pl="+strconv.Itoa(pl))
	if pl%2 == 0 {
		return append(s, "store.update w")
	}
	return append(s, "store.updatestatus w")
}

// genWatch: watch scripts run to quiescence.
func genWatch(r *rng.R, tier string) fw.Case {
	kind := r.Pick(kinds)
	s := []string{"store.init " + kind}
	tags := []string{"watch", "kind:" + kind}
	created := []bool{false, false, false}
	tx3count := map[string]int{} // target -> records created (index of the next is count+1)
	tx3idx := []int{0, 0, 0}
	tgtOf := []string{"t1", "t1", "t2"}
	nw := 0
	nontrivial := false
	pl := 0
	write := func(i int) {
		pl++
		if !created[i] {
			created[i] = true
			if kind == "tx3" {
				tx3count[tgtOf[i]]++
				tx3idx[i] = tx3count[tgtOf[i]]
			}
			s = append(s, freshWrite(kind, i, pl, true)...)
			return
		}
		s = append(s, freshWrite(kind, i, pl, false)...)
	}
	addWatcher := func() string {
		nw++
		name := "w" + strconv.Itoa(nw)
		replay := "0"
		if r.Chance(2, 3) {
			replay = "1"
			tags = append(tags, "replay")
		} else {
			tags = append(tags, "no-replay")
		}
		key := "*"
		if r.Chance(1, 3) {
			i := r.Intn(3)
			idx := tx3idx[i]
			if idx == 0 {
				idx = tx3count[tgtOf[i]] + 1 // the index the record will get if it is created next in its log
			}
			if kind != "tx3" || created[i] {
				key = hx(evKey(kind, i, idx))
				tags = append(tags, "per-id")
			}
		}
		s = append(s, "store.watch "+name+" "+replay+" "+key)
		return name
	}
	pre := r.Range(0, 3)
	for j := 0; j < pre; j++ {
		write(r.Intn(3))
	}
	if r.Chance(1, 3) {
		// a slow consumer: Watch with replay returns, the consumer has not yet taken the replayed events when other
		// clients write (to a record the replay has read, and to others); then it drains.  Whatever was written after
		// Watch returned must end up shown.
		i0 := r.Intn(3)
		if !created[i0] {
			write(i0)
		}
		nw++
		name := "w" + strconv.Itoa(nw)
		key := "*"
		if r.Bool() {
			key = hx(evKey(kind, i0, tx3idx[i0]))
			tags = append(tags, "per-id")
		}
		s = append(s, "store.watch "+name+" 1 "+key+" paused")
		write(i0)
		if r.Bool() {
			write(r.Intn(3))
		}
		s = append(s, "store.unpause "+name)
		tags = append(tags, "slow-consumer-replay")
		nontrivial = true
		if r.Bool() {
			s = append(s, "store.drain")
		}
	}
	first := addWatcher()
	mid := r.Range(0, 3)
	for j := 0; j < mid; j++ {
		write(r.Intn(3))
	}
	second := ""
	if r.Chance(3, 4) {
		second = addWatcher()
	}
	if r.Chance(1, 2) {
		s = append(s, "store.drain")
	}
	if r.Chance(1, 2) {
		// the consumer of the first watcher stops reading; more writes; it cancels; one more write
		s = append(s, "store.stop "+first)
		for j := r.Range(0, 2); j > 0; j-- {
			write(r.Intn(3))
		}
		s = append(s, "store.cancel "+first)
		write(r.Intn(3))
		tags = append(tags, "stop-then-cancel")
		nontrivial = true
	} else if r.Chance(1, 2) {
		s = append(s, "store.cancel "+first)
		write(r.Intn(3))
		tags = append(tags, "cancel")
		nontrivial = true
	}
	post := r.Range(0, 2)
	for j := 0; j < post; j++ {
		write(r.Intn(3))
	}
	if r.Chance(1, 4) {
		addWatcher()
	}
	_ = second
	s = append(s, "store.drain", "store.real.closed")
	return fw.Case{Script: s, Tags: tags, Nontrivial: nontrivial}
}

func gen(r *rng.R, tier string) fw.Case {
	switch k := r.Intn(100); {
	case k < 55:
		return genOps(r, tier)
	case k < 97:
		return genWatch(r, tier)
	case k < 98:
		kind := r.Pick([]string{"tx2", "cfg2", "cfg3", "tx3"})
		return fw.Case{Script: []string{"store.init " + kind, "store.real.watchrace 120"}, Tags: []string{"watch-race", "kind:" + kind}, Nontrivial: true}
	case k < 99:
		kind := r.Pick([]string{"tx2", "cfg2", "cfg3"})
		return fw.Case{Script: []string{"store.init " + kind, "store.real.racecancel 200"}, Tags: []string{"race-cancel", "kind:" + kind}, Nontrivial: true}
	default:
		kind := r.Pick([]string{"cfg2", "cfg3"})
		return fw.Case{Script: []string{"store.init " + kind, "store.real.multival"}, Tags: []string{"multival", "kind:" + kind}, Nontrivial: true}
	}
}

// enumerate: for every store, every position of one Watch call (with/without replay, all records / one)
// among create, update, update; and the stop-write-write-cancel-write scenario with a second watcher.
func enumerate(tier string) []fw.Case {
	var out []fw.Case
	for _, kind := range kinds {
		for _, replay := range []string{"0", "1"} {
			for _, perID := range []bool{false, true} {
				for pos := 0; pos <= 3; pos++ {
					s := []string{"store.init " + kind}
					key := "*"
					if perID {
						key = hx(evKey(kind, 0, 1))
					}
					for j := 0; j < 3; j++ {
						if j == pos {
							s = append(s, "store.watch w1 "+replay+" "+key)
						}
						s = append(s, freshWrite(kind, 0, j+1, j == 0)...)
					}
					if pos == 3 {
						s = append(s, "store.watch w1 "+replay+" "+key)
					}
					s = append(s, "store.drain")
					out = append(out, fw.Case{Script: s, Tags: []string{"enum-watch-position", "kind:" + kind}, Nontrivial: true})
				}
				// a slow consumer: the record exists, Watch with replay returns, the record is written again before the
				// consumer has taken the replayed event (the Set handler pattern when per record), then it drains
				if replay == "1" {
					sl := []string{"store.init " + kind}
					k2 := "*"
					if perID {
						k2 = hx(evKey(kind, 0, 1))
					}
					sl = append(sl, freshWrite(kind, 0, 1, true)...)
					sl = append(sl, "store.watch w1 1 "+k2+" paused")
					sl = append(sl, freshWrite(kind, 0, 2, false)...)
					sl = append(sl, "store.unpause w1", "store.drain")
					sl = append(sl, freshWrite(kind, 0, 3, false)...)
					sl = append(sl, "store.drain")
					out = append(out, fw.Case{Script: sl, Tags: []string{"enum-slow-consumer-replay", "kind:" + kind}, Nontrivial: true})
				}
				// the consumer stops reading, two more writes, cancel, third write, a second watcher must still see everything
				s := []string{"store.init " + kind}
				key := "*"
				if perID {
					key = hx(evKey(kind, 0, 1))
				}
				s = append(s, freshWrite(kind, 0, 1, true)...)
				s = append(s, "store.watch w1 "+replay+" "+key, "store.watch w2 "+replay+" *", "store.drain", "store.stop w1")
				s = append(s, freshWrite(kind, 0, 2, false)...)
				s = append(s, freshWrite(kind, 0, 3, false)...)
				s = append(s, "store.cancel w1")
				s = append(s, freshWrite(kind, 0, 4, false)...)
				s = append(s, "store.drain", "store.real.closed")
				out = append(out, fw.Case{Script: s, Tags: []string{"enum-stop-cancel", "kind:" + kind}, Nontrivial: true})
			}
		}
	}
	return out
}

// ---- monitor ------------------------------------------------------------------------------------

func parseObj(toks []string) map[string]string {
	m := map[string]string{}
	for _, t := range toks {
		if k, v, ok := strings.Cut(t, "="); ok {
			m[k] = v
		}
	}
	return m
}

// recID names the stored record an operation addresses.
func recID(kind string, o map[string]string, create bool) string {
	switch kind {
	case "tx3":
		return o["id"] + "/" + o["ty"] + "/" + o["tv"] + "#" + o["key"]
	case "cfg3":
		if create {
			return dashHex(o)
		}
		return o["key"]
	}
	return o["id"]
}

// dashHex: hex of "<id>-<type>-<version>" from the hex fields.
func dashHex(o map[string]string) string {
	a, _ := fw.DecStr(o["id"])
	b, _ := fw.DecStr(o["ty"])
	c, _ := fw.DecStr(o["tv"])
	return hx(a + "-" + b + "-" + c)
}

func valsSet(s string) map[string]bool {
	m := map[string]bool{}
	if s == "-" || s == "{}" || s == "" {
		return m
	}
	for _, it := range strings.Split(s, ",") {
		m[it] = true
	}
	return m
}

// monitor evaluates C15's statement on the real answers, from the property text only.
func monitor(c fw.Case, out []string) []string {
	var fails []string
	add := func(format string, a ...interface{}) {
		if len(fails) < 8 {
			fails = append(fails, fmt.Sprintf(format, a...))
		}
	}
	kind := ""
	last := map[string]map[string]string{}   // client -> record text it holds (as last printed)
	wins := map[string]int{}                 // record|version carried -> successful updates
	wver := map[string]int{}                 // record -> version of the last successful write
	seenVer := map[string]int{}              // record -> highest version handed out by any read
	nextIdx := map[string]int{}              // log -> index of the last successful create
	recIdx := map[string]string{}            // record -> index
	view := map[string]string{}              // record -> observer's last view
	okWrite := map[string]bool{}             // record -> a write succeeded since the observer's last view
	failedCarry := map[string]bool{}         // record -> a refused write since then carried path values
	carriedC := map[string]map[string]bool{} // record -> committed path:index pairs any write carried
	carriedA := map[string]map[string]bool{} // record -> applied pairs
	created := map[string]bool{}             // records successfully created (by id text as listed)
	spaces := map[string]bool{}              // tx3 targets touched
	latestEv := map[string]string{}          // event key (hex) -> ordinal of the latest successful write
	tainted := false                         // v3 configuration: a write succeeded whose ObjectMeta.Key is not getKey(ID)
	for i, ln := range c.Script {
		if i >= len(out) {
			break
		}
		toks := strings.Fields(ln)
		if len(toks) == 0 {
			continue
		}
		op := strings.TrimPrefix(toks[0], "store.")
		ans := strings.Fields(out[i])
		if len(ans) == 0 {
			continue
		}
		if op == "init" {
			if len(toks) > 1 && ans[0] == "ok" {
				kind = toks[1]
			}
			continue
		}
		if strings.HasPrefix(out[i], "panic") {
			add("cancel-crash: %s answered %q: the operation took the process down", ln, out[i])
			continue
		}
		if ans[0] == "crashed" || ans[0] == "bad-op" {
			continue
		}
		switch op {
		case "new", "set", "copy":
			if ans[0] == "ok" && len(toks) > 1 {
				cl := toks[1]
				if op == "copy" && len(toks) > 2 {
					cl = toks[2]
				}
				last[cl] = parseObj(ans[1:])
			}
		case "create", "update", "updatestatus":
			if len(toks) < 2 {
				continue
			}
			cl := toks[1]
			before := last[cl]
			if before == nil {
				before = map[string]string{}
			}
			var after map[string]string
			okAns := ans[0] == "ok"
			if okAns {
				after = parseObj(ans[1:])
			} else if len(ans) > 2 {
				after = parseObj(ans[2:])
			}
			if after != nil {
				last[cl] = after
			}
			if kind == "tx3" {
				spaces[before["id"]+"/"+before["ty"]+"/"+before["tv"]] = true
			}
			rec := recID(kind, before, op == "create")
			if op == "create" && after != nil {
				rec = recID(kind, after, true)
			}
			// every attempt's carried path values
			if isCfg(kind) {
				side := rec
				if kind == "cfg3" {
					side = dashHex(before)
				}
				if carriedC[side] == nil {
					carriedC[side], carriedA[side] = map[string]bool{}, map[string]bool{}
				}
				for k := range valsSet(before["vals"]) {
					carriedC[side][k] = true
				}
				for k := range valsSet(before["avals"]) {
					carriedA[side][k] = true
				}
			}
			if !okAns {
				if before["vals"] != "-" && before["vals"] != "" || before["avals"] != "-" && before["avals"] != "" {
					failedCarry[rec] = true
					if kind == "cfg3" {
						failedCarry[dashHex(before)] = true
					}
				}
				continue
			}
			okWrite[rec] = true
			if kind == "cfg3" && after["key"] != dashHex(after) {
				// a client changed the ID of a record it holds and wrote it under the old entry key: from here
				// on "the record of configuration X" is ambiguous; the value rules below are not evaluated
				tainted = true
			}
			nv, _ := strconv.Atoi(after["ver"])
			if after["ver"] == "!regress" {
				add("versions: %s of %s handed back a version not above an earlier version of the same record", op, rec)
			}
			if op == "create" {
				created[rec] = true
				if kind == "tx2" || kind == "tx3" {
					log := ""
					if kind == "tx3" {
						log = after["id"] + "/" + after["ty"] + "/" + after["tv"]
					}
					idx, _ := strconv.Atoi(after["idx"])
					if idx != nextIdx[log]+1 {
						add("index: create of %s got log index %d, the previous create of that log got %d", rec, idx, nextIdx[log])
					}
					nextIdx[log] = idx
					recIdx[rec] = after["idx"]
				}
			} else {
				carried := before["ver"]
				if carried == "0" {
					add("cas: %s carrying version 0 succeeded on %s", op, rec)
				} else if carried != "?" {
					key := rec + "|" + carried
					wins[key]++
					if wins[key] > 1 {
						add("cas: two writes that both carried version %s of record %s succeeded", carried, rec)
					}
				}
				if (kind == "tx2" || kind == "tx3") && recIdx[rec] != "" && after["idx"] != recIdx[rec] {
					add("index: record %s changed its log index from %s to %s", rec, recIdx[rec], after["idx"])
				}
			}
			if nv <= wver[rec] {
				add("versions: successful %s of %s produced version %d after version %d", op, rec, nv, wver[rec])
			}
			if nv > 0 {
				wver[rec] = nv
				ek := rec
				switch kind {
				case "tx3":
					a, _ := fw.DecStr(after["id"])
					b, _ := fw.DecStr(after["ty"])
					cc, _ := fw.DecStr(after["tv"])
					ek = hx(a + "-" + b + "-" + cc + "#" + after["idx"])
				}
				latestEv[ek] = after["ver"]
			}
		case "get", "getalt":
			if len(toks) < 2 || ans[0] != "ok" {
				continue
			}
			cl := toks[1]
			o := parseObj(ans[1:])
			last[cl] = o
			rec := recID(kind, o, true)
			if kind == "cfg3" {
				rec = o["key"]
			}
			nv, _ := strconv.Atoi(o["ver"])
			if o["ver"] == "?" || nv < seenVer[rec] || nv < wver[rec] {
				add("versions: read of %s returned version %s after version %d had been seen", rec, o["ver"], maxInt(seenVer[rec], wver[rec]))
			}
			if nv > seenVer[rec] {
				seenVer[rec] = nv
			}
			if (kind == "tx2" || kind == "tx3") && recIdx[rec] != "" && o["idx"] != recIdx[rec] {
				add("index: record %s is read back with log index %s, it was created with %s", rec, o["idx"], recIdx[rec])
			}
			if isCfg(kind) && !tainted {
				side := rec
				if kind == "cfg3" {
					side = dashHex(o)
				}
				for k := range valsSet(o["vals"]) {
					if !carriedC[side][k] {
						add("side-map: configuration %s is read back with committed value %s that no write carried as a committed value", side, k)
					}
				}
				for k := range valsSet(o["avals"]) {
					if !carriedA[side][k] {
						add("side-map: configuration %s is read back with applied value %s that no write carried as an applied value", side, k)
					}
				}
			}
			if cl == "o" {
				txt := "pl=" + o["pl"] + " ver=" + o["ver"] + " rev=" + o["rev"] + " vals=" + o["vals"] + " avals=" + o["avals"]
				if prev, ok := view[rec]; ok && !okWrite[rec] && prev != txt && !tainted {
					what := "refused-write-changed"
					if failedCarry[rec] {
						what = "refused-write-changed-values"
					}
					add("%s: record %s read %q, then only refused writes, then %q", what, rec, prev, txt)
				}
				view[rec] = txt
				okWrite[rec] = false
				failedCarry[rec] = false
			}
		case "list", "listset":
			if ans[0] != "ok" {
				continue
			}
			listed := map[string]bool{}
			rest := strings.TrimPrefix(out[i], "ok")
			for _, item := range strings.Split(rest, ";") {
				f := strings.Fields(item)
				if len(f) == 0 {
					continue
				}
				o := parseObj(f)
				id := recID(kind, o, true)
				if kind == "cfg3" && o["key"] != "-" {
					id = o["key"] // the entry, whatever ID the stored record claims
				}
				listed[id] = true
			}
			for rec := range created {
				if !listed[rec] {
					add("list-incomplete: List does not return record %s (listed %d of %d created)", rec, len(listed), len(created))
					break
				}
			}
		case "drain":
			if ans[0] != "ok" {
				continue
			}
			for _, wtxt := range ans[1:] {
				name, body, ok := strings.Cut(wtxt, ":")
				if !ok || body == "cancelled" {
					continue
				}
				body = strings.TrimSuffix(strings.TrimPrefix(body, "{"), "}")
				if body == "" {
					continue
				}
				for _, it := range strings.Split(body, ",") {
					k, v, _ := strings.Cut(it, "=")
					if want, ok := latestEv[k]; ok && v != want {
						ks, _ := fw.DecStr(k)
						add("watch-stale: at quiescence watcher %s was last shown version %s of %s, the store holds version %s", name, v, ks, want)
					}
				}
			}
		case "real.closed":
			for _, wtxt := range ans[1:] {
				if strings.HasSuffix(wtxt, ":open") && kind != "prop2" {
					add("watch-unclosed: the channel of cancelled watcher %s was never closed", strings.TrimSuffix(wtxt, ":open"))
				}
			}
		case "real.racecancel":
			if ans[0] == "stalled" {
				add("race-stall: after Watch calls with replay on an already cancelled context, concurrent with writes, a second watcher of the %s store stopped receiving events", kind)
			}
		case "real.watchrace":
			if ans[0] == "lost" {
				add("watch-race: a Watch with replay racing one write ended without having been shown the written version (%s store)", kind)
			}
		case "real.regrace":
			if ans[0] == "missed" {
				add("reg-race: a proposal-store watcher whose Watch call had returned before six records were updated was not shown all six updates")
			}
		case "real.multival":
			if ans[0] == "ok" && len(ans) > 1 {
				want := "vals=" + hx("/x") + ":1," + hx("/y") + ":2," + hx("/z") + ":3"
				if ans[1] != want {
					add("multival: a configuration created with /x=1 /y=2 /z=3 is read back as %s", ans[1])
				}
			}
		}
	}
	_ = sort.Strings
	return fails
}

func maxInt(a, b int) int {
	if a > b {
		return a
	}
	return b
}

func kindOf(c fw.Case) string {
	for _, ln := range c.Script {
		if strings.HasPrefix(ln, "store.init ") {
			return strings.TrimPrefix(ln, "store.init ")
		}
	}
	return ""
}

func scriptHas(c fw.Case, sub string) bool {
	for _, ln := range c.Script {
		if strings.Contains(ln, sub) {
			return true
		}
	}
	return false
}

// match: lines whose real outcome depends on a map iteration order — the twin answers `oneof a|b|…`.
func match(line, realOut, twinOut string) bool {
	if strings.HasPrefix(twinOut, "oneof ") && strings.HasPrefix(realOut, "ok") {
		got := strings.TrimSpace(strings.TrimPrefix(realOut, "ok"))
		for _, alt := range strings.Split(strings.TrimPrefix(twinOut, "oneof "), "|") {
			if strings.TrimSpace(alt) == got {
				return true
			}
		}
	}
	return false
}

var pool = &worker.Pool{Name: "c15", CasesPerWorker: 150}

// Prop is the C15 correspondence check.
var Prop = &fw.Prop{
	ID: "C15",
	Rule: "scripts on the five real stores over the atomix test client: (ops) 5-16 (thorough 5-30) operations by 2-4 logical clients over 1-3 records — " +
		"create, read, update/update-status with the version the client holds, pairs of clients writing from the same read version, malformed and fabricated versions, " +
		"configuration path values, list, read by index — with an observer read after every write; (watch) watchers with/without replay, for all records or one, " +
		"registered before/between/after writes, a slow consumer that takes the replay only after further writes, consumer stops reading, writes, cancel, write, drain to quiescence; (enum) every position of one Watch among create/update/update " +
		"and the stop-write-write-cancel-write scenario for every store x replay x scope; (race) Watch with replay on a cancelled context concurrent with writes. " +
		"Non-trivial = at least one same-version write pair or one cancel; distinct = distinct script.",
	Quick: 700, Thorough: 12000, Workers: 8,
	Gen: gen, Enumerate: enumerate,
	NewReal:  pool.NewReal,
	Monitor:  monitor,
	Match:    match,
	Reset:    "store.reset",
	RealOnly: func(line string) bool { return strings.HasPrefix(line, "store.real.") },
	Sigs: map[string]func(fw.Case, []string, string) bool{
		"cfgValuesBeforeCas": func(c fw.Case, out []string, msg string) bool {
			return strings.HasPrefix(msg, "refused-write-changed-values:") && isCfg(kindOf(c))
		},
		"v3txCancelPanics": func(c fw.Case, out []string, msg string) bool {
			return strings.HasPrefix(msg, "cancel-crash:") && kindOf(c) == "tx3" && scriptHas(c, "store.cancel")
		},
		"v3txListFirstTarget": func(c fw.Case, out []string, msg string) bool {
			return strings.HasPrefix(msg, "list-incomplete:") && kindOf(c) == "tx3"
		},
		"watchEarlyExitNoDrain": func(c fw.Case, out []string, msg string) bool {
			return strings.HasPrefix(msg, "race-stall:") && scriptHas(c, "store.real.racecancel")
		},
		"atomixEventsPartialRegistration": func(c fw.Case, out []string, msg string) bool {
			return strings.HasPrefix(msg, "reg-race:") && scriptHas(c, "store.real.regrace")
		},
		"v3cfgRangeVarAlias": func(c fw.Case, out []string, msg string) bool {
			return strings.HasPrefix(msg, "multival:") && kindOf(c) == "cfg3"
		},
	},
}
