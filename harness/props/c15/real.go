package c15

// The executor of C15 scripts on the REAL stores (pkg/store/v2/{transaction,proposal,configuration},
// pkg/store/v3/{transaction,configuration}) over the atomix in-memory test client.

import (
	"context"
	"fmt"
	"sort"
	"strconv"
	"strings"
	"sync"
	"sync/atomic"
	"time"

	"github.com/atomix/go-sdk/pkg/test"
	configv2 "github.com/onosproject/onos-api/go/onos/config/v2"
	configv3 "github.com/onosproject/onos-api/go/onos/config/v3"
	cfg2 "github.com/onosproject/onos-config/pkg/store/v2/configuration"
	prop2 "github.com/onosproject/onos-config/pkg/store/v2/proposal"
	tx2 "github.com/onosproject/onos-config/pkg/store/v2/transaction"
	cfg3 "github.com/onosproject/onos-config/pkg/store/v3/configuration"
	tx3 "github.com/onosproject/onos-config/pkg/store/v3/transaction"
	"github.com/onosproject/onos-config/verifharness/internal/fw"
	"github.com/onosproject/onos-lib-go/pkg/errors"
)

// lobj is a client's local record: the fields the wrappers look at (mirror of the twin's Obj).
type lobj struct {
	id, ty, tv, key, tgt string
	txi, idx             uint64
	ver, rev, pl         uint64
	vals, avals          map[string]uint64 // nil = nil map
	regress              bool              // the store handed back a version not above an earlier one of the same key
	vtag                 string            // history key (space \x00 key) of the record the version was obtained from
}

func (o *lobj) clone() *lobj {
	c := *o
	c.vals, c.avals = cloneVals(o.vals), cloneVals(o.avals)
	return &c
}

func cloneVals(m map[string]uint64) map[string]uint64 {
	if m == nil {
		return nil
	}
	c := make(map[string]uint64, len(m))
	for k, v := range m {
		c[k] = v
	}
	return c
}

func pv2(m map[string]uint64) map[string]*configv2.PathValue {
	if m == nil {
		return nil
	}
	out := map[string]*configv2.PathValue{}
	for p, i := range m {
		out[p] = &configv2.PathValue{Path: p, Index: configv2.Index(i),
			Value: configv2.TypedValue{Bytes: []byte(strconv.FormatUint(i, 10)), Type: configv2.ValueType_STRING}}
	}
	return out
}

func vp2(m map[string]*configv2.PathValue) map[string]uint64 {
	if m == nil {
		return nil
	}
	out := map[string]uint64{}
	for k, v := range m {
		out[k] = uint64(v.Index)
	}
	return out
}

func pv3(m map[string]uint64) map[string]configv3.PathValue {
	if m == nil {
		return nil
	}
	out := map[string]configv3.PathValue{}
	for p, i := range m {
		out[p] = configv3.PathValue{Path: p, Index: configv3.Index(i),
			Value: configv3.TypedValue{Bytes: []byte(strconv.FormatUint(i, 10)), Type: configv3.ValueType_STRING}}
	}
	return out
}

func vp3(m map[string]configv3.PathValue) map[string]uint64 {
	if m == nil {
		return nil
	}
	out := map[string]uint64{}
	for k, v := range m {
		out[k] = uint64(v.Index)
	}
	return out
}

// adapter is one real store behind the common shape.
type adapter interface {
	create(o *lobj) error
	update(o *lobj) error
	updateStatus(o *lobj) error
	get(q *lobj) (*lobj, error)
	getAlt(q *lobj) (*lobj, error)
	list() ([]*lobj, error)
	// watch starts Watch and a consumer goroutine; deliver is called for every event received.
	watch(ctx context.Context, evkey string, replay bool, w *rwatch) error
	close()
}

func dash(a, b, c string) string { return a + "-" + b + "-" + c }

// ---- v2 transaction -----------------------------------------------------------------------------

type tx2Adapter struct{ s tx2.Store }

func (a *tx2Adapter) to(o *lobj) *configv2.Transaction {
	t := &configv2.Transaction{ID: configv2.TransactionID(o.id), Index: configv2.Index(o.idx)}
	t.Key, t.Version, t.Revision = o.key, o.ver, configv2.Revision(o.rev)
	t.Status.State = configv2.TransactionStatus_State(o.pl)
	return t
}
func (a *tx2Adapter) from(t *configv2.Transaction, o *lobj) {
	o.id, o.idx, o.key, o.ver, o.rev, o.pl = string(t.ID), uint64(t.Index), t.Key, t.Version, uint64(t.Revision), uint64(t.Status.State)
}
func (a *tx2Adapter) create(o *lobj) error {
	t := a.to(o)
	err := a.s.Create(context.Background(), t)
	a.from(t, o)
	return err
}
func (a *tx2Adapter) update(o *lobj) error {
	t := a.to(o)
	err := a.s.Update(context.Background(), t)
	a.from(t, o)
	return err
}
func (a *tx2Adapter) updateStatus(o *lobj) error {
	t := a.to(o)
	err := a.s.UpdateStatus(context.Background(), t)
	a.from(t, o)
	return err
}
func (a *tx2Adapter) get(q *lobj) (*lobj, error) {
	t, err := a.s.Get(context.Background(), configv2.TransactionID(q.id))
	if err != nil {
		return nil, err
	}
	o := &lobj{}
	a.from(t, o)
	return o, nil
}
func (a *tx2Adapter) getAlt(q *lobj) (*lobj, error) {
	t, err := a.s.GetByIndex(context.Background(), configv2.Index(q.idx))
	if err != nil {
		return nil, err
	}
	o := &lobj{}
	a.from(t, o)
	return o, nil
}
func (a *tx2Adapter) list() ([]*lobj, error) {
	ts, err := a.s.List(context.Background())
	if err != nil {
		return nil, err
	}
	var out []*lobj
	for _, t := range ts {
		o := &lobj{}
		a.from(t, o)
		out = append(out, o)
	}
	return out, nil
}
func (a *tx2Adapter) watch(ctx context.Context, evkey string, replay bool, w *rwatch) error {
	ch := make(chan configv2.TransactionEvent)
	var opts []tx2.WatchOption
	if replay {
		opts = append(opts, tx2.WithReplay())
	}
	if evkey != "" {
		opts = append(opts, tx2.WithTransactionID(configv2.TransactionID(evkey)))
	}
	if err := a.s.Watch(ctx, ch, opts...); err != nil {
		return err
	}
	go func() {
		if !w.waitUnpaused() {
			return
		}
		for {
			select {
			case <-w.stopCh:
				return
			case e, ok := <-ch:
				if !ok {
					w.setClosed()
					return
				}
				w.deliver(string(e.Transaction.ID), e.Transaction.Version)
			}
		}
	}()
	return nil
}
func (a *tx2Adapter) close() { _ = a.s.Close(context.Background()) }

// ---- v2 proposal --------------------------------------------------------------------------------

type prop2Adapter struct{ s prop2.Store }

func (a *prop2Adapter) to(o *lobj) *configv2.Proposal {
	p := &configv2.Proposal{ID: configv2.ProposalID(o.id), TargetID: configv2.TargetID(o.tgt), TransactionIndex: configv2.Index(o.txi)}
	p.Key, p.Version, p.Revision = o.key, o.ver, configv2.Revision(o.rev)
	p.Status.PrevIndex = configv2.Index(o.pl)
	return p
}
func (a *prop2Adapter) from(p *configv2.Proposal, o *lobj) {
	o.id, o.tgt, o.txi, o.key, o.ver, o.rev, o.pl = string(p.ID), string(p.TargetID), uint64(p.TransactionIndex), p.Key, p.Version, uint64(p.Revision), uint64(p.Status.PrevIndex)
}
func (a *prop2Adapter) create(o *lobj) error {
	p := a.to(o)
	err := a.s.Create(context.Background(), p)
	a.from(p, o)
	return err
}
func (a *prop2Adapter) update(o *lobj) error {
	p := a.to(o)
	err := a.s.Update(context.Background(), p)
	a.from(p, o)
	return err
}
func (a *prop2Adapter) updateStatus(o *lobj) error {
	p := a.to(o)
	err := a.s.UpdateStatus(context.Background(), p)
	a.from(p, o)
	return err
}
func (a *prop2Adapter) get(q *lobj) (*lobj, error) {
	p, err := a.s.Get(context.Background(), configv2.ProposalID(q.id))
	if err != nil {
		return nil, err
	}
	o := &lobj{}
	a.from(p, o)
	return o, nil
}
func (a *prop2Adapter) getAlt(q *lobj) (*lobj, error) { return nil, fmt.Errorf("unsupported") }
func (a *prop2Adapter) list() ([]*lobj, error) {
	ps, err := a.s.List(context.Background())
	if err != nil {
		return nil, err
	}
	var out []*lobj
	for _, p := range ps {
		o := &lobj{}
		a.from(p, o)
		out = append(out, o)
	}
	return out, nil
}
func (a *prop2Adapter) watch(ctx context.Context, evkey string, replay bool, w *rwatch) error {
	ch := make(chan configv2.ProposalEvent)
	var opts []prop2.WatchOption
	if replay {
		opts = append(opts, prop2.WithReplay())
	}
	if evkey != "" {
		opts = append(opts, prop2.WithProposalID(configv2.ProposalID(evkey)))
	}
	if err := a.s.Watch(ctx, ch, opts...); err != nil {
		return err
	}
	go func() {
		if !w.waitUnpaused() {
			return
		}
		for {
			select {
			case <-w.stopCh:
				return
			case e, ok := <-ch:
				if !ok {
					w.setClosed()
					return
				}
				w.deliver(string(e.Proposal.ID), e.Proposal.Version)
			}
		}
	}()
	return nil
}
func (a *prop2Adapter) close() { _ = a.s.Close(context.Background()) }

// ---- v2 configuration ---------------------------------------------------------------------------

type cfg2Adapter struct{ s cfg2.Store }

func (a *cfg2Adapter) to(o *lobj) *configv2.Configuration {
	c := &configv2.Configuration{ID: configv2.ConfigurationID(o.id), TargetID: configv2.TargetID(o.tgt), Index: configv2.Index(o.pl)}
	c.Key, c.Version, c.Revision = o.key, o.ver, configv2.Revision(o.rev)
	c.Values = pv2(o.vals)
	c.Status.Applied.Values = pv2(o.avals)
	return c
}
func (a *cfg2Adapter) from(c *configv2.Configuration, o *lobj) {
	o.id, o.tgt, o.key, o.ver, o.rev, o.pl = string(c.ID), string(c.TargetID), c.Key, c.Version, uint64(c.Revision), uint64(c.Index)
	o.vals, o.avals = vp2(c.Values), vp2(c.Status.Applied.Values)
}
func (a *cfg2Adapter) create(o *lobj) error {
	c := a.to(o)
	err := a.s.Create(context.Background(), c)
	a.from(c, o)
	return err
}
func (a *cfg2Adapter) update(o *lobj) error {
	c := a.to(o)
	err := a.s.Update(context.Background(), c)
	a.from(c, o)
	return err
}
func (a *cfg2Adapter) updateStatus(o *lobj) error {
	c := a.to(o)
	err := a.s.UpdateStatus(context.Background(), c)
	a.from(c, o)
	return err
}
func (a *cfg2Adapter) get(q *lobj) (*lobj, error) {
	c, err := a.s.Get(context.Background(), configv2.ConfigurationID(q.id))
	if err != nil {
		return nil, err
	}
	o := &lobj{}
	a.from(c, o)
	return o, nil
}
func (a *cfg2Adapter) getAlt(q *lobj) (*lobj, error) { return nil, fmt.Errorf("unsupported") }
func (a *cfg2Adapter) list() ([]*lobj, error) {
	cs, err := a.s.List(context.Background())
	if err != nil {
		return nil, err
	}
	var out []*lobj
	for _, c := range cs {
		o := &lobj{}
		a.from(c, o)
		out = append(out, o)
	}
	return out, nil
}
func (a *cfg2Adapter) watch(ctx context.Context, evkey string, replay bool, w *rwatch) error {
	ch := make(chan configv2.ConfigurationEvent)
	var opts []cfg2.WatchOption
	if replay {
		opts = append(opts, cfg2.WithReplay())
	}
	if evkey != "" {
		opts = append(opts, cfg2.WithConfigurationID(configv2.ConfigurationID(evkey)))
	}
	if err := a.s.Watch(ctx, ch, opts...); err != nil {
		return err
	}
	go func() {
		if !w.waitUnpaused() {
			return
		}
		for {
			select {
			case <-w.stopCh:
				return
			case e, ok := <-ch:
				if !ok {
					w.setClosed()
					return
				}
				w.deliver(string(e.Configuration.ID), e.Configuration.Version)
			}
		}
	}()
	return nil
}
func (a *cfg2Adapter) close() { _ = a.s.Close(context.Background()) }

// ---- v3 transaction -----------------------------------------------------------------------------

type tx3Adapter struct{ s tx3.Store }

func tgt3(o *lobj) configv3.Target {
	return configv3.Target{ID: configv3.TargetID(o.id), Type: configv3.TargetType(o.ty), Version: configv3.TargetVersion(o.tv)}
}
func (a *tx3Adapter) to(o *lobj) *configv3.Transaction {
	t := &configv3.Transaction{ID: configv3.TransactionID{Target: tgt3(o), Index: configv3.Index(o.idx)}}
	t.Key, t.Version, t.Revision = o.key, o.ver, configv3.Revision(o.rev)
	t.Status.Phase = configv3.TransactionStatus_Phase(o.pl)
	return t
}
func (a *tx3Adapter) from(t *configv3.Transaction, o *lobj) {
	o.id, o.ty, o.tv, o.idx = string(t.ID.Target.ID), string(t.ID.Target.Type), string(t.ID.Target.Version), uint64(t.ID.Index)
	o.key, o.ver, o.rev, o.pl = t.Key, t.Version, uint64(t.Revision), uint64(t.Status.Phase)
}
func (a *tx3Adapter) create(o *lobj) error {
	t := a.to(o)
	err := a.s.Create(context.Background(), t)
	a.from(t, o)
	return err
}
func (a *tx3Adapter) update(o *lobj) error {
	t := a.to(o)
	err := a.s.Update(context.Background(), t)
	a.from(t, o)
	return err
}
func (a *tx3Adapter) updateStatus(o *lobj) error {
	t := a.to(o)
	err := a.s.UpdateStatus(context.Background(), t)
	a.from(t, o)
	return err
}
func (a *tx3Adapter) get(q *lobj) (*lobj, error) {
	t, err := a.s.Get(context.Background(), configv3.TransactionID{Target: tgt3(q), Index: configv3.Index(q.idx)})
	if err != nil {
		return nil, err
	}
	o := &lobj{}
	a.from(t, o)
	// Get does not fill the target of a stored record it did not write; the stored value carries it
	return o, nil
}
func (a *tx3Adapter) getAlt(q *lobj) (*lobj, error) {
	t, err := a.s.GetKey(context.Background(), tgt3(q), q.key)
	if err != nil {
		return nil, err
	}
	o := &lobj{}
	a.from(t, o)
	return o, nil
}
func (a *tx3Adapter) list() ([]*lobj, error) {
	ts, err := a.s.List(context.Background())
	if err != nil {
		return nil, err
	}
	var out []*lobj
	for i := range ts {
		o := &lobj{}
		a.from(&ts[i], o)
		out = append(out, o)
	}
	return out, nil
}
func evkey3(id configv3.TransactionID) string {
	return dash(string(id.Target.ID), string(id.Target.Type), string(id.Target.Version)) + "#" + strconv.FormatUint(uint64(id.Index), 10)
}
func (a *tx3Adapter) watch(ctx context.Context, evkey string, replay bool, w *rwatch) error {
	ch := make(chan configv3.TransactionEvent)
	var opts []tx3.WatchOption
	if replay {
		opts = append(opts, tx3.WithReplay())
	}
	if evkey != "" {
		sp, idx, _ := strings.Cut(evkey, "#")
		parts := strings.SplitN(sp, "-", 3)
		for len(parts) < 3 {
			parts = append(parts, "")
		}
		n, _ := strconv.ParseUint(idx, 10, 64)
		opts = append(opts, tx3.WithTransactionID(configv3.TransactionID{
			Target: configv3.Target{ID: configv3.TargetID(parts[0]), Type: configv3.TargetType(parts[1]), Version: configv3.TargetVersion(parts[2])},
			Index:  configv3.Index(n)}))
	}
	if err := a.s.Watch(ctx, ch, opts...); err != nil {
		return err
	}
	go func() {
		if !w.waitUnpaused() {
			return
		}
		for {
			select {
			case <-w.stopCh:
				return
			case e, ok := <-ch:
				if !ok {
					w.setClosed()
					return
				}
				w.deliver(evkey3(e.Transaction.ID), e.Transaction.Version)
			}
		}
	}()
	return nil
}

// The v3 transaction store's Close never returns once a target log exists (its WaitGroup is Add-ed per
// log but no goroutine calls Done), so the executor only closes the test client.
func (a *tx3Adapter) close() {}

// ---- v3 configuration ---------------------------------------------------------------------------

type cfg3Adapter struct{ s cfg3.Store }

func (a *cfg3Adapter) to(o *lobj) *configv3.Configuration {
	c := &configv3.Configuration{ID: configv3.ConfigurationID{Target: tgt3(o)}}
	c.Key, c.Version, c.Revision = o.key, o.ver, configv3.Revision(o.rev)
	c.Committed.Index = configv3.Index(o.pl)
	c.Committed.Values = pv3(o.vals)
	c.Applied.Values = pv3(o.avals)
	return c
}
func (a *cfg3Adapter) from(c *configv3.Configuration, o *lobj) {
	o.id, o.ty, o.tv = string(c.ID.Target.ID), string(c.ID.Target.Type), string(c.ID.Target.Version)
	o.key, o.ver, o.rev, o.pl = c.Key, c.Version, uint64(c.Revision), uint64(c.Committed.Index)
	o.vals, o.avals = vp3(c.Committed.Values), vp3(c.Applied.Values)
}
func (a *cfg3Adapter) create(o *lobj) error {
	c := a.to(o)
	err := a.s.Create(context.Background(), c)
	a.from(c, o)
	return err
}
func (a *cfg3Adapter) update(o *lobj) error {
	c := a.to(o)
	err := a.s.Update(context.Background(), c)
	a.from(c, o)
	return err
}
func (a *cfg3Adapter) updateStatus(o *lobj) error {
	c := a.to(o)
	err := a.s.UpdateStatus(context.Background(), c)
	a.from(c, o)
	return err
}
func (a *cfg3Adapter) get(q *lobj) (*lobj, error) {
	c, err := a.s.Get(context.Background(), configv3.ConfigurationID{Target: tgt3(q)})
	if err != nil {
		return nil, err
	}
	o := &lobj{}
	a.from(c, o)
	return o, nil
}
func (a *cfg3Adapter) getAlt(q *lobj) (*lobj, error) { return nil, fmt.Errorf("unsupported") }
func (a *cfg3Adapter) list() ([]*lobj, error) {
	cs, err := a.s.List(context.Background())
	if err != nil {
		return nil, err
	}
	var out []*lobj
	for _, c := range cs {
		o := &lobj{}
		a.from(c, o)
		out = append(out, o)
	}
	return out, nil
}
func (a *cfg3Adapter) watch(ctx context.Context, evkey string, replay bool, w *rwatch) error {
	ch := make(chan configv3.ConfigurationEvent)
	var opts []cfg3.WatchOption
	if replay {
		opts = append(opts, cfg3.WithReplay())
	}
	if evkey != "" {
		parts := strings.SplitN(evkey, "-", 3)
		for len(parts) < 3 {
			parts = append(parts, "")
		}
		opts = append(opts, cfg3.WithConfigurationID(configv3.ConfigurationID{
			Target: configv3.Target{ID: configv3.TargetID(parts[0]), Type: configv3.TargetType(parts[1]), Version: configv3.TargetVersion(parts[2])}}))
	}
	if err := a.s.Watch(ctx, ch, opts...); err != nil {
		return err
	}
	go func() {
		if !w.waitUnpaused() {
			return
		}
		for {
			select {
			case <-w.stopCh:
				return
			case e, ok := <-ch:
				if !ok {
					w.setClosed()
					return
				}
				t := e.Configuration.ID.Target
				w.deliver(dash(string(t.ID), string(t.Type), string(t.Version)), e.Configuration.Version)
			}
		}
	}()
	return nil
}
func (a *cfg3Adapter) close() { _ = a.s.Close(context.Background()) }

// ---- watcher bookkeeping ------------------------------------------------------------------------

type rwatch struct {
	name      string
	key       string // event key, "" = all records
	replay    bool
	cancel    context.CancelFunc
	stopCh    chan struct{}
	pauseCh   chan struct{} // non-nil: the consumer starts reading only when it is closed
	paused    bool
	stopped   bool
	cancelled bool
	mu        sync.Mutex
	last      map[string]uint64 // event key -> raw version last delivered
	after     map[string]bool   // event keys written after registration
	closed    bool
	events    *int64
}

func (w *rwatch) deliver(k string, v uint64) {
	w.mu.Lock()
	w.last[k] = v
	w.mu.Unlock()
	atomic.AddInt64(w.events, 1)
}

func (w *rwatch) setClosed() {
	w.mu.Lock()
	w.closed = true
	w.mu.Unlock()
	atomic.AddInt64(w.events, 1)
}

// waitUnpaused blocks a paused consumer until it is unpaused (false: stopped meanwhile).
func (w *rwatch) waitUnpaused() bool {
	if w.pauseCh == nil {
		return true
	}
	select {
	case <-w.pauseCh:
		return true
	case <-w.stopCh:
		return false
	}
}

func (w *rwatch) covers(k string) bool { return w.key == "" || w.key == k }

// ---- the executor -------------------------------------------------------------------------------

type real struct {
	kind     string
	client   *test.Client
	a        adapter
	clients  map[string]*lobj
	hist     map[string][]uint64 // space \x00 key -> raw versions, oldest first
	creates  map[string]int      // space -> successful creates
	auto     map[string]string   // real generated id/key -> canonical autoN
	autoRev  map[string]string
	cur      map[string]uint64 // event key -> raw version of the latest successful write
	evHist   map[string]string // event key -> history key
	watchers []*rwatch
	events   int64
	crashed  bool
	deadline time.Duration
}

func newLocalReal() *real {
	return &real{clients: map[string]*lobj{}, hist: map[string][]uint64{}, creates: map[string]int{},
		auto: map[string]string{}, autoRev: map[string]string{}, cur: map[string]uint64{}, evHist: map[string]string{},
		deadline: 2500 * time.Millisecond}
}

func (r *real) Close() {
	for _, w := range r.watchers {
		if w.cancel != nil && !(r.kind == "tx3") {
			w.cancel()
		}
		if !w.stopped {
			w.stopped = true
			close(w.stopCh)
		}
	}
	if r.a != nil {
		r.a.close()
	}
	if r.client != nil {
		r.client.Close()
	}
}

func (r *real) spaceOf(o *lobj) string {
	if r.kind == "tx3" {
		return dash(o.id, o.ty, o.tv)
	}
	return ""
}

func (r *real) createKey(o *lobj) string {
	switch r.kind {
	case "tx3":
		return o.key
	case "cfg3":
		return dash(o.id, o.ty, o.tv)
	}
	return o.id
}

func (r *real) updateKey(o *lobj) string {
	switch r.kind {
	case "tx3", "cfg3":
		return o.key
	}
	return o.id
}

func (r *real) eventKey(o *lobj, key string) string {
	if r.kind == "tx3" {
		return r.spaceOf(o) + "#" + strconv.FormatUint(o.idx, 10)
	}
	return key
}

func (r *real) ordinal(o *lobj) string {
	if o.regress {
		return "!regress"
	}
	if o.ver == 0 {
		return "0"
	}
	for i, v := range r.hist[o.vtag] {
		if v == o.ver {
			return strconv.Itoa(i + 1)
		}
	}
	return "?"
}

// readTag: the record a read result's version belongs to.
func (r *real) readTag(o *lobj) string {
	k := o.id
	if r.kind == "cfg3" || r.kind == "tx3" {
		k = o.key
	}
	return r.spaceOf(o) + "\x00" + k
}

func encVals(m map[string]uint64) string {
	if m == nil {
		return "-"
	}
	if len(m) == 0 {
		return "{}"
	}
	var items []string
	for p, i := range m {
		items = append(items, fw.EncStr(p)+":"+strconv.FormatUint(i, 10))
	}
	sort.Strings(items)
	return strings.Join(items, ",")
}

func (r *real) canon(s string) string {
	if c, ok := r.auto[s]; ok {
		return c
	}
	return s
}

func (r *real) encObj(o *lobj) string {
	return "id=" + fw.EncStr(r.canon(o.id)) + " key=" + fw.EncStr(r.canon(o.key)) + " tgt=" + fw.EncStr(o.tgt) + " ty=" + fw.EncStr(o.ty) +
		" tv=" + fw.EncStr(o.tv) + " txi=" + strconv.FormatUint(o.txi, 10) + " idx=" + strconv.FormatUint(o.idx, 10) +
		" ver=" + r.ordinal(o) + " rev=" + strconv.FormatUint(o.rev, 10) + " pl=" + strconv.FormatUint(o.pl, 10) +
		" vals=" + encVals(o.vals) + " avals=" + encVals(o.avals)
}

func errClass(err error) string {
	switch {
	case errors.IsInvalid(err):
		return "invalid"
	case errors.IsNotFound(err):
		return "notfound"
	case errors.IsAlreadyExists(err):
		return "exists"
	case errors.IsConflict(err):
		return "conflict"
	}
	return "other:" + strings.ReplaceAll(fmt.Sprintf("%T:%v", err, err), " ", "_")
}

func (r *real) edit(o *lobj, tok string) bool {
	k, v, has := strings.Cut(tok, "=")
	str := func() (string, bool) {
		s, ok := fw.DecStr(v)
		if a, isAuto := r.autoRev[s]; ok && isAuto {
			return a, true
		}
		return s, ok
	}
	num := func() (uint64, bool) {
		n, err := strconv.ParseUint(v, 10, 64)
		return n, err == nil
	}
	if !has {
		switch k {
		case "ver0":
			o.ver = 0
		case "verfar":
			o.ver += 1000000
		case "rev0":
			o.rev = 0
		case "novals":
			o.vals = nil
		case "noavals":
			o.avals = nil
		case "emptyvals":
			o.vals = map[string]uint64{}
		case "emptyavals":
			o.avals = map[string]uint64{}
		default:
			return false
		}
		o.regress = false
		return true
	}
	var ok bool
	switch k {
	case "id":
		o.id, ok = str()
	case "key":
		o.key, ok = str()
	case "tgt":
		o.tgt, ok = str()
	case "ty":
		o.ty, ok = str()
	case "tv":
		o.tv, ok = str()
	case "txi":
		o.txi, ok = num()
	case "idx":
		var n uint64
		n, ok = num()
		if r.kind == "tx2" || r.kind == "tx3" { // only the transaction records have an index field
			o.idx = n
		}
	case "rev":
		o.rev, ok = num()
	case "pl":
		o.pl, ok = num()
	case "val", "aval":
		p, i, has2 := strings.Cut(v, ":")
		if !has2 {
			return false
		}
		ps, ok1 := fw.DecStr(p)
		n, err := strconv.ParseUint(i, 10, 64)
		if !ok1 || err != nil {
			return false
		}
		if k == "val" {
			if o.vals == nil {
				o.vals = map[string]uint64{}
			}
			o.vals[ps] = n
		} else {
			if o.avals == nil {
				o.avals = map[string]uint64{}
			}
			o.avals[ps] = n
		}
		ok = true
	default:
		return false
	}
	return ok
}

func (r *real) local(c string) *lobj {
	o, ok := r.clients[c]
	if !ok {
		o = &lobj{}
		r.clients[c] = o
	}
	return o
}

// record notes a successful write: version history, current version per event key, watchers' "after" sets.
func (r *real) record(o *lobj, key string) {
	hk := r.spaceOf(o) + "\x00" + key
	o.vtag = hk
	h := r.hist[hk]
	if len(h) > 0 && o.ver <= h[len(h)-1] {
		o.regress = true
	}
	r.hist[hk] = append(h, o.ver)
	ek := r.eventKey(o, key)
	r.cur[ek] = o.ver
	r.evHist[ek] = hk
	for _, w := range r.watchers {
		if w.covers(ek) {
			w.after[ek] = true
		}
	}
}

func (r *real) answer(c string, o *lobj, err error) string {
	if err != nil {
		return "err " + errClass(err) + " " + r.encObj(o)
	}
	return "ok " + r.encObj(o)
}

func (r *real) evOrdinal(ek string, raw uint64) string {
	for i, v := range r.hist[r.evHist[ek]] {
		if v == raw {
			return strconv.Itoa(i + 1)
		}
	}
	return "?" + strconv.FormatUint(raw, 10)
}

func (r *real) watchersText() string {
	var parts []string
	unsettled := false
	for _, w := range r.watchers {
		if (w.stopped || w.paused) && !w.cancelled {
			unsettled = true
		}
	}
	for _, w := range r.watchers {
		if w.cancelled {
			parts = append(parts, w.name+":cancelled")
			continue
		}
		if unsettled {
			parts = append(parts, w.name+":unsettled")
			continue
		}
		var items []string
		w.mu.Lock()
		for ek := range r.cur {
			if !w.covers(ek) || !(w.replay || w.after[ek]) {
				continue
			}
			v := "-"
			if raw, ok := w.last[ek]; ok {
				v = r.evOrdinal(ek, raw)
			}
			items = append(items, fw.EncStr(ek)+"="+v)
		}
		w.mu.Unlock()
		sort.Strings(items)
		parts = append(parts, w.name+":{"+strings.Join(items, ",")+"}")
	}
	return strings.Join(parts, " ")
}

// settled: every live, reading watcher has been shown the current version of every record it must see.
func (r *real) settled() bool {
	for _, w := range r.watchers {
		if (w.stopped || w.paused) && !w.cancelled {
			return true // nothing will be compared
		}
	}
	for _, w := range r.watchers {
		if w.cancelled || w.stopped {
			continue
		}
		w.mu.Lock()
		ok := true
		for ek, v := range r.cur {
			if w.covers(ek) && (w.replay || w.after[ek]) && w.last[ek] != v {
				ok = false
			}
		}
		w.mu.Unlock()
		if !ok {
			return false
		}
	}
	return true
}

// waitQuiet polls until the watchers are settled and no event has arrived for a while, or the deadline passes.
// The deadline is generous (a loaded machine delays goroutines by hundreds of milliseconds); once a wait of a
// case has run into it the store is taken to be stalled and the later waits of that case are short.
func (r *real) waitQuiet() {
	defer func(start time.Time) {
		if time.Since(start) >= r.deadline {
			r.deadline = 150 * time.Millisecond
		}
	}(time.Now())
	deadline := time.Now().Add(r.deadline)
	var since time.Time
	var seen int64 = -1
	for time.Now().Before(deadline) {
		n := atomic.LoadInt64(&r.events)
		if r.settled() && n == seen {
			if time.Since(since) > 12*time.Millisecond {
				return
			}
		} else {
			seen = n
			since = time.Now()
		}
		time.Sleep(500 * time.Microsecond)
	}
}

func (r *real) widx(name string) *rwatch {
	for _, w := range r.watchers {
		if w.name == name {
			return w
		}
	}
	return nil
}

func hasArg(args []string, prefix string) (string, bool) {
	for _, a := range args {
		if strings.HasPrefix(a, prefix) {
			return a[len(prefix):], true
		}
	}
	return "", false
}

// Exec runs one script line on the real store.
func (r *real) Exec(line string) (out string) {
	defer func() {
		if p := recover(); p != nil {
			out = "panic " + strings.ReplaceAll(fmt.Sprint(p), " ", "_")
		}
	}()
	toks := strings.Fields(line)
	if len(toks) == 0 || !strings.HasPrefix(toks[0], "store.") {
		return "bad-op"
	}
	op, args := strings.TrimPrefix(toks[0], "store."), toks[1:]
	if op == "init" {
		if len(args) != 1 || r.a != nil {
			return "bad-op"
		}
		r.client = test.NewClient()
		var err error
		switch args[0] {
		case "tx2":
			var s tx2.Store
			s, err = tx2.NewAtomixStore(r.client)
			r.a = &tx2Adapter{s}
		case "prop2":
			var s prop2.Store
			s, err = prop2.NewAtomixStore(r.client)
			r.a = &prop2Adapter{s}
		case "cfg2":
			var s cfg2.Store
			s, err = cfg2.NewAtomixStore(r.client)
			r.a = &cfg2Adapter{s}
		case "tx3":
			var s tx3.Store
			s, err = tx3.NewAtomixStore(r.client)
			r.a = &tx3Adapter{s}
		case "cfg3":
			var s cfg3.Store
			s, err = cfg3.NewAtomixStore(r.client)
			r.a = &cfg3Adapter{s}
		default:
			r.client.Close()
			r.client = nil
			return "bad-op"
		}
		if err != nil {
			r.a = nil
			return "init-error " + err.Error()
		}
		r.kind = args[0]
		r.settle()
		return "ok"
	}
	if r.a == nil {
		return "bad-op"
	}
	if r.crashed {
		return "crashed"
	}
	switch op {
	case "new", "set":
		if len(args) < 1 {
			return "bad-op"
		}
		var o *lobj
		if op == "new" {
			o = &lobj{}
		} else {
			o = r.local(args[0]).clone()
		}
		for _, e := range args[1:] {
			if !r.edit(o, e) {
				return "bad-op"
			}
		}
		r.clients[args[0]] = o
		return "ok " + r.encObj(o)
	case "copy":
		if len(args) != 2 {
			return "bad-op"
		}
		o := r.local(args[0]).clone()
		r.clients[args[1]] = o
		return "ok " + r.encObj(o)
	case "create":
		if len(args) < 1 {
			return "bad-op"
		}
		o := r.local(args[0])
		hadID, hadKey := o.id != "", o.key != ""
		sp := r.spaceOf(o)
		err := r.a.create(o)
		name := "auto" + strconv.Itoa(r.creates[sp])
		if r.kind == "tx2" && !hadID && o.id != "" {
			r.auto[o.id], r.autoRev[name] = name, o.id
		}
		if r.kind == "tx3" && !hadKey && o.key != "" {
			r.auto[o.key], r.autoRev[name] = name, o.key
		}
		if err == nil {
			r.creates[sp]++
			r.record(o, r.createKey(o))
		}
		return r.answer(args[0], o, err)
	case "update", "updatestatus":
		if len(args) < 1 {
			return "bad-op"
		}
		o := r.local(args[0])
		var err error
		if op == "update" {
			err = r.a.update(o)
		} else {
			err = r.a.updateStatus(o)
		}
		if err == nil {
			r.record(o, r.updateKey(o))
		}
		return r.answer(args[0], o, err)
	case "get", "getalt":
		if len(args) != 1 {
			return "bad-op"
		}
		if op == "getalt" && r.kind != "tx2" && r.kind != "tx3" {
			return "bad-op"
		}
		q := r.local(args[0])
		var o *lobj
		var err error
		if op == "get" {
			o, err = r.a.get(q)
		} else {
			o, err = r.a.getAlt(q)
		}
		if err != nil {
			return r.answer(args[0], q, err)
		}
		o.vtag = r.readTag(o)
		r.clients[args[0]] = o
		return r.answer(args[0], o, nil)
	case "list", "listset":
		os, err := r.a.list()
		if err != nil {
			return "err " + errClass(err)
		}
		var items []string
		for _, o := range os {
			o.vtag = r.readTag(o)
			items = append(items, r.encObj(o))
		}
		sort.Strings(items)
		return "ok " + strings.Join(items, ";")
	case "unpause":
		w := r.widx(first(args))
		if w == nil {
			return "bad-op"
		}
		if w.paused {
			w.paused = false
			close(w.pauseCh)
		}
		return "ok"
	case "watch":
		if len(args) != 3 && !(len(args) == 4 && args[3] == "paused") {
			return "bad-op"
		}
		key := ""
		if args[2] != "*" {
			k, ok := fw.DecStr(args[2])
			if !ok {
				return "bad-op"
			}
			key = k
		}
		ctx, cancel := context.WithCancel(context.Background())
		w := &rwatch{name: args[0], key: key, replay: args[1] == "1", cancel: cancel, stopCh: make(chan struct{}),
			last: map[string]uint64{}, after: map[string]bool{}, events: &r.events}
		if len(args) == 4 {
			w.paused, w.pauseCh = true, make(chan struct{})
		}
		if err := r.a.watch(ctx, key, w.replay, w); err != nil {
			cancel()
			return "err " + errClass(err)
		}
		r.watchers = append(r.watchers, w)
		if r.kind == "prop2" {
			r.settle()
		}
		r.waitQuiet()
		return "ok"
	case "stop":
		w := r.widx(first(args))
		if w == nil {
			return "bad-op"
		}
		if !w.stopped {
			w.stopped = true
			close(w.stopCh)
		}
		return "ok"
	case "cancel":
		w := r.widx(first(args))
		if w == nil {
			return "bad-op"
		}
		w.cancelled = true
		w.cancel()
		if r.kind == "tx3" {
			// the v3 transaction store's per-watch goroutine may panic (double close) a moment after the cancel:
			// this executor runs in a worker process (proxy.go); give the panic time to happen before answering
			time.Sleep(120 * time.Millisecond)
		}
		return "ok"
	case "drain":
		r.waitQuiet()
		return strings.TrimRight("ok "+r.watchersText(), " ")
	case "real.closed":
		// real-only: has the channel of every cancelled watcher been closed?
		deadline := time.Now().Add(r.deadline)
		for {
			all := true
			var parts []string
			for _, w := range r.watchers {
				if !w.cancelled || w.stopped {
					continue
				}
				w.mu.Lock()
				c := w.closed
				w.mu.Unlock()
				if c {
					parts = append(parts, w.name+":closed")
				} else {
					parts = append(parts, w.name+":open")
					all = false
				}
			}
			if all || time.Now().After(deadline) {
				return strings.TrimRight("ok "+strings.Join(parts, " "), " ")
			}
			time.Sleep(time.Millisecond)
		}
	case "real.racecancel":
		n, _ := strconv.Atoi(first(args))
		return r.raceCancel(n)
	case "real.multival":
		return r.multiVal()
	case "real.regrace":
		return regRace()
	case "real.watchrace":
		n, _ := strconv.Atoi(first(args))
		return r.watchRace(n)
	}
	return "bad-op"
}

// watchRace: n times, one client calls Watch(replay, all records) while another writes the record once, at a
// random moment around the call.  Whatever the interleaving, the watcher must end up shown the written version
// (register-before-replay): a write that falls between the replay read and a LATE registration would be lost.
func (r *real) watchRace(n int) string {
	if n <= 0 {
		n = 100
	}
	probe := &lobj{id: "race", ty: "ty", tv: "1", key: "race", tgt: "t", txi: 1}
	if err := r.a.create(probe); err != nil {
		return "err " + errClass(err)
	}
	ek := r.eventKey(probe, r.createKey(probe))
	seed := uint64(12345)
	for i := 0; i < n; i++ {
		ctx, cancel := context.WithCancel(context.Background())
		w := &rwatch{name: "x", stopCh: make(chan struct{}), last: map[string]uint64{}, after: map[string]bool{}, events: new(int64)}
		seed = seed*6364136223846793005 + 1442695040888963407
		jitter := time.Duration(seed>>40%400) * time.Microsecond
		var wg sync.WaitGroup
		wg.Add(2)
		var werr error
		go func() {
			defer wg.Done()
			werr = r.a.watch(ctx, "", true, w)
		}()
		go func() {
			defer wg.Done()
			time.Sleep(jitter)
			_ = r.a.updateStatus(probe)
		}()
		wg.Wait()
		if werr != nil {
			cancel()
			return "err " + errClass(werr)
		}
		ok := false
		deadline := time.Now().Add(r.deadline)
		for time.Now().Before(deadline) {
			w.mu.Lock()
			v := w.last[ek]
			w.mu.Unlock()
			if v == probe.ver {
				ok = true
				break
			}
			time.Sleep(200 * time.Microsecond)
		}
		if r.kind != "tx3" {
			cancel()
		} else {
			_ = cancel
		}
		if !ok {
			return "lost"
		}
	}
	return "ok"
}

// settle: the Events() call of an atomix Map (a primitive partitioned over three partitions) returns when the
// FIRST partition has acknowledged the listener; until the others have, writes to their keys are not delivered
// (KF-C15-atomix-events-partial-registration, shown by store.real.regrace).  Stores register their dispatcher in
// NewAtomixStore, the proposal store registers in every Watch.  Ordinary scripts wait this window out.
func (r *real) settle() {
	switch r.kind {
	case "prop2", "cfg2", "cfg3":
		time.Sleep(60 * time.Millisecond)
	}
}

// regRace: proposal stores under CPU contention — create six proposals, Watch (no replay), update all six after
// Watch has returned: does the watcher receive all six events?
func regRace() string {
	var missed int64
	var wg sync.WaitGroup
	stop := time.Now().Add(4 * time.Second)
	for g := 0; g < 12; g++ {
		wg.Add(1)
		go func() {
			defer wg.Done()
			for time.Now().Before(stop) && atomic.LoadInt64(&missed) == 0 {
				client := test.NewClient()
				s, err := prop2.NewAtomixStore(client)
				if err != nil {
					client.Close()
					continue
				}
				ctx := context.Background()
				var ps []*configv2.Proposal
				for _, id := range []string{"t1-1", "t1-2", "t2-1", "x", "y", "z"} {
					p := &configv2.Proposal{ID: configv2.ProposalID(id), TargetID: "t", TransactionIndex: 1}
					if s.Create(ctx, p) == nil {
						ps = append(ps, p)
					}
				}
				time.Sleep(60 * time.Millisecond)
				wctx, cancel := context.WithCancel(ctx)
				ch := make(chan configv2.ProposalEvent, 64)
				if s.Watch(wctx, ch) == nil {
					for _, p := range ps {
						_ = s.UpdateStatus(ctx, p)
					}
					got := map[configv2.ProposalID]bool{}
					deadline := time.After(2 * time.Second)
				loop:
					for len(got) < len(ps) {
						select {
						case e := <-ch:
							got[e.Proposal.ID] = true
						case <-deadline:
							break loop
						}
					}
					if len(got) < len(ps) {
						atomic.AddInt64(&missed, 1)
					}
				}
				cancel()
				_ = s.Close(ctx)
				client.Close()
			}
		}()
	}
	wg.Wait()
	if missed > 0 {
		return "missed"
	}
	return "ok"
}

func first(args []string) string {
	if len(args) > 0 {
		return args[0]
	}
	return ""
}

// raceCancel: while one client keeps writing a record, other clients call Watch(replay) with a context
// that is already cancelled.  A global watcher must keep receiving the writes.
func (r *real) raceCancel(attempts int) string {
	if attempts <= 0 {
		attempts = 200
	}
	probe := &lobj{id: "race", ty: "ty", tv: "1", key: "race", tgt: "t", txi: 1}
	if err := r.a.create(probe); err != nil {
		return "err " + errClass(err)
	}
	ctx, cancel := context.WithCancel(context.Background())
	defer cancel()
	w := &rwatch{name: "race", stopCh: make(chan struct{}), last: map[string]uint64{}, after: map[string]bool{}, events: new(int64)}
	if r.kind == "tx3" {
		// never cancel a v3 transaction watch in-process
		ctx = context.Background()
	}
	if err := r.a.watch(ctx, "", false, w); err != nil {
		return "err " + errClass(err)
	}
	defer close(w.stopCh)
	stop := make(chan struct{})
	done := make(chan struct{})
	var writes int64
	go func() {
		defer close(done)
		for {
			select {
			case <-stop:
				return
			default:
			}
			if err := r.a.updateStatus(probe); err != nil {
				return
			}
			atomic.AddInt64(&writes, 1)
		}
	}()
	stalled := false
	for i := 1; i <= attempts && !stalled; i++ {
		cctx, ccancel := context.WithCancel(context.Background())
		ccancel()
		cw := &rwatch{name: "x", stopCh: make(chan struct{}), last: map[string]uint64{}, after: map[string]bool{}, events: new(int64)}
		_ = r.a.watch(cctx, "", true, cw)
		if i%20 == 0 {
			a := atomic.LoadInt64(w.events)
			time.Sleep(25 * time.Millisecond)
			if atomic.LoadInt64(w.events) == a && atomic.LoadInt64(&writes) > 0 {
				stalled = true
			}
		}
	}
	close(stop)
	<-done
	if !stalled {
		// final check: everything written reaches the watcher
		deadline := time.Now().Add(r.deadline)
		for time.Now().Before(deadline) {
			w.mu.Lock()
			v := w.last[r.eventKey(probe, r.createKey(probe))]
			w.mu.Unlock()
			if v == probe.ver {
				return "ok delivered"
			}
			time.Sleep(time.Millisecond)
		}
		stalled = true
	}
	return "stalled"
}

// multiVal: one write carrying three values, then Get: does each path hold its own value?
func (r *real) multiVal() string {
	if r.kind != "cfg2" && r.kind != "cfg3" {
		return "bad-op"
	}
	o := &lobj{id: "mv", ty: "ty", tv: "1", tgt: "t", vals: map[string]uint64{"/x": 1, "/y": 2, "/z": 3}}
	if err := r.a.create(o); err != nil {
		return "err " + errClass(err)
	}
	g, err := r.a.get(o)
	if err != nil {
		return "err " + errClass(err)
	}
	return "ok vals=" + encVals(g.vals)
}
