package c20

// The monitor evaluates C20's own observable statement on the answers of the real code only:
// the Order and Consistency invariants of spec/Config.tla over the event history reconstructed from
// record diffs, commit-before-apply, failed-blocks-later, and termination in the fault-free drain.
// It is written from the property text and the TLA+ spec, not from the Lean twin.

import (
	"fmt"
	"sort"
	"strconv"
	"strings"

	"github.com/onosproject/onos-config/verifharness/internal/fw"
)

type mTx struct {
	phase          string
	cc, ca, rc, ra string
	co, ro, ri     uint64
	vals           map[string]string // from the append line: path -> "val@idx" / "~@idx"
}

type mState struct {
	head                string
	txs                 []mTx // 1-based
	cI, cC, cT, cO, cR  uint64
	aI, aT, aO, aR, aTm uint64
	cVals, aVals        map[string]string
	state, master       string
	term                uint64
	devUp               bool
	dev                 map[string]string
	reqs                []string
	events              []mEvent
	ok                  bool
}

type mEvent struct {
	phase, stage, status string
	index                uint64
}

func parseKV(tok string) (string, uint64) {
	k, v, _ := strings.Cut(tok, "=")
	n, _ := strconv.ParseUint(v, 10, 64)
	return k, n
}

func parseMap(s string) map[string]string {
	m := map[string]string{}
	s = strings.TrimSuffix(strings.TrimPrefix(s, "{"), "}")
	if s == "" {
		return m
	}
	for _, e := range strings.Split(s, ",") {
		k, v, _ := strings.Cut(e, "=")
		// an entry whose content carries another path is printed key>path=value
		if key, path, ok := strings.Cut(k, ">"); ok {
			m[key] = ">" + path + "=" + v
		} else {
			m[k] = v
		}
	}
	return m
}

func parseState(line string) mState {
	var st mState
	segs := strings.Split(line, " | ")
	st.head = segs[0]
	st.txs = []mTx{{}}
	for _, seg := range segs[1:] {
		f := strings.Fields(seg)
		if len(f) == 0 {
			continue
		}
		switch {
		case f[0][0] == 'T' && len(f) >= 8:
			t := mTx{phase: f[1]}
			if len(f[2]) == 4 {
				t.cc, t.ca, t.rc, t.ra = f[2][0:1], f[2][1:2], f[2][2:3], f[2][3:4]
			}
			_, t.co = parseKV(f[3])
			_, t.ro = parseKV(f[4])
			_, t.ri = parseKV(f[5])
			st.txs = append(st.txs, t)
		case f[0] == "C" && len(f) >= 7:
			_, st.cI = parseKV(f[1])
			_, st.cC = parseKV(f[2])
			_, st.cT = parseKV(f[3])
			_, st.cO = parseKV(f[4])
			_, st.cR = parseKV(f[5])
			st.cVals = parseMap(f[6])
			st.ok = true
		case f[0] == "A" && len(f) >= 7:
			_, st.aI = parseKV(f[1])
			_, st.aT = parseKV(f[2])
			_, st.aO = parseKV(f[3])
			_, st.aR = parseKV(f[4])
			_, st.aTm = parseKV(f[5])
			st.aVals = parseMap(f[6])
		case f[0] == "S" && len(f) >= 4:
			st.state = f[1]
			st.master = strings.TrimPrefix(f[2], "m=")
			_, st.term = parseKV(f[3])
		case f[0] == "D" && len(f) >= 4:
			st.devUp = f[1] == "up"
			st.dev = parseMap(f[3])
		case f[0] == "Q":
			if len(f) > 1 {
				st.reqs = strings.Split(f[1], ";")
			}
		case f[0] == "E":
			if len(f) > 1 {
				for _, e := range strings.Split(f[1], ";") {
					p := strings.Split(e, ".")
					if len(p) == 4 {
						n, _ := strconv.ParseUint(p[3], 10, 64)
						st.events = append(st.events, mEvent{p[0], p[1], p[2], n})
					}
				}
			}
		}
	}
	return st
}

// appended values of a v3.append line: path -> rendering as the state lines print it
func appendVals(line string) map[string]string {
	m := map[string]string{}
	for _, tok := range strings.Fields(line)[1:] {
		f := strings.Split(tok, ":")
		if len(f) != 4 {
			continue
		}
		p, _ := fw.DecStr(f[0])
		v, _ := fw.DecStr(f[1])
		if f[2] == "1" {
			v = "~"
		}
		m[p] = v + "@" + f[3]
	}
	return m
}

func isOrderedChange(h []mEvent, stage string, i int) bool {
	e := h[i]
	if e.phase != "chg" || e.stage != stage || e.status != "C" {
		return false
	}
	for j := 0; j < i; j++ {
		if h[j].phase == "chg" && h[j].stage == stage && h[j].status == "C" && h[j].index >= e.index {
			return false
		}
	}
	return true
}

func isOrderedRollback(h []mEvent, stage string, i int) bool {
	e := h[i]
	if e.phase != "rbk" || e.stage != stage || e.status != "C" {
		return false
	}
	found := false
	for j := 0; j < i; j++ {
		if h[j].phase == "chg" && h[j].status == "C" && h[j].index == e.index {
			found = true
		}
	}
	if !found {
		return false
	}
	for j := 0; j < i; j++ {
		if h[j].phase == "chg" && h[j].stage == stage && h[j].status == "C" && h[j].index > e.index {
			rolled := false
			for k := j + 1; k < i; k++ {
				if h[k].phase == "rbk" && h[k].stage == stage && h[k].status == "C" && h[k].index == h[j].index {
					rolled = true
				}
			}
			if !rolled {
				return false
			}
		}
	}
	return true
}

func done(s string) bool { return s == "C" || s == "A" || s == "X" || s == "F" }

// monitor returns one message per violated clause (first occurrence of each kind only).
func monitor(c fw.Case, realOut []string) []string {
	var msgs []string
	seen := map[string]bool{}
	report := func(kind, format string, a ...interface{}) {
		if !seen[kind] {
			seen[kind] = true
			msgs = append(msgs, kind+": "+fmt.Sprintf(format, a...))
		}
	}
	var hist []mEvent
	txVals := []map[string]string{nil}
	devSynced := false
	devAhead := false // the device got a Set whose record write has not happened yet (in-flight apply)
	draining := false
	drainSteps := 0
	var last mState
	for k, line := range c.Script {
		if k >= len(realOut) {
			break
		}
		out := realOut[k]
		if strings.HasPrefix(out, "harness-") || out == "bad-op" {
			if strings.HasPrefix(out, "harness-") {
				report("harness", "line %d: %s", k, out)
			}
			continue
		}
		st := parseState(out)
		if !st.ok {
			continue
		}
		op := strings.Fields(line)[0]
		if op == "v3.init" {
			hist, txVals, devSynced, draining = nil, []map[string]string{nil}, false, false
		}
		if op == "v3.append" && strings.HasPrefix(st.head, "ok") {
			txVals = append(txVals, appendVals(line))
		}
		if op == "v3.drain" {
			draining = true
			drainSteps = 0
		}
		if draining && op == "v3.tx" {
			if strings.HasSuffix(line, " valid ok -") {
				drainSteps++
			} else {
				draining = false // not a fault-free drain (a shrunk or hand-written script)
			}
		}
		if strings.HasPrefix(st.head, "panic") {
			report("panic", "line %d (%s): the reconciler panicked: %s", k, line, st.head)
		}
		if op == "v3.dev" && strings.Contains(line, "stop") {
			devSynced = false
		}
		if op == "v3.cfg" && st.state == "synchronized" && last.state == "synchronizing" && st.devUp {
			devSynced = true
		}
		if op == "v3.tx" {
			sentOK, completed := false, false
			for _, q := range st.reqs {
				if strings.HasSuffix(q, "->ok") {
					sentOK = true
				}
			}
			for _, e := range st.events {
				if e.stage == "apply" && e.status == "C" {
					completed = true
				}
			}
			if completed {
				devAhead = false
			} else if sentOK {
				devAhead = true
			}
		}
		if op == "v3.cfg" && st.state == "synchronized" && last.state == "synchronizing" {
			devAhead = false
		}
		n0 := len(hist)
		hist = append(hist, st.events...)
		// Order (1): every Complete event is an ordered change or an ordered rollback
		for i := n0; i < len(hist); i++ {
			if hist[i].status != "C" {
				continue
			}
			if !(isOrderedChange(hist, "commit", i) || isOrderedChange(hist, "apply", i) ||
				isOrderedRollback(hist, "commit", i) || isOrderedRollback(hist, "apply", i)) {
				report("order", "line %d (%s): event %s.%s.C.%d is out of order", k, line, hist[i].phase, hist[i].stage, hist[i].index)
			}
			// commit before apply
			if hist[i].stage == "apply" {
				committed := false
				for j := 0; j < i; j++ {
					if hist[j].phase == hist[i].phase && hist[j].stage == "commit" && hist[j].status == "C" && hist[j].index == hist[i].index {
						committed = true
					}
				}
				if !committed {
					report("commit-before-apply", "line %d (%s): %s of transaction %d applied before its commit completed", k, line, hist[i].phase, hist[i].index)
				}
			}
		}
		n := len(st.txs) - 1
		for i := 1; i <= n; i++ {
			t := st.txs[i]
			// commit before apply, on the records
			if (t.ca == "I" || t.ca == "C" || t.ca == "A" || t.ca == "F") && t.cc != "C" {
				report("commit-before-apply", "line %d (%s): transaction %d apply=%s while commit=%s", k, line, i, t.ca, t.cc)
			}
			if (t.ra == "I" || t.ra == "C" || t.ra == "F") && t.rc != "C" {
				report("commit-before-apply", "line %d (%s): transaction %d rollback apply=%s while rollback commit=%s", k, line, i, t.ra, t.rc)
			}
			// a commit marked Complete must be in the configuration (spec: the configuration write precedes the status write)
			if t.cc == "C" && st.cC < uint64(i) {
				report("commit-complete-not-committed", "line %d (%s): transaction %d is commit-Complete but Committed.Change=%d", k, line, i, st.cC)
			}
		}
		// a device that is unavailable / cancels / times out must not fail the change (retry instead)
		for _, q := range st.reqs {
			if strings.HasSuffix(q, "->unavailable") || strings.HasSuffix(q, "->canceled") || strings.HasSuffix(q, "->deadline") {
				for _, e := range st.events {
					if e.stage == "apply" && e.status == "F" {
						report("transient-fails", "line %d (%s): the device answered %s and %s apply of transaction %d was failed", k, line, q[strings.LastIndex(q, "->")+2:], e.phase, e.index)
					}
				}
			}
		}
		// failed blocks later: an apply event of j while an earlier i is Failed/Aborted and not rolled back
		for _, e := range st.events {
			if e.phase == "chg" && e.stage == "apply" && (e.status == "I" || e.status == "C") {
				for i := 1; i < int(e.index) && i <= n; i++ {
					t := st.txs[i]
					if (t.ca == "F" || t.ca == "A") && t.ra != "C" {
						report("failed-blocks-later", "line %d (%s): change %d goes to apply %s while change %d is apply-%s and not rolled back", k, line, e.index, e.status, i, t.ca)
					}
				}
			}
		}
		// Consistency
		if i := int(st.cR); i >= 1 && i < len(txVals) {
			for _, p := range sortedKeys(txVals[i]) {
				if st.cVals[p] != txVals[i][p] {
					report("consistency-committed", "line %d (%s): Committed.Revision=%d but Committed.Values[%s]=%q, the change has %q", k, line, i, p, st.cVals[p], txVals[i][p])
				}
			}
		}
		if i := int(st.aR); i >= 1 && i < len(txVals) {
			for _, p := range sortedKeys(txVals[i]) {
				if st.aVals[p] != txVals[i][p] {
					report("consistency-applied", "line %d (%s): Applied.Revision=%d but Applied.Values[%s]=%q, the change has %q", k, line, i, p, st.aVals[p], txVals[i][p])
				}
				if st.devUp && devSynced && !devAhead && st.state == "synchronized" {
					want, _, _ := strings.Cut(txVals[i][p], "@")
					got, present := st.dev[p]
					if want == "~" && present || want != "~" && got != want {
						report("consistency-device", "line %d (%s): Applied.Revision=%d but the device has %s=%q, the change has %q", k, line, i, p, got, want)
					}
				}
			}
		}
		// termination
		if op == "v3.end" && draining && drainSteps >= (2*(len(st.txs)-1)+6)*(len(st.txs)-1) {
			// by design (rollbacks go in reverse order) a rollback request for a change that is not the
			// latest committed one waits until the later changes are rolled back; while it waits, its
			// own change is no longer applied, so the applies of all later changes wait as well
			blockedFrom := n + 1
			for i := 1; i <= n; i++ {
				t := st.txs[i]
				if t.phase == "rbk" && t.rc == "P" && st.cR > uint64(i) && t.cc == "C" && (st.aO < t.co || t.ca == "P" || t.ca == "I") && i < blockedFrom {
					blockedFrom = i
				}
			}
			for i := 1; i <= n; i++ {
				t := st.txs[i]
				if i > blockedFrom && t.cc == "C" && t.ca == "P" {
					continue
				}
				if t.phase == "chg" && !((t.cc == "C" || t.cc == "F") && done(t.ca) && t.ca != "I") {
					report("terminates", "after the fault-free drain change %d is still commit=%s apply=%s", i, t.cc, t.ca)
				}
				if t.phase == "rbk" && t.rc == "P" && st.cR > uint64(i) {
					continue // waits, by design, for the later committed changes to be rolled back first
				}
				if t.phase == "rbk" && !((t.rc == "C" || t.rc == "F") && done(t.ra)) {
					report("terminates", "after the fault-free drain rollback %d is still commit=%s apply=%s", i, t.rc, t.ra)
				}
			}
		}
		last = st
	}
	return msgs
}

func sortedKeys(m map[string]string) []string {
	out := make([]string, 0, len(m))
	for k := range m {
		out = append(out, k)
	}
	sort.Strings(out)
	return out
}

// ---------------------------------------------------------------------------------------------
// signatures of the listed known findings (KNOWN_FINDINGS.txt `sig=`): decidable predicates on the
// case, the real answers and the monitor message

func kindOf(msg string) string {
	k, _, _ := strings.Cut(msg, ":")
	return k
}

func anyHead(realOut []string, pred func(head string) bool) bool {
	for _, o := range realOut {
		head, _, _ := strings.Cut(o, " | ")
		if pred(head) {
			return true
		}
	}
	return false
}

func anyEvent(realOut []string, prefix string) bool {
	for _, o := range realOut {
		if i := strings.LastIndex(o, " | E"); i >= 0 && strings.Contains(o[i:], prefix) {
			return true
		}
	}
	return false
}

func isConsistency(k string) bool { return strings.HasPrefix(k, "consistency-") }

// the path a consistency message is about
func msgPath(msg string) string {
	for _, mark := range []string{"Values[", "the device has "} {
		if i := strings.Index(msg, mark); i >= 0 {
			rest := msg[i+len(mark):]
			if j := strings.IndexAny(rest, "]="); j >= 0 {
				return rest[:j]
			}
		}
	}
	return ""
}

// paths written by the appended transactions, in order
func scriptWrites(c fw.Case) []map[string]string {
	var out []map[string]string
	for _, ln := range c.Script {
		if strings.HasPrefix(ln, "v3.append") {
			out = append(out, appendVals(ln))
		}
	}
	return out
}

var sigs = map[string]func(c fw.Case, realOut []string, msg string) bool{
	// the first valid commit on a configuration whose Committed.Values is nil panics
	"nilMapCommit": func(c fw.Case, realOut []string, msg string) bool {
		if len(c.Script) == 0 || !strings.Contains(c.Script[0], "seed=0") {
			return false
		}
		k := kindOf(msg)
		return (k == "panic" && strings.Contains(msg, "nilmap")) ||
			(k == "terminates" && anyHead(realOut, func(h string) bool { return h == "panic nilmap" }))
	},
	// commitRollback leaves Committed.Target at the rollback index: nothing commits afterwards
	"rollbackWedge": func(c fw.Case, realOut []string, msg string) bool {
		return kindOf(msg) == "terminates" && anyEvent(realOut, "rbk.commit.I.")
	},
	// a later change failed validation (Committed.Target moved on and is never moved back): the
	// rollback of the last valid change never starts
	"rollbackAfterFailedChange": func(c fw.Case, realOut []string, msg string) bool {
		if kindOf(msg) != "terminates" || len(realOut) == 0 {
			return false
		}
		st := parseState(realOut[len(realOut)-1])
		for i := 1; i < len(st.txs); i++ {
			t := st.txs[i]
			if t.phase == "rbk" && t.rc == "P" && st.cR == uint64(i) && st.cT != uint64(i) && st.cT != t.ri &&
				strings.Contains(msg, fmt.Sprintf("rollback %d ", i)) {
				return true
			}
		}
		return false
	},
	// applyRollback sets Applied.Revision to the rollback index although the change of that index
	// was never applied (its apply failed or was aborted)
	"rollbackRevisionOfUnappliedChange": func(c fw.Case, realOut []string, msg string) bool {
		k := kindOf(msg)
		if k != "consistency-applied" && k != "consistency-device" {
			return false
		}
		var line, rev int
		if i := strings.Index(msg, "line "); i < 0 {
			return false
		} else if _, err := fmt.Sscanf(msg[i:], "line %d", &line); err != nil {
			return false
		}
		if i := strings.Index(msg, "Applied.Revision="); i < 0 {
			return false
		} else if _, err := fmt.Sscanf(msg[i:], "Applied.Revision=%d", &rev); err != nil {
			return false
		}
		for k := 0; k <= line && k < len(realOut); k++ {
			if i := strings.LastIndex(realOut[k], " | E"); i >= 0 && strings.Contains(realOut[k][i:]+";", fmt.Sprintf("chg.apply.C.%d;", rev)) {
				return false
			}
		}
		return true
	},
	// a swallowed CAS conflict on a configuration write followed by the transaction write
	"swallowedCfgConflict": func(c fw.Case, realOut []string, msg string) bool {
		k := kindOf(msg)
		if !(k == "terminates" || k == "commit-complete-not-committed" || k == "commit-before-apply" || k == "order" ||
			k == "failed-blocks-later" || isConsistency(k) || (k == "panic" && strings.Contains(msg, "nilptr"))) {
			return false
		}
		return anyHead(realOut, func(h string) bool { return strings.Contains(h, "CcT") || strings.Contains(h, "CcC") })
	},
	// a swallowed CAS conflict on a transaction write followed by the configuration write
	"swallowedTxConflict": func(c fw.Case, realOut []string, msg string) bool {
		k := kindOf(msg)
		if !(k == "terminates" || k == "commit-before-apply" || k == "order" || k == "failed-blocks-later" || isConsistency(k)) {
			return false
		}
		return anyHead(realOut, func(h string) bool { return strings.Contains(h, "TcC") || strings.Contains(h, "TrC") })
	},
	// store() encodes every insert/update of one call from its single loop variable
	"storeLoopVariable": func(c fw.Case, realOut []string, msg string) bool {
		k := kindOf(msg)
		// once the side map holds entries whose content belongs to another path everything downstream
		// is affected: BuildTree can fail for ever, the side-map transaction itself can fail (two
		// operations on one key), which is a conflict that the reconciler swallows
		if !(isConsistency(k) || k == "terminates" || k == "commit-complete-not-committed" || k == "commit-before-apply" || k == "panic") {
			return false
		}
		for _, o := range realOut {
			if strings.Contains(o, ">/") {
				return true
			}
		}
		return false
	},
	// values below a tombstone are pruned out of the side map (and a rollback of a subtree delete
	// does not restore the children): nested paths with a delete
	"tombstonePrune": func(c fw.Case, realOut []string, msg string) bool {
		if !isConsistency(kindOf(msg)) {
			return false
		}
		p := msgPath(msg)
		rollbacks := false
		for _, ln := range c.Script {
			if strings.HasPrefix(ln, "v3.rollback") {
				rollbacks = true // the rollback of a value that did not exist before is a tombstone
			}
		}
		for _, w := range scriptWrites(c) {
			for q, v := range w {
				if (strings.HasPrefix(v, "~") || rollbacks) && q != p && (strings.HasPrefix(p, q) || strings.HasPrefix(q, p)) {
					return true
				}
			}
		}
		return false
	},
	// store() updates an existing side-map entry only when PathValue.Index differs
	"indexUnchangedNoUpdate": func(c fw.Case, realOut []string, msg string) bool {
		if !isConsistency(kindOf(msg)) {
			return false
		}
		p := msgPath(msg)
		for _, w := range scriptWrites(c) {
			if v, ok := w[p]; ok && strings.HasSuffix(v, "@0") {
				return true
			}
		}
		return false
	},
	// Create moves Committed.Values into the committed side map, which nothing updates afterwards and
	// which Get overlays over the entry: a later change of a created path stays invisible
	"createdValuesShadow": func(c fw.Case, realOut []string, msg string) bool {
		if len(c.Script) == 0 || !strings.Contains(c.Script[0], "seed=2") {
			return false
		}
		k := kindOf(msg)
		if isConsistency(k) {
			return msgPath(msg) == "/seed"
		}
		// the stale committed value is also what the next change validates against and records as its
		// rollback value; nothing else is affected
		return false
	},
	// UpdateStatus writes the side map before the entry CAS: a conflict or a crash in between
	// leaves applied values of a change the cursors say is not applied
	"sideBeforeEntry": func(c fw.Case, realOut []string, msg string) bool {
		if !isConsistency(kindOf(msg)) {
			return false
		}
		return anyHead(realOut, func(h string) bool { return strings.Contains(h, "Cs") || strings.Contains(h, "Cc") })
	},
}
