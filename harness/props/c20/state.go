package c20

// Canonical projection of the real state (both records of every transaction, the configuration as
// Get returns it, the device) and the event history reconstructed from record diffs, exactly at the
// points where spec/Transaction.tla appends to `history`.

import (
	"context"
	"fmt"
	"sort"
	"strings"

	configapi "github.com/onosproject/onos-api/go/onos/config/v3"
)

type txSnap struct {
	ok                     bool
	phase                  string
	cc, ca, rc, ra         string
	cord, rord, ridx       uint64
	vals, rvals            string
	ver                    uint64
	ccFail, caFail, raFail string
}

type snapshot struct {
	txs                   []txSnap // 1-based: txs[0] unused
	cI, cC, cT, cO, cR    uint64
	aI, aT, aO, aR, aTerm uint64
	cVals, aVals          string
	state, master         string
	term                  uint64
	cfgVer                uint64
	cfgOK                 bool
	nomast                bool
	devUp                 bool
	devEpoch              int
	devVals               string
	nlog                  int
}

var psName = map[configapi.TransactionPhaseStatus_State]string{
	configapi.TransactionPhaseStatus_PENDING: "P", configapi.TransactionPhaseStatus_IN_PROGRESS: "I",
	configapi.TransactionPhaseStatus_COMPLETE: "C", configapi.TransactionPhaseStatus_ABORTED: "A",
	configapi.TransactionPhaseStatus_CANCELED: "X", configapi.TransactionPhaseStatus_FAILED: "F",
}

func ps(p *configapi.TransactionPhaseStatus) string {
	if p == nil {
		return "-"
	}
	return psName[p.State]
}

func failName(p *configapi.TransactionPhaseStatus) string {
	if p == nil || p.Failure == nil {
		return "-"
	}
	return strings.ToLower(p.Failure.Type.String())
}

func fmtValues(m map[string]configapi.PathValue) string {
	keys := make([]string, 0, len(m))
	for k := range m {
		keys = append(keys, k)
	}
	sort.Strings(keys)
	parts := make([]string, 0, len(keys))
	for _, k := range keys {
		v := m[k]
		val := string(v.Value.Bytes)
		if v.Deleted {
			val = "~"
		}
		key := k
		if v.Path != k {
			key = k + ">" + v.Path
		}
		parts = append(parts, fmt.Sprintf("%s=%s@%d", key, val, v.Index))
	}
	return "{" + strings.Join(parts, ",") + "}"
}

func fmtStrMap(m map[string]string) string {
	keys := make([]string, 0, len(m))
	for k := range m {
		keys = append(keys, k)
	}
	sort.Strings(keys)
	parts := make([]string, 0, len(keys))
	for _, k := range keys {
		parts = append(parts, k+"="+m[k])
	}
	return "{" + strings.Join(parts, ",") + "}"
}

var cstName = map[configapi.ConfigurationStatus_State]string{
	configapi.ConfigurationStatus_UNKNOWN: "unknown", configapi.ConfigurationStatus_SYNCHRONIZING: "synchronizing",
	configapi.ConfigurationStatus_SYNCHRONIZED: "synchronized", configapi.ConfigurationStatus_PERSISTED: "persisted",
}

func (w *world) snap() *snapshot {
	ctx := context.Background()
	s := &snapshot{txs: make([]txSnap, w.ntx+1)}
	for i := uint64(1); i <= w.ntx; i++ {
		t, err := w.rawTx.Get(ctx, configapi.TransactionID{Target: w.target, Index: configapi.Index(i)})
		if err != nil {
			continue
		}
		ph := "chg"
		if t.Status.Phase == configapi.TransactionStatus_ROLLBACK {
			ph = "rbk"
		}
		s.txs[i] = txSnap{ok: true, phase: ph,
			cc: ps(t.Status.Change.Commit), ca: ps(t.Status.Change.Apply),
			rc: ps(t.Status.Rollback.Commit), ra: ps(t.Status.Rollback.Apply),
			cord: uint64(t.Status.Change.Ordinal), rord: uint64(t.Status.Rollback.Ordinal), ridx: uint64(t.Status.Rollback.Index),
			vals: fmtValues(t.Values), rvals: fmtValues(t.Status.Rollback.Values), ver: t.Version,
			ccFail: failName(t.Status.Change.Commit), caFail: failName(t.Status.Change.Apply), raFail: failName(t.Status.Rollback.Apply)}
	}
	c, err := w.rawCfg.Get(ctx, w.cfgID())
	if err == nil {
		s.cfgOK = true
		s.cI, s.cC, s.cT, s.cO, s.cR = uint64(c.Committed.Index), uint64(c.Committed.Change), uint64(c.Committed.Target), uint64(c.Committed.Ordinal), uint64(c.Committed.Revision)
		s.aI, s.aT, s.aO, s.aR, s.aTerm = uint64(c.Applied.Index), uint64(c.Applied.Target), uint64(c.Applied.Ordinal), uint64(c.Applied.Revision), uint64(c.Applied.Term)
		s.cVals, s.aVals = fmtValues(c.Committed.Values), fmtValues(c.Applied.Values)
		s.state = cstName[c.Status.State]
		if c.Status.Mastership != nil {
			s.master, s.term = string(c.Status.Mastership.Master), uint64(c.Status.Mastership.Term)
		} else {
			s.nomast = true
		}
		s.cfgVer = c.Version
	}
	s.devUp, s.devEpoch, s.devVals = w.dev.up, w.dev.epoch, fmtStrMap(w.dev.values)
	s.nlog = len(w.dev.log)
	return s
}

func fmtReq(r setRec) string {
	return fmt.Sprintf("e%d:del[%s]upd[%s]->%s", r.election, strings.Join(r.deletes, ","), strings.Join(r.updates, ","), r.answer)
}

func flag(changed bool) string {
	if changed {
		return "+"
	}
	return "="
}

// render prints the state; version numbers are printed as "changed since the previous line" flags.
func (w *world) render(s *snapshot, head string, events []string) string {
	var b strings.Builder
	b.WriteString(head)
	for i := 1; i < len(s.txs); i++ {
		t := s.txs[i]
		if !t.ok {
			fmt.Fprintf(&b, " | T%d ?", i)
			continue
		}
		changed := w.prev == nil || i >= len(w.prev.txs) || w.prev.txs[i].ver != t.ver
		fmt.Fprintf(&b, " | T%d %s %s%s%s%s co=%d ro=%d ri=%d rv=%s f=%s/%s/%s v%s", i, t.phase, t.cc, t.ca, t.rc, t.ra,
			t.cord, t.rord, t.ridx, t.rvals, t.ccFail, t.caFail, t.raFail, flag(changed))
	}
	if s.cfgOK {
		changed := w.prev == nil || w.prev.cfgVer != s.cfgVer
		master := s.master
		if master == "" {
			master = "-"
		}
		if s.nomast {
			master = "nil"
		}
		fmt.Fprintf(&b, " | C i=%d ch=%d tg=%d or=%d rv=%d %s | A i=%d tg=%d or=%d rv=%d tm=%d %s | S %s m=%s t=%d v%s",
			s.cI, s.cC, s.cT, s.cO, s.cR, s.cVals, s.aI, s.aT, s.aO, s.aR, s.aTerm, s.aVals, s.state, master, s.term, flag(changed))
	}
	up := "up"
	if !s.devUp {
		up = "down"
	}
	fmt.Fprintf(&b, " | D %s e=%d %s", up, s.devEpoch, s.devVals)
	// southbound requests of this step
	from := 0
	if w.prev != nil {
		from = w.prev.nlog
	}
	var reqs []string
	for _, r := range w.dev.log[from:] {
		if w.hideReq && r.answer != "ok" {
			// a refused re-synchronisation request: which index group went first is Go map order
			reqs = append(reqs, fmt.Sprintf("e%d:del[]upd[]->%s", r.election, r.answer))
			continue
		}
		reqs = append(reqs, fmtReq(r))
	}
	sort.Strings(reqs) // the order of the re-synchronisation requests is Go map order
	fmt.Fprintf(&b, " | Q %s", strings.Join(reqs, ";"))
	fmt.Fprintf(&b, " | E %s", strings.Join(events, ";"))
	return strings.TrimRight(b.String(), " ")
}

// events reconstructs what spec/Transaction.tla would have appended to `history` for the
// transition prev -> cur made by one Reconcile of transaction i.
func events(prev, cur *snapshot, i uint64, devOK bool) []string {
	var ev []string
	if prev == nil || !prev.cfgOK || !cur.cfgOK || int(i) >= len(cur.txs) || int(i) >= len(prev.txs) {
		return ev
	}
	pt, ct := prev.txs[i], cur.txs[i]
	add := func(phase, stage, status string) {
		ev = append(ev, fmt.Sprintf("%s.%s.%s.%d", phase, stage, status, i))
	}
	// commit side
	if cur.cT != prev.cT {
		if cur.cT == i {
			add("chg", "commit", "I")
		} else {
			add("rbk", "commit", "I")
		}
	}
	if cur.cO != prev.cO {
		if cur.cC != prev.cC {
			add("chg", "commit", "C")
		} else {
			add("rbk", "commit", "C")
		}
	}
	if ct.cc == "F" && pt.cc != "F" {
		add("chg", "commit", "F")
	}
	// apply side
	if cur.aT != prev.aT && cur.aO == prev.aO {
		if cur.aT == i {
			add("chg", "apply", "I")
		} else {
			add("rbk", "apply", "I")
		}
	}
	if ct.ca == "A" && pt.ca != "A" {
		add("chg", "apply", "A")
	}
	if ct.ca == "F" && pt.ca != "F" {
		add("chg", "apply", "F")
	}
	if cur.aO != prev.aO || cur.aR != prev.aR {
		if cur.aR == i && cur.aI == i && cur.aO == ct.cord && pt.phase == "chg" {
			add("chg", "apply", "C")
		} else if pt.phase == "rbk" && cur.aO == ct.rord && cur.aI == i && devOK {
			add("rbk", "apply", "C")
		}
	}
	if ct.ra == "F" && pt.ra != "F" {
		add("rbk", "apply", "F")
	}
	return ev
}
