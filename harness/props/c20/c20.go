// Package c20 ties the Lean twin of the v3 transaction protocol (OnosVerif/V3) to the real v3
// transaction/configuration/mastership Reconcilers and evaluates C20's statement (the Order and
// Consistency invariants of spec/Config.tla, commit-before-apply, failed-blocks-later, termination)
// on the real code.
package c20

import (
	"fmt"
	"strings"
	"time"

	"github.com/onosproject/onos-config/verifharness/internal/fw"
	"github.com/onosproject/onos-config/verifharness/internal/rng"
)

func init() { fw.Register(Prop) }

// Prop is the C20 check.
var Prop = &fw.Prop{
	ID: "C20",
	Rule: "a case is one history on one target: up to 6 appended changes and rollback requests, reconcile steps of the " +
		"transaction/configuration/mastership reconcilers in a generated interleaving, per-write injections (fail, swallowed " +
		"conflict, crash inside UpdateStatus, racing rollback request), topology/connection/device faults, then a fault-free " +
		"drain; non-trivial = at least one rollback request or one injected partial write",
	Quick:       220,
	Thorough:    4000,
	Workers:     8,
	Gen:         gen,
	Enumerate:   enumerate,
	NewReal:     newReal,
	Monitor:     monitor,
	Sigs:        sigs,
	Agree:       agreeCorrupted,
	FixedLayout: true, // the shrinker below removes whole blocks first (one run costs ~0.3 s)
	Shrink:      shrinkCase,
}

// agreeCorrupted: once the applied side map of the implementation holds an entry whose content
// belongs to another path (printed `path>content`; the listed defect KF-C20-store-loop-variable:
// which element's content every write of one UpdateStatus carries is Go's map iteration order),
// what follows depends on that order in ways the after-the-fact hint (`last=`) cannot always name -
// the side-map transaction may fail half way, an unchanged index may skip an entry.  The twin is not
// required to follow the implementation through such states; the monitor still judges them, and its
// failures are attributed by signature.  (False alarm on the unchanged tree, met in a fresh-sandbox
// run: a disagreement in such a state kept the monitor's failure from being attributed.)
func agreeCorrupted(line, real, twin string) bool {
	return strings.Contains(real, ">/")
}

// shrinkCase proposes the script with one block removed: halves, quarters, eighths, sixteenths, and
// single lines once the script is short.  One run of a candidate costs ~0.3 s on the real stores, so
// the whole process gets a budget: when it is used up the current (already smaller) case is kept.
// The first line (init) always stays.
var shrinkStart time.Time

const shrinkBudget = 150 * time.Second

func shrinkCase(c fw.Case) []fw.Case {
	if shrinkStart.IsZero() {
		shrinkStart = time.Now()
	}
	if time.Since(shrinkStart) > shrinkBudget {
		return nil
	}
	var out []fw.Case
	n := len(c.Script)
	drop := func(from, size int) {
		s := append(append([]string{}, c.Script[:from]...), c.Script[from+size:]...)
		out = append(out, fw.Case{Script: s, Tags: c.Tags, Nontrivial: c.Nontrivial, Origin: c.Origin})
	}
	for _, div := range []int{2, 4, 8, 16} {
		size := n / div
		if size < 2 {
			break
		}
		for from := 1; from+size <= n; from += size {
			drop(from, size)
		}
	}
	if n <= 40 {
		for from := n - 1; from >= 1; from-- {
			drop(from, 1)
		}
	}
	return out
}

// ---------------------------------------------------------------------------------------------
// generator

// path universes: one path; flat; nested and schema-consistent (values only on leaves, containers
// are only deleted), with /xy a textual but not an element-wise extension of /x
var flatPaths = []string{"/a", "/b", "/c"}
var nestedLeaves = []string{"/x/y/z", "/x/y/w", "/x/v", "/xy"}
var nestedContainers = []string{"/x", "/x/y"}
var devAnswers = []string{"unknown", "canceled", "invalid", "deadline", "notfound", "exists", "denied", "exhausted",
	"precondition", "aborted", "range", "unimplemented", "internal", "unavailable", "dataloss", "unauthenticated"}

func encPV(path, val string, del bool, idx int) string {
	d := "0"
	if del {
		d = "1"
		val = ""
	}
	return fmt.Sprintf("%s:%s:%s:%d", fw.EncStr(path), fw.EncStr(val), d, idx)
}

type genState struct {
	r      *rng.R
	lines  []string
	ntx    int
	rels   map[string]bool
	conns  map[string]bool
	tags   map[string]bool
	nontr  bool
	paths  []string
	single bool
	nested bool
	relSeq int
}

func (g *genState) add(format string, a ...interface{}) {
	g.lines = append(g.lines, fmt.Sprintf(format, a...))
}

func (g *genState) tag(t string) { g.tags[t] = true }

func (g *genState) appendTx() {
	idx := g.ntx + 1
	n := 1
	if !g.single && g.r.Chance(1, 3) {
		n = 2
	}
	used := map[string]bool{}
	var toks []string
	for k := 0; k < n; k++ {
		p := g.r.Pick(g.paths)
		forceDel := false
		if g.nested && g.r.Chance(1, 4) {
			p, forceDel = g.r.Pick(nestedContainers), true
		}
		// one transaction never holds two paths of which one is a textual prefix of the other: the
		// real outcome would depend on Go map iteration order (delete /a + set /a/b in one request)
		clash := false
		for q := range used {
			if strings.HasPrefix(p, q) || strings.HasPrefix(q, p) {
				clash = true
			}
		}
		if clash {
			continue
		}
		used[p] = true
		del := forceDel || g.r.Chance(1, 5)
		pvIdx := idx
		if g.r.Chance(1, 25) {
			pvIdx = 0
			g.tag("pv-index-0")
		}
		toks = append(toks, encPV(p, fmt.Sprintf("v%d", idx), del, pvIdx))
		if del {
			g.tag("delete")
		}
	}
	g.add("v3.append %s", strings.Join(toks, " "))
	g.ntx++
	g.tag("append")
}

func (g *genState) plan() string {
	if !g.r.Chance(1, 6) {
		return "-"
	}
	g.nontr = true
	letters := []string{"f", "f", "c", "c", "s", "r"}
	l := g.r.Pick(letters)
	g.tag("inj-" + l)
	if g.r.Bool() {
		return l
	}
	return "1" + l
}

func (g *genState) txStep(i int) {
	verdict := "valid"
	if g.r.Chance(1, 10) {
		verdict = g.r.Pick([]string{"invalid", "noplugin"})
		g.tag("verdict-" + verdict)
	}
	dev := "ok"
	if g.r.Chance(1, 8) {
		dev = g.r.Pick(devAnswers)
		g.tag("dev-" + dev)
	}
	g.add("v3.tx %d %s %s %s", i, verdict, dev, g.plan())
}

func (g *genState) envStep() {
	switch g.r.Intn(10) {
	case 0:
		name := fmt.Sprintf("r%d", g.relSeq+1)
		g.relSeq++
		g.add("v3.rel add %s", name)
		g.rels[name] = true
		if g.r.Chance(4, 5) {
			g.add("v3.conn add %s", name)
			g.conns[name] = true
		}
		g.tag("rel-add")
	case 1:
		for name := range g.rels {
			_ = name
		}
		names := keys(g.rels)
		if len(names) > 0 {
			n := g.r.Pick(names)
			g.add("v3.rel del %s", n)
			delete(g.rels, n)
			if g.r.Chance(4, 5) {
				g.add("v3.conn del %s", n)
				delete(g.conns, n)
			}
			g.tag("rel-del")
		}
	case 2:
		g.add("v3.dev stop")
		g.tag("dev-stop")
	case 3:
		g.add("v3.dev start")
	case 4, 5, 6:
		dev := "ok"
		if g.r.Chance(1, 6) {
			dev = g.r.Pick([]string{"denied", "unavailable", "internal"})
		}
		pl := "-"
		if g.r.Chance(1, 10) {
			pl = g.r.Pick([]string{"f", "c", "s"})
		}
		g.add("v3.cfg %s %s", dev, pl)
		g.tag("cfg-step")
	default:
		pl := "-"
		if g.r.Chance(1, 10) {
			pl = g.r.Pick([]string{"f", "c"})
		}
		g.add("v3.mast %s", pl)
		g.tag("mast-step")
	}
}

func keys(m map[string]bool) []string {
	var out []string
	for k := range m {
		out = append(out, k)
	}
	// deterministic order
	for i := 0; i < len(out); i++ {
		for j := i + 1; j < len(out); j++ {
			if out[j] < out[i] {
				out[i], out[j] = out[j], out[i]
			}
		}
	}
	return out
}

// drain: a fault-free tail in which every transaction must terminate
func (g *genState) drain() {
	g.add("v3.topo entity=1 persistent=0")
	g.add("v3.dev start")
	for _, n := range keys(g.rels) {
		g.add("v3.rel del %s", n)
	}
	for _, n := range keys(g.conns) {
		g.add("v3.conn del %s", n)
	}
	g.add("v3.mast -")
	g.add("v3.rel add rz")
	g.add("v3.conn add rz")
	g.add("v3.mast -")
	g.add("v3.cfg ok -")
	g.add("v3.cfg ok -")
	g.add("v3.drain")
	rounds := 2*g.ntx + 6
	for k := 0; k < rounds; k++ {
		for i := 1; i <= g.ntx; i++ {
			g.add("v3.tx %d valid ok -", i)
		}
	}
	g.add("v3.end")
}

func gen(r *rng.R, tier string) fw.Case {
	g := &genState{r: r, rels: map[string]bool{}, conns: map[string]bool{}, tags: map[string]bool{}}
	seed := 1
	if r.Chance(1, 12) {
		seed = 0
	} else if r.Chance(1, 4) {
		seed = 2
	}
	g.tag(fmt.Sprintf("seed=%d", seed))
	switch r.Intn(4) {
	case 0:
		g.paths, g.single = []string{"/a"}, true
		g.tag("paths-single")
	case 1:
		g.paths, g.nested = nestedLeaves, true
		g.tag("paths-nested")
	default:
		g.paths = flatPaths
		g.tag("paths-flat")
		if seed == 2 && r.Chance(1, 2) {
			// a change of the path the configuration was created with
			g.paths = append(append([]string{}, flatPaths...), "/seed")
			g.tag("paths-created")
		}
	}
	g.add("v3.init seed=%d", seed)
	// usually start with a healthy topology
	if r.Chance(3, 4) {
		g.add("v3.rel add r0")
		g.add("v3.conn add r0")
		g.rels["r0"], g.conns["r0"] = true, true
		g.add("v3.mast -")
		g.add("v3.cfg ok -")
		g.add("v3.cfg ok -")
	}
	maxTx := r.Range(1, 6)
	steps := r.Range(10, 60)
	if tier == "thorough" && r.Chance(1, 4) {
		steps = r.Range(60, 160)
	}
	for k := 0; k < steps; k++ {
		switch {
		case g.ntx == 0 || (g.ntx < maxTx && r.Chance(1, 6)):
			g.appendTx()
		case r.Chance(1, 14):
			i := r.Range(1, g.ntx)
			g.add("v3.rollback %d", i)
			g.nontr = true
			g.tag("rollback-request")
		case r.Chance(1, 7):
			g.envStep()
		case r.Chance(1, 5):
			// a sweep over all transactions
			for i := 1; i <= g.ntx; i++ {
				g.txStep(i)
			}
		default:
			i := r.Range(1, g.ntx+1)
			if i > g.ntx {
				g.tag("tx-unknown-index")
			}
			g.txStep(i)
		}
	}
	g.drain()
	var tags []string
	for _, t := range keys(g.tags) {
		tags = append(tags, t)
	}
	return fw.Case{Script: g.lines, Tags: tags, Nontrivial: g.nontr}
}

func enumerate(tier string) []fw.Case {
	var out []fw.Case
	// every device answer class on a change apply and on a rollback apply
	for _, a := range append([]string{"ok"}, devAnswers...) {
		s := []string{"v3.init seed=1", "v3.rel add r0", "v3.conn add r0", "v3.mast -", "v3.cfg ok -", "v3.cfg ok -",
			"v3.append " + encPV("/a", "v1", false, 1), "v3.tx 1 valid ok -", "v3.tx 1 valid ok -", "v3.tx 1 valid ok -",
			"v3.tx 1 valid " + a + " -", "v3.tx 1 valid ok -",
			"v3.rollback 1", "v3.tx 1 valid ok -", "v3.tx 1 valid ok -", "v3.tx 1 valid ok -",
			"v3.tx 1 valid " + a + " -", "v3.tx 1 valid ok -", "v3.tx 1 valid ok -"}
		out = append(out, fw.Case{Script: s, Tags: []string{"enum-dev-" + a}, Nontrivial: true})
	}
	// every injection letter at every write position of a two-transaction history with a rollback
	base := []string{"v3.init seed=1", "v3.rel add r0", "v3.conn add r0", "v3.mast -", "v3.cfg ok -", "v3.cfg ok -",
		"v3.append " + encPV("/a", "v1", false, 1), "v3.append " + encPV("/a", "v2", false, 2)}
	sched := []int{1, 1, 2, 1, 2, 1, 2, 2, 1, 2}
	for pos := 0; pos < len(sched); pos++ {
		for _, l := range []string{"f", "c", "s", "r", "1f", "1c", "1s", "1r"} {
			s := append([]string{}, base...)
			for k, i := range sched {
				pl := "-"
				if k == pos {
					pl = l
				}
				s = append(s, fmt.Sprintf("v3.tx %d valid ok %s", i, pl))
			}
			s = append(s, "v3.rollback 2")
			for k := 0; k < 6; k++ {
				s = append(s, "v3.tx 2 valid ok -", "v3.tx 1 valid ok -")
			}
			out = append(out, fw.Case{Script: s, Tags: []string{"enum-inj-" + l}, Nontrivial: true})
		}
	}
	// a refused rollback apply whose second write (the transaction's own FAILED status) is lost, failed
	// or crashed away, at every step of the rollback, followed by fault-free retries: the recovery
	// branches of applyRollback must not take the advanced cursors for a completed apply
	applied := append([]string{}, base...)
	for k := 0; k < 6; k++ {
		applied = append(applied, "v3.tx 1 valid ok -", "v3.tx 2 valid ok -")
	}
	applied = append(applied, "v3.rollback 2")
	for _, a := range []string{"invalid", "internal"} {
		for _, l := range []string{"1f", "1c", "1s"} {
			for pos := 0; pos < 6; pos++ {
				s := append([]string{}, applied...)
				for k := 0; k < 6; k++ {
					if k == pos {
						s = append(s, fmt.Sprintf("v3.tx 2 valid %s %s", a, l))
					} else {
						s = append(s, "v3.tx 2 valid ok -")
					}
				}
				for k := 0; k < 4; k++ {
					s = append(s, "v3.tx 2 valid ok -", "v3.tx 1 valid ok -")
				}
				out = append(out, fw.Case{Script: s, Tags: []string{"enum-rbk-refused-" + l}, Nontrivial: true})
			}
		}
	}
	return out
}
