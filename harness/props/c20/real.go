package c20

import (
	"fmt"
	"strconv"
	"strings"

	configapi "github.com/onosproject/onos-api/go/onos/config/v3"
	"github.com/onosproject/onos-config/verifharness/internal/fw"
)

// realExec executes one case's op lines on the implementation.
type realExec struct {
	w *world
}

func newReal() fw.Real { return &realExec{w: newWorld()} }

func (r *realExec) Close() { r.w.close() }

// Hint reports the nondeterministic choices the implementation made in the last Exec.
func (r *realExec) Hint() string {
	h := strings.Join(r.w.hints, " ")
	r.w.hints = nil
	return h
}

func plan(s string) string {
	if s == "-" {
		return ""
	}
	return s
}

func kv(tok, key string) (string, bool) {
	if strings.HasPrefix(tok, key+"=") {
		return tok[len(key)+1:], true
	}
	return "", false
}

// Exec runs one op line and answers with the canonical state line.
func (r *realExec) Exec(line string) (out string) {
	defer func() {
		if p := recover(); p != nil {
			out = "harness-panic " + fmt.Sprint(p)
		}
	}()
	r.w.hints = nil
	toks := strings.Fields(line)
	if len(toks) == 0 || !strings.HasPrefix(toks[0], "v3.") {
		return "bad-op"
	}
	w := r.w
	op, args := toks[0][3:], toks[1:]
	if op != "init" && w.env == nil {
		return "bad-op"
	}
	head := "ok"
	var ev []string
	switch op {
	case "init":
		seed := 0
		for _, a := range args {
			if v, ok := kv(a, "seed"); ok && (v == "0" || v == "1" || v == "2") {
				seed = int(v[0] - '0')
			} else {
				return "bad-op"
			}
		}
		if err := w.init(seed); err != nil {
			return "harness-error " + err.Error()
		}
	case "append":
		vals := map[string]configapi.PathValue{}
		for _, a := range args {
			f := strings.Split(a, ":")
			if len(f) != 4 {
				return "bad-op"
			}
			p, ok1 := fw.DecStr(f[0])
			v, ok2 := fw.DecStr(f[1])
			idx, err := strconv.ParseUint(f[3], 10, 64)
			if !ok1 || !ok2 || err != nil || (f[2] != "0" && f[2] != "1") {
				return "bad-op"
			}
			pv := configapi.PathValue{Path: p, Deleted: f[2] == "1", Index: configapi.Index(idx)}
			if !pv.Deleted {
				pv.Value = strVal(v)
			}
			vals[p] = pv
		}
		if err := w.nbAppend(vals); err != nil {
			return "harness-error " + err.Error()
		}
		head = fmt.Sprintf("ok %d", w.ntx)
	case "rollback":
		if len(args) != 1 {
			return "bad-op"
		}
		i, err := strconv.ParseUint(args[0], 10, 64)
		if err != nil {
			return "bad-op"
		}
		head = w.nbRollback(i)
	case "tx":
		if len(args) != 4 {
			return "bad-op"
		}
		i, err := strconv.ParseUint(args[0], 10, 64)
		if err != nil {
			return "bad-op"
		}
		if _, ok := codeByName[args[2]]; !ok && args[2] != "ok" {
			return "bad-op"
		}
		if args[1] != "valid" && args[1] != "invalid" && args[1] != "noplugin" {
			return "bad-op"
		}
		head = w.stepTx(i, args[1], args[2], plan(args[3]))
		cur := w.snap()
		devOK := false
		if w.prev != nil {
			for _, q := range w.dev.log[w.prev.nlog:] {
				if q.answer == "ok" {
					devOK = true
				}
			}
		}
		ev = events(w.prev, cur, i, devOK)
		out = w.render(cur, head, ev)
		w.prev = cur
		return out
	case "cfg":
		if len(args) != 2 {
			return "bad-op"
		}
		if _, ok := codeByName[args[0]]; !ok && args[0] != "ok" {
			return "bad-op"
		}
		head = w.stepCfg(args[0], plan(args[1]))
	case "mast":
		if len(args) != 1 {
			return "bad-op"
		}
		head = w.stepMast(plan(args[0]))
	case "drain", "end":
		// markers for the monitor: start / end of the fault-free tail
		if len(args) != 0 {
			return "bad-op"
		}
	case "topo":
		for _, a := range args {
			if v, ok := kv(a, "entity"); ok {
				w.topo.entity = v == "1"
			} else if v, ok := kv(a, "persistent"); ok {
				w.topo.persistent = v == "1"
			} else {
				return "bad-op"
			}
		}
	case "rel", "conn":
		if len(args) != 2 || (args[0] != "add" && args[0] != "del") || args[1] == "" {
			return "bad-op"
		}
		m := w.topo.rels
		if op == "conn" {
			m = w.conns.present
		}
		if args[0] == "add" {
			m[args[1]] = true
		} else {
			delete(m, args[1])
		}
	case "dev":
		if len(args) != 1 {
			return "bad-op"
		}
		switch args[0] {
		case "stop":
			// spec/Target.tla Stop: the target loses its state
			if w.dev.up {
				w.dev.up = false
				w.dev.values = map[string]string{}
			}
		case "start":
			if !w.dev.up {
				w.dev.up = true
				w.dev.epoch++
			}
		default:
			return "bad-op"
		}
	default:
		return "bad-op"
	}
	cur := w.snap()
	out = w.render(cur, head, ev)
	w.prev = cur
	return out
}
