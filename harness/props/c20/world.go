package c20

// The real side of the C20 correspondence: the v3 transaction, configuration and mastership
// Reconcilers of /repo (through their NewReconcilerForVerif hooks) on the real v3 stores over the
// atomix in-memory test client, one Reconcile(id) at a time, with fakes for topo, the connection
// manager, the device and the plugin registry, and store decorators that inject partial writes,
// swallowed CAS conflicts and racing northbound requests at every store write of an invocation.

import (
	"context"
	"fmt"
	"sort"
	"strings"
	"sync"
	"sync/atomic"

	"github.com/atomix/go-sdk/pkg/test"
	adminapi "github.com/onosproject/onos-api/go/onos/config/admin"
	configv2 "github.com/onosproject/onos-api/go/onos/config/v2"
	configapi "github.com/onosproject/onos-api/go/onos/config/v3"
	topoapi "github.com/onosproject/onos-api/go/onos/topo"
	ctlutils "github.com/onosproject/onos-config/pkg/controller/utils"
	cfgctl "github.com/onosproject/onos-config/pkg/controller/v3/configuration"
	mastctl "github.com/onosproject/onos-config/pkg/controller/v3/mastership"
	txctl "github.com/onosproject/onos-config/pkg/controller/v3/transaction"
	"github.com/onosproject/onos-config/pkg/pluginregistry"
	sb "github.com/onosproject/onos-config/pkg/southbound/gnmi"
	cfgstore "github.com/onosproject/onos-config/pkg/store/v3/configuration"
	txstore "github.com/onosproject/onos-config/pkg/store/v3/transaction"
	"github.com/onosproject/onos-config/pkg/utils"
	"github.com/onosproject/onos-config/pkg/utils/v3/tree"
	"github.com/onosproject/onos-config/verifharness/internal/fw"
	"github.com/onosproject/onos-lib-go/pkg/controller"
	"github.com/onosproject/onos-lib-go/pkg/errors"
	"github.com/onosproject/onos-lib-go/pkg/logging"
	baseClient "github.com/openconfig/gnmi/client"
	gpb "github.com/openconfig/gnmi/proto/gnmi"
	"google.golang.org/grpc"
	"google.golang.org/grpc/codes"
	"google.golang.org/grpc/status"
)

func init() {
	logging.SetLevel(logging.FatalLevel)
}

// every case gets a target of its own (the atomix test node and the stores are shared between the
// cases of one process: a node per case leaks about 25 MB and 85 goroutines, see env below)
var targetSeq atomic.Uint64

func newTarget() configapi.Target {
	return configapi.Target{ID: configapi.TargetID(fmt.Sprintf("t%d", targetSeq.Add(1))), Type: "ty", Version: "1"}
}

// env is one in-process atomix node with the two raw v3 stores on it; cases use it one after the
// other, each under its own target id (all keys, logs and side maps of the v3 stores are per target).
// oneConn hands the single runtime connection of the environment to every primitive (as the
// sidecar does in production); test.Client.Connect would start a new runtime with four in-memory
// connections (about 8 MB of pipe buffers) for every primitive, and the v3 stores open three
// primitives per target and never close them.
type oneConn struct {
	inner *test.Client
	mu    sync.Mutex
	conn  *grpc.ClientConn
}

func (c *oneConn) Connect(ctx context.Context) (*grpc.ClientConn, error) {
	c.mu.Lock()
	defer c.mu.Unlock()
	if c.conn == nil {
		conn, err := c.inner.Connect(ctx)
		if err != nil {
			return nil, err
		}
		c.conn = conn
	}
	return c.conn, nil
}

type env struct {
	cl     *test.Client
	rawTx  txstore.Store
	rawCfg cfgstore.Store
	uses   int
}

var envLife = 500

var (
	envMu   sync.Mutex
	envFree []*env
)

func acquireEnv() (*env, error) {
	envMu.Lock()
	if n := len(envFree); n > 0 {
		e := envFree[n-1]
		envFree = envFree[:n-1]
		envMu.Unlock()
		return e, nil
	}
	envMu.Unlock()
	e := &env{cl: test.NewClient()}
	shared := &oneConn{inner: e.cl}
	var err error
	if e.rawTx, err = txstore.NewAtomixStore(shared); err != nil {
		return nil, err
	}
	if e.rawCfg, err = cfgstore.NewAtomixStore(shared); err != nil {
		return nil, err
	}
	return e, nil
}

func releaseEnv(e *env) {
	e.uses++
	if e.uses >= envLife {
		e.cl.Close()
		return
	}
	envMu.Lock()
	envFree = append(envFree, e)
	envMu.Unlock()
}

// ---------------------------------------------------------------------------------------------
// device + connection fakes

type setRec struct {
	election uint64
	deletes  []string
	updates  []string // path=value
	answer   string
}

type device struct {
	up     bool
	epoch  int
	values map[string]string
	mode   string // answer of the next Set requests: ok | <grpc code name>
	log    []setRec
}

func under(q, p string) bool {
	if q == p {
		return true
	}
	return strings.HasPrefix(q, p) && len(q) > len(p) && (q[len(p)] == '/' || q[len(p)] == '[')
}

var codeByName = map[string]codes.Code{
	"canceled": codes.Canceled, "unknown": codes.Unknown, "invalid": codes.InvalidArgument,
	"deadline": codes.DeadlineExceeded, "notfound": codes.NotFound, "exists": codes.AlreadyExists,
	"denied": codes.PermissionDenied, "exhausted": codes.ResourceExhausted, "precondition": codes.FailedPrecondition,
	"aborted": codes.Aborted, "range": codes.OutOfRange, "unimplemented": codes.Unimplemented,
	"internal": codes.Internal, "unavailable": codes.Unavailable, "dataloss": codes.DataLoss,
	"unauthenticated": codes.Unauthenticated,
}

func (d *device) set(r *gpb.SetRequest) (*gpb.SetResponse, error) {
	rec := setRec{}
	for _, e := range r.Extension {
		if ma := e.GetMasterArbitration(); ma != nil {
			rec.election = ma.ElectionId.GetLow()
		}
	}
	for _, p := range r.Delete {
		rec.deletes = append(rec.deletes, utils.StrPathElem(p.Elem))
	}
	for _, u := range r.Update {
		rec.updates = append(rec.updates, utils.StrPathElem(u.Path.Elem)+"="+u.Val.GetStringVal())
	}
	sort.Strings(rec.deletes)
	sort.Strings(rec.updates)
	mode := d.mode
	if !d.up {
		mode = "unavailable"
	}
	rec.answer = mode
	d.log = append(d.log, rec)
	if mode != "ok" {
		// pkg/southbound/gnmi/client.go converts every gRPC status error with errors.FromGRPC
		return nil, errors.FromGRPC(status.Error(codeByName[mode], "injected "+mode))
	}
	for _, p := range rec.deletes {
		for q := range d.values {
			if under(q, p) {
				delete(d.values, q)
			}
		}
	}
	for _, u := range rec.updates {
		p, v, _ := strings.Cut(u, "=")
		d.values[p] = v
	}
	return &gpb.SetResponse{}, nil
}

type fakeConn struct {
	id  sb.ConnID
	dev *device
	tgt configapi.Target
}

func (c *fakeConn) Close() error { return nil }
func (c *fakeConn) Capabilities(ctx context.Context, r *gpb.CapabilityRequest) (*gpb.CapabilityResponse, error) {
	return &gpb.CapabilityResponse{}, nil
}
func (c *fakeConn) CapabilitiesWithString(ctx context.Context, request string) (*gpb.CapabilityResponse, error) {
	return &gpb.CapabilityResponse{}, nil
}
func (c *fakeConn) Get(ctx context.Context, r *gpb.GetRequest) (*gpb.GetResponse, error) {
	return &gpb.GetResponse{}, nil
}
func (c *fakeConn) GetWithString(ctx context.Context, request string) (*gpb.GetResponse, error) {
	return &gpb.GetResponse{}, nil
}
func (c *fakeConn) Set(ctx context.Context, r *gpb.SetRequest) (*gpb.SetResponse, error) {
	return c.dev.set(r)
}
func (c *fakeConn) SetWithString(ctx context.Context, request string) (*gpb.SetResponse, error) {
	return nil, errors.NewNotSupported("not used")
}
func (c *fakeConn) Subscribe(ctx context.Context, q baseClient.Query) error { return nil }
func (c *fakeConn) Poll() error                                             { return nil }
func (c *fakeConn) ID() sb.ConnID                                           { return c.id }
func (c *fakeConn) TargetID() topoapi.ID                                    { return topoapi.ID(c.tgt.ID) }

type fakeConns struct {
	present map[string]bool
	dev     *device
	tgt     configapi.Target
}

func (m *fakeConns) Get(ctx context.Context, connID sb.ConnID) (sb.Conn, bool) {
	if m.present[string(connID)] {
		return &fakeConn{id: connID, dev: m.dev, tgt: m.tgt}, true
	}
	return nil, false
}
func (m *fakeConns) GetByTarget(ctx context.Context, targetID topoapi.ID) (sb.Client, error) {
	return nil, errors.NewNotFound("not used")
}
func (m *fakeConns) Connect(ctx context.Context, target *topoapi.Object) error { return nil }
func (m *fakeConns) Disconnect(ctx context.Context, targetID topoapi.ID) error { return nil }
func (m *fakeConns) Watch(ctx context.Context, ch chan<- sb.Conn) error        { return nil }

// ---------------------------------------------------------------------------------------------
// topo fake

type fakeTopo struct {
	entity     bool
	persistent bool
	rels       map[string]bool
	tgt        configapi.Target
}

func (t *fakeTopo) Create(ctx context.Context, object *topoapi.Object) error { return nil }
func (t *fakeTopo) Update(ctx context.Context, object *topoapi.Object) error { return nil }
func (t *fakeTopo) Delete(ctx context.Context, object *topoapi.Object) error { return nil }
func (t *fakeTopo) Watch(ctx context.Context, ch chan<- topoapi.Event, filters *topoapi.Filters) error {
	return nil
}
func (t *fakeTopo) relation(id string) *topoapi.Object {
	return &topoapi.Object{ID: topoapi.ID(id), Type: topoapi.Object_RELATION,
		Obj: &topoapi.Object_Relation{Relation: &topoapi.Relation{KindID: topoapi.CONTROLS,
			SrcEntityID: ctlutils.GetOnosConfigID(), TgtEntityID: topoapi.ID(t.tgt.ID)}}}
}
func (t *fakeTopo) Get(ctx context.Context, id topoapi.ID) (*topoapi.Object, error) {
	if string(id) == string(t.tgt.ID) {
		if !t.entity {
			return nil, errors.NewNotFound("no entity")
		}
		o := &topoapi.Object{ID: id, Type: topoapi.Object_ENTITY, Obj: &topoapi.Object_Entity{Entity: &topoapi.Entity{}}}
		_ = o.SetAspect(&topoapi.Configurable{Type: string(t.tgt.Type), Version: string(t.tgt.Version), Persistent: t.persistent})
		return o, nil
	}
	if t.rels[string(id)] {
		return t.relation(string(id)), nil
	}
	return nil, errors.NewNotFound("no object")
}
func (t *fakeTopo) List(ctx context.Context, filters *topoapi.Filters) ([]topoapi.Object, error) {
	// the mastership reconciler lists the CONTROLS relations whose source is this node
	var out []topoapi.Object
	if filters == nil || filters.RelationFilter == nil || filters.RelationFilter.RelationKind != topoapi.CONTROLS ||
		filters.RelationFilter.SrcId != string(ctlutils.GetOnosConfigID()) {
		return out, nil
	}
	ids := make([]string, 0, len(t.rels))
	for id := range t.rels {
		ids = append(ids, id)
	}
	sort.Strings(ids)
	for _, id := range ids {
		out = append(out, *t.relation(id))
	}
	return out, nil
}

// ---------------------------------------------------------------------------------------------
// plugin fakes

type fakePlugin struct{ w *world }

func (p *fakePlugin) GetInfo() *pluginregistry.ModelPluginInfo {
	return &pluginregistry.ModelPluginInfo{}
}
func (p *fakePlugin) Capabilities(ctx context.Context) *gpb.CapabilityResponse {
	return &gpb.CapabilityResponse{}
}
func (p *fakePlugin) Validate(ctx context.Context, jsonData []byte) error {
	p.w.validated = append(p.w.validated, string(jsonData))
	if p.w.verdict == "invalid" {
		return errors.NewInvalid("injected invalid")
	}
	return nil
}
func (p *fakePlugin) GetPathValues(ctx context.Context, pathPrefix string, jsonData []byte) ([]*configv2.PathValue, error) {
	return nil, nil
}
func (p *fakePlugin) LeafValueSelection(ctx context.Context, selectionPath string, jsonData []byte) ([]string, error) {
	return nil, nil
}

type fakePlugins struct{ w *world }

func (r *fakePlugins) Start() {}
func (r *fakePlugins) Stop()  {}
func (r *fakePlugins) GetPlugin(model configv2.TargetType, version configv2.TargetVersion) (pluginregistry.ModelPlugin, bool) {
	if r.w.verdict == "noplugin" {
		return nil, false
	}
	return &fakePlugin{w: r.w}, true
}
func (r *fakePlugins) GetPlugins() []pluginregistry.ModelPlugin                            { return nil }
func (r *fakePlugins) NewClientFn(func(string) (adminapi.ModelPluginServiceClient, error)) {}

// ---------------------------------------------------------------------------------------------
// store decorators: the k-th store write of the current invocation gets the k-th injection letter
//   1  pass through
//   f  fail: a non-conflict error is returned and nothing is written (crash before the write)
//   c  conflict: another writer touches the record first, then the real CAS runs (and conflicts)
//   s  (configuration only) crash inside UpdateStatus: the side map is written, the entry is not,
//      and an error is returned
//   r  (transaction only) the northbound rollback request lands first (if its guard holds)

type injector struct {
	plan  string
	n     int
	trace []string
}

func (in *injector) next(kind string) byte {
	k := in.n
	in.n++
	c := byte('1')
	if k < len(in.plan) {
		c = in.plan[k]
	}
	in.trace = append(in.trace, kind+string(c))
	return c
}

type cfgDecor struct {
	cfgstore.Store
	w *world
}

// realUpdate calls the real UpdateStatus and works out which element of Applied.Values the range
// of `store` visited last (every insert/update of one call is encoded from the one loop variable):
// the content written for the modified keys is the content of that element.
func (d *cfgDecor) realUpdate(ctx context.Context, c *configapi.Configuration) error {
	vals := map[string]configapi.PathValue{}
	for k, v := range c.Applied.Values {
		vals[k] = v
	}
	var before map[string]configapi.PathValue
	if cur, err := d.Store.Get(ctx, c.ID); err == nil {
		before = cur.Applied.Values
	}
	// the keys for which `store` queues an insert or an update (its own conditions, with the
	// repository's PrunePathMap)
	pruned := tree.PrunePathMap(vals, true)
	var mods []string
	for _, pv := range vals {
		_, keep := pruned[pv.Path]
		if b, found := before[pv.Path]; !found {
			if keep {
				mods = append(mods, pv.Path)
			}
		} else if keep && pv.Index != b.Index {
			mods = append(mods, pv.Path)
		}
	}
	err := d.Store.UpdateStatus(ctx, c)
	if len(mods) == 0 {
		return err
	}
	cur, e2 := d.Store.Get(ctx, c.ID)
	if e2 != nil {
		return err
	}
	keys := make([]string, 0, len(vals))
	for k := range vals {
		keys = append(keys, k)
	}
	sort.Strings(keys)
	for _, e := range keys {
		all := true
		for _, k := range mods {
			if a, ok := cur.Applied.Values[k]; !ok || !pvEqual(vals[e], a) {
				all = false
				break
			}
		}
		if all {
			d.w.hints = append(d.w.hints, "last="+fw.EncStr(e))
			break
		}
	}
	return err
}

func pvEqual(a, b configapi.PathValue) bool {
	return a.Path == b.Path && a.Deleted == b.Deleted && a.Index == b.Index && string(a.Value.Bytes) == string(b.Value.Bytes)
}

func (d *cfgDecor) UpdateStatus(ctx context.Context, c *configapi.Configuration) error {
	if d.w.inj == nil {
		return d.realUpdate(ctx, c)
	}
	switch d.w.inj.next("C") {
	case 'f':
		return errors.NewInternal("injected failure")
	case 'c':
		cur, err := d.Store.Get(ctx, c.ID)
		if err == nil {
			cur.Applied.Values = nil // a writer that only touches the entry
			_ = d.Store.UpdateStatus(ctx, cur)
		}
		return d.realUpdate(ctx, c)
	case 's':
		cp := *c
		cp.Version = 1 // stale: the side map transaction commits, the entry CAS does not
		_ = d.realUpdate(ctx, &cp)
		return errors.NewInternal("injected failure inside UpdateStatus")
	}
	return d.realUpdate(ctx, c)
}

type txDecor struct {
	txstore.Store
	w *world
}

func (d *txDecor) UpdateStatus(ctx context.Context, t *configapi.Transaction) error {
	if d.w.inj == nil {
		return d.Store.UpdateStatus(ctx, t)
	}
	switch d.w.inj.next("T") {
	case 'f':
		return errors.NewInternal("injected failure")
	case 'c':
		cur, err := d.Store.Get(ctx, t.ID)
		if err == nil {
			_ = d.Store.UpdateStatus(ctx, cur)
		}
		return d.Store.UpdateStatus(ctx, t)
	case 'r':
		d.w.nbRollback(uint64(t.ID.Index))
		return d.Store.UpdateStatus(ctx, t)
	}
	return d.Store.UpdateStatus(ctx, t)
}

// ---------------------------------------------------------------------------------------------

type world struct {
	env       *env
	target    configapi.Target
	rawTx     txstore.Store
	rawCfg    cfgstore.Store
	txs       *txDecor
	cfgs      *cfgDecor
	topo      *fakeTopo
	conns     *fakeConns
	dev       *device
	rec       *txctl.Reconciler
	crec      *cfgctl.Reconciler
	mrec      *mastctl.Reconciler
	verdict   string
	validated []string
	inj       *injector
	ntx       uint64
	lastVer   map[string]uint64
	hints     []string
	hideReq   bool
	prev      *snapshot
	closed    bool
}

func newWorld() *world {
	w := &world{lastVer: map[string]uint64{}}
	return w
}

func (w *world) close() {
	if w.env != nil && !w.closed {
		w.closed = true
		releaseEnv(w.env)
		w.env = nil
	}
}

func (w *world) cfgID() configapi.ConfigurationID { return configapi.ConfigurationID{Target: w.target} }

// init creates fresh stores and the configuration record (Status.Mastership set).
// seed 0: no initial value (Committed.Values is nil when read back);
// seed 1: the creator gives the entry one initial committed value with UpdateStatus (embedded);
// seed 2: the creator passes the initial committed value to Create (which puts it into the committed side map).
func (w *world) init(seed int) error {
	w.close()
	w.closed = false
	e, err := acquireEnv()
	if err != nil {
		return err
	}
	w.env, w.rawTx, w.rawCfg = e, e.rawTx, e.rawCfg
	w.target = newTarget()
	w.txs = &txDecor{Store: w.rawTx, w: w}
	w.cfgs = &cfgDecor{Store: w.rawCfg, w: w}
	w.dev = &device{up: true, epoch: 1, values: map[string]string{}, mode: "ok"}
	w.topo = &fakeTopo{entity: true, rels: map[string]bool{}, tgt: w.target}
	w.conns = &fakeConns{present: map[string]bool{}, dev: w.dev, tgt: w.target}
	w.verdict = "valid"
	w.ntx = 0
	w.prev = nil
	w.lastVer = map[string]uint64{}
	plugins := &fakePlugins{w: w}
	w.rec = txctl.NewReconcilerForVerif(configapi.NodeID(ctlutils.GetOnosConfigID()), w.txs, w.cfgs, w.conns, w.topo, plugins)
	w.crec = cfgctl.NewReconcilerForVerif(w.topo, w.conns, w.cfgs)
	w.mrec = mastctl.NewReconcilerForVerif(w.topo, w.cfgs)
	c := &configapi.Configuration{ID: w.cfgID()}
	c.Status.Mastership = &configapi.MastershipStatus{}
	seedVals := map[string]configapi.PathValue{seedPath: {Path: seedPath, Value: strVal("0")}}
	if seed == 2 {
		c.Committed.Values = seedVals
	}
	if err := w.rawCfg.Create(context.Background(), c); err != nil {
		return err
	}
	if seed == 1 {
		c.Committed.Values = seedVals
		return w.rawCfg.UpdateStatus(context.Background(), c)
	}
	return nil
}

const seedPath = "/seed"

func strVal(s string) configapi.TypedValue {
	return configapi.TypedValue{Bytes: []byte(s), Type: configapi.ValueType_STRING}
}

// nbAppend is the northbound stand-in for spec/Transaction.tla AppendChange.
func (w *world) nbAppend(vals map[string]configapi.PathValue) error {
	t := &configapi.Transaction{
		ID:     configapi.TransactionID{Target: w.target},
		Values: vals,
		Status: configapi.TransactionStatus{
			Phase: configapi.TransactionStatus_CHANGE,
			Change: configapi.TransactionChangeStatus{
				Commit: &configapi.TransactionPhaseStatus{State: configapi.TransactionPhaseStatus_PENDING},
				Apply:  &configapi.TransactionPhaseStatus{State: configapi.TransactionPhaseStatus_PENDING},
			},
		},
	}
	if err := w.rawTx.Create(context.Background(), t); err != nil {
		return err
	}
	w.ntx = uint64(t.ID.Index)
	return nil
}

// nbRollback is the northbound stand-in for spec/Transaction.tla RollbackChange: enabled when the
// transaction is in the Change phase with its change commit Complete.
func (w *world) nbRollback(i uint64) string {
	ctx := context.Background()
	t, err := w.rawTx.Get(ctx, configapi.TransactionID{Target: w.target, Index: configapi.Index(i)})
	if err != nil {
		return "refused"
	}
	if t.Status.Phase != configapi.TransactionStatus_CHANGE || t.Status.Change.Commit == nil ||
		t.Status.Change.Commit.State != configapi.TransactionPhaseStatus_COMPLETE {
		return "refused"
	}
	t.Status.Phase = configapi.TransactionStatus_ROLLBACK
	t.Status.Rollback.Commit = &configapi.TransactionPhaseStatus{State: configapi.TransactionPhaseStatus_PENDING}
	t.Status.Rollback.Apply = &configapi.TransactionPhaseStatus{State: configapi.TransactionPhaseStatus_PENDING}
	if err := w.rawTx.UpdateStatus(ctx, t); err != nil {
		return "refused"
	}
	return "ok"
}

func resString(res controller.Result, err error) string {
	s := "-"
	if res.Requeue.Value != nil {
		if id, ok := res.Requeue.Value.(configapi.TransactionID); ok {
			s = fmt.Sprintf("rq%d", id.Index)
		} else {
			s = "rq?"
		}
	}
	if err != nil {
		return s + ",err"
	}
	return s + ",nil"
}

func (w *world) stepTx(i uint64, verdict, dev, plan string) (out string) {
	w.hideReq = false
	w.verdict = verdict
	w.dev.mode = dev
	w.inj = &injector{plan: plan}
	defer func() {
		w.inj = nil
		if r := recover(); r != nil {
			out = "panic " + panicClass(fmt.Sprint(r))
		}
	}()
	res, err := w.rec.Reconcile(controller.NewID(configapi.TransactionID{Target: w.target, Index: configapi.Index(i)}))
	return resString(res, err) + " w=" + strings.Join(w.inj.trace, "")
}

func panicClass(s string) string {
	switch {
	case strings.Contains(s, "nil map"):
		return "nilmap"
	case strings.Contains(s, "nil pointer"):
		return "nilptr"
	}
	return "other"
}

func (w *world) stepCfg(dev, plan string) (out string) {
	w.dev.mode = dev
	w.hideReq = true
	w.inj = &injector{plan: plan}
	defer func() {
		w.inj = nil
		if r := recover(); r != nil {
			out = "panic " + panicClass(fmt.Sprint(r))
		}
	}()
	from := len(w.dev.log)
	res, err := w.crec.Reconcile(controller.NewID(w.cfgID()))
	// the order in which the index groups reached the device is Go map order: name it by positions
	// in the sorted list of rendered requests
	if sent := w.dev.log[from:]; len(sent) > 1 && sent[0].answer == "ok" {
		keys := make([]string, len(sent))
		for i, r := range sent {
			keys[i] = fmtReq(r)
		}
		sorted := append([]string{}, keys...)
		sort.Strings(sorted)
		used := make([]bool, len(sorted))
		var pos []string
		for _, k := range keys {
			for j, sk := range sorted {
				if sk == k && !used[j] {
					used[j] = true
					pos = append(pos, fmt.Sprint(j))
					break
				}
			}
		}
		w.hints = append(w.hints, "rs="+strings.Join(pos, ","))
	}
	return resString(res, err) + " w=" + strings.Join(w.inj.trace, "")
}

func (w *world) stepMast(plan string) (out string) {
	w.inj = &injector{plan: plan}
	defer func() {
		w.inj = nil
		if r := recover(); r != nil {
			out = "panic " + panicClass(fmt.Sprint(r))
		}
	}()
	before := ""
	if c, e := w.rawCfg.Get(context.Background(), w.cfgID()); e == nil && c.Status.Mastership != nil {
		before = string(c.Status.Mastership.Master)
	}
	res, err := w.mrec.Reconcile(controller.NewID(w.cfgID()))
	if c, e := w.rawCfg.Get(context.Background(), w.cfgID()); e == nil && c.Status.Mastership != nil {
		if m := string(c.Status.Mastership.Master); m != before && m != "" {
			w.hints = append(w.hints, "pick="+m)
		}
	}
	return resString(res, err) + " w=" + strings.Join(w.inj.trace, "")
}
