package c20
import ("testing";"fmt";"os";"strconv";"strings";"github.com/onosproject/onos-config/verifharness/internal/rng";"github.com/onosproject/onos-config/verifharness/internal/oracle")
func TestDbg(t *testing.T) {
	seed, _ := strconv.Atoi(os.Getenv("SEED"))
	cnt, _ := strconv.Atoi(os.Getenv("N"))
	root := rng.New(uint64(seed))
	kinds := map[string]int{}
	o, err := oracle.Start("/tmp/wk/a6/lean/.lake/build/bin/oracle")
	if err != nil { t.Fatal(err) }
	defer o.Close()
	dis := 0
	for n := 0; n < cnt; n++ {
		c := gen(root.Fork(uint64(n)), "quick")
		r := newReal()
		var outs []string
		first := true
		for i, ln := range c.Script {
			ro := r.Exec(ln); outs = append(outs, ro)
			tl := ln
			if h := r.(*realExec).Hint(); h != "" { tl = ln + " " + h }
			to, _ := o.Ask(tl)
			if to != ro && first { first = false; dis++; if dis <= 6 { fmt.Printf("ST DIS case %d line %d %s\nST   R %s\nST   T %s\n", n, i, tl, ro, to) } }
		}
		r.Close()
		for _, m := range monitor(c, outs) {
			k, _, _ := strings.Cut(m, ":")
			attr := ""
			for name, f := range sigs { if f(c, outs, m) { attr = name } }
			kinds[k+"/"+attr]++
			if attr == "" && kinds[k+"/"+attr] <= 2 && os.Getenv("QUIET") == "" { fmt.Printf("ST case %d %s\n", n, m) }
		}
	}
	fmt.Printf("ST kinds %v disagreements=%d\n", kinds, dis)
}
