package c20
import ("testing";"fmt";"os";"strconv";"github.com/onosproject/onos-config/verifharness/internal/rng")
func TestShow(t *testing.T) {
	seed, _ := strconv.Atoi(os.Getenv("SEED"))
	n, _ := strconv.Atoi(os.Getenv("CASE"))
	root := rng.New(uint64(seed))
	c := gen(root.Fork(uint64(n)), "quick")
	r := newReal()
	var outs []string
	for i, ln := range c.Script { o := r.Exec(ln); outs = append(outs, o); fmt.Printf("ST %d > %s   [%s]\nST    %s\n", i, ln, r.(*realExec).Hint(), o) }
	r.Close()
	fmt.Printf("ST %v\n", monitor(c, outs))
}
