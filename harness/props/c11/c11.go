// Package c11 ties the Lean error tables (OnosVerif/ErrTable) to the code: the dependency tables
// errors.FromGRPC / errors.Status / status.Code over all codes and error kinds; the apply switch of
// the real v2 proposal reconciler (NewReconcilerForVerif on real stores, one Reconcile with a fake
// device connection that converts its answer exactly like pkg/southbound/gnmi/client.go); the
// Failure.Type -> status switches of gnmi Set and admin RollbackTransaction through the real
// handlers.  The monitor evaluates C11's classification statement on the real answers.
package c11

import (
	"context"
	"errors"
	"fmt"
	"strconv"
	"strings"
	"sync"

	"github.com/atomix/go-sdk/pkg/test"
	adminapi "github.com/onosproject/onos-api/go/onos/config/admin"
	configapi "github.com/onosproject/onos-api/go/onos/config/v2"
	topoapi "github.com/onosproject/onos-api/go/onos/topo"
	controllerutils "github.com/onosproject/onos-config/pkg/controller/utils"
	proposalctl "github.com/onosproject/onos-config/pkg/controller/v2/proposal"
	adminsrv "github.com/onosproject/onos-config/pkg/northbound/admin"
	gnmisrv "github.com/onosproject/onos-config/pkg/northbound/gnmi/v2"
	"github.com/onosproject/onos-config/pkg/pluginregistry"
	sb "github.com/onosproject/onos-config/pkg/southbound/gnmi"
	"github.com/onosproject/onos-config/pkg/store/v2/configuration"
	"github.com/onosproject/onos-config/pkg/store/v2/proposal"
	"github.com/onosproject/onos-config/pkg/store/v2/transaction"
	"github.com/onosproject/onos-config/pkg/utils/path"
	"github.com/onosproject/onos-config/verifharness/internal/fw"
	"github.com/onosproject/onos-config/verifharness/internal/quiet"
	"github.com/onosproject/onos-config/verifharness/internal/rng"
	"github.com/onosproject/onos-lib-go/pkg/controller"
	liberrors "github.com/onosproject/onos-lib-go/pkg/errors"
	baseClient "github.com/openconfig/gnmi/client"
	"github.com/openconfig/gnmi/proto/gnmi"
	"google.golang.org/grpc/codes"
	"google.golang.org/grpc/status"
)

func init() { quiet.On() }

var typeNames = []string{"Unknown", "Canceled", "NotFound", "AlreadyExists", "Unauthorized", "Forbidden", "Conflict", "Invalid",
	"Unavailable", "NotSupported", "Timeout", "Internal"}

func decErr(tok string) (error, bool) {
	switch {
	case tok == "nil":
		return nil, true
	case tok == "plain":
		return errors.New("connection reset"), true
	case strings.HasPrefix(tok, "s:"):
		n, err := strconv.Atoi(tok[2:])
		if err != nil || n < 0 || n > 16 {
			return nil, false
		}
		return status.Error(codes.Code(n), "device says no"), true
	case strings.HasPrefix(tok, "t:"):
		for i, name := range typeNames {
			if name == tok[2:] {
				return liberrors.New(liberrors.Type(i), "typed"), true
			}
		}
	}
	return nil, false
}

func encErr(err error) string {
	if err == nil {
		return "nil"
	}
	if te, ok := err.(*liberrors.TypedError); ok {
		if int(te.Type) >= 0 && int(te.Type) < len(typeNames) {
			return "typed " + typeNames[te.Type]
		}
		return fmt.Sprintf("typed #%d", te.Type)
	}
	if st, ok := status.FromError(err); ok {
		return "status " + st.Code().String()
	}
	return "plain"
}

// ---------------------------------------------------------------- fakes

type fakeTopo struct{}

func (fakeTopo) Create(ctx context.Context, o *topoapi.Object) error { return nil }
func (fakeTopo) Update(ctx context.Context, o *topoapi.Object) error { return nil }
func (fakeTopo) Delete(ctx context.Context, o *topoapi.Object) error { return nil }
func (fakeTopo) List(ctx context.Context, f *topoapi.Filters) ([]topoapi.Object, error) {
	return nil, nil
}
func (fakeTopo) Watch(ctx context.Context, ch chan<- topoapi.Event, f *topoapi.Filters) error {
	return nil
}

// Get: ids starting with "rel-" are CONTROLS relations whose source is this onos-config node;
// everything else is a configurable entity.
func (fakeTopo) Get(ctx context.Context, id topoapi.ID) (*topoapi.Object, error) {
	if strings.HasPrefix(string(id), "rel-") {
		return &topoapi.Object{ID: id, Type: topoapi.Object_RELATION, Obj: &topoapi.Object_Relation{Relation: &topoapi.Relation{
			KindID: topoapi.CONTROLS, SrcEntityID: controllerutils.GetOnosConfigID(), TgtEntityID: topoapi.ID(strings.TrimPrefix(string(id), "rel-"))}}}, nil
	}
	o := &topoapi.Object{ID: id, Type: topoapi.Object_ENTITY, Obj: &topoapi.Object_Entity{Entity: &topoapi.Entity{}}}
	_ = o.SetAspect(&topoapi.Configurable{Type: "devicesim", Version: "1.0.0", Target: string(id)})
	return o, nil
}

type fakePlugin struct{}

func (fakePlugin) GetInfo() *pluginregistry.ModelPluginInfo {
	return &pluginregistry.ModelPluginInfo{Info: adminapi.ModelInfo{Name: "devicesim", Version: "1.0.0"},
		ReadWritePaths: path.ReadWritePathMap{"/foo": adminapi.ReadWritePath{ValueType: configapi.ValueType_STRING}}}
}
func (fakePlugin) Capabilities(ctx context.Context) *gnmi.CapabilityResponse {
	return &gnmi.CapabilityResponse{}
}
func (fakePlugin) Validate(ctx context.Context, jsonData []byte) error { return nil }
func (fakePlugin) GetPathValues(ctx context.Context, pathPrefix string, jsonData []byte) ([]*configapi.PathValue, error) {
	return nil, nil
}
func (fakePlugin) LeafValueSelection(ctx context.Context, selectionPath string, jsonData []byte) ([]string, error) {
	return nil, nil
}

type fakeRegistry struct{}

func (fakeRegistry) Start() {}
func (fakeRegistry) Stop()  {}
func (fakeRegistry) GetPlugin(model configapi.TargetType, version configapi.TargetVersion) (pluginregistry.ModelPlugin, bool) {
	return fakePlugin{}, true
}
func (fakeRegistry) GetPlugins() []pluginregistry.ModelPlugin { return nil }
func (fakeRegistry) NewClientFn(func(endpoint string) (adminapi.ModelPluginServiceClient, error)) {
}

// fakeConn is the master connection to a device that answers every Set with devErr; the
// conversion of the answer is the one `client.Set` applies (errors.FromGRPC).
type fakeConn struct {
	id     sb.ConnID
	target topoapi.ID
	devErr error
	sets   int
}

func (c *fakeConn) ID() sb.ConnID        { return c.id }
func (c *fakeConn) TargetID() topoapi.ID { return c.target }
func (c *fakeConn) Close() error         { return nil }
func (c *fakeConn) Capabilities(ctx context.Context, r *gnmi.CapabilityRequest) (*gnmi.CapabilityResponse, error) {
	return &gnmi.CapabilityResponse{}, nil
}
func (c *fakeConn) CapabilitiesWithString(ctx context.Context, request string) (*gnmi.CapabilityResponse, error) {
	return &gnmi.CapabilityResponse{}, nil
}
func (c *fakeConn) Get(ctx context.Context, r *gnmi.GetRequest) (*gnmi.GetResponse, error) {
	return &gnmi.GetResponse{}, nil
}
func (c *fakeConn) GetWithString(ctx context.Context, request string) (*gnmi.GetResponse, error) {
	return &gnmi.GetResponse{}, nil
}
func (c *fakeConn) Set(ctx context.Context, r *gnmi.SetRequest) (*gnmi.SetResponse, error) {
	c.sets++
	return &gnmi.SetResponse{}, liberrors.FromGRPC(c.devErr)
}
func (c *fakeConn) SetWithString(ctx context.Context, request string) (*gnmi.SetResponse, error) {
	return nil, nil
}
func (c *fakeConn) Subscribe(ctx context.Context, q baseClient.Query) error { return nil }
func (c *fakeConn) Poll() error                                             { return nil }

type fakeConns struct{ conn *fakeConn }

func (m fakeConns) Get(ctx context.Context, connID sb.ConnID) (sb.Conn, bool) {
	if m.conn != nil && m.conn.id == connID {
		return m.conn, true
	}
	return nil, false
}
func (m fakeConns) GetByTarget(ctx context.Context, targetID topoapi.ID) (sb.Client, error) {
	return nil, liberrors.NewNotFound("no client")
}
func (m fakeConns) Connect(ctx context.Context, target *topoapi.Object) error { return nil }
func (m fakeConns) Disconnect(ctx context.Context, targetID topoapi.ID) error { return nil }
func (m fakeConns) Watch(ctx context.Context, ch chan<- sb.Conn) error        { return nil }

// failedTx is a transaction store whose watch reports the created transaction FAILED with the
// given failure (nil = no Failure record).
type failedTx struct {
	transaction.Store
	failure *configapi.Failure
	last    *configapi.Transaction
}

func (s *failedTx) Create(ctx context.Context, tx *configapi.Transaction) error {
	tx.Index = 1
	s.last = tx
	return nil
}
func (s *failedTx) Watch(ctx context.Context, ch chan<- configapi.TransactionEvent, opts ...transaction.WatchOption) error {
	ev := configapi.TransactionEvent{Type: configapi.TransactionEvent_UPDATED, Transaction: *s.last}
	ev.Transaction.Status.State = configapi.TransactionStatus_FAILED
	ev.Transaction.Status.Failure = s.failure
	go func() { ch <- ev }()
	return nil
}

var (
	mu        sync.Mutex
	once      sync.Once
	propStore proposal.Store
	cfgStore  configuration.Store
	initErr   error
	counter   int
)

func stores() error {
	once.Do(func() {
		client := test.NewClient()
		if propStore, initErr = proposal.NewAtomixStore(client); initErr != nil {
			return
		}
		cfgStore, initErr = configuration.NewAtomixStore(client)
	})
	return initErr
}

// applyV2 runs one real Reconcile of a proposal in the APPLYING state against a device that answers devErr.
func applyV2(devErr error) string {
	mu.Lock()
	defer mu.Unlock()
	if err := stores(); err != nil {
		return "store-error " + err.Error()
	}
	counter++
	ctx := context.Background()
	target := configapi.TargetID(fmt.Sprintf("dev%d", counter))
	rel := "rel-" + string(target)
	cfg := &configapi.Configuration{
		ID: configuration.NewID(target, "devicesim", "1.0.0"), TargetID: target,
		TargetTypeVersion: configapi.TargetTypeVersion{TargetType: "devicesim", TargetVersion: "1.0.0"},
		Status: configapi.ConfigurationStatus{
			State:      configapi.ConfigurationStatus_SYNCHRONIZED,
			Mastership: configapi.MastershipInfo{Master: rel, Term: 1},
			Committed:  configapi.CommittedConfigurationStatus{Index: 1},
			Applied:    configapi.AppliedConfigurationStatus{Index: 0, Mastership: configapi.MastershipInfo{Master: rel, Term: 1}},
		},
	}
	if err := cfgStore.Create(ctx, cfg); err != nil {
		return "store-error " + err.Error()
	}
	p := &configapi.Proposal{
		ID: proposal.NewID(target, 1), TargetID: target, TransactionIndex: 1,
		TargetTypeVersion: configapi.TargetTypeVersion{TargetType: "devicesim", TargetVersion: "1.0.0"},
		Details: &configapi.Proposal_Change{Change: &configapi.ChangeProposal{Values: map[string]*configapi.PathValue{
			"/foo": {Path: "/foo", Value: configapi.TypedValue{Bytes: []byte("x"), Type: configapi.ValueType_STRING}}}}},
		Status: configapi.ProposalStatus{Phases: configapi.ProposalPhases{
			Apply: &configapi.ProposalApplyPhase{State: configapi.ProposalApplyPhase_APPLYING}}},
	}
	if err := propStore.Create(ctx, p); err != nil {
		return "store-error " + err.Error()
	}
	conn := &fakeConn{id: sb.ConnID(rel), target: topoapi.ID(target), devErr: devErr}
	rec := proposalctl.NewReconcilerForVerif(fakeTopo{}, fakeConns{conn}, propStore, cfgStore, fakeRegistry{})
	_, rerr := rec.Reconcile(controller.NewID(p.ID))
	after, err := propStore.Get(ctx, p.ID)
	if err != nil {
		return "store-error " + err.Error()
	}
	if conn.sets != 1 {
		return fmt.Sprintf("no-southbound-set(%d)", conn.sets)
	}
	switch after.Status.Phases.Apply.State {
	case configapi.ProposalApplyPhase_APPLIED:
		return "applied"
	case configapi.ProposalApplyPhase_FAILED:
		ft := "none"
		if f := after.Status.Phases.Apply.Failure; f != nil {
			ft = f.Type.String()
		}
		return "fail " + ft
	}
	if rerr != nil {
		return "retry"
	}
	return "wait"
}

func reported(which string, failure *configapi.Failure) string {
	ctx := context.Background()
	ts := &failedTx{failure: failure}
	var err error
	switch which {
	case "set":
		srv := gnmisrv.NewServerForVerif(fakeTopo{}, ts, nil, nil, fakeRegistry{}, nil, 0)
		_, err = srv.Set(ctx, &gnmi.SetRequest{Update: []*gnmi.Update{{
			Path: &gnmi.Path{Target: "t1", Elem: []*gnmi.PathElem{{Name: "foo"}}},
			Val:  &gnmi.TypedValue{Value: &gnmi.TypedValue_StringVal{StringVal: "v"}}}}})
	case "admin":
		srv := adminsrv.NewServerForVerif(ts, nil, fakeRegistry{})
		_, err = srv.RollbackTransaction(ctx, &adminapi.RollbackRequest{Index: 1})
	default:
		return "bad-op"
	}
	return status.Code(err).String()
}

func exec(ln string) (out string) {
	defer func() {
		if r := recover(); r != nil {
			out = "panic"
		}
	}()
	toks := strings.Fields(ln)
	if len(toks) < 2 {
		return "bad-op"
	}
	switch toks[0] {
	case "errtable.fromgrpc", "errtable.libstatus", "errtable.grpccode":
		e, ok := decErr(toks[1])
		if !ok || len(toks) != 2 {
			return "bad-op"
		}
		switch toks[0] {
		case "errtable.fromgrpc":
			return encErr(liberrors.FromGRPC(e))
		case "errtable.libstatus":
			return liberrors.Status(e).Code().String()
		default:
			return status.Code(e).String()
		}
	case "errtable.apply":
		if len(toks) != 3 || toks[1] != "v2" {
			return "bad-op"
		}
		if toks[2] == "ok" {
			return applyV2(nil)
		}
		e, ok := decErr(toks[2])
		if !ok || strings.HasPrefix(toks[2], "t:") || toks[2] == "nil" {
			return "bad-op"
		}
		return applyV2(e)
	case "errtable.reported":
		if len(toks) != 3 {
			return "bad-op"
		}
		if toks[2] == "nil" {
			return reported(toks[1], nil)
		}
		if !strings.HasPrefix(toks[2], "f:") {
			return "bad-op"
		}
		n, err := strconv.Atoi(toks[2][2:])
		if err != nil {
			return "bad-op"
		}
		return reported(toks[1], &configapi.Failure{Type: configapi.Failure_Type(n), Description: "device says no"})
	}
	return "bad-op"
}

// ---------------------------------------------------------------- the property's own reading

// "merely unreachable or slow (unavailable, cancelled, deadline exceeded) or mastership was just superseded"
var pending = map[int]bool{int(codes.Unavailable): true, int(codes.Canceled): true, int(codes.DeadlineExceeded): true, int(codes.PermissionDenied): true}

// the device's error class, for the codes that have a failure type of their own
var classOf = map[int]string{
	int(codes.Unknown): "UNKNOWN", int(codes.NotFound): "NOT_FOUND", int(codes.AlreadyExists): "ALREADY_EXISTS",
	int(codes.Unauthenticated): "UNAUTHORIZED", int(codes.FailedPrecondition): "CONFLICT", int(codes.InvalidArgument): "INVALID",
	int(codes.Unimplemented): "NOT_SUPPORTED", int(codes.Internal): "INTERNAL",
}

// the status that names a failure class
var codeOfClass = []codes.Code{codes.Unknown, codes.Canceled, codes.NotFound, codes.AlreadyExists, codes.Unauthenticated,
	codes.PermissionDenied, codes.FailedPrecondition, codes.InvalidArgument, codes.Unavailable, codes.Unimplemented,
	codes.DeadlineExceeded, codes.Internal}

func monitor(c fw.Case, out []string) []string {
	var fails []string
	for i, ln := range c.Script {
		if i >= len(out) {
			break
		}
		toks := strings.Fields(ln)
		o := out[i]
		switch toks[0] {
		case "errtable.apply":
			if len(toks) != 3 {
				continue
			}
			if toks[2] == "ok" || toks[2] == "s:0" {
				if o != "applied" {
					fails = append(fails, fmt.Sprintf("line=%d accepted-not-applied: the device accepted the change, the proposal is %q", i, o))
				}
				continue
			}
			if !strings.HasPrefix(toks[2], "s:") {
				continue
			}
			n, _ := strconv.Atoi(toks[2][2:])
			name := codes.Code(n).String()
			switch {
			case pending[n]:
				if o != "retry" && o != "wait" {
					fails = append(fails, fmt.Sprintf("line=%d transient-failed: the device answered %s (unreachable / slow / superseded), the change must stay pending but the proposal is %q", i, name, o))
				}
			default:
				if !strings.HasPrefix(o, "fail ") {
					fails = append(fails, fmt.Sprintf("line=%d refusal-not-failed: the device refused with %s, the proposal is %q", i, name, o))
				} else if cls, ok := classOf[n]; ok && o != "fail "+cls {
					fails = append(fails, fmt.Sprintf("line=%d wrong-class: the device refused with %s, recorded %q instead of class %s", i, name, o, cls))
				}
			}
		case "errtable.reported":
			if len(toks) != 3 {
				continue
			}
			if o == codes.OK.String() {
				fails = append(fails, fmt.Sprintf("line=%d failed-reported-ok: a FAILED transaction was answered OK", i))
				continue
			}
			if strings.HasPrefix(toks[2], "f:") {
				n, _ := strconv.Atoi(toks[2][2:])
				if n >= 0 && n < len(codeOfClass) && o != codeOfClass[n].String() {
					fails = append(fails, fmt.Sprintf("line=%d wrong-status: failure class %s reported as %s, not %s", i, configapi.Failure_Type(n), o, codeOfClass[n]))
				}
			}
		}
	}
	return fails
}

// ---------------------------------------------------------------- cases

func errToks() []string {
	out := []string{"nil", "plain"}
	for n := 0; n <= 16; n++ {
		out = append(out, fmt.Sprintf("s:%d", n))
	}
	for _, t := range typeNames {
		out = append(out, "t:"+t)
	}
	return out
}

func nontrivial(ln string) bool {
	return !strings.HasSuffix(ln, " nil") && !strings.HasSuffix(ln, " s:0") && !strings.HasSuffix(ln, " ok")
}

// enumerate: the tables are finite — every line there is.
func enumerate(tier string) []fw.Case {
	var out []fw.Case
	add := func(tag string, lines ...string) {
		c := fw.Case{Script: lines, Tags: []string{tag}}
		for _, l := range lines {
			if nontrivial(l) {
				c.Nontrivial = true
			}
		}
		out = append(out, c)
	}
	for _, e := range errToks() {
		add("dependency-tables", "errtable.fromgrpc "+e, "errtable.libstatus "+e, "errtable.grpccode "+e)
	}
	for n := 0; n <= 16; n++ {
		add("apply-v2", fmt.Sprintf("errtable.apply v2 s:%d", n))
	}
	add("apply-v2", "errtable.apply v2 ok")
	add("apply-v2", "errtable.apply v2 plain")
	for _, which := range []string{"set", "admin"} {
		add("reported", "errtable.reported "+which+" nil")
		for _, n := range []int{0, 1, 2, 3, 4, 5, 6, 7, 8, 9, 10, 11, 12, 99} {
			add("reported", fmt.Sprintf("errtable.reported %s f:%d", which, n))
		}
	}
	return out
}

// gen: random lines of the same finite space, in random company (the reconciler runs share stores).
func gen(r *rng.R, tier string) fw.Case {
	var lines []string
	es := errToks()
	for i := r.Range(1, 4); i > 0; i-- {
		switch r.Intn(4) {
		case 0:
			lines = append(lines, r.Pick([]string{"errtable.fromgrpc ", "errtable.libstatus ", "errtable.grpccode "})+r.Pick(es))
		case 1, 2:
			lines = append(lines, fmt.Sprintf("errtable.apply v2 s:%d", r.Intn(17)))
		default:
			lines = append(lines, fmt.Sprintf("errtable.reported %s f:%d", r.Pick([]string{"set", "admin"}), r.Intn(13)))
		}
	}
	c := fw.Case{Script: lines, Tags: []string{"random-company"}}
	for _, l := range lines {
		if nontrivial(l) {
			c.Nontrivial = true
		}
	}
	return c
}

// Prop is the C11 (tables) correspondence check.
var Prop = &fw.Prop{
	ID: "C11",
	Rule: "finite tables, enumerated completely: errors.FromGRPC / errors.Status / status.Code on nil, a plain error, the 17 gRPC status codes and the 12 typed-error kinds; " +
		"one real v2 proposal Reconcile (APPLYING, real stores) per device answer (OK, each of the 16 error codes converted as client.Set does, a plain error); " +
		"the status gnmi Set and admin RollbackTransaction report for a FAILED transaction with every Failure.Type (0..11, out-of-range 12 and 99, no Failure); " +
		"plus random mixes of the same lines. Non-trivial = an error / failure other than nil, OK.",
	Quick: 150, Thorough: 3000,
	Gen: gen, Enumerate: enumerate,
	NewReal: func() fw.Real { return fw.RealFunc(exec) },
	Monitor: monitor,
	Sigs:    map[string]func(fw.Case, []string, string) bool{},
}

func init() { fw.Register(Prop) }
