// Package c19 ties the Lean subscribe twin (OnosVerif/Subscribe) to
// pkg/northbound/gnmi/v2/subscribe.go — splitSubscribeRequest through SplitSubscribeRequestForVerif,
// the stream machine through Server.Subscribe on NewServerForVerif with a fake subscriber stream and
// fake per-target clients — and evaluates C19's statement on the real answers.
package c19

import (
	"context"
	"errors"
	"fmt"
	"io"
	"sort"
	"strconv"
	"strings"

	topoapi "github.com/onosproject/onos-api/go/onos/topo"
	gnmisrv "github.com/onosproject/onos-config/pkg/northbound/gnmi/v2"
	sb "github.com/onosproject/onos-config/pkg/southbound/gnmi"
	"github.com/onosproject/onos-config/verifharness/internal/fw"
	"github.com/onosproject/onos-config/verifharness/internal/quiet"
	"github.com/onosproject/onos-config/verifharness/internal/rng"
	liberrors "github.com/onosproject/onos-lib-go/pkg/errors"
	baseClient "github.com/openconfig/gnmi/client"
	"github.com/openconfig/gnmi/proto/gnmi"
	"github.com/openconfig/gnmi/proto/gnmi_ext"
	"google.golang.org/grpc/metadata"
	"google.golang.org/protobuf/proto"
)

func init() { quiet.On() }

// ---------------------------------------------------------------- message <-> tokens

type field struct{ name, val string }

func encFields(fs []field) string {
	if len(fs) == 0 {
		return "-"
	}
	p := make([]string, len(fs))
	for i, f := range fs {
		p[i] = f.name + "=" + fw.EncStr(f.val)
	}
	return strings.Join(p, ",")
}

func decFields(s string) ([]field, bool) {
	if s == "-" {
		return nil, true
	}
	var out []field
	for _, kv := range strings.Split(s, ",") {
		k, v, ok := strings.Cut(kv, "=")
		if !ok {
			return nil, false
		}
		val, ok := fw.DecStr(v)
		if !ok {
			return nil, false
		}
		out = append(out, field{k, val})
	}
	return out, true
}

func get(fs []field, name string) string {
	for _, f := range fs {
		if f.name == name {
			return f.val
		}
	}
	return ""
}

func splitNames(s string) []string {
	if s == "" {
		return nil
	}
	return strings.Split(s, "/")
}

// pathFields: the exported fields of a gnmi.Path in declaration order, zero values absent.
func pathFields(p *gnmi.Path) []field {
	var fs []field
	//nolint:staticcheck
	if len(p.Element) > 0 {
		fs = append(fs, field{"Element", strings.Join(p.Element, "/")})
	}
	if p.Origin != "" {
		fs = append(fs, field{"Origin", p.Origin})
	}
	if len(p.Elem) > 0 {
		n := make([]string, len(p.Elem))
		for i, e := range p.Elem {
			n[i] = e.Name
			if len(e.Key) > 0 {
				n[i] += "[keys]"
			}
		}
		fs = append(fs, field{"Elem", strings.Join(n, "/")})
	}
	if p.Target != "" {
		fs = append(fs, field{"Target", p.Target})
	}
	return fs
}

func mkPath(fs []field) *gnmi.Path {
	p := &gnmi.Path{Origin: get(fs, "Origin"), Target: get(fs, "Target")}
	//nolint:staticcheck
	p.Element = splitNames(get(fs, "Element"))
	for _, n := range splitNames(get(fs, "Elem")) {
		p.Elem = append(p.Elem, &gnmi.PathElem{Name: n})
	}
	return p
}

func optFields(l *gnmi.SubscriptionList) []field {
	var fs []field
	if l.Qos != nil {
		fs = append(fs, field{"Qos", strconv.Itoa(int(l.Qos.Marking))})
	}
	if l.Mode != 0 {
		fs = append(fs, field{"Mode", strconv.Itoa(int(l.Mode))})
	}
	if l.AllowAggregation {
		fs = append(fs, field{"AllowAggregation", "1"})
	}
	if len(l.UseModels) > 0 {
		n := make([]string, len(l.UseModels))
		for i, m := range l.UseModels {
			n[i] = m.Name
		}
		fs = append(fs, field{"UseModels", strings.Join(n, "/")})
	}
	if l.Encoding != 0 {
		fs = append(fs, field{"Encoding", strconv.Itoa(int(l.Encoding))})
	}
	if l.UpdatesOnly {
		fs = append(fs, field{"UpdatesOnly", "1"})
	}
	return fs
}

func atoi(s string) int { n, _ := strconv.Atoi(s); return n }

func setOpts(l *gnmi.SubscriptionList, fs []field) {
	if v := get(fs, "Qos"); v != "" {
		l.Qos = &gnmi.QOSMarking{Marking: uint32(atoi(v))}
	}
	l.Mode = gnmi.SubscriptionList_Mode(atoi(get(fs, "Mode")))
	l.AllowAggregation = get(fs, "AllowAggregation") != ""
	for _, n := range splitNames(get(fs, "UseModels")) {
		l.UseModels = append(l.UseModels, &gnmi.ModelData{Name: n})
	}
	l.Encoding = gnmi.Encoding(atoi(get(fs, "Encoding")))
	l.UpdatesOnly = get(fs, "UpdatesOnly") != ""
}

func topFields(r *gnmi.SubscribeRequest) []field {
	if len(r.Extension) == 0 {
		return nil
	}
	n := make([]string, len(r.Extension))
	for i, e := range r.Extension {
		n[i] = strconv.Itoa(int(e.GetRegisteredExt().GetId()))
	}
	return []field{{"Extension", strings.Join(n, "/")}}
}

func subRest(s *gnmi.Subscription) string {
	return fmt.Sprintf("%d.%d.%v.%d", s.Mode, s.SampleInterval, s.SuppressRedundant, s.HeartbeatInterval)
}

func mkSub(pathTok string, rest string) (*gnmi.Subscription, bool) {
	s := &gnmi.Subscription{}
	parts := strings.Split(rest, ".")
	if len(parts) == 4 {
		s.Mode = gnmi.SubscriptionMode(atoi(parts[0]))
		s.SampleInterval = uint64(atoi(parts[1]))
		s.SuppressRedundant = parts[2] == "true"
		s.HeartbeatInterval = uint64(atoi(parts[3]))
	}
	if pathTok != "nil" {
		fs, ok := decFields(pathTok)
		if !ok {
			return nil, false
		}
		s.Path = mkPath(fs)
	}
	return s, true
}

// encReq renders a message structurally, from the values it actually holds.
func encReq(r *gnmi.SubscribeRequest) string {
	top := "top:" + encFields(topFields(r))
	switch b := r.Request.(type) {
	case *gnmi.SubscribeRequest_Poll:
		return "P " + top
	case *gnmi.SubscribeRequest_Subscribe:
		if b.Subscribe == nil {
			return "SN " + top
		}
		l := b.Subscribe
		toks := []string{"S", top}
		if l.Prefix == nil {
			toks = append(toks, "pfx:nil")
		} else {
			toks = append(toks, "pfx:"+encFields(pathFields(l.Prefix)))
		}
		toks = append(toks, "o:"+encFields(optFields(l)))
		for _, s := range l.Subscription {
			p := "nil"
			if s.GetPath() != nil {
				p = encFields(pathFields(s.Path))
			}
			toks = append(toks, "e:"+p+":"+fw.EncStr(subRest(s)))
		}
		return strings.Join(toks, " ")
	}
	return "N " + top
}

func decReq(toks []string) (*gnmi.SubscribeRequest, bool) {
	if len(toks) < 2 || !strings.HasPrefix(toks[1], "top:") {
		return nil, false
	}
	top, ok := decFields(toks[1][4:])
	if !ok {
		return nil, false
	}
	r := &gnmi.SubscribeRequest{}
	for _, n := range splitNames(get(top, "Extension")) {
		r.Extension = append(r.Extension, &gnmi_ext.Extension{Ext: &gnmi_ext.Extension_RegisteredExt{
			RegisteredExt: &gnmi_ext.RegisteredExtension{Id: gnmi_ext.ExtensionID(atoi(n))}}})
	}
	switch toks[0] {
	case "P":
		r.Request = &gnmi.SubscribeRequest_Poll{Poll: &gnmi.Poll{}}
		return r, len(toks) == 2
	case "N":
		return r, len(toks) == 2
	case "SN":
		r.Request = &gnmi.SubscribeRequest_Subscribe{}
		return r, len(toks) == 2
	case "S":
		if len(toks) < 4 || !strings.HasPrefix(toks[2], "pfx:") || !strings.HasPrefix(toks[3], "o:") {
			return nil, false
		}
		l := &gnmi.SubscriptionList{}
		if p := toks[2][4:]; p != "nil" {
			fs, ok := decFields(p)
			if !ok {
				return nil, false
			}
			l.Prefix = mkPath(fs)
		}
		ofs, ok := decFields(toks[3][2:])
		if !ok {
			return nil, false
		}
		setOpts(l, ofs)
		for _, t := range toks[4:] {
			if !strings.HasPrefix(t, "e:") {
				return nil, false
			}
			p, rest, ok := strings.Cut(t[2:], ":")
			if !ok {
				return nil, false
			}
			rs, ok := fw.DecStr(rest)
			if !ok {
				return nil, false
			}
			s, ok := mkSub(p, rs)
			if !ok {
				return nil, false
			}
			l.Subscription = append(l.Subscription, s)
		}
		r.Request = &gnmi.SubscribeRequest_Subscribe{Subscribe: l}
		return r, true
	}
	return nil, false
}

// ---------------------------------------------------------------- fakes

// devMsg: kind 'r' = an update response carrying id, 'y' = a sync_response, 'o' = not a SubscribeResponse.
type devMsg struct {
	kind byte
	id   string
}

const syncID = "sync"

func (m devMsg) relayID() string {
	if m.kind == 'y' {
		return syncID
	}
	return m.id
}

// parseRounds reads <round>/<round>/… ; "" = no rounds.
func parseRounds(s string) ([][]devMsg, bool) {
	if s == "" {
		return nil, true
	}
	var out [][]devMsg
	for _, rs := range strings.Split(s, "/") {
		round := []devMsg{}
		if rs != "" {
			for _, m := range strings.Split(rs, ",") {
				switch {
				case m == "y":
					round = append(round, devMsg{kind: 'y'})
				case len(m) >= 2 && (m[0] == 'r' || m[0] == 'o'):
					id, ok := fw.DecStr(m[1:])
					if !ok {
						return nil, false
					}
					round = append(round, devMsg{kind: m[0], id: id})
				default:
					return nil, false
				}
			}
		}
		out = append(out, round)
	}
	return out, true
}

type recorder struct {
	dev      map[string][][]devMsg
	handlers map[string]func(proto.Message) error // the ProtoHandler each target's client was given
	round    map[string]int                       // the round each target is in
	ended    map[string]bool                      // the target client's receive loop has ended (a handler error)
	active   string
	subs     map[string][]string // target -> rendered requests received
	relays   map[string][]string // target -> ids sent on the subscriber's stream
	polls    map[string]int
	sent     map[*gnmi.SubscribeResponse]*gnmi.SubscribeResponse // message -> pristine copy
}

func (r *recorder) reset() {
	r.subs, r.relays, r.polls = map[string][]string{}, map[string][]string{}, map[string]int{}
}

type fakeClient struct {
	rec    *recorder
	target string
}

func (c *fakeClient) Close() error { return nil }
func (c *fakeClient) Capabilities(ctx context.Context, r *gnmi.CapabilityRequest) (*gnmi.CapabilityResponse, error) {
	return nil, nil
}
func (c *fakeClient) CapabilitiesWithString(ctx context.Context, request string) (*gnmi.CapabilityResponse, error) {
	return nil, nil
}
func (c *fakeClient) Get(ctx context.Context, r *gnmi.GetRequest) (*gnmi.GetResponse, error) {
	return nil, nil
}
func (c *fakeClient) GetWithString(ctx context.Context, request string) (*gnmi.GetResponse, error) {
	return nil, nil
}
func (c *fakeClient) Set(ctx context.Context, r *gnmi.SetRequest) (*gnmi.SetResponse, error) {
	return nil, nil
}
func (c *fakeClient) SetWithString(ctx context.Context, request string) (*gnmi.SetResponse, error) {
	return nil, nil
}

// play sends one round of the target's scripted messages into the handler the server installed,
// stopping for good at the first handler error like the client library's receive loop does.
func (c *fakeClient) play() {
	r := c.rec
	h := r.handlers[c.target]
	if h == nil || r.ended[c.target] {
		return
	}
	k := r.round[c.target]
	if k >= len(r.dev[c.target]) {
		return
	}
	r.active = c.target
	for _, m := range r.dev[c.target][k] {
		var msg proto.Message
		switch m.kind {
		case 'r':
			resp := &gnmi.SubscribeResponse{Response: &gnmi.SubscribeResponse_Update{Update: &gnmi.Notification{
				Timestamp: 7, Prefix: &gnmi.Path{Origin: m.id, Target: c.target}}}}
			r.sent[resp] = proto.Clone(resp).(*gnmi.SubscribeResponse)
			msg = resp
		case 'y':
			resp := &gnmi.SubscribeResponse{Response: &gnmi.SubscribeResponse_SyncResponse{SyncResponse: true}}
			r.sent[resp] = proto.Clone(resp).(*gnmi.SubscribeResponse)
			msg = resp
		default:
			msg = &gnmi.Path{Origin: m.id}
		}
		if err := h(msg); err != nil {
			r.ended[c.target] = true
			break
		}
	}
	r.active = ""
}

// Subscribe records the query, keeps its handler and plays round 0.
func (c *fakeClient) Subscribe(ctx context.Context, q baseClient.Query) error {
	r := c.rec
	desc := encReq(q.SubReq)
	if q.Target != q.SubReq.GetSubscribe().GetPrefix().GetTarget() {
		desc += " query-target=" + fw.EncStr(q.Target)
	}
	if q.NotificationHandler != nil || q.ProtoHandler == nil {
		desc += " bad-handlers"
	}
	r.subs[c.target] = append(r.subs[c.target], desc)
	r.handlers[c.target] = q.ProtoHandler
	r.round[c.target] = 0
	c.play()
	return nil
}

// Poll counts the poll and plays the target's next round.
func (c *fakeClient) Poll() error {
	c.rec.polls[c.target]++
	c.rec.round[c.target]++
	c.play()
	return nil
}

type fakeConns struct{ rec *recorder }

func (m *fakeConns) Get(ctx context.Context, connID sb.ConnID) (sb.Conn, bool) { return nil, false }
func (m *fakeConns) GetByTarget(ctx context.Context, targetID topoapi.ID) (sb.Client, error) {
	if _, ok := m.rec.dev[string(targetID)]; ok {
		return &fakeClient{rec: m.rec, target: string(targetID)}, nil
	}
	return nil, liberrors.NewNotFound("gnmi client for target %s not found", targetID)
}
func (m *fakeConns) Connect(ctx context.Context, target *topoapi.Object) error { return nil }
func (m *fakeConns) Disconnect(ctx context.Context, targetID topoapi.ID) error { return nil }
func (m *fakeConns) Watch(ctx context.Context, ch chan<- sb.Conn) error        { return nil }

type event struct {
	req *gnmi.SubscribeRequest
	err error
}

// fakeStream is the subscriber's side: Recv announces that the server is waiting, then blocks.
type fakeStream struct {
	rec   *recorder
	ready chan struct{}
	in    chan event
}

func (s *fakeStream) Send(resp *gnmi.SubscribeResponse) error {
	id := "unknown-message"
	if pristine, ok := s.rec.sent[resp]; ok {
		switch {
		case !proto.Equal(pristine, resp):
			id = "modified"
		case resp.GetSyncResponse():
			id = syncID
		default:
			id = resp.GetUpdate().GetPrefix().GetOrigin()
		}
	}
	s.rec.relays[s.rec.active] = append(s.rec.relays[s.rec.active], id)
	return nil
}
func (s *fakeStream) Recv() (*gnmi.SubscribeRequest, error) {
	s.ready <- struct{}{}
	ev := <-s.in
	return ev.req, ev.err
}
func (s *fakeStream) SetHeader(metadata.MD) error  { return nil }
func (s *fakeStream) SendHeader(metadata.MD) error { return nil }
func (s *fakeStream) SetTrailer(metadata.MD)       {}
func (s *fakeStream) Context() context.Context     { return context.Background() }
func (s *fakeStream) SendMsg(m interface{}) error  { return nil }
func (s *fakeStream) RecvMsg(m interface{}) error  { return nil }

// real is one case's executor: at most one stream at a time.
type real struct {
	sid    string
	rec    *recorder
	stream *fakeStream
	done   chan error
	closed bool
	open   bool
}

func (r *real) Close() {
	if r.open && !r.closed {
		// let the server loop end
		r.stream.in <- event{nil, errors.New("harness: case over")}
		<-r.done
		r.closed = true
	}
}

func errClass(err error) string {
	m := err.Error()
	switch {
	case strings.Contains(m, "duplicate subscription"):
		return "duplicate"
	case strings.Contains(m, "not received yet"):
		return "notYet"
	case strings.Contains(m, "must specify a target"):
		return "noTarget"
	case strings.Contains(m, "unknown subscription message type"):
		return "unknownType"
	}
	return "other:" + m
}

func (r *real) outs() string {
	set := map[string]bool{}
	for t := range r.rec.subs {
		set[t] = true
	}
	for t := range r.rec.relays {
		set[t] = true
	}
	for t := range r.rec.polls {
		set[t] = true
	}
	var ts []string
	for t := range set {
		ts = append(ts, t)
	}
	sort.Strings(ts)
	var b strings.Builder
	for _, t := range ts {
		b.WriteString(" | T:" + fw.EncStr(t))
		for _, s := range r.rec.subs[t] {
			b.WriteString(" sub " + s)
		}
		if ids := r.rec.relays[t]; len(ids) > 0 {
			e := make([]string, len(ids))
			for i, id := range ids {
				e[i] = fw.EncStr(id)
			}
			b.WriteString(" relay:" + strings.Join(e, ","))
		}
		for i := 0; i < r.rec.polls[t]; i++ {
			b.WriteString(" poll")
		}
	}
	return b.String()
}

// feed delivers one event to the server loop and waits until it asks for the next or returns.
func (r *real) feed(ev event) (returned bool, err error) {
	r.rec.reset()
	r.stream.in <- ev
	select {
	case <-r.stream.ready:
		return false, nil
	case err := <-r.done:
		r.closed = true
		return true, err
	}
}

func (r *real) Exec(ln string) (out string) {
	defer func() {
		if p := recover(); p != nil {
			out = "panic"
		}
	}()
	toks := strings.Fields(ln)
	if len(toks) == 0 {
		return "bad-op"
	}
	switch toks[0] {
	case "subscribe.split":
		req, ok := decReq(toks[1:])
		if !ok {
			return "bad-op"
		}
		m, err := gnmisrv.SplitSubscribeRequestForVerif(req)
		if err != nil {
			if len(m) != 0 {
				return "err " + errClass(err) + " with-requests"
			}
			return "err " + errClass(err)
		}
		var ts []string
		for t := range m {
			ts = append(ts, t)
		}
		sort.Strings(ts)
		parts := make([]string, len(ts))
		for i, t := range ts {
			parts[i] = "T:" + fw.EncStr(t) + " " + encReq(m[t])
		}
		return "ok " + strings.Join(parts, " | ")
	case "subscribe.init":
		if len(toks) < 2 {
			return "bad-op"
		}
		r.Close()
		r.sid = toks[1]
		rec := &recorder{dev: map[string][][]devMsg{}, sent: map[*gnmi.SubscribeResponse]*gnmi.SubscribeResponse{},
			handlers: map[string]func(proto.Message) error{}, round: map[string]int{}, ended: map[string]bool{}}
		rec.reset()
		for _, t := range toks[2:] {
			if !strings.HasPrefix(t, "dev:") {
				return "bad-op"
			}
			th, ms, ok := strings.Cut(t[4:], "=")
			if !ok {
				return "bad-op"
			}
			target, ok := fw.DecStr(th)
			if !ok {
				return "bad-op"
			}
			msgs, ok := parseRounds(ms)
			if !ok {
				return "bad-op"
			}
			rec.dev[target] = msgs
		}
		r.rec = rec
		r.stream = &fakeStream{rec: rec, ready: make(chan struct{}), in: make(chan event)}
		r.done = make(chan error, 1)
		r.closed, r.open = false, true
		srv := gnmisrv.NewServerForVerif(nil, nil, nil, nil, nil, &fakeConns{rec}, 0)
		go func() {
			defer func() {
				if p := recover(); p != nil {
					r.done <- fmt.Errorf("panic: %v", p)
				}
			}()
			r.done <- srv.Subscribe(r.stream)
		}()
		<-r.stream.ready
		return "ok"
	case "subscribe.msg", "subscribe.eof", "subscribe.recverr":
		if len(toks) < 2 {
			return "bad-op"
		}
		if !r.open || toks[1] != r.sid {
			return "no-stream"
		}
		toks = append([]string{toks[0]}, toks[2:]...)
		if r.closed {
			return "closed"
		}
		var ev event
		switch toks[0] {
		case "subscribe.msg":
			req, ok := decReq(toks[1:])
			if !ok {
				return "bad-op"
			}
			ev = event{req: req}
		case "subscribe.eof":
			ev = event{err: io.EOF}
		default:
			ev = event{err: errors.New("transport is closing")}
		}
		returned, err := r.feed(ev)
		switch {
		case !returned:
			return "ok" + r.outs()
		case toks[0] != "subscribe.msg":
			if err == nil {
				return "ret nil"
			}
			if err == io.EOF {
				return "ret eofErr"
			}
			return "ret other:" + err.Error()
		case err == nil:
			return "ret nil" + r.outs()
		case strings.HasPrefix(err.Error(), "panic:"):
			return "panic"
		default:
			return "err " + errClass(err) + r.outs()
		}
	}
	return "bad-op"
}

// ---------------------------------------------------------------- the property's own reading

type entry struct {
	tok    string // the whole e:… token
	target string
}

type parsedReq struct {
	kind      string
	top, opts string
	pfxNil    bool
	pfx       []field
	entries   []entry
	ok        bool
}

func parseReqToks(toks []string) parsedReq {
	p := parsedReq{}
	if len(toks) < 2 {
		return p
	}
	p.kind, p.top = toks[0], toks[1]
	if p.kind != "S" {
		p.ok = true
		return p
	}
	if len(toks) < 4 {
		return p
	}
	if toks[2] == "pfx:nil" {
		p.pfxNil = true
	} else {
		p.pfx, _ = decFields(toks[2][4:])
	}
	p.opts = toks[3]
	for _, t := range toks[4:] {
		pt, _, _ := strings.Cut(t[2:], ":")
		e := entry{tok: t}
		if pt != "nil" {
			fs, _ := decFields(pt)
			e.target = get(fs, "Target")
		}
		p.entries = append(p.entries, e)
	}
	p.ok = true
	return p
}

// groups of an answer: target -> tokens after "T:<t>"
func parseGroups(s string) map[string][]string {
	out := map[string][]string{}
	for _, g := range strings.Split(s, " | ") {
		toks := strings.Fields(g)
		if len(toks) == 0 || !strings.HasPrefix(toks[0], "T:") {
			continue
		}
		t, _ := fw.DecStr(toks[0][2:])
		out[t] = toks[1:]
	}
	return out
}

// checkForwarded compares the requests the targets received with what the property promises for
// the original request; `connected` = nil means "every target counts" (pure split).
func checkForwarded(i int, orig parsedReq, got map[string][]string, connected map[string]bool) []string {
	var fails []string
	pt := get(orig.pfx, "Target")
	want := map[string][]string{} // target -> entry tokens, in order
	var order []string
	if pt != "" {
		for _, e := range orig.entries {
			want[pt] = append(want[pt], e.tok)
		}
		if len(orig.entries) == 0 {
			want[pt] = nil
		}
		order = []string{pt}
	} else {
		for _, e := range orig.entries {
			if e.target == "" {
				fails = append(fails, fmt.Sprintf("line=%d entry-dropped: the request is accepted but its entry %s names no target and is forwarded nowhere", i, e.tok))
				continue
			}
			if _, ok := want[e.target]; !ok {
				order = append(order, e.target)
			}
			want[e.target] = append(want[e.target], e.tok)
		}
	}
	for _, t := range order {
		req, ok := got[t]
		if !ok {
			if connected == nil || connected[t] {
				fails = append(fails, fmt.Sprintf("line=%d target-missing: nothing was forwarded to target %q", i, t))
			} else {
				fails = append(fails, fmt.Sprintf("line=%d target-not-reached: the request is accepted but target %q has no connection and nobody is told", i, t))
			}
			continue
		}
		if len(req) > 0 && req[0] == "sub" {
			req = req[1:]
		}
		// cut at the first non-request token (relay:/poll/second sub)
		end := len(req)
		for j, tk := range req {
			if strings.HasPrefix(tk, "relay:") || tk == "poll" || tk == "sub" || strings.HasPrefix(tk, "query-target=") || tk == "bad-handlers" {
				end = j
				break
			}
		}
		extra := req[end:]
		req = req[:end]
		for _, tk := range extra {
			if tk == "sub" || strings.HasPrefix(tk, "query-target=") || tk == "bad-handlers" {
				fails = append(fails, fmt.Sprintf("line=%d forwarded-wrong: target %q got %v", i, t, extra))
			}
		}
		fr := parseReqToks(req)
		if !fr.ok || fr.kind != "S" {
			fails = append(fails, fmt.Sprintf("line=%d forwarded-wrong: target %q got a request that is not a subscription: %v", i, t, req))
			continue
		}
		var gotE []string
		for _, e := range fr.entries {
			gotE = append(gotE, e.tok)
		}
		if strings.Join(gotE, " ") != strings.Join(want[t], " ") {
			fails = append(fails, fmt.Sprintf("line=%d entries-changed: target %q got entries %v, the original names it in %v", i, t, gotE, want[t]))
		}
		if fr.opts != orig.opts {
			fails = append(fails, fmt.Sprintf("line=%d options-changed: target %q got list options %s, the original has %s", i, t, fr.opts, orig.opts))
		}
		if fr.top != orig.top {
			fails = append(fails, fmt.Sprintf("line=%d extensions-changed: target %q got %s, the original has %s", i, t, fr.top, orig.top))
		}
		// the prefix: that of the original, naming this target
		var wantP []field
		for _, f := range orig.pfx {
			if f.name != "Target" {
				wantP = append(wantP, f)
			}
		}
		wantP = append(wantP, field{"Target", t})
		if fr.pfxNil || encFields(fr.pfx) != encFields(wantP) {
			fails = append(fails, fmt.Sprintf("line=%d prefix-changed: target %q got prefix %s, expected the original prefix with this target %s", i, t, encFields(fr.pfx), encFields(wantP)))
		}
	}
	for t, toks := range got {
		if _, ok := want[t]; !ok {
			for _, tk := range toks {
				if tk == "sub" || tk == "S" {
					fails = append(fails, fmt.Sprintf("line=%d unnamed-target: target %q received a subscription although nothing names it", i, t))
					break
				}
			}
		}
	}
	return fails
}

func namesTarget(p parsedReq) bool {
	if get(p.pfx, "Target") != "" {
		return true
	}
	for _, e := range p.entries {
		if e.target != "" {
			return true
		}
	}
	return false
}

func monitor(c fw.Case, out []string) []string {
	var fails []string
	// stream state as the property sees it
	var dev map[string][][]devMsg
	round := 0                 // the poll round the stream is in
	ended := map[string]bool{} // targets that sent something that is not a SubscribeResponse: their relay is over
	// what a target sent in a round, as the subscriber must receive it (up to a foreign message)
	sentIn := func(t string, k int) (ids []string) {
		if ended[t] || k >= len(dev[t]) {
			return nil
		}
		for _, m := range dev[t][k] {
			if m.kind == 'o' {
				ended[t] = true
				break
			}
			ids = append(ids, fw.EncStr(m.relayID()))
		}
		return ids
	}
	received := func(toks []string) string {
		for _, tk := range toks {
			if strings.HasPrefix(tk, "relay:") {
				return tk[6:]
			}
		}
		return ""
	}
	subscribed := false
	over := false
	var streamTargets []string
	sid := ""
	for i, ln := range c.Script {
		if i >= len(out) {
			break
		}
		toks := strings.Fields(ln)
		o := out[i]
		if toks[0] == "subscribe.msg" || toks[0] == "subscribe.eof" || toks[0] == "subscribe.recverr" {
			if len(toks) < 2 || sid == "" || toks[1] != sid {
				continue // not on the open stream (a shrunk script): nothing is claimed
			}
			toks = append([]string{toks[0]}, toks[2:]...)
		}
		switch toks[0] {
		case "subscribe.split":
			p := parseReqToks(toks[1:])
			if !p.ok || p.kind != "S" {
				continue // the handler never splits anything but a subscription
			}
			switch {
			case o == "panic":
				fails = append(fails, fmt.Sprintf("line=%d split-panic", i))
			case strings.HasPrefix(o, "ok"):
				if !namesTarget(p) {
					fails = append(fails, fmt.Sprintf("line=%d not-refused: a request naming no target was accepted: %s", i, o))
					continue
				}
				fails = append(fails, checkForwarded(i, p, parseGroups(strings.TrimPrefix(o, "ok ")), nil)...)
			case strings.HasPrefix(o, "err"):
				if namesTarget(p) {
					fails = append(fails, fmt.Sprintf("line=%d wrongly-refused: the request names a target but was refused: %s", i, o))
				}
			}
		case "subscribe.init":
			if len(toks) < 2 {
				continue
			}
			sid = toks[1]
			dev = map[string][][]devMsg{}
			for _, t := range toks[2:] {
				th, ms, _ := strings.Cut(t[4:], "=")
				target, _ := fw.DecStr(th)
				dev[target], _ = parseRounds(ms)
				if dev[target] == nil {
					dev[target] = [][]devMsg{}
				}
			}
			round, ended = 0, map[string]bool{}
			subscribed, over, streamTargets = false, false, nil
		case "subscribe.eof", "subscribe.recverr":
			if !over && strings.Contains(o, "|") {
				fails = append(fails, fmt.Sprintf("line=%d end-forwards: the end of the stream caused forwarding: %s", i, o))
			}
			over = true
		case "subscribe.msg":
			if over {
				if o != "closed" {
					fails = append(fails, fmt.Sprintf("line=%d after-end: a message after the stream ended was answered %s", i, o))
				}
				continue
			}
			p := parseReqToks(toks[1:])
			if !p.ok {
				continue
			}
			groups := parseGroups(o)
			refusedNoFwd := func(why string) {
				if !strings.HasPrefix(o, "err") {
					fails = append(fails, fmt.Sprintf("line=%d not-refused: %s was answered %q", i, why, o))
				}
				if len(groups) != 0 {
					fails = append(fails, fmt.Sprintf("line=%d refused-but-forwarded: %s yet something was sent to targets: %q", i, why, o))
				}
			}
			connected := map[string]bool{}
			for t := range dev {
				connected[t] = true
			}
			switch {
			case p.kind == "S" && subscribed:
				refusedNoFwd("a second subscription on the stream")
				over = true
			case p.kind == "P" && !subscribed:
				refusedNoFwd("a poll before any subscription")
				over = true
			case p.kind == "N" || p.kind == "SN":
				refusedNoFwd("a message that is neither subscription nor poll")
				over = true
			case p.kind == "S":
				if !namesTarget(p) {
					refusedNoFwd("a subscription naming no target")
					over = true
					continue
				}
				if !strings.HasPrefix(o, "ok") {
					fails = append(fails, fmt.Sprintf("line=%d wrongly-refused: the subscription names a target but was answered %q", i, o))
					over = true
					continue
				}
				subscribed = true
				fails = append(fails, checkForwarded(i, p, groups, connected)...)
				// relays: what each reached target sent back, as received
				pt := get(p.pfx, "Target")
				seen := map[string]bool{}
				if pt != "" {
					streamTargets = []string{pt}
				} else {
					for _, e := range p.entries {
						if e.target != "" && !seen[e.target] {
							seen[e.target] = true
							streamTargets = append(streamTargets, e.target)
						}
					}
				}
				for _, t := range streamTargets {
					if !connected[t] {
						continue
					}
					want := strings.Join(sentIn(t, 0), ",")
					if got := received(groups[t]); got != want {
						fails = append(fails, fmt.Sprintf("line=%d relay-changed: in answer to the subscription target %q sent [%s], the subscriber was sent [%s]", i, t, want, got))
					}
				}
			case p.kind == "P":
				if !strings.HasPrefix(o, "ok") {
					fails = append(fails, fmt.Sprintf("line=%d poll-refused: a poll on a subscribed stream was answered %q", i, o))
					over = true
					continue
				}
				round++
				for _, t := range streamTargets {
					if !connected[t] {
						continue
					}
					n := 0
					for _, tk := range groups[t] {
						if tk == "poll" {
							n++
						}
					}
					if n != 1 {
						fails = append(fails, fmt.Sprintf("line=%d poll-missed: subscribed target %q was polled %d times", i, t, n))
					}
					want := strings.Join(sentIn(t, round), ",")
					if got := received(groups[t]); got != want {
						fails = append(fails, fmt.Sprintf("line=%d relay-changed: in poll round %d target %q sent [%s], the subscriber was sent [%s]", i, round, t, want, got))
					}
				}
				for t, toks := range groups {
					named := false
					for _, st := range streamTargets {
						if st == t {
							named = true
						}
					}
					stray := !named
					for _, tk := range toks {
						if tk != "poll" && !strings.HasPrefix(tk, "relay:") {
							stray = true
						}
					}
					if stray {
						fails = append(fails, fmt.Sprintf("line=%d poll-stray: a poll caused %v on target %q", i, toks, t))
					}
				}
			}
		}
	}
	return fails
}

// lineOf returns the failing line's index and its tokens with the stream id removed.
func lineOf(c fw.Case, msg string) (int, []string) {
	var i int
	if _, err := fmt.Sscanf(msg, "line=%d", &i); err != nil || i < 0 || i >= len(c.Script) {
		return -1, nil
	}
	toks := strings.Fields(c.Script[i])
	if toks[0] == "subscribe.msg" && len(toks) > 1 {
		toks = append([]string{toks[0]}, toks[2:]...)
	}
	return i, toks
}

// sigUntargeted: entry-dropped on a request without prefix target that has both a targeted and an
// untargeted entry.
func sigUntargeted(c fw.Case, out []string, msg string) bool {
	if !strings.Contains(msg, "entry-dropped") {
		return false
	}
	i, toks := lineOf(c, msg)
	if i < 0 {
		return false
	}
	p := parseReqToks(toks[1:])
	if !p.ok || p.kind != "S" || get(p.pfx, "Target") != "" {
		return false
	}
	with, without := false, false
	for _, e := range p.entries {
		if e.target == "" {
			without = true
		} else {
			with = true
		}
	}
	return with && without
}

// sigUnconnected: target-not-reached for a target outside the stream's connected set.
func sigUnconnected(c fw.Case, out []string, msg string) bool {
	if !strings.Contains(msg, "target-not-reached") {
		return false
	}
	i, _ := lineOf(c, msg)
	if i < 0 {
		return false
	}
	// the connected set is on the closest preceding init line
	for j := i; j >= 0; j-- {
		toks := strings.Fields(c.Script[j])
		if toks[0] == "subscribe.init" {
			for _, t := range toks[2:] {
				th, _, _ := strings.Cut(t[4:], "=")
				target, _ := fw.DecStr(th)
				if strings.Contains(msg, fmt.Sprintf("target %q has no connection", target)) {
					return false
				}
			}
			return true
		}
	}
	return false
}

// sigElement: prefix-changed when the original prefix carries the deprecated `element` field.
func sigElement(c fw.Case, out []string, msg string) bool {
	if !strings.Contains(msg, "prefix-changed") {
		return false
	}
	i, toks := lineOf(c, msg)
	if i < 0 {
		return false
	}
	p := parseReqToks(toks[1:])
	return p.ok && p.kind == "S" && get(p.pfx, "Element") != "" && get(p.pfx, "Target") == ""
}

// ---------------------------------------------------------------- generators

var targets = []string{"t1", "t2", "t3", "t4"}

func pickInt(r *rng.R, xs ...int) int { return xs[r.Intn(len(xs))] }

func genPathTok(r *rng.R, target string, legacy bool) string {
	var fs []field
	if legacy && r.Chance(1, 2) {
		fs = append(fs, field{"Element", r.Pick([]string{"a", "a/b"})})
	}
	if r.Chance(1, 4) {
		fs = append(fs, field{"Origin", r.Pick([]string{"oc", "openconfig"})})
	}
	if r.Chance(3, 4) {
		fs = append(fs, field{"Elem", r.Pick([]string{"interfaces", "interfaces/interface", "a", "a/b/c", "system"})})
	}
	if target != "" {
		fs = append(fs, field{"Target", target})
	}
	return encFields(fs)
}

func genReq(r *rng.R, tags *[]string) string {
	switch k := r.Intn(20); {
	case k == 0:
		return "N top:-"
	case k == 1:
		return "SN top:-"
	case k < 6:
		return "P top:-"
	}
	top := "top:-"
	if r.Chance(1, 3) {
		top = "top:" + encFields([]field{{"Extension", r.Pick([]string{"100", "101/102", "7"})}})
	}
	nTargets := r.Range(0, 4)
	pool := append([]string{}, targets[:nTargets]...)
	pfx := "pfx:nil"
	switch k := r.Intn(10); {
	case k < 2:
	case k < 4 && nTargets > 0:
		pfx = "pfx:" + genPathTok(r, r.Pick(pool), false)
		*tags = append(*tags, "prefix-target")
	case k == 9:
		pfx = "pfx:" + genPathTok(r, "", true)
		*tags = append(*tags, "legacy-prefix")
	default:
		pfx = "pfx:" + genPathTok(r, "", false)
	}
	var ofs []field
	if r.Chance(1, 4) {
		ofs = append(ofs, field{"Qos", strconv.Itoa(r.Range(1, 9))})
	}
	if m := r.Intn(3); m > 0 {
		ofs = append(ofs, field{"Mode", strconv.Itoa(m)})
	}
	if r.Chance(1, 4) {
		ofs = append(ofs, field{"AllowAggregation", "1"})
	}
	if r.Chance(1, 4) {
		ofs = append(ofs, field{"UseModels", r.Pick([]string{"m1", "m1/m2"})})
	}
	if e := r.Intn(5); e > 0 && r.Chance(1, 2) {
		ofs = append(ofs, field{"Encoding", strconv.Itoa(e)})
	}
	if r.Chance(1, 3) {
		ofs = append(ofs, field{"UpdatesOnly", "1"})
	}
	toks := []string{"S", top, pfx, "o:" + encFields(ofs)}
	n := r.Range(0, 8)
	if r.Chance(1, 2) {
		n = r.Range(1, 4)
	}
	untargeted := 0
	switch r.Intn(8) {
	case 0:
		untargeted = 4 // a good share of entries without target
	case 1, 2:
		untargeted = 1
	}
	for i := 0; i < n; i++ {
		t := ""
		if len(pool) > 0 && !r.Chance(untargeted, 8) {
			t = r.Pick(pool)
		}
		p := genPathTok(r, t, false)
		if t == "" && r.Chance(1, 6) {
			p = "nil"
		}
		rest := fmt.Sprintf("%d.%d.%v.%d", r.Intn(3), pickInt(r, 0, 1000, 5000), r.Chance(1, 5), pickInt(r, 0, 0, 30))
		toks = append(toks, "e:"+p+":"+fw.EncStr(rest))
	}
	return strings.Join(toks, " ")
}

func genInit(r *rng.R, sid string) string {
	toks := []string{"subscribe.init", sid}
	all := r.Chance(2, 3) // most streams have every target connected
	for _, t := range targets {
		if all || r.Chance(1, 2) {
			// 1-4 rounds: updates closed by a sync_response (a well-behaved target), sometimes without,
			// sometimes several syncs, rarely a message that is not a SubscribeResponse
			var rounds []string
			for k := r.Range(0, 4); k > 0; k-- {
				var ms []string
				for i := r.Intn(3); i > 0; i-- {
					ms = append(ms, "r"+fw.EncStr(fmt.Sprintf("u%d", r.Intn(100))))
				}
				if r.Chance(4, 5) {
					ms = append(ms, "y")
				}
				if r.Chance(1, 10) {
					ms = append(ms, "y")
				}
				if r.Chance(1, 15) {
					ms = append(ms, "o"+fw.EncStr("x"))
					if r.Chance(1, 2) {
						ms = append(ms, "y")
					}
				}
				rounds = append(rounds, strings.Join(ms, ","))
			}
			ms := []string{strings.Join(rounds, "/")}
			toks = append(toks, "dev:"+fw.EncStr(t)+"="+strings.Join(ms, ","))
		}
	}
	return strings.Join(toks, " ")
}

func finish(c fw.Case) fw.Case {
	// non-trivial: at least two targets in one request, or a refused message
	for _, ln := range c.Script {
		toks := strings.Fields(ln)
		if toks[0] != "subscribe.split" && toks[0] != "subscribe.msg" {
			continue
		}
		if toks[0] == "subscribe.msg" {
			toks = toks[1:]
		}
		p := parseReqToks(toks[1:])
		if !p.ok {
			continue
		}
		seen := map[string]bool{}
		for _, e := range p.entries {
			if e.target != "" {
				seen[e.target] = true
			}
		}
		if len(seen) >= 2 || p.kind == "N" || p.kind == "SN" || (p.kind == "S" && !namesTarget(p)) {
			c.Nontrivial = true
		}
	}
	if c.Nontrivial {
		c.Tags = append(c.Tags, "nontrivial")
	}
	return c
}

func gen(r *rng.R, tier string) fw.Case {
	var tags []string
	c := fw.Case{}
	if r.Chance(2, 5) {
		// pure split stream
		n := r.Range(1, 3)
		for i := 0; i < n; i++ {
			c.Script = append(c.Script, "subscribe.split "+genReq(r, &tags))
		}
		tags = append(tags, "split")
	} else {
		sid := fmt.Sprintf("s%016x", r.U64())
		c.Script = append(c.Script, genInit(r, sid))
		n := r.Range(1, 6)
		first := true
		for i := 0; i < n; i++ {
			var req string
			if first && r.Chance(4, 5) {
				// most streams start with a subscription
				for {
					req = genReq(r, &tags)
					if strings.HasPrefix(req, "S ") {
						break
					}
				}
			} else if !first && r.Chance(4, 5) {
				req = "P top:-"
			} else {
				req = genReq(r, &tags)
			}
			first = false
			c.Script = append(c.Script, "subscribe.msg "+sid+" "+req)
		}
		switch r.Intn(4) {
		case 0:
			c.Script = append(c.Script, "subscribe.eof "+sid)
		case 1:
			c.Script = append(c.Script, "subscribe.recverr "+sid)
		}
		tags = append(tags, "stream")
	}
	c.Tags = tags
	return finish(c)
}

// enumerate: every assignment of targets {none, t1, t2} to 0..4 entries, with prefix target absent /
// present, through the split and through a one-message stream with t1 connected and t2 not.
func enumerate(tier string) []fw.Case {
	var out []fw.Case
	opts := []string{"", "t1", "t2"}
	var rec func(cur []string, d int)
	var all [][]string
	rec = func(cur []string, d int) {
		all = append(all, append([]string{}, cur...))
		if d == 0 {
			return
		}
		for _, o := range opts {
			rec(append(cur, o), d-1)
		}
	}
	rec(nil, 4)
	n := 0
	for _, pfx := range []string{"pfx:nil", "pfx:" + encFields([]field{{"Elem", "a"}}), "pfx:" + encFields([]field{{"Elem", "a"}, {"Target", "t2"}})} {
		for _, as := range all {
			toks := []string{"S", "top:" + encFields([]field{{"Extension", "7"}}), pfx, "o:" + encFields([]field{{"Mode", "1"}, {"UpdatesOnly", "1"}})}
			for i, t := range as {
				var fs []field
				fs = append(fs, field{"Elem", fmt.Sprintf("p%d", i)})
				if t != "" {
					fs = append(fs, field{"Target", t})
				}
				toks = append(toks, "e:"+encFields(fs)+":"+fw.EncStr(fmt.Sprintf("0.%d.false.0", i)))
			}
			req := strings.Join(toks, " ")
			n++
			sid := fmt.Sprintf("e%d", n)
			c := fw.Case{Script: []string{
				"subscribe.split " + req,
				"subscribe.init " + sid + " dev:" + fw.EncStr("t1") + "=r" + fw.EncStr("u1") + ",y/r" + fw.EncStr("u2") + ",y/y",
				"subscribe.msg " + sid + " " + req,
				"subscribe.msg " + sid + " P top:-",
				"subscribe.msg " + sid + " P top:-",
			}, Tags: []string{"enum-assignment"}}
			out = append(out, finish(c))
		}
	}
	return out
}

// shrinkCase: drop entries, drop option / extension fields, drop devices' messages.
func shrinkCase(c fw.Case) []fw.Case {
	var out []fw.Case
	for i, ln := range c.Script {
		toks := strings.Fields(ln)
		if toks[0] != "subscribe.split" && toks[0] != "subscribe.msg" {
			continue
		}
		head := toks[:1]
		if toks[0] == "subscribe.msg" {
			if len(toks) < 2 {
				continue
			}
			head = toks[:2]
			toks = append([]string{toks[0]}, toks[2:]...)
		}
		if len(toks) < 5 || toks[1] != "S" {
			continue
		}
		emit := func(nt []string) {
			s := append([]string{}, c.Script...)
			s[i] = strings.Join(append(append([]string{}, head...), nt[1:]...), " ")
			out = append(out, fw.Case{Script: s, Tags: c.Tags, Nontrivial: c.Nontrivial, Origin: c.Origin})
		}
		for j := 5; j < len(toks); j++ {
			emit(append(append([]string{}, toks[:j]...), toks[j+1:]...))
		}
		if toks[2] != "top:-" {
			nt := append([]string{}, toks...)
			nt[2] = "top:-"
			emit(nt)
		}
		if toks[4] != "o:-" {
			nt := append([]string{}, toks...)
			nt[4] = "o:-"
			emit(nt)
		}
	}
	return out
}

// Prop is the C19 correspondence check.
var Prop = &fw.Prop{
	ID: "C19",
	Rule: "subscribe requests with 0-8 entries over 0-4 targets (entries without target, nil paths), prefix nil / without target / with target / with the deprecated element field, " +
		"all list modes, encodings, qos, use_models, updates_only, extensions; polls, empty messages, subscriptions with a nil list; through splitSubscribeRequest (hook) and as message sequences " +
		"of length 1-5 (+ EOF / receive error) on Server.Subscribe with a fake stream and fake per-target clients (most targets connected; each answers the subscription and every poll with a scripted round: updates closed by a sync_response, sometimes none or two, rarely a non-response); " +
		"plus exhaustive target assignments {none t1 t2}^0..4 x prefix {nil, no target, target}. Non-trivial = a request naming at least two targets or a refused message.",
	Quick: 20000, Thorough: 400000,
	Gen: gen, Enumerate: enumerate,
	NewReal: func() fw.Real { return &real{} },
	Monitor: monitor, Shrink: shrinkCase,
	Sigs: map[string]func(fw.Case, []string, string) bool{
		"untargetedDropped":    sigUntargeted,
		"unconnectedSilent":    sigUnconnected,
		"prefixElementDropped": sigElement,
	},
}

func init() { fw.Register(Prop) }
