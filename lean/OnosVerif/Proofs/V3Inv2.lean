/-
Per-transaction form of the commit invariant (`CTx`, `CGl`), and the generic preservation principle
for invariants of the shape

    global facts about the cursors  ∧  ∀ transaction, P₁  ∧  ∀ two transactions, P₂

under an update (`Upd`) of one transaction record and the cursors: the obligations become closed
first-order statements about two records and two cursor records.
-/
import OnosVerif.Proofs.V3Inv

namespace OnosVerif.V3

/-- what `CInv` says about transaction `j` (record `t`) when the cursors are `c` and the log has `n` entries -/
structure CTx (c : Cur) (n : Nat) (j : Nat) (t : TxC) : Prop where
  wf : TxWF t
  pos : 1 ≤ j
  le : j ≤ n
  beyond : c.cChange + 1 < j → t.cc = .pending
  below : j < c.cChange → t.cc = .complete ∨ t.cc = .failed
  atK : j = c.cChange → t.cc ≠ .pending
  next : j = c.cChange + 1 → t.cc ≠ .complete
  tgt : j = c.cChange + 1 → t.cc ≠ .pending → c.cTarget = c.cChange + 1
  prev : c.cTarget = c.cChange + 1 → j = c.cChange → t.cc = .complete ∨ t.cc = .failed
  ridx_lt : t.ridx < j
  n_rc : c.cChange ≤ c.cTarget → t.rc = none ∨ t.rc = some .pending
  n_rev : c.cChange ≤ c.cTarget → t.cc = .complete → j ≤ c.cRevision
  n_lag : c.cChange ≤ c.cTarget → j = c.cChange → t.cc = .inProgress → c.cRevision = c.cChange
  r_last : c.cTarget < c.cChange → j = c.cChange → t.cc = .complete ∧ t.rc ≠ none ∧ c.cTarget = t.ridx ∧
    ((c.cRevision = c.cChange ∧ (t.rc = some .pending ∨ t.rc = some .inProgress)) ∨
     (c.cRevision = t.ridx ∧ (t.rc = some .inProgress ∨ t.rc = some .complete)))
  r_others : c.cTarget < c.cChange → j ≠ c.cChange → t.rc = none ∨ t.rc = some .pending
  r_later : c.cTarget < c.cChange → c.cChange < j → t.cc = .pending

structure CGl (c : Cur) (n : Nat) : Prop where
  K_le : c.cChange ≤ n
  idx : c.cIndex = c.cChange
  rev_le : c.cRevision ≤ c.cChange
  tgt_le : c.cTarget ≤ c.cChange + 1

theorem CInv.cgl {k : Core} (h : CInv k) : CGl k.cur k.txs.length :=
  ⟨h.K_le, h.idx, h.rev_le, h.tgt_le⟩

theorem CInv.ctx {k : Core} (h : CInv k) {j : Nat} {t : TxC} (hj : k.tx j = some t) :
    CTx k.cur k.txs.length j t := by
  refine ⟨h.wf j t hj, Core.tx_pos hj, Core.tx_le hj, h.beyond j t hj, h.below j t hj, ?_, ?_, ?_, ?_,
    h.ridx_lt j t hj, fun hm => h.n_rc hm j t hj, fun hm => h.n_rev hm j t hj, ?_, ?_,
    fun hm => h.r_others hm j t hj, fun hm => h.r_later hm j t hj⟩
  · intro e; subst e; exact h.atK t hj
  · intro e; subst e; exact h.next t hj
  · intro e; subst e; exact h.tgt t hj
  · intro ht e; subst e; exact h.prev ht t hj
  · intro hm e; subst e; exact h.n_lag hm t hj
  · intro hm e
    subst e
    obtain ⟨tK, hK, a1, a2, a3, a4⟩ := h.r_last hm
    rw [hj] at hK
    cases hK
    exact ⟨a1, a2, a3, a4⟩

/-- an invariant given by a global, a per-transaction and a pairwise part -/
structure Inv3 (G : Cur → Nat → Prop) (P1 : Cur → Nat → Nat → TxC → Prop)
    (P2 : Cur → Nat → TxC → Nat → TxC → Prop) (k : Core) : Prop where
  gl : G k.cur k.txs.length
  one : ∀ j t, k.tx j = some t → P1 k.cur k.txs.length j t
  two : ∀ j1 t1 j2 t2, k.tx j1 = some t1 → k.tx j2 = some t2 → j1 ≠ j2 → P2 k.cur j1 t1 j2 t2

/-- preservation of an `Inv3` under an update of transaction `i` and the cursors.  `X` carries
    whatever is known about every transaction of the old state (e.g. its `CTx`). -/
theorem Inv3.upd {G : Cur → Nat → Prop} {P1 : Cur → Nat → Nat → TxC → Prop}
    {P2 : Cur → Nat → TxC → Nat → TxC → Prop} {X : Nat → TxC → Prop}
    {k k' : Core} {i : Nat} {t t' : TxC} {c' : Cur} {evs : List Event}
    (h : Inv3 G P1 P2 k) (ht : k.tx i = some t) (hu : Upd k i t' c' evs k')
    (hx : ∀ j tj, k.tx j = some tj → j ≠ i → X j tj)
    (hg : G c' k.txs.length)
    (hs : P1 c' k.txs.length i t')
    (ho : ∀ j tj, j ≠ i → X j tj → P1 k.cur k.txs.length j tj → P2 k.cur j tj i t → P2 k.cur i t j tj →
      P1 c' k.txs.length j tj ∧ P2 c' j tj i t' ∧ P2 c' i t' j tj)
    (hp : ∀ j1 t1 j2 t2, j1 ≠ i → j2 ≠ i → j1 ≠ j2 → X j1 t1 → X j2 t2 →
      P1 k.cur k.txs.length j1 t1 → P1 k.cur k.txs.length j2 t2 →
      P2 k.cur j1 t1 i t → P2 k.cur i t j1 t1 → P2 k.cur j2 t2 i t → P2 k.cur i t j2 t2 →
      P2 k.cur j1 t1 j2 t2 → P2 c' j1 t1 j2 t2) :
    Inv3 G P1 P2 k' := by
  constructor
  · rw [hu.cur, hu.len]; exact hg
  · intro j tj hj
    rw [hu.cur, hu.len]
    rcases hu.tx_cases hj with ⟨rfl, rfl⟩ | ⟨hne, hj'⟩
    · exact hs
    · exact (ho j tj hne (hx j tj hj' hne) (h.one j tj hj') (h.two j tj i t hj' ht hne)
        (h.two i t j tj ht hj' (Ne.symm hne))).1
  · intro j1 t1 j2 t2 h1 h2 hne
    rw [hu.cur]
    rcases hu.tx_cases h1 with ⟨rfl, rfl⟩ | ⟨hne1, h1'⟩
    · rcases hu.tx_cases h2 with ⟨rfl, rfl⟩ | ⟨hne2, h2'⟩
      · exact absurd rfl hne
      · exact (ho j2 t2 hne2 (hx j2 t2 h2' hne2) (h.one j2 t2 h2') (h.two j2 t2 _ t h2' ht hne2)
          (h.two _ t j2 t2 ht h2' (Ne.symm hne2))).2.2
    · rcases hu.tx_cases h2 with ⟨rfl, rfl⟩ | ⟨hne2, h2'⟩
      · exact (ho j1 t1 hne1 (hx j1 t1 h1' hne1) (h.one j1 t1 h1') (h.two j1 t1 _ t h1' ht hne1)
          (h.two _ t j1 t1 ht h1' (Ne.symm hne1))).2.1
      · exact hp j1 t1 j2 t2 hne1 hne2 hne (hx j1 t1 h1' hne1) (hx j2 t2 h2' hne2) (h.one j1 t1 h1') (h.one j2 t2 h2')
          (h.two j1 t1 i t h1' ht hne1) (h.two i t j1 t1 ht h1' (Ne.symm hne1))
          (h.two j2 t2 i t h2' ht hne2) (h.two i t j2 t2 ht h2' (Ne.symm hne2))
          (h.two j1 t1 j2 t2 h1' h2' hne)

end OnosVerif.V3
