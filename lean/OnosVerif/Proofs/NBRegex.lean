/-
`MatchWildcardRegexp` (as repaired: QuoteMeta first) never hands `regexp.MustCompile` a text
outside the expression class `regexScan` recognises — for every query string.

The text is `^` ++ ReplaceAll(ReplaceAll(QuoteMeta(q), `\*`, `[legal]*?`), `\.\.\.`, `.*`) (++ `$`).
It is shown equal to the rendering of a token list (literal, escaped metacharacter, class, `.*`),
and every such rendering is accepted.
-/
import OnosVerif.NB.Text

namespace OnosVerif.NB
open OnosVerif.Path

inductive Tok
  | lit (c : Char)
  | esc (c : Char)
  | star
  | dotstar
deriving DecidableEq

def Tok.render : Tok → Str
  | .lit c => [c]
  | .esc c => ['\\', c]
  | .star => starClass
  | .dotstar => ['.', '*']

def render (ts : List Tok) : Str := ts.flatMap Tok.render

theorem render_cons (t : Tok) (ts : List Tok) : render (t :: ts) = t.render ++ render ts := by
  simp [render]

/-- well-formed tokens: literals are not metacharacters, escapes are metacharacters other than `*` -/
def TokOK : Tok → Prop
  | .lit c => isMeta c = false
  | .esc c => isMeta c = true ∧ c ≠ '*'
  | .star => True
  | .dotstar => True

def Tok.plain : Tok → Prop
  | .dotstar => False
  | _ => True

/-- the tokens of `ReplaceAll(QuoteMeta(q), "\*", class)` -/
def toks : Str → List Tok
  | [] => []
  | c :: cs => (if c = '*' then Tok.star else if isMeta c then .esc c else .lit c) :: toks cs

theorem toks_ok (q : Str) : ∀ t ∈ toks q, TokOK t ∧ t.plain := by
  induction q with
  | nil => simp [toks]
  | cons c cs ih =>
    intro t ht
    simp only [toks, List.mem_cons] at ht
    rcases ht with h | h
    · subst h
      by_cases h1 : c = '*'
      · simp [h1, TokOK, Tok.plain]
      · by_cases h2 : isMeta c = true
        · simp [h1, h2, TokOK, Tok.plain]
        · simp [h1, h2, TokOK, Tok.plain]
    · exact ih t h

/-! ### stage 1: the star replacement on the quoted text -/

def starPat : Str := ['\\', '*']

theorem isMeta_star : isMeta '*' = true := by decide
theorem isMeta_backslash : isMeta '\\' = true := by decide
theorem isMeta_dot : isMeta '.' = true := by decide
theorem isMeta_lbracket : isMeta '[' = true := by decide
theorem isMeta_dollar : isMeta '$' = true := by decide

theorem quoteMeta_no_star_head (cs : Str) : hasPrefix (quoteMeta cs) ['*'] = false := by
  cases cs with
  | nil => simp [quoteMeta, hasPrefix]
  | cons d ds =>
    simp only [quoteMeta]
    by_cases h : isMeta d = true
    · simp [h, hasPrefix]
    · have hd : d ≠ '*' := by
        intro e; subst e; exact h isMeta_star
      simp [h, hasPrefix, hd]

theorem stage1 (q : Str) : replaceAllSkip starPat starClass 0 (quoteMeta q) = render (toks q) := by
  induction q with
  | nil => simp [quoteMeta, replaceAllSkip, toks, render]
  | cons c cs ih =>
    simp only [toks, render_cons]
    by_cases h1 : c = '*'
    · subst h1
      simp only [quoteMeta, isMeta_star, if_true, Tok.render]
      have step : replaceAllSkip starPat starClass 0 ('\\' :: '*' :: quoteMeta cs) =
          starClass ++ replaceAllSkip starPat starClass 0 (quoteMeta cs) := by
        simp [replaceAllSkip, starPat, hasPrefix]
      rw [step, ih]
    · by_cases h2 : isMeta c = true
      · simp only [quoteMeta, h2, if_true, h1, if_false, Tok.render]
        have hns := quoteMeta_no_star_head cs
        by_cases h3 : c = '\\'
        · subst h3
          simp only [replaceAllSkip, starPat, hasPrefix, if_true]
          have : ('\\' : Char) ≠ '*' := by decide
          simp only [this, if_false, Bool.false_eq_true]
          rw [hns]
          simp only [Bool.false_eq_true, if_false]
          rw [← starPat, ih]
          rfl
        · simp only [replaceAllSkip, starPat, hasPrefix, if_true, h1, h3, if_false, Bool.false_eq_true]
          rw [← starPat, ih]
          rfl
      · have h3 : c ≠ '\\' := by
          intro e; subst e; exact h2 isMeta_backslash
        simp only [quoteMeta, h2, h1, if_false, Tok.render, Bool.false_eq_true]
        simp only [replaceAllSkip, starPat, hasPrefix, h3, if_false, Bool.false_eq_true]
        rw [← starPat, ih]
        rfl

/-! ### stage 2: the three-dots replacement on the token rendering -/

def dotsPat : Str := ['\\', '.', '\\', '.', '\\', '.']
def dotsNew : Str := ['.', '*']

theorem starClass_eq : starClass = "[a-zA-Z0-9_:,\\-\\.]*?".toList := by decide

def isEscDot : Tok → Bool
  | .esc c => decide (c = '.')
  | _ => false

def startsDots : List Tok → Bool
  | a :: b :: c :: _ => isEscDot a && isEscDot b && isEscDot c
  | _ => false

/-- three escaped dots in a row become `.*`; `skip` counts the tokens of the group still to drop -/
def mergeSkip : Nat → List Tok → List Tok
  | _, [] => []
  | skip + 1, _ :: tail => mergeSkip skip tail
  | 0, t :: tail => if startsDots (t :: tail) then Tok.dotstar :: mergeSkip 2 tail else t :: mergeSkip 0 tail

def merge (ts : List Tok) : List Tok := mergeSkip 0 ts

theorem merge_nil : merge [] = [] := rfl

theorem merge_dots (r : List Tok) :
    merge (Tok.esc '.' :: Tok.esc '.' :: Tok.esc '.' :: r) = Tok.dotstar :: merge r := by
  simp [merge, mergeSkip, startsDots, isEscDot]

theorem merge_plain (t : Tok) (tail : List Tok) (h : startsDots (t :: tail) = false) :
    merge (t :: tail) = t :: merge tail := by
  simp [merge, mergeSkip, h]

/-- the rendering of well-formed plain tokens never starts with an unescaped `.` -/
theorem render_no_dot_head (ts : List Tok) (h : ∀ t ∈ ts, TokOK t ∧ t.plain) (rest : Str) :
    hasPrefix (render ts) ('.' :: rest) = false := by
  cases ts with
  | nil => simp [render, hasPrefix]
  | cons t r =>
    obtain ⟨hok, hpl⟩ := h t List.mem_cons_self
    rw [render_cons]
    cases t with
    | lit c =>
      have : c ≠ '.' := by
        intro e; subst e
        simp only [TokOK] at hok
        rw [isMeta_dot] at hok; cases hok
      simp [Tok.render, hasPrefix, this]
    | esc c => simp [Tok.render, hasPrefix]
    | star => rw [Tok.render, starClass_eq]; simp [hasPrefix]
    | dotstar => exact absurd hpl (by simp [Tok.plain])

/-- if the rendering starts with `\x`, the first token is the escape of `x` -/
theorem render_esc_head (ts : List Tok) (h : ∀ t ∈ ts, TokOK t ∧ t.plain) (x : Char) (rest : Str)
    (hp : hasPrefix (render ts) ('\\' :: x :: rest) = true) :
    ∃ r, ts = Tok.esc x :: r ∧ hasPrefix (render r) rest = true := by
  cases ts with
  | nil => simp [render, hasPrefix] at hp
  | cons t r =>
    obtain ⟨hok, hpl⟩ := h t List.mem_cons_self
    rw [render_cons] at hp
    cases t with
    | lit c =>
      have : c ≠ '\\' := by
        intro e; subst e
        simp only [TokOK] at hok
        rw [isMeta_backslash] at hok; cases hok
      simp [Tok.render, hasPrefix, this] at hp
    | esc c =>
      simp only [Tok.render, List.cons_append, List.nil_append, hasPrefix, if_true] at hp
      by_cases hc : c = x
      · subst hc
        simp only [if_true] at hp
        exact ⟨r, rfl, hp⟩
      · simp [hc] at hp
    | star => rw [Tok.render, starClass_eq] at hp; simp [hasPrefix] at hp
    | dotstar => exact absurd hpl (by simp [Tok.plain])

theorem skip_class (rest : Str) :
    replaceAllSkip dotsPat dotsNew 0 (starClass ++ rest) = starClass ++ replaceAllSkip dotsPat dotsNew 0 rest := by
  rw [starClass_eq]
  simp [replaceAllSkip, dotsPat, hasPrefix]

theorem stage2_aux (n : Nat) : ∀ (ts : List Tok), ts.length ≤ n → (∀ t ∈ ts, TokOK t ∧ t.plain) →
    replaceAllSkip dotsPat dotsNew 0 (render ts) = render (merge ts) := by
  induction n with
  | zero =>
    intro ts hl _
    have : ts = [] := List.eq_nil_of_length_eq_zero (by omega)
    subst this
    simp [render, merge_nil, replaceAllSkip]
  | succ n ih =>
    intro ts hl hok
    cases ts with
    | nil => simp [render, merge_nil, replaceAllSkip]
    | cons t tail =>
      have htail : ∀ x ∈ tail, TokOK x ∧ x.plain := fun x hx => hok x (List.mem_cons_of_mem _ hx)
      have hlt : tail.length ≤ n := by simp only [List.length_cons] at hl; omega
      by_cases hd : startsDots (t :: tail) = true
      · -- a three-dots group
        match tail, hd, htail, hlt with
        | t2 :: t3 :: r, hd, htail, hlt =>
          simp only [startsDots, Bool.and_eq_true] at hd
          have e1 : t = Tok.esc '.' := by
            cases t <;> simp_all [isEscDot]
          have e2 : t2 = Tok.esc '.' := by
            cases t2 <;> simp_all [isEscDot]
          have e3 : t3 = Tok.esc '.' := by
            cases t3 <;> simp_all [isEscDot]
          subst e1; subst e2; subst e3
          have hr : ∀ x ∈ r, TokOK x ∧ x.plain := by
            intro x hx; apply htail; exact List.mem_cons_of_mem _ (List.mem_cons_of_mem _ hx)
          have hlr : r.length ≤ n := by simp only [List.length_cons] at hlt; omega
          rw [merge_dots, render_cons, render_cons, render_cons, render_cons]
          simp only [Tok.render, List.cons_append, List.nil_append]
          have step : replaceAllSkip dotsPat dotsNew 0 ('\\' :: '.' :: '\\' :: '.' :: '\\' :: '.' :: render r) =
              dotsNew ++ replaceAllSkip dotsPat dotsNew 0 (render r) := by
            simp [replaceAllSkip, dotsPat, hasPrefix]
          rw [step, ih r hlr hr]
          rfl
      · have hd' : startsDots (t :: tail) = false := by
          cases h : startsDots (t :: tail) with
          | false => rfl
          | true => exact absurd h hd
        rw [merge_plain t tail hd', render_cons, render_cons, ← ih tail hlt htail]
        obtain ⟨htok, htpl⟩ := hok t List.mem_cons_self
        cases t with
        | lit c =>
          have : c ≠ '\\' := by
            intro e; subst e
            simp only [TokOK] at htok
            rw [isMeta_backslash] at htok; cases htok
          simp [Tok.render, replaceAllSkip, dotsPat, hasPrefix, this]
        | star => exact skip_class _
        | dotstar => exact absurd htpl (by simp [Tok.plain])
        | esc c =>
          simp only [Tok.render, List.cons_append, List.nil_append]
          -- position 0
          have h0 : hasPrefix ('\\' :: c :: render tail) dotsPat = false := by
            simp only [dotsPat, hasPrefix, if_true]
            by_cases hc : c = '.'
            · subst hc
              simp only [if_true]
              cases hp : hasPrefix (render tail) ['\\', '.', '\\', '.'] with
              | false => rfl
              | true =>
                obtain ⟨r1, hr1, hp1⟩ := render_esc_head tail htail '.' _ hp
                have hr1ok : ∀ x ∈ r1, TokOK x ∧ x.plain := by
                  intro x hx; apply htail; rw [hr1]; exact List.mem_cons_of_mem _ hx
                obtain ⟨r2, hr2, _⟩ := render_esc_head r1 hr1ok '.' _ hp1
                rw [hr1, hr2] at hd'
                simp [startsDots, isEscDot] at hd'
            · simp [hc]
          -- position 1
          have h1 : hasPrefix (c :: render tail) dotsPat = false := by
            simp only [dotsPat, hasPrefix]
            by_cases hc : c = '\\'
            · subst hc
              simp only [if_true]
              exact render_no_dot_head tail htail _
            · simp [hc]
          simp only [replaceAllSkip, h0, h1, Bool.false_eq_true, if_false]

theorem stage2 (ts : List Tok) (h : ∀ t ∈ ts, TokOK t ∧ t.plain) :
    replaceAll dotsPat dotsNew (render ts) = render (merge ts) :=
  stage2_aux ts.length ts (Nat.le_refl _) h

theorem mergeSkip_ok : ∀ (ts : List Tok) (k : Nat), (∀ t ∈ ts, TokOK t) → ∀ t ∈ mergeSkip k ts, TokOK t := by
  intro ts
  induction ts with
  | nil => intro k _ t ht; cases k <;> simp [mergeSkip] at ht
  | cons a tail ih =>
    intro k hok t ht
    have htail : ∀ x ∈ tail, TokOK x := fun x hx => hok x (List.mem_cons_of_mem _ hx)
    cases k with
    | succ k => simp only [mergeSkip] at ht; exact ih k htail t ht
    | zero =>
      simp only [mergeSkip] at ht
      split at ht
      · rcases List.mem_cons.mp ht with h | h
        · subst h; simp [TokOK]
        · exact ih 2 htail t h
      · rcases List.mem_cons.mp ht with h | h
        · subst h; exact hok _ List.mem_cons_self
        · exact ih 0 htail t h

theorem merge_ok (ts : List Tok) (h : ∀ t ∈ ts, TokOK t) : ∀ t ∈ merge ts, TokOK t :=
  mergeSkip_ok ts 0 h

/-! ### every rendering is an expression of the class -/

theorem hasPrefix_append_self (a b : Str) : hasPrefix (a ++ b) a = true := by
  induction a with
  | nil => cases b <;> simp [hasPrefix]
  | cons c cs ih => simp [hasPrefix, ih]

theorem regexScan_skip (a rest : Str) : regexScan a.length (a ++ rest) = regexScan 0 rest := by
  induction a with
  | nil => simp
  | cons c cs ih => simp only [List.length_cons, List.cons_append, regexScan]; exact ih

theorem regexScan_cons (c : Char) (cs : Str) : regexScan 0 (c :: cs) =
    (if c = '\\' then (match cs with
        | d :: r => isMeta d && regexScan 0 r
        | [] => false)
     else if c = '.' then (match cs with
        | d :: r => decide (d = '*') && regexScan 0 r
        | [] => false)
     else if hasPrefix (c :: cs) starClass then regexScan (starClass.length - 1) cs
     else if c = '$' then cs.isEmpty else !isMeta c && regexScan 0 cs) := by
  rw [regexScan.eq_def]
  rfl

theorem scan_render (suf : Str) (hs : suf = [] ∨ suf = ['$']) :
    ∀ (ts : List Tok), (∀ t ∈ ts, TokOK t) → regexScan 0 (render ts ++ suf) = true := by
  intro ts
  induction ts with
  | nil =>
    intro _
    rcases hs with h | h
    · subst h; simp [render, regexScan]
    · subst h
      have : hasPrefix ['$'] starClass = false := by rw [starClass_eq]; simp [hasPrefix]
      simp only [render, List.flatMap_nil, List.nil_append]
      rw [regexScan_cons]
      simp [this]
  | cons t r ih =>
    intro hok
    have hr := ih (fun x hx => hok x (List.mem_cons_of_mem _ hx))
    have ht := hok t List.mem_cons_self
    rw [render_cons, List.append_assoc]
    cases t with
    | lit c =>
      simp only [TokOK] at ht
      have h1 : c ≠ '\\' := by intro e; subst e; rw [isMeta_backslash] at ht; cases ht
      have h2 : c ≠ '.' := by intro e; subst e; rw [isMeta_dot] at ht; cases ht
      have h3 : c ≠ '$' := by intro e; subst e; rw [isMeta_dollar] at ht; cases ht
      have h4 : c ≠ '[' := by intro e; subst e; rw [isMeta_lbracket] at ht; cases ht
      have h5 : hasPrefix (c :: (render r ++ suf)) starClass = false := by
        rw [starClass_eq]; simp [hasPrefix, h4]
      simp only [Tok.render, List.cons_append, List.nil_append]
      rw [regexScan_cons]
      simp only [h1, h2, h3, h5, if_false, ht, Bool.false_eq_true, Bool.not_false, Bool.true_and]
      exact hr
    | esc c =>
      simp only [TokOK] at ht
      simp only [Tok.render, List.cons_append, List.nil_append]
      rw [regexScan_cons]
      simp only [if_true, ht.1, Bool.true_and]
      exact hr
    | star =>
      have hne : starClass = '[' :: starClass.tail := by rw [starClass_eq]; rfl
      have hp : hasPrefix (starClass ++ (render r ++ suf)) starClass = true := hasPrefix_append_self _ _
      have hlen : starClass.length - 1 = starClass.tail.length := by simp
      have step : regexScan 0 ('[' :: (starClass.tail ++ (render r ++ suf))) =
          regexScan (starClass.length - 1) (starClass.tail ++ (render r ++ suf)) := by
        have h1 : ('[' : Char) ≠ '\\' := by decide
        have h2 : ('[' : Char) ≠ '.' := by decide
        have hp' : hasPrefix ('[' :: (starClass.tail ++ (render r ++ suf))) starClass = true := by
          have := hp
          rw [hne] at this
          rw [hne]
          simpa using this
        rw [regexScan_cons]
        simp only [h1, h2, if_false, hp', if_true]
      show regexScan 0 (starClass ++ (render r ++ suf)) = true
      have e : starClass ++ (render r ++ suf) = '[' :: (starClass.tail ++ (render r ++ suf)) := by
        conv => lhs; rw [hne]
        rfl
      rw [e, step, hlen, regexScan_skip]
      exact hr
    | dotstar =>
      have h1 : ('.' : Char) ≠ '\\' := by decide
      simp only [Tok.render, List.cons_append, List.nil_append]
      rw [regexScan_cons]
      simp only [h1, if_false, if_true, decide_true, Bool.true_and]
      exact hr

/-- `MatchWildcardRegexp` never panics: for every query and both modes the text handed to
    `regexp.MustCompile` is an expression of the recognised class. -/
theorem matchWildcardRegexp_total (q : Str) (exact : Bool) :
    ∃ t, matchWildcardRegexp q exact = .ok t := by
  have htext : wildcardRegexpText q exact =
      '^' :: (render (merge (toks q)) ++ (if exact then ['$'] else [])) := by
    unfold wildcardRegexpText
    have e1 : "\\*".toList = starPat := by decide
    have e2 : "\\.\\.\\.".toList = dotsPat := by decide
    have e3 : ".*".toList = dotsNew := by decide
    simp only [e1, e2, e3]
    have s1 : replaceAll starPat starClass (quoteMeta q) = render (toks q) := stage1 q
    rw [s1, stage2 (toks q) (toks_ok q)]
  have hcomp : compiles (wildcardRegexpText q exact) = true := by
    rw [htext]
    simp only [compiles]
    apply scan_render
    · cases exact <;> simp
    · exact merge_ok _ (fun t ht => (toks_ok q t ht).1)
  unfold matchWildcardRegexp
  simp only [hcomp, if_true]
  exact ⟨_, rfl⟩

end OnosVerif.NB
