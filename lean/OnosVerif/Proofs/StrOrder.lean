/- `strLt` (Go's `<` on strings) is a strict total order; prefixes and the lexicographic order. -/
import OnosVerif.Path.Model
import OnosVerif.Proofs.Path

namespace OnosVerif.Path

theorem char_eq_of_toNat (a b : Char) (h1 : ¬ a.toNat < b.toNat) (h2 : ¬ b.toNat < a.toNat) : a = b := by
  apply Char.ext
  apply UInt32.toNat_inj.1
  have : a.toNat = b.toNat := by omega
  exact this

theorem strLt_nil_right (a : Str) : strLt a [] = false := by
  cases a <;> rfl

theorem strLt_cons (a b : Char) (as bs : Str) :
    strLt (a :: as) (b :: bs) = (if a.toNat < b.toNat then true else if b.toNat < a.toNat then false else strLt as bs) := by
  rw [strLt]

theorem strLt_cons_same (a : Char) (as bs : Str) : strLt (a :: as) (a :: bs) = strLt as bs := by
  rw [strLt_cons]; simp

theorem strLt_trans : ∀ (a b c : Str), strLt a b = true → strLt b c = true → strLt a c = true
  | [], b, c, h1, h2 => by
    cases c with
    | nil => rw [strLt_nil_right] at h2; exact absurd h2 (by decide)
    | cons _ _ => rfl
  | a :: as, b, c, h1, h2 => by
    cases b with
    | nil => rw [strLt_nil_right] at h1; exact absurd h1 (by decide)
    | cons b bs =>
      cases c with
      | nil => rw [strLt_nil_right] at h2; exact absurd h2 (by decide)
      | cons c cs =>
        rw [strLt_cons] at h1 h2 ⊢
        by_cases hab : a.toNat < b.toNat
        · by_cases hbc : b.toNat < c.toNat
          · have : a.toNat < c.toNat := by omega
            simp [this]
          · by_cases hcb : c.toNat < b.toNat
            · simp [hbc, hcb] at h2
            · have : a.toNat < c.toNat := by omega
              simp [this]
        · by_cases hba : b.toNat < a.toNat
          · simp [hab, hba] at h1
          · simp only [hab, hba, if_false] at h1
            by_cases hbc : b.toNat < c.toNat
            · have : a.toNat < c.toNat := by omega
              simp [this]
            · by_cases hcb : c.toNat < b.toNat
              · simp [hbc, hcb] at h2
              · simp only [hbc, hcb, if_false] at h2
                have h3 : ¬ a.toNat < c.toNat := by omega
                have h4 : ¬ c.toNat < a.toNat := by omega
                simp only [h3, h4, if_false]
                exact strLt_trans as bs cs h1 h2

/-- trichotomy: neither smaller means equal. -/
theorem strLt_connected : ∀ (a b : Str), strLt a b = false → strLt b a = false → a = b
  | [], [], _, _ => rfl
  | [], _ :: _, h, _ => by simp [strLt] at h
  | _ :: _, [], _, h => by simp [strLt] at h
  | a :: as, b :: bs, h1, h2 => by
    rw [strLt_cons] at h1 h2
    by_cases hab : a.toNat < b.toNat
    · simp [hab] at h1
    · by_cases hba : b.toNat < a.toNat
      · simp [hba] at h2
      · simp only [hab, hba, if_false] at h1 h2
        rw [char_eq_of_toNat a b hab hba, strLt_connected as bs h1 h2]

/-- `a ≤ b ≤ c` (each as "not greater"). -/
theorem strLe_trans (a b c : Str) (h1 : strLt b a = false) (h2 : strLt c b = false) : strLt c a = false := by
  cases hca : strLt c a with
  | false => rfl
  | true =>
    cases hab : strLt a b with
    | true =>
      have := strLt_trans c a b hca hab
      rw [h2] at this; exact absurd this (by decide)
    | false =>
      have := strLt_connected a b hab h1
      subst this
      rw [h2] at hca; exact absurd hca (by decide)

theorem strLt_of_lt_of_le (a b c : Str) (h1 : strLt a b = true) (h2 : strLt c b = false) : strLt a c = true := by
  cases hbc : strLt b c with
  | true => exact strLt_trans a b c h1 hbc
  | false =>
    have := strLt_connected b c hbc h2
    subst this; exact h1

/-- a proper prefix is smaller. -/
theorem strLt_of_prefix : ∀ (d p : Str), d.isPrefixOf p = true → d ≠ p → strLt d p = true
  | [], [], _, h => absurd rfl h
  | [], _ :: _, _, _ => rfl
  | _ :: _, [], h, _ => by simp [List.isPrefixOf] at h
  | c :: d, e :: p, h, hne => by
    simp only [List.isPrefixOf, Bool.and_eq_true, beq_iff_eq] at h
    obtain ⟨hce, hdp⟩ := h
    subst hce
    rw [strLt_cons_same]
    exact strLt_of_prefix d p hdp (fun h => hne (by rw [h]))

/-- the strings with a given prefix form an interval: between `d` and a string that starts with
    `d`, every string starts with `d`. -/
theorem prefix_interval : ∀ (d x y : Str), strLt x d = false → strLt y x = false →
    d.isPrefixOf y = true → d.isPrefixOf x = true
  | [], _, _, _, _, _ => by simp [List.isPrefixOf]
  | c :: d, x, y, h1, h2, h3 => by
    cases y with
    | nil => simp [List.isPrefixOf] at h3
    | cons e y =>
      simp only [List.isPrefixOf, Bool.and_eq_true, beq_iff_eq] at h3
      obtain ⟨hce, hdy⟩ := h3
      subst hce
      cases x with
      | nil => simp [strLt] at h1
      | cons f x =>
        rw [strLt_cons] at h1 h2
        by_cases hfc : f.toNat < c.toNat
        · simp [hfc] at h1
        · by_cases hcf : c.toNat < f.toNat
          · simp [hcf] at h2
          · have hfe : f = c := char_eq_of_toNat f c hfc hcf
            subst hfe
            simp only [Nat.lt_irrefl, if_false] at h1 h2
            simp only [List.isPrefixOf, beq_self_eq_true, Bool.true_and]
            exact prefix_interval d x y h1 h2 hdy

theorem isPrefixOf_trans : ∀ (a b c : Str), a.isPrefixOf b = true → b.isPrefixOf c = true → a.isPrefixOf c = true
  | [], _, _, _, _ => by simp [List.isPrefixOf]
  | _ :: _, [], _, h, _ => by simp [List.isPrefixOf] at h
  | _ :: _, _ :: _, [], _, h => by simp [List.isPrefixOf] at h
  | x :: a, y :: b, z :: c, h1, h2 => by
    simp only [List.isPrefixOf, Bool.and_eq_true, beq_iff_eq] at h1 h2 ⊢
    exact ⟨h1.1.trans h2.1, isPrefixOf_trans a b c h1.2 h2.2⟩

theorem isPrefixOf_refl : ∀ (a : Str), a.isPrefixOf a = true
  | [] => rfl
  | _ :: a => by simp [List.isPrefixOf, isPrefixOf_refl a]

end OnosVerif.Path
