/-
The twin of the v2 transaction reconciler equals the control skeleton regenerated from
pkg/controller/v2/transaction/controller.go, for transactions that list ONE proposal (every loop
over `transaction.Status.Proposals` runs once): the phase dispatch, the Validate / Commit / Apply /
Abort loops and the SERIALIZABLE waits.  (reconcileInitialize — the creation of the proposals — is
tied by correspondence only.)
-/
import OnosVerif.Generated.Facts
import OnosVerif.Proofs.V2SkelProp

namespace OnosVerif.V2.Skel
open OnosVerif.Generated
open OnosVerif.V2

theorem rank_validated : TxState.validated.rank = 1 := rfl
theorem rank_committed : TxState.committed.rank = 2 := rfl
theorem rank_applied : TxState.applied.rank = 3 := rfl

macro "skel_tx" : tactic => `(tactic| simp_all [Nat.blt_eq, Nat.ble_eq, phCode, fCode, optFCode, proj, proj_append, plumbing,
  planTraceTx, effToksTx, txUpdToks, propUpdToks, flagToks, Plan.nop, rank_committed, rank_applied, rank_validated])

theorem ph_cases4 (x : Ph) : x = .none ∨ x = .opened ∨ x = .done ∨ x = .failed := by
  cases x <;> simp

theorem skel_tx_dispatch (t : Tx) (p : Proposal) (q : Tx) (b1 b2 : Bool) :
    v2sk_tx_dispatch (gTxOf t b1 p b2 q) =
      if t.apply ≠ .none then [.call "r.reconcileApply", .ret "call" []]
      else if t.abort ≠ .none then [.call "r.reconcileAbort", .ret "call" []]
      else if t.commit ≠ .none then [.call "r.reconcileCommit", .ret "call" []]
      else if t.validate ≠ .none then [.call "r.reconcileValidate", .ret "call" []]
      else if t.init ≠ .none then [.call "r.reconcileInitialize", .ret "call" []]
      else planTraceTx { effects := [.tx t.index t.version .openInit] } := by
  unfold v2sk_tx_dispatch
  gTxOf_atoms
  by_cases h1 : t.apply = .none <;> by_cases h2 : t.abort = .none <;> by_cases h3 : t.commit = .none <;>
    by_cases h4 : t.validate = .none <;> by_cases h5 : t.init = .none <;> skel_tx

/-- VALIDATING: open the phase on a proposal that has not got it, fail on a failed one, close the
    phase when the proposal is validated, wait while it is validating -/
theorem skel_tx_validate_loop (t : Tx) (p : Proposal) (q : Tx) (b : Bool) (h : t.validate = .opened) :
    proj (v2sk_tx_validate (gTxOf t false p b q)) =
      flagToks "allValidated" p.validate ++ planTraceTx (txValidateLoop t [p] true) := by
  unfold v2sk_tx_validate
  gTxOf_atoms
  simp only [h]
  rcases ph_cases4 p.validate with hp | hp | hp | hp <;> simp [hp, txValidateLoop] <;> skel_tx

theorem skel_tx_commit_loop (t : Tx) (p : Proposal) (q : Tx) (b : Bool) (h : t.commit = .opened) :
    proj (v2sk_tx_commit (gTxOf t false p b q)) =
      flagToks "allCommitted" p.commit ++ planTraceTx (txCommitLoop t [p] true) := by
  unfold v2sk_tx_commit
  gTxOf_atoms
  simp only [h]
  rcases ph_cases4 p.commit with hp | hp | hp | hp <;> simp [hp, txCommitLoop] <;> skel_tx

theorem skel_tx_apply_loop (t : Tx) (p : Proposal) (q : Tx) (b : Bool) (h : t.apply = .opened) :
    proj (v2sk_tx_apply (gTxOf t false p b q)) =
      flagToks "allApplied" p.apply ++ planTraceTx (txApplyLoop t [p] true) := by
  unfold v2sk_tx_apply
  gTxOf_atoms
  simp only [h]
  rcases ph_cases4 p.apply with hp | hp | hp | hp <;> simp [hp, txApplyLoop] <;> skel_tx

theorem skel_tx_abort_loop (t : Tx) (p : Proposal) (q : Tx) (b : Bool) (h : t.abort = .opened) :
    proj (v2sk_tx_abort (gTxOf t false p b q)) =
      flagToks "allAborted" p.abort ++ planTraceTx (txAbortLoop t [p] true) := by
  unfold v2sk_tx_abort
  gTxOf_atoms
  simp only [h]
  rcases ph_cases4 p.abort with hp | hp | hp | hp <;> simp [hp, txAbortLoop] <;> skel_tx

/-- the SERIALIZABLE wait over one proposal -/
theorem waits_single (s : Sys) (p : Proposal) (need : TxState) :
    waitsForSerializable s [p] need =
      (decide (p.prev > 0) && match s.tx? p.prev with
        | some q => q.serializable && decide (q.state.rank < need.rank)
        | none => false) := by
  simp only [waitsForSerializable, List.any_cons, List.any_nil, Bool.or_false]
  rfl

/-- VALIDATED: open the Commit phase unless the proposal's predecessor transaction is SERIALIZABLE
    and not yet COMMITTED -/
theorem skel_tx_validate_done (s : Sys) (t : Tx) (p : Proposal) (h : t.validate = .done) :
    proj (v2sk_tx_validate (gTxOf t false p (s.tx? p.prev).isNone ((s.tx? p.prev).getD default))) =
      planTraceTx (if waitsForSerializable s [p] .committed then .nop
        else { effects := [.tx t.index t.version .openCommit] }) := by
  unfold v2sk_tx_validate
  gTxOf_atoms
  rw [waits_single]
  simp only [h]
  by_cases hp : p.prev > 0 <;>
    rcases Option.eq_none_or_eq_some (s.tx? p.prev) with ho | ⟨q, ho⟩ <;> simp only [ho] <;>
    (try cases hs : q.serializable) <;> (try gsplit hr : q.state.rank < 2) <;> skel_tx <;>
    (try (simp [Nat.not_lt.mpr hr, effToksTx, txUpdToks]))

/-- COMMITTED: open the Apply phase unless the predecessor transaction is SERIALIZABLE and not yet APPLIED -/
theorem skel_tx_commit_done (s : Sys) (t : Tx) (p : Proposal) (h : t.commit = .done) :
    proj (v2sk_tx_commit (gTxOf t false p (s.tx? p.prev).isNone ((s.tx? p.prev).getD default))) =
      planTraceTx (if waitsForSerializable s [p] .applied then .nop
        else { effects := [.tx t.index t.version .openApply] }) := by
  unfold v2sk_tx_commit
  gTxOf_atoms
  rw [waits_single]
  simp only [h]
  by_cases hp : p.prev > 0 <;>
    rcases Option.eq_none_or_eq_some (s.tx? p.prev) with ho | ⟨q, ho⟩ <;> simp only [ho] <;>
    (try cases hs : q.serializable) <;> (try gsplit hr : q.state.rank < 3) <;> skel_tx <;>
    (try (simp [Nat.not_lt.mpr hr, effToksTx, txUpdToks]))

/-- INITIALIZED (transaction): open the Validate phase and wake the next transaction of the log,
    unless the predecessor transaction is SERIALIZABLE and not yet VALIDATED -/
theorem skel_tx_initialize_done (s : Sys) (t : Tx) (p : Proposal) (pl : Tx) (b : Bool) (h : t.init = .done) :
    proj (v2sk_tx_initialize (gTxInitOf t true false p b pl (s.tx? p.prev).isNone ((s.tx? p.prev).getD default))) =
      planTraceTx (if waitsForSerializable s [p] .validated then .nop
        else { effects := [.tx t.index t.version .openValidate], requeue := some (.tx (t.index + 1)) }) := by
  unfold v2sk_tx_initialize
  gTxInitOf_atoms
  rw [waits_single]
  simp only [h]
  by_cases hp : p.prev > 0 <;>
    rcases Option.eq_none_or_eq_some (s.tx? p.prev) with ho | ⟨q, ho⟩ <;> simp only [ho] <;>
    (try cases hs : q.serializable) <;> (try gsplit hr : q.state.rank < 1) <;> skel_tx <;>
    (try (simp [Nat.not_lt.mpr hr, effToksTx, txUpdToks]))

/-- INITIALIZING (transaction) once the proposals are listed: wait for the previous transaction of
    the log to be initialised, then close the phase when the proposal is initialised -/
theorem skel_tx_initialize_listed (s : Sys) (t : Tx) (p : Proposal) (q : Tx) (b : Bool)
    (h : t.init = .opened) (hprops : t.proposals = some [(p.target, p.index)])
    (hp : s.prop? (p.target, p.index) = some p) :
    proj (v2sk_tx_initialize (gTxInitOf t true false p (s.tx? (t.index - 1)).isNone ((s.tx? (t.index - 1)).getD default) b q)) =
      (if waitsPrevInit s t then [.ret "nil" []]
       else .set "allInitialized" "true" ::
         ((if p.init = .none ∨ p.init = .opened then [.set "allInitialized" "false"] else []) ++
           planTraceTx (txInitProposals s t))) := by
  unfold v2sk_tx_initialize waitsPrevInit txInitProposals
  gTxInitOf_atoms
  simp only [h, hprops, getProps, hp]
  rcases Option.eq_none_or_eq_some (s.tx? (t.index - 1)) with ho | ⟨pl, ho⟩ <;> simp only [ho]
  · rcases ph_cases4 p.init with hi | hi | hi | hi <;> simp [hi] <;> skel_tx
  · rcases ph_cases4 pl.init with hl | hl | hl | hl <;> rcases ph_cases4 p.init with hi | hi | hi | hi <;>
      simp [hl, hi] <;> skel_tx

/-- INITIALIZING (transaction), proposals not yet listed, a change of ONE target: the proposal is
    created unless it exists already (an earlier, interrupted pass), and in BOTH cases its id is
    listed in `Status.Proposals` (the `append` is outside the not-found block) -/
theorem skel_tx_initialize_create (s : Sys) (t : Tx) (tgt : Tgt) (ch : Config.VMap) (q : Tx) (b : Bool) (p : Proposal)
    (h : t.init = .opened) (hprops : t.proposals = none) (hrb : t.isRollback = false)
    (hch : t.changes = [(tgt, ch)]) (hw : waitsPrevInit s t = false) :
    txInitProposals s t =
      { effects := initCreatesChange s t ++ [.tx t.index t.version (.setProposals [(tgt, t.index)])] } ∧
    proj (v2sk_tx_initialize (gTxInitOf t false (s.prop? (tgt, t.index)).isNone p
        (s.tx? (t.index - 1)).isNone ((s.tx? (t.index - 1)).getD default) b q)) =
      (initCreatesChange s t).flatMap effToksTx ++ [.set "proposals" "append(proposals, proposalID)"] ++
        planTraceTx { effects := [.tx t.index t.version (.setProposals [(tgt, t.index)])] } := by
  constructor
  · simp [txInitProposals, hprops, hrb, hch]
  unfold v2sk_tx_initialize initCreatesChange
  unfold waitsPrevInit at hw
  gTxInitOf_atoms
  simp only [h, hrb, hch, List.filterMap_cons, List.filterMap_nil]
  rcases Option.eq_none_or_eq_some (s.tx? (t.index - 1)) with ho | ⟨pl, ho⟩ <;> simp only [ho] at hw ⊢ <;>
    rcases Option.eq_none_or_eq_some (s.prop? (tgt, t.index)) with hq | ⟨q', hq⟩ <;> simp only [hq]
  · skel_tx
  · skel_tx
  · rcases ph_cases4 pl.init with hl | hl | hl | hl <;> simp [hl] at hw <;> simp [hl] <;> skel_tx
  · rcases ph_cases4 pl.init with hl | hl | hl | hl <;> simp [hl] at hw <;> simp [hl] <;> skel_tx

/-- INITIALIZING (transaction), proposals not yet listed, a ROLLBACK of a change of ONE target: the rollback
    proposal is created unless it exists already (an earlier, interrupted pass), and in BOTH cases its id
    is listed in `Status.Proposals` (the `append` is outside the not-found block) -/
theorem skel_tx_initialize_create_rollback (s : Sys) (t : Tx) (tgt : Tgt) (ch : Config.VMap) (target : Tx)
    (h : t.init = .opened) (hprops : t.proposals = none) (hrb : t.isRollback = true)
    (htgt : s.tx? t.rollbackIndex = some target) (htrb : target.isRollback = false)
    (hch : target.changes = [(tgt, ch)]) (hw : waitsPrevInit s t = false) :
    txInitProposals s t =
      { effects := initCreatesRollback s t target ++ [.tx t.index t.version (.setProposals [(tgt, t.index)])] } ∧
    proj (v2sk_tx_initialize (gTxInitRbOf t (s.prop? (tgt, t.index)).isNone false false
        (s.tx? (t.index - 1)).isNone ((s.tx? (t.index - 1)).getD default))) =
      (initCreatesRollback s t target).flatMap effToksTx ++ [.set "proposals" "append(proposals, proposalID)"] ++
        planTraceTx { effects := [.tx t.index t.version (.setProposals [(tgt, t.index)])] } := by
  constructor
  · simp [txInitProposals, hprops, hrb, htgt, htrb, hch]
  unfold v2sk_tx_initialize initCreatesRollback
  unfold waitsPrevInit at hw
  gTxInitRbOf_atoms
  simp only [h, hch, List.filterMap_cons, List.filterMap_nil]
  rcases Option.eq_none_or_eq_some (s.tx? (t.index - 1)) with ho | ⟨pl, ho⟩ <;> simp only [ho] at hw ⊢ <;>
    rcases Option.eq_none_or_eq_some (s.prop? (tgt, t.index)) with hq | ⟨q', hq⟩ <;> simp only [hq]
  · skel_tx
  · skel_tx
  · rcases ph_cases4 pl.init with hl | hl | hl | hl <;> simp [hl] at hw <;> simp [hl] <;> skel_tx
  · rcases ph_cases4 pl.init with hl | hl | hl | hl <;> simp [hl] at hw <;> simp [hl] <;> skel_tx

/-- a listed proposal that is not found ends the invocation without a write (every loop) -/
theorem skel_tx_missing (t : Tx) (p : Proposal) (q : Tx) (b : Bool) :
    (t.validate = .opened → proj (v2sk_tx_validate (gTxOf t true p b q)) = [.set "allValidated" "true", .ret "nil" []]) ∧
    (t.commit = .opened → proj (v2sk_tx_commit (gTxOf t true p b q)) = [.set "allCommitted" "true", .ret "nil" []]) ∧
    (t.apply = .opened → proj (v2sk_tx_apply (gTxOf t true p b q)) = [.set "allApplied" "true", .ret "nil" []]) ∧
    (t.abort = .opened → proj (v2sk_tx_abort (gTxOf t true p b q)) = [.set "allAborted" "true", .ret "nil" []]) := by
  refine ⟨?_, ?_, ?_, ?_⟩ <;> intro h
  · unfold v2sk_tx_validate; gTxOf_atoms; skel_tx
  · unfold v2sk_tx_commit; gTxOf_atoms; skel_tx
  · unfold v2sk_tx_apply; gTxOf_atoms; skel_tx
  · unfold v2sk_tx_abort; gTxOf_atoms; skel_tx

/-- updateTransactionStatus swallows NotFound and Conflict -/
theorem skel_tx_updateStatus (g : V2G) :
    proj (v2sk_tx_updateStatus g) =
      .write "r.transactions.UpdateStatus" ::
        (if g.b "err@r.transactions.UpdateStatus#1" &&
            !(g.b "errors.IsNotFound(err)@r.transactions.UpdateStatus#1") &&
            !(g.b "errors.IsConflict(err)@r.transactions.UpdateStatus#1") then [.ret "err" []] else [.ret "nil" []]) := by
  unfold v2sk_tx_updateStatus
  cases g.b "err@r.transactions.UpdateStatus#1" <;> cases g.b "errors.IsNotFound(err)@r.transactions.UpdateStatus#1" <;>
    cases g.b "errors.IsConflict(err)@r.transactions.UpdateStatus#1" <;> simp [proj]

end OnosVerif.V2.Skel
