/- Go-map lemmas for the value-path twin (`VMap.get/set/erase`), extensional (by `get`). -/
import OnosVerif.Config.Spec

namespace OnosVerif.Config
open OnosVerif.Path (Str)

/-- the paths of the map are pairwise different. -/
def NodupP (m : VMap) : Prop := m.Pairwise (fun a b => a.path ≠ b.path)

theorem get_nil (p : Str) : VMap.get [] p = none := rfl

theorem get_cons (e : PV) (r : VMap) (p : Str) :
    VMap.get (e :: r) p = if e.path = p then some e else VMap.get r p := by
  simp only [VMap.get, List.find?_cons]
  by_cases h : e.path = p <;> simp [h]

theorem get_some (m : VMap) (p : Str) (e : PV) (h : VMap.get m p = some e) : e ∈ m ∧ e.path = p := by
  induction m with
  | nil => simp [get_nil] at h
  | cons x r ih =>
    rw [get_cons] at h
    by_cases hx : x.path = p
    · simp only [hx, if_true, Option.some.injEq] at h
      subst h; exact ⟨List.mem_cons_self, hx⟩
    · simp only [hx, if_false] at h
      exact ⟨List.mem_cons_of_mem _ (ih h).1, (ih h).2⟩

theorem get_none (m : VMap) (p : Str) : VMap.get m p = none ↔ ∀ e ∈ m, e.path ≠ p := by
  induction m with
  | nil => simp [get_nil]
  | cons x r ih =>
    rw [get_cons]
    by_cases hx : x.path = p
    · simp [hx]
    · simp only [hx, if_false, ih, List.mem_cons, forall_eq_or_imp, ne_eq, not_false_eq_true, true_and]

theorem get_of_mem (m : VMap) (e : PV) (hn : NodupP m) (h : e ∈ m) : VMap.get m e.path = some e := by
  induction m with
  | nil => simp at h
  | cons x r ih =>
    simp only [NodupP, List.pairwise_cons] at hn
    rw [get_cons]
    rcases List.mem_cons.1 h with h | h
    · subst h; simp
    · have : x.path ≠ e.path := hn.1 e h
      simp only [this, if_false]
      exact ih hn.2 h

theorem has_eq (m : VMap) (p : Str) : m.has p = (VMap.get m p).isSome := by
  induction m with
  | nil => rfl
  | cons x r ih =>
    rw [get_cons]
    simp only [VMap.has, List.any_cons] at ih ⊢
    by_cases hx : x.path = p
    · simp [hx]
    · simp [hx, ih]

theorem has_cons (x : PV) (r : VMap) (p : Str) : VMap.has (x :: r) p = (decide (x.path = p) || VMap.has r p) := by
  simp [VMap.has]

theorem get_map_replace (e : PV) (p : Str) : ∀ (m : VMap),
    VMap.get (m.map (fun x => if x.path = e.path then e else x)) p =
      if p = e.path then (if m.has e.path then some e else none) else VMap.get m p
  | [] => by simp [get_nil, VMap.has]
  | x :: r => by
    have ih := get_map_replace e p r
    simp only [List.map_cons, get_cons, has_cons]
    by_cases hx : x.path = e.path
    · by_cases hp : p = e.path
      · subst hp; simp [hx]
      · have h1 : ¬ e.path = p := fun h => hp h.symm
        have h2 : ¬ x.path = p := fun h => hp (by rw [← h, hx])
        simp only [hx, if_true, h1, if_false, hp, h2]
        rw [ih]; simp [hp]
    · by_cases hp : p = e.path
      · subst hp
        simp only [hx, if_false, if_true, decide_false, Bool.false_or]
        rw [ih]; simp
      · simp only [hx, if_false, hp]
        by_cases hxp : x.path = p
        · simp [hxp]
        · simp only [hxp, if_false]
          rw [ih]; simp [hp]

theorem get_append_single (m : VMap) (e : PV) (p : Str) :
    VMap.get (m ++ [e]) p = match VMap.get m p with
      | some x => some x
      | none => if e.path = p then some e else none := by
  induction m with
  | nil => simp [get_cons, get_nil]
  | cons x r ih =>
    simp only [List.cons_append, get_cons]
    by_cases hx : x.path = p
    · simp [hx]
    · simp only [hx, if_false]; exact ih

theorem get_set (m : VMap) (e : PV) (p : Str) :
    VMap.get (m.set e) p = if p = e.path then some e else VMap.get m p := by
  unfold VMap.set
  by_cases hh : m.has e.path = true
  · simp only [hh, if_true]
    rw [get_map_replace]; simp [hh]
  · simp only [hh, Bool.false_eq_true, if_false]
    rw [get_append_single]
    have hnone : VMap.get m e.path = none := by
      have := has_eq m e.path
      cases hg : VMap.get m e.path with
      | none => rfl
      | some _ => rw [hg] at this; simp only [Option.isSome_some] at this; exact absurd this hh
    by_cases hp : p = e.path
    · subst hp; simp [hnone]
    · have : ¬ e.path = p := fun h => hp h.symm
      simp only [hp, if_false, this]
      cases VMap.get m p <;> rfl

theorem get_erase (m : VMap) (q p : Str) :
    VMap.get (m.erase q) p = if p = q then none else VMap.get m p := by
  induction m with
  | nil => simp [VMap.erase, get_nil]
  | cons x r ih =>
    simp only [VMap.erase, List.filter_cons] at ih ⊢
    by_cases hx : x.path = q
    · simp only [hx, ne_eq, not_true_eq_false, decide_false, Bool.false_eq_true, if_false, get_cons]
      rw [ih]
      by_cases hp : p = q
      · simp [hp]
      · have : ¬ q = p := fun h => hp h.symm
        simp [hp, this]
    · simp only [ne_eq, hx, not_false_eq_true, decide_true, if_true, get_cons]
      rw [ih]
      by_cases hp : p = q
      · subst hp; simp [hx]
      · simp [hp]

/-! ### paths and uniqueness -/

theorem paths_set (m : VMap) (e : PV) :
    paths (m.set e) = if m.has e.path then paths m else paths m ++ [e.path] := by
  unfold VMap.set paths
  by_cases hh : m.has e.path = true
  · simp only [hh, if_true, List.map_map]
    apply List.map_congr_left
    intro x _
    simp only [Function.comp]
    by_cases hx : x.path = e.path <;> simp [hx]
  · simp [hh]

theorem nodupP_iff (m : VMap) : NodupP m ↔ (paths m).Nodup := by
  simp [NodupP, paths, List.Nodup, List.pairwise_map]

theorem mem_paths_iff_get (m : VMap) (p : Str) : p ∈ paths m ↔ ∃ e, VMap.get m p = some e := by
  constructor
  · intro h
    simp only [paths, List.mem_map] at h
    obtain ⟨x, hx, hp⟩ := h
    cases hg : VMap.get m p with
    | some e => exact ⟨e, rfl⟩
    | none => exact absurd hp ((get_none m p).1 hg x hx)
  · rintro ⟨e, he⟩
    obtain ⟨h1, h2⟩ := get_some m p e he
    simp only [paths, List.mem_map]
    exact ⟨e, h1, h2⟩

theorem nodupP_set (m : VMap) (e : PV) (h : NodupP m) : NodupP (m.set e) := by
  rw [nodupP_iff] at h ⊢
  rw [paths_set]
  by_cases hh : m.has e.path = true
  · simp [hh, h]
  · simp only [hh, Bool.false_eq_true, if_false]
    rw [List.nodup_append]
    refine ⟨h, by simp, ?_⟩
    intro a ha b hb hab
    simp only [List.mem_singleton] at hb
    have hae : a = e.path := hab.trans hb
    rw [hae] at ha
    obtain ⟨x, hx⟩ := (mem_paths_iff_get m e.path).1 ha
    have := has_eq m e.path
    rw [hx] at this
    simp only [Option.isSome_some] at this
    exact hh this

theorem nodupP_erase (m : VMap) (q : Str) (h : NodupP m) : NodupP (m.erase q) :=
  List.Pairwise.sublist List.filter_sublist h

theorem mem_paths_set (m : VMap) (e : PV) (p : Str) : p ∈ paths (m.set e) ↔ p = e.path ∨ p ∈ paths m := by
  rw [mem_paths_iff_get, mem_paths_iff_get]
  simp only [get_set]
  by_cases hp : p = e.path
  · simp [hp]
  · simp [hp]

theorem mem_paths_erase (m : VMap) (q p : Str) : p ∈ paths (m.erase q) ↔ p ≠ q ∧ p ∈ paths m := by
  rw [mem_paths_iff_get, mem_paths_iff_get]
  simp only [get_erase]
  by_cases hp : p = q
  · simp [hp]
  · simp [hp]

end OnosVerif.Config
