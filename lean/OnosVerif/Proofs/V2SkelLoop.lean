/-
The phase loops of the v2 transaction reconciler over ANY number of proposals: the regenerated trace of one
iteration and of the statements after the loop (`Generated.v2sk_tx_*_loop1_body/_after`, translator
`emitLoops` in v2ctl.go), iterated over the proposal list as Go's `for … range` does, equal the twin's loop
functions (`txValidateLoop`, `txCommitLoop`, `txApplyLoop`, `txAbortLoop`) - by induction on the list.
-/
import OnosVerif.Proofs.V2SkelTx
namespace OnosVerif.V2.Skel
open OnosVerif.Generated
open OnosVerif.V2

/-- Go's `for … range` over the proposals, from the regenerated trace of ONE iteration (`body`) and of
    the statements after the loop (`after`): an iteration whose (projected) trace ends in `.misc "next"`
    hands over to the next proposal - with the loop flag cleared if the iteration assigned `false` to it -,
    any other iteration ends the invocation with its trace; after the last proposal the statements after
    the loop run with the flag as the iterations left it. -/
def iterate (body after : V2G → List Tok) (gOf : Proposal → Bool → V2G) (gEnd : Bool → V2G) (flagName : String) :
    List Proposal → Bool → List Tok
  | [], flag => proj (after (gEnd flag))
  | p :: rest, flag =>
    let tr := proj (body (gOf p flag))
    if tr.getLast? = some (.misc "next") then
      tr.dropLast ++ iterate body after gOf gEnd flagName rest (flag && !(tr.contains (.set flagName "false")))
    else tr

/-- the trace without the assignments to the loop flag -/
def dropFlag (name : String) (l : List Tok) : List Tok := l.filter (· != .set name "false")

theorem body_tx_validate (t : Tx) (p : Proposal) (flag : Bool) :
    proj (v2sk_tx_validate_loop1_body (gTxIterOf t p flag)) =
      match p.validate with
      | .none => effToksTx (.prop (p.target, p.index) p.version .openValidate) ++ [.ret "nil" []]
      | .opened => [.set "allValidated" "false", .misc "next"]
      | .failed => effToksTx (.tx t.index t.version (.validateFailed p.vFailure)) ++ [.ret "nil" []]
      | .done => [.misc "next"] := by
  unfold v2sk_tx_validate_loop1_body
  gTxIterOf_atoms
  rcases ph_cases4 p.validate with hv | hv | hv | hv <;> simp only [hv] <;>
    simp [proj, effToksTx, propUpdToks, txUpdToks, plumbing, phCode]

theorem loop_tx_validate (t : Tx) (ps : List Proposal) (flag : Bool) :
    dropFlag "allValidated" (iterate v2sk_tx_validate_loop1_body v2sk_tx_validate_loop1_after
      (gTxIterOf t) (gTxIterOf t default) "allValidated" ps flag) =
      planTraceTx (txValidateLoop t ps flag) := by
  induction ps generalizing flag with
  | nil =>
    unfold iterate v2sk_tx_validate_loop1_after txValidateLoop
    gTxIterOf_atoms
    cases flag <;> simp [proj, dropFlag, planTraceTx, effToksTx, txUpdToks, plumbing, Plan.nop]
  | cons p rest ih =>
    rw [iterate, body_tx_validate, txValidateLoop]
    rcases ph_cases4 p.validate with hv | hv | hv | hv <;> simp only [hv]
    · simp [dropFlag, planTraceTx, effToksTx, propUpdToks]
    · simpa [dropFlag] using ih false
    · simpa [dropFlag] using ih flag
    · simp [dropFlag, planTraceTx, effToksTx, txUpdToks]

theorem body_tx_commit (t : Tx) (p : Proposal) (flag : Bool) :
    proj (v2sk_tx_commit_loop1_body (gTxIterOf t p flag)) =
      match p.commit with
      | .none => effToksTx (.prop (p.target, p.index) p.version .openCommit) ++ [.ret "nil" []]
      | .opened => [.set "allCommitted" "false", .misc "next"]
      | .failed => [.misc "next"]
      | .done => [.misc "next"] := by
  unfold v2sk_tx_commit_loop1_body
  gTxIterOf_atoms
  rcases ph_cases4 p.commit with hv | hv | hv | hv <;> simp only [hv] <;>
    simp [proj, effToksTx, propUpdToks, txUpdToks, plumbing, phCode]

theorem loop_tx_commit (t : Tx) (ps : List Proposal) (flag : Bool) :
    dropFlag "allCommitted" (iterate v2sk_tx_commit_loop1_body v2sk_tx_commit_loop1_after
      (gTxIterOf t) (gTxIterOf t default) "allCommitted" ps flag) =
      planTraceTx (txCommitLoop t ps flag) := by
  induction ps generalizing flag with
  | nil =>
    unfold iterate v2sk_tx_commit_loop1_after txCommitLoop
    gTxIterOf_atoms
    cases flag <;> simp [proj, dropFlag, planTraceTx, effToksTx, txUpdToks, plumbing, Plan.nop]
  | cons p rest ih =>
    rw [iterate, body_tx_commit, txCommitLoop]
    rcases ph_cases4 p.commit with hv | hv | hv | hv <;> simp only [hv]
    · simp [dropFlag, planTraceTx, effToksTx, propUpdToks]
    · simpa [dropFlag] using ih false
    · simpa [dropFlag] using ih flag
    · simpa [dropFlag] using ih flag

theorem body_tx_apply (t : Tx) (p : Proposal) (flag : Bool) :
    proj (v2sk_tx_apply_loop1_body (gTxIterOf t p flag)) =
      match p.apply with
      | .none => effToksTx (.prop (p.target, p.index) p.version .openApply) ++ [.ret "nil" []]
      | .opened => [.set "allApplied" "false", .misc "next"]
      | .failed => effToksTx (.tx t.index t.version (.applyFailed p.aFailure)) ++ [.ret "nil" []]
      | .done => [.misc "next"] := by
  unfold v2sk_tx_apply_loop1_body
  gTxIterOf_atoms
  rcases ph_cases4 p.apply with hv | hv | hv | hv <;> simp only [hv] <;>
    simp [proj, effToksTx, propUpdToks, txUpdToks, plumbing, phCode]

theorem loop_tx_apply (t : Tx) (ps : List Proposal) (flag : Bool) :
    dropFlag "allApplied" (iterate v2sk_tx_apply_loop1_body v2sk_tx_apply_loop1_after
      (gTxIterOf t) (gTxIterOf t default) "allApplied" ps flag) =
      planTraceTx (txApplyLoop t ps flag) := by
  induction ps generalizing flag with
  | nil =>
    unfold iterate v2sk_tx_apply_loop1_after txApplyLoop
    gTxIterOf_atoms
    cases flag <;> simp [proj, dropFlag, planTraceTx, effToksTx, txUpdToks, plumbing, Plan.nop]
  | cons p rest ih =>
    rw [iterate, body_tx_apply, txApplyLoop]
    rcases ph_cases4 p.apply with hv | hv | hv | hv <;> simp only [hv]
    · simp [dropFlag, planTraceTx, effToksTx, propUpdToks]
    · simpa [dropFlag] using ih false
    · simpa [dropFlag] using ih flag
    · simp [dropFlag, planTraceTx, effToksTx, txUpdToks]

theorem body_tx_abort (t : Tx) (p : Proposal) (flag : Bool) :
    proj (v2sk_tx_abort_loop1_body (gTxIterOf t p flag)) =
      match p.abort with
      | .none => effToksTx (.prop (p.target, p.index) p.version .openAbort) ++ [.ret "nil" []]
      | .opened => [.set "allAborted" "false", .misc "next"]
      | .failed => [.misc "next"]
      | .done => [.misc "next"] := by
  unfold v2sk_tx_abort_loop1_body
  gTxIterOf_atoms
  rcases ph_cases4 p.abort with hv | hv | hv | hv <;> simp only [hv] <;>
    simp [proj, effToksTx, propUpdToks, txUpdToks, plumbing, phCode]

theorem loop_tx_abort (t : Tx) (ps : List Proposal) (flag : Bool) :
    dropFlag "allAborted" (iterate v2sk_tx_abort_loop1_body v2sk_tx_abort_loop1_after
      (gTxIterOf t) (gTxIterOf t default) "allAborted" ps flag) =
      planTraceTx (txAbortLoop t ps flag) := by
  induction ps generalizing flag with
  | nil =>
    unfold iterate v2sk_tx_abort_loop1_after txAbortLoop
    gTxIterOf_atoms
    cases flag <;> simp [proj, dropFlag, planTraceTx, effToksTx, txUpdToks, plumbing, Plan.nop]
  | cons p rest ih =>
    rw [iterate, body_tx_abort, txAbortLoop]
    rcases ph_cases4 p.abort with hv | hv | hv | hv <;> simp only [hv]
    · simp [dropFlag, planTraceTx, effToksTx, propUpdToks]
    · simpa [dropFlag] using ih false
    · simpa [dropFlag] using ih flag
    · simpa [dropFlag] using ih flag

/-! ## the split of a function at its loop agrees with the whole-function skeleton (for EVERY abstract state) -/

/-- one pass of a loop: the iteration's trace, followed - where it hands over - by the statements after the loop -/
def onePass (body after : V2G → List Tok) (g : V2G) : List Tok :=
  let tr := proj (body g)
  if tr.getLast? = some (.misc "next") then tr.dropLast ++ proj (after g) else tr

set_option maxHeartbeats 2000000 in
theorem split_tx_commit (g : V2G)
    (h : g.n "transaction.Status.Phases.Commit.State" = g.n "configapi.TransactionCommitPhase_COMMITTING") :
    proj (v2sk_tx_commit g) =
      .set "allCommitted" "true" :: onePass v2sk_tx_commit_loop1_body v2sk_tx_commit_loop1_after g := by
  unfold v2sk_tx_commit v2sk_tx_commit_loop1_body v2sk_tx_commit_loop1_after onePass
  simp only [h, beq_self_eq_true, if_true]
  cases g.b "err@r.proposals.Get#1" <;> cases g.b "errors.IsNotFound(err)@r.proposals.Get#1" <;>
    cases g.b "proposal.Status.Phases.Commit != nil" <;> cases g.b "err@r.updateProposalStatus#1" <;>
    cases g.b "allCommitted" <;> cases g.b "err@r.updateTransactionStatus#1" <;>
    cases hs : (g.n "proposal.Status.Phases.Commit.State" == g.n "configapi.ProposalCommitPhase_COMMITTING") <;>
    (try simp only [hs]) <;> simp [proj, plumbing]

set_option maxHeartbeats 2000000 in
theorem split_tx_validate (g : V2G)
    (h : g.n "transaction.Status.Phases.Validate.State" = g.n "configapi.TransactionValidatePhase_VALIDATING") :
    proj (v2sk_tx_validate g) =
      .set "allValidated" "true" :: onePass v2sk_tx_validate_loop1_body v2sk_tx_validate_loop1_after g := by
  unfold v2sk_tx_validate v2sk_tx_validate_loop1_body v2sk_tx_validate_loop1_after onePass
  simp only [h, beq_self_eq_true, if_true]
  cases g.b "err@r.proposals.Get#1" <;> cases g.b "errors.IsNotFound(err)@r.proposals.Get#1" <;> cases g.b "proposal.Status.Phases.Validate != nil" <;> cases g.b "err@r.updateProposalStatus#1" <;> cases g.b "allValidated" <;> cases g.b "err@r.updateTransactionStatus#1" <;> cases g.b "err@r.updateTransactionStatus#2" <;>
    cases hs : (g.n "proposal.Status.Phases.Validate.State" == g.n "configapi.ProposalValidatePhase_VALIDATING") <;>
    cases hf : (g.n "proposal.Status.Phases.Validate.State" == g.n "configapi.ProposalValidatePhase_FAILED") <;>
    (try simp only [hs, hf]) <;> simp [proj, plumbing]

set_option maxHeartbeats 2000000 in
theorem split_tx_apply (g : V2G)
    (h : g.n "transaction.Status.Phases.Apply.State" = g.n "configapi.TransactionApplyPhase_APPLYING") :
    proj (v2sk_tx_apply g) =
      .set "allApplied" "true" :: onePass v2sk_tx_apply_loop1_body v2sk_tx_apply_loop1_after g := by
  unfold v2sk_tx_apply v2sk_tx_apply_loop1_body v2sk_tx_apply_loop1_after onePass
  simp only [h, beq_self_eq_true, if_true]
  cases g.b "err@r.proposals.Get#1" <;> cases g.b "errors.IsNotFound(err)@r.proposals.Get#1" <;> cases g.b "proposal.Status.Phases.Apply != nil" <;> cases g.b "err@r.updateProposalStatus#1" <;> cases g.b "allApplied" <;> cases g.b "err@r.updateTransactionStatus#1" <;> cases g.b "err@r.updateTransactionStatus#2" <;>
    cases hs : (g.n "proposal.Status.Phases.Apply.State" == g.n "configapi.ProposalApplyPhase_APPLYING") <;>
    cases hf : (g.n "proposal.Status.Phases.Apply.State" == g.n "configapi.ProposalApplyPhase_FAILED") <;>
    (try simp only [hs, hf]) <;> simp [proj, plumbing]

set_option maxHeartbeats 2000000 in
theorem split_tx_abort (g : V2G)
    (h : g.n "transaction.Status.Phases.Abort.State" = g.n "configapi.TransactionAbortPhase_ABORTING") :
    proj (v2sk_tx_abort g) =
      .set "allAborted" "true" :: onePass v2sk_tx_abort_loop1_body v2sk_tx_abort_loop1_after g := by
  unfold v2sk_tx_abort v2sk_tx_abort_loop1_body v2sk_tx_abort_loop1_after onePass
  simp only [h, beq_self_eq_true, if_true]
  cases g.b "err@r.proposals.Get#1" <;> cases g.b "errors.IsNotFound(err)@r.proposals.Get#1" <;> cases g.b "proposal.Status.Phases.Abort != nil" <;> cases g.b "err@r.updateProposalStatus#1" <;> cases g.b "allAborted" <;> cases g.b "err@r.updateTransactionStatus#1" <;>
    cases hs : (g.n "proposal.Status.Phases.Abort.State" == g.n "configapi.ProposalAbortPhase_ABORTING") <;>
    (try simp only [hs]) <;> simp [proj, plumbing]

end OnosVerif.V2.Skel
